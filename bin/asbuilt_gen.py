#!/usr/bin/env python3
"""Generates /verif/design/ASBUILT.md from /verif/design/ASBUILT.template.md + seeded/detections.json (table D.ii, counts)."""
import json, collections, os
V = "/verif"
det = json.load(open(V + "/seeded/detections.json"))

# id -> (what the change does, what was added when strengthened)
W = {
"C01-a": ("`cleanTrace` as shared-`seen` dedupe, allow first: overlap kept in ALLOW", ""),
"C01-b": ("`ToSeccompAction` switch → map lookup: missing key = `KILL_THREAD`", ""),
"C01-c": ("`Build` memo keyed by default + allow++trace joined: list boundary lost", ""),
"C01-d": ("late seccomp load site moved under `if DropCaps || Credential`", "kernel witness over 30 launch-option combinations, `w` launch reads `/proc/<pid>/status`"),
"C01-e": ("`Build` memo key omits the default action", ""),
"C02-a": ("`vmReadStr` tests `hasNull` on the whole zero-filled buffer: path cut at page boundary", "memory-placement dimension (13 placements × padding), family M (576)"),
"C02-b": ("`filepath.Clean` on every symlink body before splicing", ""),
"C02-c": ("`Arg3()` returns `rcx` instead of `r10`", ""),
"C02-d": ("`readProcLink` strips a trailing `\" (deleted)\"` from cwd/fd link text", "name classes in every forest, families N (612) and L (300)"),
"C02-e": ("per-run cache of \"not a symlink\" components, never invalidated", "mutation step `Swap` (RENAME_EXCHANGE), dynamic family D, judge resolves in `At(F, sw)`"),
"C03-a": ("`Context.Pid` = tgid, `skipSyscall` still uses it: ban of a non-leader thread not applied", ""),
"C03-b": ("`CheckSyscall` verdict memoised per syscall number", "decisions = sequences by occurrence; ops `R`, `N`; `MC_HIST`/`HIST_GEN`"),
"C03-c": ("`PTRACE_O_TRACEEXEC` only for the launched pid", "op `Z` (execve by children, threads, main); `K_ExecOp`, `MC_EXEC`"),
"C03-d": ("SIGTRAP-case resumes merged into one deferred `PtraceCont`: kill verdict still resumes", ""),
"C03-e": ("same mechanism as C03-a written independently (Pid/Tid split)", ""),
"C04-a": ("securebits constants refactored: post-sync drop site gets KeepCaps mask instead of NoRoot", ""),
"C04-b": ("`PR_SET_NO_NEW_PRIVS` tied to hoisted `seccompBeforeSync`", ""),
"C04-c": ("`setgroups` skipped whenever `GIDMappings == nil` and list empty", "`grp` × `gmap` dimension, launchers carry groups {4242,4343}, `CredGate` (32) every tier"),
"C04-d": ("`setdomainname` length taken from `len(HostName)`", "independent `hn`/`dn` ∈ none/short/long, `UtsGate` (36), length in trace event"),
"C04-e": ("init `recvLoop` hoists gob target: earlier Execve's filter/limits persist", "container-sequence family (`MkCOpt` 24 records, `SeqGate` prefix + walk) on one Environment"),
"C05-a": ("`bindRo = bind | MS_RDONLY` (needs all WithBind bits) in `Mount.Mount`", "5 hand-written `mount.Mount` kinds; declared ro = `MS_RDONLY` bit"),
"C05-b": ("raw sequence marks tree `MS_REC|MS_SLAVE` instead of PRIVATE", "propagation in the model, `NoPropagation`, kind `bdros`, dynamic host mount from the sync callback"),
"C05-c": ("ro remount of the empty-file mask bind dropped in `maskPathWithoutDevNull`", "masked paths get modification attempts; second program after `Reset()`; `OnlyDeclaredWritable`"),
"C05-d": ("`FilterNotExist` as swap-remove: table order changes", "kinds `nestb`/`nestt`, order family (18 tables), `ro-path-absent-and-creatable`"),
"C05-e": ("same mechanism as C05-b written independently (rslave root)", ""),
"C06-a": ("scratch copy via `F_DUPFD_CLOEXEC`, returned number ignored", ""),
"C06-b": ("`nextfd` computed in `uintptr`: close-slot marker wraps to 0", ""),
"C06-c": ("init uses `close_range(3, max, CLOEXEC)`: fds 0..2 stay inheritable", ""),
"C06-d": ("child closes number `CgroupFd` after the shuffle", ""),
"C06-e": ("`prepareFds` returns an `unsafe.Slice` view of caller's `Files`", ""),
"C06-f": ("`prepareFds` hands out a package-level scratch slice before `ForkLock`", ""),
"C07-a": ("early return widened to `StopBeforeSeccomp || Ptrace`", "gate family 32 site combos × failures before/after sync (138), every tier"),
"C07-b": ("sync read `r1 == 0` (EOF) no longer treated as refusal", "`Launch!PCrash`, `ExecNeedsApproval`, helper-launcher family (92) dying inside `SyncFunc`"),
"C07-c": ("init `recvLoop` hoist: `SyncAfterExec` of an earlier call persists", ""),
"C07-d": ("parent reads only `sizeof(Errno)` at the sync: `ChildError` location lost", ""),
"C07-e": ("id-map write error wrapped with `%v`, `errors.As` result ignored", ""),
"C08-a": ("init `recvLoop` hoist: previous request's RLimits persist", ""),
"C08-b": ("collector drains only `if err != nil` (inverted)", ""),
"C08-c": ("unshare: early return after usage check dropped; Signaled arm overwrites TLE/MLE", "bound-exceeded scenarios × ends {exit 0, exit n, fault, hang→cancel}"),
"C08-d": ("recycled `execCmd` keeps list storage (`RLimits[:0]`)", ""),
"C08-e": ("one long-lived `execCmd` block as gob target", ""),
"C09-a": ("ptrace Signaled switch hoisted out of the main-pid guard", ""),
"C09-b": ("init `waitLoop` waits `wait4(-pid)`: orphan's status reported", "re-parented descendants in probe, case space (15 152) and `StatusRunners` (`WaitGroup`)"),
"C09-c": ("unshare takes `wstatus & 0xff` as signal (core flag included)", "core-dump dimension (+128 cases), witness child, `LowByteSignal`"),
"C09-d": ("host relabels every result after `ctx.Done()` as TLE", "cancel-after-end and cancel-race families (+64), `RelabelOnCancel`"),
"C09-e": ("host `recvLoop` reuses one `reply`: previous ExecReply fields persist", ""),
"C10-a": ("host sends closing `kill` only for ExecReply results", ""),
"C10-b": ("init oversize-reply fallback rebuilds `sendReply` without `Done`", "quick always runs every single-op history (was sampled p = 0.4)"),
"C10-c": ("init `recvLoop` hoist: ExecFile/Env/Delete path carry over", "carry-over family always runs"),
"C10-d": ("`synced` flag became a server field, survives a failure path", "`FailPairs` family always runs"),
"C10-e": ("`Ping` bound by a 3 s timer instead of a socket deadline: late pong consumed later", "op `ping/stall`, `HostRLDeadline`/`HostPingTimer`, MC `_MCT`"),
"C10-f": ("same as C10-c written independently", ""),
"C10-g": ("same as C10-d written independently", ""),
"C11-a": ("leader signalled before exec → Runner Error", ""),
"C11-b": ("host `recvLoop` records nil error on `net.ErrClosed`", "Destroy-in-flight with init SIGSTOPped (\"frozen\")"),
"C11-c": ("`TraceBan` returns SETREGS ESRCH instead of tolerating it", "runner kind `ptrace-ban` (slow soft-ban handler)"),
"C11-d": ("cancel branch reads `recvCh` directly, no select on `done`", "family `CancelThenLoss`"),
"C11-e": ("`killAll` second kill only if group kill fails with non-ESRCH", ""),
"C11-f": ("GETREGSET error wrapped: `err == ESRCH` test fails", "runner `ptrace-trap` (8 instants × 3 reps)"),
"C11-g": ("cancel kills `kill(-pid)` instead of `kill(-1)` in the container", "program `tree` + follow-up cancelled run (`follow`)"),
"C12-a": ("sync-after failure path skips `waitAll`", "end mode `syncfail`"),
"C12-b": ("`Destroy` early-returns when `done` already closed", ""),
"C12-c": ("`lookPath` moved before taking ownership of received fds", ""),
"C12-d": ("`Build` deferred cleanup misses the conf step's shadowed err", ""),
"C12-e": ("clone-failure path closes only `p[0]`", "counter scenario `clonefail`"),
"C12-f": ("deferred close ranges over re-sliced `files`: exec/cgroup fd stay open in init", "`fdexec`/`cgexec` in the repeated history"),
"C12-g": ("clone-failure path closes only `p[1]` (twin of C12-e)", ""),
"C13-a": ("`DupToMemfd` pre-sizes to `stat` size for `*os.File` readers", "reader kinds `fileoff/limited/section`, kernel files; `ExpectedSize`"),
"C13-b": ("Reset skips tmpfs whose name `HasPrefix` an emptied one", "sibling-prefix configurations (3)"),
"C13-c": ("`removeContents` skips entries with other `st_dev`", ""),
"C13-d": ("chunked copy tests `io.EOF` before writing the last chunk", ""),
"C13-e": ("twin of C13-c (top-level entries only)", ""),
"C13-f": ("`bindRo = bind|MS_RDONLY` (twin of C05-a, seeded against C13)", ""),
"C14-a": ("open with `O_NOFOLLOW` first, `fstat` after: FIFO open blocks", ""),
"C14-b": ("only fd numbers kept; `os.File` finalizers close early", "sustained-large-batches family (200-253 files × 100/300 rounds)"),
"C14-c": ("error text of a reply capped at 16 KiB: later failures read as success", "long-legal-paths family (budgets 8-30 KiB)"),
"C14-d": ("open-flag whitelist forgets `O_APPEND`", "10 flag combinations × 3 perms, `F_GETFL` flags, write-through content"),
"C14-e": ("twin of C14-b (closeFds by number after send)", ""),
"C14-f": ("init `recvLoop` hoist: Flag/Perm/MkdirAll of an earlier batch persist", ""),
"C15-a": ("`ToSyscallName` dense table without lower bound", ""),
"C15-b": ("`clen` via `IndexByte` returns −1", ""),
"C15-c": ("`readOpenHowFlags` decodes a short PEEK buffer", ""),
"C15-d": ("`getFileMode` 3-entry table indexed by `flags&3`", ""),
"C15-e": ("twin of C15-d", ""),
"C16-a": ("`PTRACE_O_EXITKILL` only in the leader option set", ""),
"C16-b": ("no Pdeathsig + EOF as in-band `cmdClose`", ""),
"C16-c": ("forked child keeps its copy of `p[0]`: never sees launcher death", "crash point `cb` for ptrace/namespace runners; all case-nonce processes watched"),
"C16-d": ("Pdeathsig SIGTERM (no-op) + sync-after failure kills `kill(-pid)` only: init parks in `waitAll`", "quick always takes the session-leaving tree"),
"C16-e": ("init waits for sync ack on bare `recvCh`", "`drop` dimension (controller `setresuid`), `SpecNoPdeathsig`, background goroutine, `ContSyncFail`"),
"C16-f": ("socketpair `SOCK_DGRAM`: no end-of-stream", ""),
"C16-g": ("kill-all after failed sync-after only when host sent `kill`", ""),
"C17-a": ("`GetString` uses one package-level buffer", "run kind `ptracet`"),
"C17-b": ("`collectZombie` sweeps `wait4(-1)`", ""),
"C17-c": ("`Ping` arms the socket deadline before taking `c.mu`", "`LongRound` (7 s Execve + queued ops/Pings)"),
"C17-d": ("package-level `fdTable` used before `ForkLock`", ""),
"C17-e": ("`defer Close(p[0])` while a background reader still uses it", ""),
"C17-f": ("twin of C17-e", ""),
"C18-a": ("`IsInSetSmart` level counter dropped: `\"\"` child of root", ""),
"C18-b": ("counter `n <= 1` → `n == 1`: budget 0 allows", ""),
"C18-c": ("`AddFilePermission` forward scan adds `\"\"` to Statable", ""),
"C18-d": ("`filepath.Clean(\"\") == \".\"` in `IsInSetSmart`", ""),
"C18-e": ("`GetExtraSet` pre-sized slice keeps empty entries", "`PolicyAssembly.tla` (+`_Gen`, `_Judge`): 204 list combos × 12 queries × 3 classes"),
"C18-f": ("`realPath` fallback re-attaches the tail of an unresolvable name", ""),
"C19-a": ("`RecvMsg` rejects only on MSG_TRUNC, not MSG_CTRUNC", "receiver `free` slots dimension (`squeeze(k)`), parts `press`/`presshist`"),
"C19-b": ("gob descriptors remembered only for too-large, not for sendmsg errors", ""),
"C19-c": ("`Msg.Fds/Cred` alias per-socket storage", "`held`, `Inspect`, `DeliveredImmutable`; modes `lag`/`end`"),
"C19-d": ("SCM_CREDENTIALS written before RIGHTS and overwritten", ""),
"C19-e": ("`bufferRotator` without `ReadByte`: bufio keeps rest of a rejected packet", "`Inject` action, op `inject`, part `badhist`"),
"C20-a": ("v1 existed-branch folded: later hierarchy's dir recorded as created", "per-hierarchy ownership, `Mk` steps, 98 directed histories"),
"C20-b": ("cpuset copied from parent unconditionally on every handle", "`S.lim` state, `LimitsKept`, cpuset controller sets, 50 directed histories"),
"C20-c": ("`remove()` uses `os.RemoveAll`", ""),
"C20-d": ("v1 `AddProc` writes `tasks` (one thread)", "multi-threaded helpers, `ThreadsOK`, facts before accounting (was exit 2)"),
"C20-e": ("`V1.New` copies cpuset unconditionally", ""),
"C20-f": ("twin of C20-d", ""),
"C01-f": ("twin of C01-e (filter cache keyed without the default action)", ""),
"C01-g": ("Action return code ORed unshifted into the BPF return word (lands in the action bits)", ""),
"C02-f": ("`vmReadStr` swallows a `process_vm_readv` error on a later chunk: no PEEKDATA fallback", "protection of the NUL's page (rw / `PROT_WRITE` only / `PROT_NONE`), 31 placements, memory family 720"),
"C03-f": ("twin of C03-a / C03-e (Pid/Tid split, ban of a non-leader thread not applied)", ""),
"C04-f": ("unshare runner sets `DropCaps = (os.Getuid() == 0)`: non-root caller keeps all caps in the userns", "runner-level family (unshare / ptrace runner × caller uid {0, 65534} × callback), same `PostViol`"),
"C05-f": ("`Builder.Build` clears `MS_RDONLY` when the bind source is read-only at Build time", "kind `bdrof` (source tmpfs ro while the table is built, writable when the sandbox runs)"),
"C05-g": ("container makes only the fresh root tmpfs private (no-op), not `/`", ""),
"C06-g": ("twin of C06-b (`nextfd` as unsigned maximum wraps to 0 with the close marker)", ""),
"C06-h": ("`handleExecve` strips one leading fd when both ExecFile and CgroupFD are sent", ""),
"C07-f": ("pass-1 skip guard for status socket / exec fd hoisted out of the loop: socket overwritten", "`Launch_Gen!LowTable` descriptor-table dimension for launches that must not run the program"),
"C07-g": ("id-map result written to the child with `err1` (always 0) instead of `err2`", ""),
"C08-f": ("container init also ignores SIGXCPU/SIGXFSZ: programs inherit `SIG_IGN`", "probe keeps and reports inherited dispositions; `Limits!StartDispositionsOK`"),
"C09-f": ("ptrace `signalStatus` evaluated into the named return before the main-pid test", ""),
"C09-g": ("container `convertReply` uses a guarded 32-entry table: real-time signals → Normal", "signal classes 15, 30, 32-35, 50, 63, 64 in every runner's quick essentials; `StatusRunners_table32.cfg`"),
"C10-h": ("oob buffer shrunk to `CmsgSpace(253*4)`: no room for `SO_PASSCRED` credentials", "op `open/max` (253 files, all succeed) in the `ContainerAPI` alphabet"),
"C10-i": ("`handleReset` sends one error reply per failing tmpfs mount", "sessions with tmpfs nested in both Reset mounts (gate `nested`), `reset/busy` histories (family `Nested`)"),
"C10-j": ("host `recvLoop` answers a Ping deadline with a synthetic reply and keeps receiving", ""),
"C10-k": ("`payloadTooLarge` as typed error: `errors.Is` against the sentinel pointer never true", ""),
"C11-h": ("sync socket relocated with `F_DUPFD` (no cloexec): program inherits it, `Start` never sees EOF", ""),
"C11-i": ("twin of C11-a (leader killed before exec → Runner Error)", ""),
"C11-j": ("cancel branch fast path returns a queued result without the kill handshake", "family `BothPending` (API goroutine held until both select cases are ready, then a follow-up run)"),
"C11-k": ("twin of C11-h", ""),
"C12-h": ("refusing `SyncFunc`: parent closes the socket and returns without kill + `wait4`", ""),
"C12-i": ("end-of-run `killAll`/`collectZombie` only if `ph.traced` non-empty; watcher stops on done", "escape `untraced` (`CLONE_UNTRACED`) in `ProcTree`; 1-byte memory limit in the ptrace counter scenario"),
"C12-j": ("init reaps with `wait4(-pgid)` instead of `wait4(-1)` after `kill(-1)`", ""),
"C12-k": ("MSG_CTRUNC-only message: installed fds returned next to the error, never closed", "counter scenario `fdtight` (RLIMIT_NOFILE leaves 3 free slots, Open of 8 files fails)"),
"C13-g": ("twin of C13-a (memfd pre-sized to the whole file length)", ""),
"C13-h": ("twin of C13-e via `os.Stat` following symlinks to other file systems", ""),
"C14-g": ("twin of C10-h (oob buffer too small for 253 fds + credentials)", ""),
"C14-h": ("`handleOpen` two passes: a failed `MkdirAll` item is still opened, later fds shift", "directory-chain family (`/w/l` absent/dir/file/link × `/w/t`, 8 batch patterns); MkdirAll runs right before its own check"),
"C15-f": ("twin of C15-a (`int(sysno)` negative index passes the upper-bound check)", ""),
"C15-g": ("`SETOPTIONS` errno wrapped with `%w`: `err != unix.ESRCH` tolerance lost", ""),
"C16-h": ("twin of C07-b seeded against C16 (EOF on the sync read taken for a go-ahead)", ""),
"C16-i": ("twin of C16-a (auto-attached tracees lose `PTRACE_O_EXITKILL`)", ""),
"C16-j": ("Pdeathsig SIGTERM handled by a goroutine closing `done`: init busy in `conf` never exits", "crash point `conf.init` (`InitCommand` = signal-ignoring program; controller killed while Build waits)"),
"C16-k": ("`sendReplyFiles` waits on `Done` only; send loop leaves on `c.done`: init blocks", ""),
"C17-g": ("`Trace` runs in a goroutine that locks its OS thread and never unlocks: thread exit fires Pdeathsig", ""),
"C17-h": ("`GetString` buffers from an uncleared `sync.Pool`", "`ptracet` alternates its opens with `openat` on an unreadable pointer (`badopen`)"),
"C17-i": ("`Open` leaves `ForkLock` read-held when `recvReply` fails", "kind `envX-openloss` in an early round; driver stops after a round with a hang"),
"C17-j": ("sync socketpair created without `SOCK_CLOEXEC` outside `ForkLock`", ""),
"C18-g": ("`canonicalName` = `filepath.Clean` in `Check*`: `\"\"` becomes `\".\"`", ""),
"C18-h": ("`GetConf` starts from a shallow copy of package-level `baseFileSets` (maps shared)", "default policy observed before any other exists and again after all were assembled (baseline-first)"),
"C19-f": ("`keepDesc` appends to `pendingDesc` instead of replacing: descriptors doubled", ""),
"C19-g": ("`oobn == 0` fast path before the MSG_CTRUNC check", "pressure pairs cross free slots {0,1,2,252} × `SO_PASSCRED` on/off × descriptors sent"),
"C20-g": ("twin of C20-d / C20-f (`tasks` instead of `cgroup.procs`)", ""),
"C20-h": ("twin of C20-c (`remove()` via `os.RemoveAll`)", ""),
}

rows = []
for k in sorted(det, key=lambda s: (s.split('-')[0], s.split('-')[1])):
    v = det[k]
    what, add = W.get(k, (None, ""))
    if what is None:
        try:
            sm = json.load(open(V + "/seeded/%s/agent_meta.json" % k)).get("summary", "")
            sm = " ".join(sm.split())
            what = (sm[:150] + "…") if len(sm) > 150 else sm
        except Exception:
            what = "(see `seeded/%s/meta.json`)" % k
    s = v.get("strengthened")
    if s and not add:
        add = (v.get("strengthening") or "")[:120]
    what = what.replace("|", "\\|"); add = add.replace("|", "\\|")
    rows.append("| %s | %s | %s | %s | %s |" % (k, what, v.get("check"), v.get("result"), ("yes: " + add) if s else "no"))
table = "| id | change (few words) | check | result (quick) | check strengthened first? |\n|---|---|---|---|---|\n" + "\n".join(rows)

n = len(det)
ns = sum(1 for v in det.values() if v.get("strengthened"))
per = collections.Counter(k.split('-')[0] for k in det)
pers = collections.Counter(k.split('-')[0] for k, v in det.items() if v.get("strengthened"))
t = open("/verif/design/ASBUILT.template.md").read()
t = t.replace("@@SEEDED_TABLE@@", table).replace("@@NSEED@@", str(n)).replace("@@NSTR@@", str(ns))
for p in sorted(per):
    t = t.replace("@@S_%s@@" % p, "%d / %d" % (per[p], pers.get(p, 0)))
assert "@@" not in t, [x for x in t.split() if "@@" in x][:5]
open(V + "/design/ASBUILT.md", "w").write(t)
print("rows", n, "strengthened", ns, "lines", len(t.splitlines()))
