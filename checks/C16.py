"""C16 -- if the controlling process dies, the sandbox dies with it.

MC: ContainerProto with HostCrash / InitKilled enabled in every state (HostDeathKillsAll, NoOrphan) and
TracerCrash (EXITKILL).  Gen: TLC enumerates the crash points.  Real runs: a controller process runs the
scenario up to the crash point (gates of the verif hooks), the driver SIGKILLs it there and watches
init and every process of the program (signal-ignoring, daemonised descendants) for 5 s.  The controller's
event logs + crash + observation are validated by TLC against ContainerProto (the final `allgone`
event is only enabled when the model's init and program are dead; a run that leaves something alive
has no such event and is a violation)."""
import json
import os

import contlib
import vlib


def run(ctx):
    cfgd = open(os.path.join(vlib.VERIF, "spec", "ContainerProto_MCD.cfg")).read()
    if ctx.quick():
        cfgd = cfgd.replace("MaxCalls = 2", "MaxCalls = 1").replace('{"ping", "open", "exec"}', '{"open", "exec"}')
        cfgd = cfgd.replace("PROPERTIES AllReturn CancelReturns HostDeathKillsAll", "PROPERTIES HostDeathKillsAll")
    else:
        # (with Ping the same properties are checked on the one-call model by C10's thorough tier)
        cfgd = cfgd.replace('{"ping", "open", "exec"}', '{"open", "exec"}')
    r = ctx.tlc("ContainerProto", cfg=cfgd, workers=4, timeout=2400)
    ctx.tlc_ok("ContainerProto MC with crash in every state", r)
    # the end-of-stream path alone (no parent-death signal) must suffice
    cfgn = open(os.path.join(vlib.VERIF, "spec", "ContainerProto_MCD.cfg")).read().replace("MaxCalls = 2", "MaxCalls = 1")
    cfgn = cfgn.replace("SPECIFICATION SpecLive", "SPECIFICATION SpecNoPdeathsig").replace("PROPERTIES AllReturn CancelReturns HostDeathKillsAll", "PROPERTIES HostDeathKillsAll")
    if ctx.quick():
        cfgn = cfgn.replace('{"ping", "open", "exec"}', '{"exec"}')
    r = ctx.tlc("ContainerProto", cfg=cfgn, workers=4, timeout=2400)
    ctx.tlc_ok("ContainerProto MC without the parent-death signal", r)
    r = ctx.tlc("TracerCrash", workers=2, timeout=300)
    ctx.tlc_ok("TracerCrash MC", r)
    g = ctx.tlc("Crash_Gen", cfg="CONSTANTS Afters = {%s}\nINIT Init\nNEXT Next\n" % ctx.pick("0", "0, 20"), timeout=300, count=False)
    ctx.tlc_ok("Crash_Gen", g)
    cases = ctx.read_ndjson(os.path.join(g.dir, "cases.ndjson"))
    cases.sort(key=lambda c: json.dumps(c, sort_keys=True))
    if ctx.quick():
        # every crash point once per sync mode, trees rotated by seed; ptrace: 6 instants
        keep, seen = [], set()
        ctx.rng.shuffle(cases)
        # trees whose descendants leave the program's session / process group come first
        cases.sort(key=lambda c: 0 if "s" in c["tree"] else 1)
        for c in cases:
            k = (c["kind"], c["point"], c["sa"], c["drop"]) if c["kind"] == "container" else (c["kind"], c["point"], c["after"])
            if k not in seen:
                seen.add(k)
                keep.append(c)
        cases = sorted(keep, key=lambda c: json.dumps(c, sort_keys=True))
    reps = ctx.pick(1, 2)
    cases = [dict(c, id=i + 1) for i, c in enumerate(cases * reps)]
    ctx.log("crash cases: %d" % len(cases))
    obs = contlib.run_sharded(ctx, "c16", cases, shards=6)
    bad_setup = [o for o in obs if o is None or o.get("setup")]
    if bad_setup:
        raise vlib.Inconclusive("%d crash cases could not be set up: %s" % (len(bad_setup), json.dumps(bad_setup[0])[:600]))
    ptraces = []
    for o in obs:
        rec = {"host": list(o["host"]), "init": list(o["init"])} if o["case"]["kind"] == "container" else {"host": [], "init": []}
        rec["host"].append({"side": "harness", "ev": "crash"})
        if not o["alive"]:
            rec["host"].append({"side": "harness", "ev": "allgone"})
        else:
            rec["host"].append({"side": "harness", "ev": "alive"})
        h, i = contlib.norm_events(rec)
        ptraces.append({"id": o["id"], "host": h, "init": i})
    p = ctx.tlc("ContainerProto_Trace", files={"ptraces.ndjson": ptraces}, timeout=1200)
    ctx.tlc_ok("ContainerProto_Trace", p)
    byid = {o["id"]: o for o in obs}
    drift = 0
    for x in ctx.read_ndjson(os.path.join(p.dir, "presult.ndjson")):
        if x["clean"] == 1:
            continue
        o = byid[x["id"]]
        c = o["case"]
        if o["alive"]:
            key = "%s:%s:sa=%d:tree=%s%s" % (c["kind"], c["point"], 1 if c["sa"] else 0, c["tree"], ":dropped" if c.get("drop") else "")
            ctx.violation(key, "still alive 5 s after SIGKILL of the controller: %s" % o["alive"],
                          {k: o[k] for k in ("case", "alive", "initpid", "prog_before")})
        else:
            drift += 1
            os.makedirs(os.path.join(vlib.VERIF, "replays"), exist_ok=True)
            json.dump({"case": c, "result": x, "trace": [t for t in ptraces if t["id"] == x["id"]][0]},
                      open(os.path.join(vlib.VERIF, "replays", "C16-drift-%d-%d.json" % (ctx.seed, x["id"])), "w"))
            if drift <= 5:
                ctx.note("DRIFT crash case %s: controller session matched %d of %d events" % (json.dumps(c), x["mark"], x["total"]))
    ctx.traces += len(obs)
    ctx.cov["drift"] = drift
    ctx.cov["max_all_gone_ms"] = max([o["all_gone_ms"] for o in obs] + [0])
    ctx.cov["cases_with_program_processes"] = sum(1 for o in obs if o["prog_before"] > 0)
    ctx.sample({k: obs[0][k] for k in ("case", "initpid", "prog_before", "init_gone_ms", "all_gone_ms", "alive")})
    ctx.sample({k: obs[-1][k] for k in ("case", "initpid", "prog_before", "init_gone_ms", "all_gone_ms", "alive")})
    ctx.assumptions += ["kernel: PR_SET_PDEATHSIG, pid-namespace teardown on init death, PTRACE_O_EXITKILL",
                        "processes of the program are found by a nonce in /proc/*/cmdline",
                        "ptrace runner: crash instants are timed (no pinned point before the first PTRACE_SETOPTIONS yet)"]
    return dict(evaluations=len(obs), distinct=len({json.dumps(o["case"], sort_keys=True) for o in obs if o["prog_before"] > 0 or o["case"]["kind"] == "container"}),
                rule="TLC-enumerated crash points (protocol step x sync mode x process tree x delay); each executed by SIGKILLing a real controller process at that point",
                exhaustive=False)
