"""C18 -- path-set policy and syscall counters.
TLC generates the exhaustive case spaces (FileSet_Gen), the real filehandler code is evaluated on
every case by `vdrive c18`, TLC judges every observation (FileSet_Judge) and validates every
counter history as a trace of the SyscallCounter state machine (SyscallCounter_Trace)."""
import json


def cfg_gen(ctx):
    t = ctx.tier == "thorough"
    return """CONSTANTS Comps = {"a","b"}
  EntryDepth = %d
  QueryDepth = %d
  SetSize = 2
  CompDepth = 2
  CompQuery = 3
  Names = {"n1","n2"}
  MaxBudget = 3
  HistLen = %d
INIT Init
NEXT Next
""" % ((3, 4, 10) if t else (2, 4, 8))


def run(ctx):
    # 1. design level: counter state machine, all budgets, all call orders (bounded by CBound)
    r = ctx.tlc("SyscallCounter", workers=4, coverage=True, timeout=300)
    ctx.tlc_ok("SyscallCounter MC", r)
    # 2. TLC generates the cases
    g = ctx.tlc("FileSet_Gen", cfg=cfg_gen(ctx), timeout=900, count=False)
    ctx.tlc_ok("FileSet_Gen", g)
    import os
    f = lambda n: os.path.join(g.dir, n)
    # 3. real code on every case
    ctx.vdrive("c18", ["run", f("setcases.ndjson"), f("compcases.ndjson"), f("hists.ndjson"),
                ctx.path("setobs.ndjson"), ctx.path("compobs.ndjson"), ctx.path("traces.ndjson")])
    setobs = ctx.read_ndjson(ctx.path("setobs.ndjson"))
    compobs = ctx.read_ndjson(ctx.path("compobs.ndjson"))
    traces = ctx.read_ndjson(ctx.path("traces.ndjson"))
    ctx.log("cases: set=%d comp=%d hist=%d" % (len(setobs), len(compobs), len(traces)))
    # 4. TLC judges the table observations
    j = ctx.tlc("FileSet_Judge", files={"setobs.ndjson": setobs, "compobs.ndjson": compobs}, timeout=1800, heap="12g")
    ctx.tlc_ok("FileSet_Judge", j)
    bad = ctx.read_ndjson(os.path.join(j.dir, "bad.ndjson"))
    drift = 0
    for b in bad:
        o = (setobs if b["kind"] == "set" else compobs)[b["i"] - 1]
        if b["j"] == "drift":
            drift += 1
            if drift <= 5:
                ctx.note("DRIFT (covered path refused) %s" % json.dumps(o))
            continue
        key = c18_key(b["kind"], o)
        ctx.violation(key, "policy answer %r differs from FileSet spec (%s)" % (o.get("got"), b.get("exp", "")), o)
    # 5. TLC validates the counter histories as traces of SyscallCounter
    t = ctx.tlc("SyscallCounter_Trace", files={"traces.ndjson": traces}, timeout=1800, heap="12g")
    ctx.tlc_ok("SyscallCounter_Trace", t)
    tb = ctx.read_ndjson(os.path.join(t.dir, "bad.ndjson"))
    for b in tb:
        tr = traces[b["t"] - 1]
        if b["j"] == "drift":
            drift += 1
            if drift <= 5:
                ctx.note("DRIFT counter history %s" % json.dumps(tr))
            continue
        ctx.violation("counter:event%d" % (b["matched"] + 1),
                      "counter history rejected at event %d" % (b["matched"] + 1), tr)
    # 6. assembly of the policy (GetExtraSet + config.GetConf, as cmd/runprog does): the extra lists add exactly
    #    what they declare to the default policy
    ga = ctx.tlc("PolicyAssembly_Gen", cfg="CONSTANTS Comps = {\"a\"}\n  MaxLists = %d\nINIT Init\nNEXT Next\n" % ctx.pick(2, 4), timeout=600, count=False)
    ctx.tlc_ok("PolicyAssembly_Gen", ga)
    world = ctx.mkdir("world")
    ctx.vdrive("c18", ["asm", os.path.join(ga.dir, "asmcases.ndjson"), os.path.join(ga.dir, "asmqueries.ndjson"), world, ctx.path("asmobs.ndjson")])
    asmobs = ctx.read_ndjson(ctx.path("asmobs.ndjson"))
    ja = ctx.tlc("PolicyAssembly_Judge", cfg="CONSTANTS Comps = {\"a\"}\nINIT Init\nNEXT Next\n", files={"asmobs.ndjson": asmobs}, timeout=1800, heap="12g", count=False)
    ctx.tlc_ok("PolicyAssembly_Judge", ja)
    for b in ctx.read_ndjson(os.path.join(ja.dir, "asmbad.ndjson")):
        o = asmobs[b["i"] - 1]
        if b["j"] == "drift":
            drift += 1
            if drift <= 5:
                ctx.note("DRIFT (declared extra refused) %s" % json.dumps(o))
            continue
        lists = ";".join("%s=%s" % (f, ",".join(o[f])) for f in ("rraw", "rext", "wraw", "wext") if o[f])
        ctx.violation("assembly:%s:%s:%s" % (lists, o["class"], "/".join(o["q"])),
                      "assembled policy answers %r, the default policy %r, declared extras allow only %r" % (o["got"], o["base"], b["exp"]), o)
    ctx.cov["assembly_lines"] = len(asmobs)
    ctx.traces = len(traces)
    ctx.cov["drift"] = drift
    ctx.cov["judged_table_lines"] = len(setobs) + len(compobs)
    ctx.sample(setobs[len(setobs) // 2]); ctx.sample(compobs[len(compobs) // 3]); ctx.sample(traces[-1])
    ctx.assumptions += ["generated paths (/vqa/...) do not exist on the host, so EvalSymlinks contributes nothing",
                        "string convention of entries: p, p/, p/* as written by the driver"]
    nontriv = sum(1 for o in setobs if o["set"]) + sum(1 for o in compobs if o["e"] or o["b"]) + sum(1 for x in traces if x["ev"])
    return dict(evaluations=len(setobs) + len(compobs) + len(traces) + len(asmobs), distinct=nontriv,
                rule="TLC enumerates every (entry set, query), every composite (class, set, soft-ban, query) and every counter history within the bounds; non-trivial = non-empty set / non-empty history",
                exhaustive=True)


def c18_key(kind, o):
    # identify the failing input class for known-findings matching
    if kind == "set":
        ents = o["set"]
    else:
        ents = o["e"] + o["b"]
    if o["q"] == [] and any(e["k"] == "children" and e["p"] == [] for e in ents):
        return "root-admitted-by-root-children"
    return "%s:%s:q=%s" % (kind, ",".join(e["k"] + "/" + "/".join(e["p"]) for e in ents), "/".join(o["q"]))
