"""C10 -- container RPC never desynchronises; program-caused failures keep the environment usable.

1. MC: ContainerProto (implementation-shaped host/init protocol machine) exhaustively, all
   interleavings of <= MaxCalls calls; with Destroy / init crash / host crash enabled everywhere.
2. Gen: ContainerAPI_Gen writes API histories (every op variant alone, pairs of failing ops, the two
   select races pinned by gates/delays, random triples, transport loss).
3. Real runs: cmd/cont replays every history on a real container environment built from the
   repository's working tree with the verif hooks; host and init event logs + API call/return lines.
4. TLC validates the API lines against ContainerAPI (property layer) and the two event logs against
   ContainerProto (implementation layer, two cursors)."""
import json
import os

import contlib
import vlib


def mc(ctx):
    calls = ctx.pick(2, 3)
    cfg = open(os.path.join(vlib.VERIF, "spec", "ContainerProto_MC.cfg")).read().replace("MaxCalls = 3", "MaxCalls = %d" % calls)
    if ctx.quick():
        cfg = cfg.replace('{"ping", "open", "delete", "exec"}', '{"ping", "exec"}')
    r = ctx.tlc("ContainerProto", cfg=cfg, workers=4, timeout=1500)
    ctx.tlc_ok("ContainerProto MC (no loss, %d calls)" % calls, r)
    ctx.cov["mc_noloss_distinct"] = r.distinct
    cfgd = open(os.path.join(vlib.VERIF, "spec", "ContainerProto_MCD.cfg")).read()
    if ctx.quick():
        # quick: one call, invariants only (liveness under crash/destroy is checked in the thorough tier)
        cfgd = cfgd.replace("MaxCalls = 2", "MaxCalls = 1").replace('{"ping", "open", "exec"}', '{"ping", "exec"}')
        cfgd = "\n".join(l for l in cfgd.splitlines() if not l.startswith("PROPERTIES")) + "\n"
    else:
        # thorough: two calls with Destroy / crashes in every state, invariants; liveness on the one-call model
        cfgd = "\n".join(l for l in cfgd.splitlines() if not l.startswith("PROPERTIES")) + "\n"
        cfgl = open(os.path.join(vlib.VERIF, "spec", "ContainerProto_MCD.cfg")).read().replace("MaxCalls = 2", "MaxCalls = 1")
        r = ctx.tlc("ContainerProto", cfg=cfgl, workers=4, timeout=2400)
        ctx.tlc_ok("ContainerProto MC (destroy/crash, liveness, 1 call)", r)
    r = ctx.tlc("ContainerProto", cfg=cfgd, workers=4, timeout=2400)
    ctx.tlc_ok("ContainerProto MC (destroy/crash)", r)
    ctx.cov["mc_loss_distinct"] = r.distinct
    # Ping's own bound expiring (container stalled) in every state of a Ping, the late pong still arriving
    cfgt = open(os.path.join(vlib.VERIF, "spec", "ContainerProto_MCT.cfg")).read().replace("MaxCalls = 3", "MaxCalls = %d" % calls)
    r = ctx.tlc("ContainerProto", cfg=cfgt, workers=4, timeout=1500)
    ctx.tlc_ok("ContainerProto MC (ping deadline, %d calls)" % calls, r)
    ctx.cov["mc_deadline_distinct"] = r.distinct


def gen(ctx):
    cfg = "CONSTANTS NRandom = %d\n  Level = %d\nINIT Init\nNEXT Next\n" % (ctx.pick(30, 120), ctx.pick(1, 2))
    g = ctx.tlc("ContainerAPI_Gen", cfg=cfg, timeout=600, count=False, extra=["-seed", str(ctx.seed + 1)])
    ctx.tlc_ok("ContainerAPI_Gen", g)
    hs = ctx.read_ndjson(os.path.join(g.dir, "histories.ndjson"))
    hs.sort(key=lambda h: json.dumps(h, sort_keys=True))
    if ctx.quick():
        # quick tier: every history whose first op is a simple op or an Execve in one of the core
        # (sync mode, callback, cancel) settings is always run; the rest of the cross product, the race
        # and loss families are sampled by seed
        core = {(False, "ok", "none"), (True, "none", "none"), (False, "fail", "none"), (True, "fail", "none"),
                (False, "ok", "running"), (True, "none", "pre")}
        keep = []
        for h in hs:
            o = h["ops"][0]
            fam = "gate" if h["gate"] == "stale" else "race" if (h["gate"] or h["delays"]) else \
                  "loss" if any(x["k"] in ("destroy", "killinit") for x in h["ops"]) else "plain"
            if h["gate"] == "nested":
                keep.append(h)          # one operation failing in two places: always
                continue
            if fam == "plain" and len(h["ops"]) == 4 and (o["k"] != "exec" or (o["sa"], o["cb"], o["cancel"]) in core):
                keep.append(h)
                continue
            if fam == "plain" and len(h["ops"]) == 5 and (h["ops"][1]["v"] in ("emptypath", "empty", "fdexec")
                                                         or o["v"] in ("fdexec", "envrun", "cgexec")):
                keep.append(h)          # the carry-over family always runs
                continue
            if fam == "plain" and len(h["ops"]) == 5 and all(failcore(x) for x in h["ops"][:2]):
                keep.append(h)          # two failures in a row: always
                continue
            p = {"gate": 0.5, "race": 0.3, "loss": 0.5, "plain": 0.12}[fam]
            if ctx.rng.random() < p:
                keep.append(h)
        hs = keep
    for i, h in enumerate(hs):
        h["id"] = i + 1
    return hs


def judge(ctx, hs, recs):
    """returns (n_api_bad, n_drift)"""
    setup_fail = [r for r in recs if r is None or r.get("setup")]
    if setup_fail:
        raise vlib.Inconclusive("could not set up %d histories: %s" % (len(setup_fail), setup_fail[0]))
    atraces = [{"id": r["id"], "calls": contlib.api_calls(r)} for r in recs]
    ptraces = []
    for r in recs:
        h, i = contlib.norm_events(r)
        ptraces.append({"id": r["id"], "host": h, "init": i})
    byid = {r["id"]: r for r in recs}
    hist = {h["id"]: h for h in hs}
    # property layer
    a = ctx.tlc("ContainerAPI_Trace", files={"atraces.ndjson": atraces}, timeout=900)
    ctx.tlc_ok("ContainerAPI_Trace", a)
    nbad = 0
    for x in ctx.read_ndjson(os.path.join(a.dir, "aresult.ndjson")):
        if x["mark"] < x["total"]:
            nbad += 1
            tr = [t for t in atraces if t["id"] == x["id"]][0]
            c = tr["calls"][x["mark"]]
            key = viol_key(tr["calls"], x["mark"])
            ctx.violation(key, "API answer not allowed by ContainerAPI: op=%s answer=%s" % (json.dumps(c["op"]), json.dumps(c["a"])),
                          {"history": hist[x["id"]], "calls": tr["calls"], "stderr": byid[x["id"]]["stderr"]})
    # implementation layer
    p = ctx.tlc("ContainerProto_Trace", files={"ptraces.ndjson": ptraces}, timeout=1800, heap="12g")
    ctx.tlc_ok("ContainerProto_Trace", p)
    ndrift = 0
    for x in ctx.read_ndjson(os.path.join(p.dir, "presult.ndjson")):
        if x["clean"] == 1:
            continue
        tr = [t for t in ptraces if t["id"] == x["id"]][0]
        if x["desync"] == 1:
            # the only explanation of the recorded events has a stale reply / a command in the wrong state
            ctx.violation("desync:" + hist_key(hist[x["id"]]),
                          "recorded session is only explainable with a protocol desynchronisation (ghost check of ContainerProto)",
                          {"history": hist[x["id"]], "host": tr["host"], "init": tr["init"]})
            nbad += 1
        else:
            ndrift += 1
            os.makedirs(os.path.join(vlib.VERIF, "replays"), exist_ok=True)
            json.dump({"history": hist[x["id"]], "result": x, "trace": tr},
                      open(os.path.join(vlib.VERIF, "replays", "C10-drift-%d-%d.json" % (ctx.seed, x["id"])), "w"))
            if ndrift <= 5:
                ctx.note("DRIFT history %d: ContainerProto matched %d of %d events; ops=%s" % (
                    x["id"], x["mark"], x["total"], json.dumps(hist[x["id"]]["ops"])))
                if os.environ.get("VERIF_DEBUG"):
                    print(json.dumps(tr))
    ctx.traces += len(recs)
    # which logged protocol events (= ContainerProto actions) the real runs exercised
    seen = ctx.cov.setdefault("events_seen_in_real_runs", {})
    for r in recs:
        for side, evs in (("host", r["host"]), ("init", r["init"])):
            for e in evs:
                k = "%s.%s" % (e.get("side", side), e.get("ev"))
                for f in ("k", "b", "r", "res", "ok"):
                    if f in e and e[f] not in ("", None):
                        k += ":%s" % e[f]
                        break
                seen[k] = seen.get(k, 0) + 1
    ctx.cov["drift"] = ctx.cov.get("drift", 0) + ndrift
    return nbad, ndrift


def failcore(o):
    if o["k"] != "exec":
        return False
    t = (o["v"], o["sa"], o["cb"], o["cancel"])
    return t in {(v, False, "ok", "none") for v in ("noent", "noentabs", "enoexec", "emptyargs")} | \
        {("run", False, "fail", "none"), ("run", True, "fail", "none"), ("enoexec", True, "none", "none"), ("sleep", False, "ok", "pre")}


def opname(op):
    s = op["k"]
    if op.get("v"):
        s += "/" + op["v"]
    if op["k"] == "exec":
        s += "/sa=%d/cb=%s/cancel=%s" % (1 if op.get("sa") else 0, op.get("cb", "none"), op.get("cancel", "none"))
    return s


def viol_key(calls, idx):
    """failing op + the op before it (a desynchronisation shows one step later)"""
    cur = opname(calls[idx]["op"])
    lost = any(c["op"]["k"] in ("destroy", "killinit") or c["op"].get("loss") for c in calls[:idx])
    prev = opname(calls[idx - 1]["op"]) if idx > 0 else "-"
    return "%s%s after %s" % ("lost:" if lost else "", cur, prev)


def hist_key(h):
    return ",".join(opname(o) for o in h["ops"][:-3])


def run(ctx):
    mc(ctx)
    hs = gen(ctx)
    ctx.log("histories: %d" % len(hs))
    recs = contlib.run_sharded(ctx, "c10", hs, shards=6)
    judge(ctx, hs, recs)
    ctx.sample({"history": hs[len(hs) // 2]})
    r = recs[len(recs) // 2]
    ctx.sample({"api": contlib.api_calls(r)[:3], "host_events": r["host"][:8], "init_events": r["init"][:8]})
    ctx.assumptions += [
        "kernel: SEQPACKET socketpair is FIFO and reliable; closing an endpoint gives EOF/EPIPE to the peer; pid-namespace init death kills everything inside",
        "hook events are recorded at the linearization points (send atomic with its event; receive logged before hand-off)",
        "API-level expectations per request are those of ContainerAPI.tla (e.g. exit code chosen per call so answers are distinguishable)",
    ]
    nontriv = sum(1 for h in hs if any(o["k"] == "exec" for o in h["ops"][:-3]))
    return dict(evaluations=len(hs), distinct=nontriv,
                rule="TLC-generated API histories (singles, pairs of failing ops, pinned select races, random triples, transport loss), each replayed on a real container; non-trivial = contains an Execve before the closing ping/run/run",
                exhaustive=False)
