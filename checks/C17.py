"""C17 -- concurrent sandboxes in one process are independent.

MC: ForkLock (descriptor creation vs fork under syscall.ForkLock; the variant without the read lock must
leak).  Gen: TLC generates rounds of K concurrent runs over the runner kinds.  Real runs: every round is
executed in ONE host process (ptrace runs, namespace runs, three container environments, concurrent
calls on one environment, some runs cancelled); each run has its own exit code, own output descriptor
and marker; the same workloads also run alone.  Every run is judged by TLC with the same sequential
specification of a single run (Independent_Judge)."""
import json
import os

import contlib
import vlib


def run(ctx):
    r = ctx.tlc("ForkLock", workers=2, timeout=300)
    ctx.tlc_ok("ForkLock MC", r)
    cfg = open(os.path.join(vlib.VERIF, "spec", "ForkLock.cfg")).read().replace("UseLock = TRUE", "UseLock = FALSE")
    r = ctx.tlc("ForkLock", cfg=cfg, workers=2, timeout=300, count=False)
    if r.invariant != "NoLeak":
        raise vlib.Inconclusive("ForkLock without the read lock should violate NoLeak (vacuity check)")
    g = ctx.tlc("Independent_Gen", cfg="CONSTANTS K = 16\n  NRandom = %d\nINIT Init\nNEXT Next\n" % ctx.pick(3, 40),
                timeout=300, count=False, extra=["-seed", str(ctx.seed + 7)])
    ctx.tlc_ok("Independent_Gen", g)
    rounds = ctx.read_ndjson(os.path.join(g.dir, "rounds.ndjson"))
    # (the round with the destroyed environment runs early: the rounds after it show whether anything was left behind)
    rounds.sort(key=lambda x: (0 if x["solo"] else 2 if "envX-openloss" not in x["runs"] else 1, json.dumps(x, sort_keys=True)))
    rounds = [dict(x, id=i + 1) for i, x in enumerate(rounds)]
    ctx.log("rounds: %d" % len(rounds))
    exe = ctx.build_vdrive("cont")
    probe = ctx.probe("cprobe")
    inp, out = ctx.path("c17_in.ndjson"), ctx.path("c17_out.ndjson")
    with open(inp, "w") as f:
        for x in rounds:
            f.write(json.dumps(x) + "\n")
    rc, o = ctx.sh([exe, "c17", probe, inp, out], timeout=2400, cwd=ctx.scratch)
    if rc != 0:
        raise vlib.Inconclusive("driver c17 exited %d: %s" % (rc, o[-3000:]))
    obs = ctx.read_ndjson(out)
    races = 0
    if not ctx.quick():
        # race detector build of the same driver on a few rounds; reports are recorded, a verdict needs an observable difference
        try:
            rexe = ctx.build_vdrive("cont", race=True)
            with open(inp, "w") as f:
                for x in rounds[:6]:
                    f.write(json.dumps(x) + "\n")
            rc, ro = ctx.sh([rexe, "c17", probe, inp, ctx.path("c17_race.ndjson")], timeout=2400, cwd=ctx.scratch,
                            env={"GORACE": "halt_on_error=0"})
            races = ro.count("WARNING: DATA RACE")
            obs += ctx.read_ndjson(ctx.path("c17_race.ndjson"))
        except vlib.Inconclusive as e:
            ctx.note("race build not available: %s" % str(e)[:200])
    ctx.cov["race_detector_reports"] = races
    setup = [x for x in obs if x["r"] == "setup"]
    if setup:
        raise vlib.Inconclusive("could not set up %d runs: %s" % (len(setup), setup[0]))
    for x in obs:
        x["expmarker"] = "m%dx%d" % (x["round"], x["slot"])
    j = ctx.tlc("Independent_Judge", files={"obs.ndjson": obs}, timeout=600)
    ctx.tlc_ok("Independent_Judge", j)
    for b in ctx.read_ndjson(os.path.join(j.dir, "bad.ndjson")):
        x = obs[b["i"] - 1]
        what = "+".join(k for k in ("verdict", "table", "effect", "traps") if not b[k])
        ctx.violation("%s:%s:%s" % (x["kind"], "solo" if x["solo"] else "concurrent", what),
                      "run differs from the single-run specification (%s): r=%s status=%s code=%s want=%s fds=%s marker=%r err=%r" % (
                          what, x["r"], x["status"], x["code"], x["want"], x["fds"], x["marker"], x["err"]), x)
    ctx.traces += len(obs)
    ctx.sample(obs[0]); ctx.sample(obs[-1])
    ctx.cov["concurrent_runs"] = sum(1 for x in obs if not x["solo"])
    ctx.cov["solo_runs"] = sum(1 for x in obs if x["solo"])
    ctx.assumptions += ["schedules of 16 real threads are sampled, not enumerated; only the fork-lock protocol is explored exhaustively",
                        "a run's own output descriptor is identified by (dev, inode); exit codes are distinct per run"]
    return dict(evaluations=len(obs), distinct=len({(x["round"], x["slot"]) for x in obs}),
                rule="TLC-generated rounds of 16 concurrent runs (structured + random) + every workload alone; each run judged separately",
                exhaustive=False)
