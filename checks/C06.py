"""C06 -- the program's descriptor table is exactly the caller's list; launching does not modify
the caller's configuration.

1. MC      FdShuffle.tla: every configuration (list x ExecFile position x socketpair position x
           vfork) through socketpair / close / pass 1 / pass 2 / exec, two consecutive starts;
           invariants TableExact, NoFailure, CallerUnchanged, InternalAlive, action property NoClobber.
2. Gen     FdShuffle_Gen.tla writes the same configuration set (and the container cases) as JSON.
3. Bind    `fdshuffle run`: one helper process per case arranges its own descriptor numbers and
           calls the real forkexec.Runner.Start twice (probe = started program, reports its table);
           `fdshuffle container`: container.Environment.Execve with Files / ExecFile / CgroupFD.
4. Judge   FdShuffle_Judge.tla decides every observation (property layer) -> VIOLATION.
5. Trace   FdShuffle_Trace.tla validates the strace step log of the launches against the
           FdShuffle actions (implementation layer) -> DRIFT.
"""
import json
import os
import threading
import time

import vlib


class Bg:
    """one TLC run in the background (the model check is independent of the real-run pipeline, and
    judge / trace validation are independent of each other; JVM start-up dominates small runs)"""

    def __init__(self, ctx, *a, **kw):
        self.r = self.e = None
        n0 = ctx._tlc_n
        kw["count"] = False

        def work():
            try:
                self.r = ctx.tlc(*a, **kw)
            except BaseException as e:      # re-raised by join()
                self.e = e
        self.th = threading.Thread(target=work)
        self.th.start()
        # ctx.tlc numbers its scratch directories with a counter: do not let the caller start the
        # next run before this one has created its directory
        mine = os.path.join(ctx.scratch, "tlc%d" % (n0 + 1))
        while not os.path.isdir(mine) and self.th.is_alive():
            time.sleep(0.01)

    def join(self, ctx):
        self.th.join()
        if self.e is not None:
            raise self.e
        ctx.states += self.r.distinct
        ctx.transitions += self.r.generated
        return self.r

ALLPOS = [1, 2, 3, 4, 5, 6, 8, 9, 10]


def tla_set(xs):
    return "{" + ", ".join(str(x) for x in sorted(xs)) + "}"


def consts(vals, maxlen, ppos, epos):
    return ("CONSTANTS Vals = %s\n  WithClose = TRUE\n  MaxLen = %d\n  PipePos = %s\n  ExecPos = %s\n"
            % (tla_set(vals), maxlen, tla_set(ppos), tla_set(epos)))


def mc_cfg(vals, maxlen, ppos, epos, maxfd):
    return consts(vals, maxlen, ppos, epos) + """  MaxFd = %d
  FixSkipExec = TRUE
  FixLocalExec = TRUE
SPECIFICATION Spec
INVARIANTS TableExact NoFailure CallerUnchanged NoModelBound InternalAlive
PROPERTIES NoClobber
CHECK_DEADLOCK FALSE
""" % maxfd


def gen_cfg(vals, maxlen, ppos, epos, ctlen):
    return consts(vals, maxlen, ppos, epos) + "  CtSrc = 3\n  CtLen = %d\nINIT Init\nNEXT Next\n" % ctlen


# ---------------------------------------------------------------- input classes (sampling strata, finding keys)
def rel(n, files):
    """position of an internal descriptor relative to the list: the case analysis of the shuffle"""
    if n == 0:
        return "none"
    scratch = max([len(files)] + files) + 1
    if n in files:
        return "listed"
    if n < len(files):
        return "inrange"
    if n < scratch:
        return "below-scratch"
    if n == scratch:
        return "at-scratch"
    if n == scratch + 1:
        return "at-scratch+1"
    return "above-scratch"


def klass(c):
    f = c["files"]
    return "%s:exec-%s:sock-%s" % ("vfork" if c["vfork"] else "fork", rel(c["exec"], f), rel(c["pipe"], f))


def stratum(c):
    f = c["files"]
    pos = [x for x in f if x >= 0]
    low = any(x >= 0 and x < i for i, x in enumerate(f))      # pass 1 moves a source
    return (klass(c), len(f), -1 in f, len(set(pos)) < len(pos), low)


def stratified(ctx, cases, n):
    """round-robin over the input classes (klass), inside a class round-robin over its finer strata"""
    groups = {}
    for c in cases:
        groups.setdefault(klass(c), {}).setdefault(stratum(c), []).append(c)
    nstrata = sum(len(g) for g in groups.values())
    order = {}
    for k in sorted(groups):
        subs = sorted(groups[k], key=repr)
        for sk in subs:
            ctx.rng.shuffle(groups[k][sk])
        ctx.rng.shuffle(subs)
        order[k] = subs
    keys = sorted(groups)
    ctx.rng.shuffle(keys)
    out = []
    while len(out) < n and keys:
        for k in list(keys):
            subs = order[k]
            while subs and not groups[k][subs[0]]:
                subs.pop(0)
            if not subs:
                keys.remove(k)
                continue
            sk = subs.pop(0)
            out.append(groups[k][sk].pop())
            subs.append(sk)
            if len(out) >= n:
                break
    return out, nstrata


def klasses_of(vals, maxlen, ppos, epos):
    """input classes (ExecFile / socket position relative to the list) present in a configuration space"""
    import itertools
    out = set()
    for n in range(maxlen + 1):
        for f in itertools.product([-1] + vals, repeat=n):
            f = list(f)
            for e in epos:
                for p in ppos:
                    if p not in f and p != e:
                        out.add((rel(e, f), rel(p, f)))
    return out


def quick_positions(ctx, vals, maxlen):
    """two socket and two ExecFile positions for the quick tier: of 40 seeded draws the one whose
    configuration space shows the most relative placements of ExecFile and socket w.r.t. the list"""
    best = None
    for _ in range(40):
        ppos = sorted(ctx.rng.sample(ALLPOS, 2))
        epos = [0] + sorted(ctx.rng.sample(ALLPOS, 2))
        k = len(klasses_of(vals, maxlen, ppos, epos))
        if best is None or k > best[0]:
            best = (k, ppos, epos)
    return best[1], best[2]


def pick_cg(ctx, c):
    """a filler number (below the socket, not listed, not ExecFile, not the hole) for the cgroup descriptor"""
    used = set(x for x in c["files"] if x >= 0) | {c["exec"], c["par"]}
    cand = [n for n in range(1, c["pipe"]) if n not in used]
    return ctx.rng.choice(cand) if cand else 0


# ---------------------------------------------------------------- the check
def run(ctx):
    t = ctx.tier == "thorough"
    vals3 = [0, 1, 2, 3, 4, 7]
    replay = ctx.replay.get("case") if ctx.replay else None

    # 1. design level (runs while the real launches are prepared and executed)
    mcs = []
    if replay is None:
        if t:
            ppos, epos = ALLPOS, [0] + ALLPOS
        else:
            ppos, epos = quick_positions(ctx, vals3, 3)
        ctx.cov["mc_lists3"] = dict(pipe_pos=ppos, exec_pos=epos)
        # thorough runs two model checks side by side: 2 workers each (<= 4 in total)
        mcs.append(("mc_lists3", Bg(ctx, "FdShuffle", cfg=mc_cfg(vals3, 3, ppos, epos, 18), workers=ctx.pick(4, 2),
                                    timeout=ctx.pick(900, 3000))))
        if t:
            ctx.cov["mc_lists4"] = {}
            mcs.append(("mc_lists4", Bg(ctx, "FdShuffle", cfg=mc_cfg([0, 1, 2, 3, 5], 4, [1, 3, 5, 7], [0, 2, 4, 6], 20),
                                        workers=2, timeout=3000)))

    # 2. TLC enumerates the cases
    cgdir = "/sys/fs/cgroup/unified/verif-c06-%d-%d" % (os.getpid(), ctx.seed)
    try:
        os.mkdir(cgdir)
    except OSError as e:
        ctx.note("no cgroup-v2 directory (%s): CgroupFd cases left out" % e)
        cgdir = None
    try:
        ret = real_runs(ctx, t, vals3, replay, cgdir)
    finally:
        if cgdir:
            try:
                os.rmdir(cgdir)
            except OSError:
                pass
        done = [(name, b, b.th.join()) for name, b in mcs]
    for name, b, _ in done:
        r = b.join(ctx)
        ctx.tlc_ok("FdShuffle MC %s" % name, r)
        ctx.cov[name]["distinct"] = r.distinct
        ctx.log("MC %s: %d distinct states (%.0fs)" % (name, r.distinct, r.wall))
    return ret


def real_runs(ctx, t, vals3, replay, cgdir):
    nclasses = 0
    space = 0
    if replay is not None:
        direct = [dict(replay["cfg"])] if "cfg" in replay else []
        for c in direct:
            c["cg"] = replay.get("cg", 0)
        ct = [dict(replay["ct"])] if "ct" in replay else []
        core_n = 0
    else:
        if t:
            # exhaustive core (short lists, all placements of a small grid) + stratified sample of the big space
            g0 = ctx.tlc("FdShuffle_Gen", cfg=gen_cfg([0, 1, 3], 2, [1, 2, 4, 5], [0, 2, 4, 5], 3), timeout=1200, count=False)
            ctx.tlc_ok("FdShuffle_Gen core", g0)
            core = ctx.read_ndjson(os.path.join(g0.dir, "cases.ndjson"))
            # sample space: lists <= 3 x 5 of the 9 socket and 5 of the 9 ExecFile positions (by seed)
            gp, ge = sorted(ctx.rng.sample(ALLPOS, 5)), [0] + sorted(ctx.rng.sample(ALLPOS, 5))
            ctx.cov["sample_space"] = dict(pipe_pos=gp, exec_pos=ge)
            g = ctx.tlc("FdShuffle_Gen", cfg=gen_cfg(vals3, 3, gp, ge, 0), timeout=2400, count=False, heap="8g")
            ctx.tlc_ok("FdShuffle_Gen", g)
            big = ctx.read_ndjson(os.path.join(g.dir, "cases.ndjson"))
            sample, nclasses = stratified(ctx, big, 1000)
            direct = core + sample
            core_n = len(core)
            space = len(big)
            ctall = ctx.read_ndjson(os.path.join(g0.dir, "ctcases.ndjson"))
            ctx.rng.shuffle(ctall)
            ct = ctall[:100]
        else:
            mc = ctx.cov["mc_lists3"]
            g = ctx.tlc("FdShuffle_Gen", cfg=gen_cfg(vals3, 3, mc["pipe_pos"], mc["exec_pos"], 2), timeout=900, count=False)
            ctx.tlc_ok("FdShuffle_Gen", g)
            big = ctx.read_ndjson(os.path.join(g.dir, "cases.ndjson"))
            direct, nclasses = stratified(ctx, big, 100)
            core_n = 0
            space = len(big)
            ctall = ctx.read_ndjson(os.path.join(g.dir, "ctcases.ndjson"))
            ctx.rng.shuffle(ctall)
            ct = ctall[:10]
        for i, c in enumerate(direct):
            c["cg"] = pick_cg(ctx, c) if (cgdir and i % 5 == 4) else 0
    if not cgdir:
        ct = [c for c in ct if not c["cg"]]
    for i, c in enumerate(direct):
        c["id"] = i + 1
        c["strace"] = bool(replay is not None or not t or i % 3 == 0)
    for i, c in enumerate(ct):
        c["id"] = i + 1
    ctx.log("cases: direct=%d (exhaustive core %d, of %d generated) container=%d" % (len(direct), core_n, space, len(ct)))

    # 3. the real code
    # (not ctx.probe: probe and driver share the family name and would share the output path)
    probe = ctx.path("bin", "fdshuffle-probe")
    ctx.sh(["gcc", "-static", "-O1", "-Wall", "-o", probe, os.path.join(vlib.VERIF, "probes", "fdshuffle.c")], check=True)
    work = ctx.mkdir("work")
    obs_p, tr_p, ct_p = ctx.path("obs.ndjson"), ctx.path("traces.ndjson"), ctx.path("ctobs.ndjson")
    cases_p, ctc_p = ctx.path("run.ndjson"), ctx.path("ctrun.ndjson")
    with open(cases_p, "w") as fh:
        for c in direct:
            fh.write(json.dumps(c) + "\n")
    with open(ctc_p, "w") as fh:
        for c in ct:
            fh.write(json.dumps(c) + "\n")
    ctx.vdrive("fdshuffle", ["run", cases_p, probe, work, obs_p, tr_p, "8"] + ([cgdir] if cgdir else []),
               timeout=ctx.pick(1200, 4000))
    ctx.vdrive("fdshuffle", ["container", ctc_p, probe, work, ct_p] + ([cgdir] if cgdir else []),
               timeout=ctx.pick(900, 1800))
    obs = ctx.read_ndjson(obs_p)
    ctobs = ctx.read_ndjson(ct_p)
    traces = ctx.read_ndjson(tr_p)
    if len(obs) != len(direct) or len(ctobs) != len(ct):
        raise vlib.Inconclusive("driver wrote %d/%d direct and %d/%d container lines" % (len(obs), len(direct), len(ctobs), len(ct)))

    # 4. property layer: TLC judges every observation (5. the trace validation runs meanwhile)
    tvb = Bg(ctx, "FdShuffle_Trace", files={"traces.ndjson": traces}, workers=1, timeout=2400) if traces else None
    try:
        j = ctx.tlc("FdShuffle_Judge", files={"obs.ndjson": obs, "ctobs.ndjson": ctobs}, timeout=2400)
    finally:
        if tvb:
            tvb.th.join()
    ctx.tlc_ok("FdShuffle_Judge", j)
    if "judged" not in j.out:
        raise vlib.Inconclusive("judge did not report:\n" + j.tail(30))
    setup_bad = []
    for b in ctx.read_ndjson(os.path.join(j.dir, "bad.ndjson")):
        o = (obs if b["kind"] == "direct" else ctobs)[b["i"] - 1]
        if b["setup"] != "ok":
            setup_bad.append(o)
            continue
        if b["kind"] == "direct":
            cls = klass(o["cfg"])
            where = "Runner.Start files=%s ExecFile=%d socketpair=[%d,%d] %s" % (
                o["cfg"]["files"], o["cfg"]["exec"], o["cfg"]["par"], o["cfg"]["pipe"], "vfork" if o["cfg"]["vfork"] else "fork")
        else:
            c = o["ct"]
            cls = "container:%s%s%s" % ("fdexec" if c["fdexec"] else "path", ":cg" if c["cg"] else "", ":after" if c["after"] else "")
            where = "container Execve files=%s %s" % (c["files"], cls)
        mode = cls.split(":")[0]
        for k in (1, 2):
            v, cm, s = b["v%d" % k], b["c%d" % k], o["st"][k - 1]
            if v == "norun":
                setup_bad.append(o)
            elif v != "ok":
                what = {"startfail": "a valid configuration was not started: %s" % s["err"],
                        "extra": "the program sees descriptors beyond the list: %s" % s["got"],
                        "missing": "a listed slot is closed in the program: %s" % s["got"],
                        "wrong": "a slot holds another file than the one listed: %s" % s["got"],
                        "flags": "wrong descriptor flags: %s" % s["got"]}[v]
                if k == 2 and b["c1"] != "ok":
                    key = "%s:start2:%s:after-callermod" % (v, mode)    # consequence of the modified configuration
                else:
                    key = "%s:start%d:%s" % (v, k, cls)
                ctx.violation(key, "%s, start %d: %s" % (where, k, what), o)
            if cm != "ok":
                field = "execfile" if s["rbx"] != s["rax"] else "files" if s["rbf"] != s["raf"] else "cgroupfd"
                ctx.violation("callermod:%s:%s" % (mode, field),
                              "%s, start %d modified the caller's configuration: ExecFile %d -> %d, Files %s -> %s" % (
                                  where, k, s["rbx"], s["rax"], s["rbf"], s["raf"]), o)
    if setup_bad and not ctx.violations:
        raise vlib.Inconclusive("%d cases could not be set up, first: %s" % (len(setup_bad), json.dumps(setup_bad[0])[:1500]))

    # 5. implementation layer: strace step logs against the FdShuffle actions
    drift = 0
    ops = {}
    if traces:
        tv = tvb.join(ctx)
        if tv.timed_out or not (tv.no_error or tv.postcondition_failed):
            raise vlib.Inconclusive("trace validation did not finish:\n" + tv.tail(40))
        bad = ctx.read_ndjson(os.path.join(tv.dir, "bad.ndjson"))
        drift = len(bad)
        for b in bad[:5]:
            tr = traces[b["t"] - 1]
            nxt = tr["ev"][b["matched"]] if b["matched"] < len(tr["ev"]) else "(model expects more calls)"
            ctx.note("DRIFT %s start %d: first unmatched event #%d %s; trace %s" % (
                json.dumps(tr["cfg"]), tr["start"], b["matched"] + 1, json.dumps(nxt),
                [(e["op"], e["a"], e["b"], e["c"], e["r"]) for e in tr["ev"]]))
        for tr in traces:
            for n, e in enumerate(tr["ev"]):
                name = e["op"]
                if name == "dup3":
                    name = "dup3-pass1" if e["c"] else "dup3-pass2"
                elif name == "close":
                    name = "close-parent-end" if n == 1 else "close-marker"
                elif name == "exec":
                    name = "execveat" if e["a"] >= 0 else "execve"
                ops[name] = ops.get(name, 0) + 1
    ctx.traces = len(traces)
    ctx.cov["drift"] = drift
    ctx.cov["real_launches"] = 2 * len(obs)
    ctx.cov["container_launches"] = 2 * len(ctobs)
    ctx.cov["input_classes_in_space"] = nclasses
    ctx.cov["input_classes_run"] = len(set(klass(o["cfg"]) for o in obs))
    ctx.cov["model_actions_covered_by_real_runs"] = ops
    ctx.cov["cgroup_fd_cases"] = sum(1 for o in obs if o["cg"]) + sum(1 for o in ctobs if o["ct"]["cg"])
    if obs:
        ctx.sample(obs[len(obs) // 2])
    if ctobs:
        ctx.sample(ctobs[len(ctobs) // 2])
    if traces:
        ctx.sample(traces[len(traces) // 3])
    ctx.assumptions += [
        "every descriptor of the launching process is close-on-exec before Start (what Go does for everything it opens; "
        "the helper also makes its 0-2 close-on-exec, the container init marks all of its descriptors): descriptors a "
        "caller left inheritable are outside the judged domain",
        "every listed number is an open descriptor of the caller (a list naming a closed number is a caller error)",
        "identity of an open file = (st_dev, st_ino, file offset); every listed source is a distinct file with a distinct offset",
        "socketpair() returns the two lowest free numbers (cross-checked by the strace line of every traced launch)",
    ]
    distinct = len(set(json.dumps(o["cfg"], sort_keys=True) for o in obs)) + len(set(json.dumps(o["ct"], sort_keys=True) for o in ctobs))
    return dict(evaluations=2 * (len(obs) + len(ctobs)), distinct=distinct,
                rule="TLC model-checks every configuration within the bounds; real launches: thorough = exhaustive core grid "
                     "(lists <= 2 over {0,1,3,-1}, 4 socket x 4 ExecFile positions) + stratified sample of the lists <= 3 space "
                     "+ sampled container cases; quick = stratified sample; every launch judged by TLC, every traced launch "
                     "validated as a behaviour of FdShuffle",
                exhaustive=False)
