"""C20 -- cgroup handles control exactly their own group; usage in documented units.

1. MC    Cgroup_MC  : every history of <= MaxOps API calls on a 3-node tree, implementation layer
                      against property layer (ImplRefines), OneOwner, Housed, OnlyOwnersRemove.
         Cgroup_Race: 3 concurrent creators over 2 names + Destroy, all interleavings of the
                      per-controller steps.  Each design switch is flipped once: the model must
                      find the corresponding defect (sanity of the model).
2. Gen   histories are behaviours of Cgroup_MC (TLC simulation, seed = VERIF_SEED); creator rounds
         with every release order of the gates, burner workloads and statistics-file contents are
         enumerated by Cgroup_Gen.
3. Bind  `cgroup run|race|units|fixture` replay them on the real cgroup v1 hierarchy and on the real
         cgroup2 tree of this machine through the public API and log, after every call, the kernel
         objects read back without the library.
4. Judge Cgroup_Trace replays every log against the Spec* operators of Cgroup.tla; Cgroup_Judge
         decides the readings.
"""
import json
import os
import re
import threading

import vlib

SW = "CONSTANTS ControlsExisting = TRUE\n  RandomFresh = TRUE\n  OpenReturns = TRUE\n  OwnsOnlyCreated = TRUE\n  OpenKeepsLimits = TRUE\n  MovesWholeProcess = TRUE\n"


class Lane:
    """own numbering of TLC scratch directories per thread (ctx.tlc has no lock)"""

    def __init__(self, ctx, base):
        self._ctx = ctx
        self._tlc_n = base

    def __getattr__(self, k):
        return getattr(self._ctx, k)

    def tlc(self, *a, **kw):
        kw["count"] = False
        return vlib.Ctx.tlc(self, *a, **kw)


def mc_cfg(ops, handles, withset=False, emit=False, check=True, more=False, **sw):
    s = SW
    for k, v in sw.items():
        s = s.replace("%s = TRUE" % k, "%s = %s" % (k, v))
    s += "  CtlSets = {{\"cpu\", \"memory\"}, {\"u\"}, {\"cpuset\", \"memory\"}%s}\n" % (
        ", {\"cpuacct\", \"memory\", \"pids\"}, {\"cpu\", \"cpuset\"}" if more else "")
    s += "  Names = {\"x\", \"y\"}\n  RNames = {\"r\"}\n  PidSet = {\"p1\", \"p2\"}\n"
    s += "  MaxOps = %d\n  MaxDepth = 2\n  MaxHandles = %d\n  WithSet = %s\n  Rich = %s\n  Emit = %s\nSPECIFICATION Spec\n" % (
        ops, handles, "TRUE" if withset else "FALSE", "TRUE" if emit else "FALSE", "TRUE" if emit else "FALSE")
    if check:
        s += "INVARIANTS ImplRefines OneOwner Housed\nPROPERTY OnlyOwnersRemove\nVIEW View\n"
    return s + "CHECK_DEADLOCK FALSE\n"


TRACE_CFG = SW + "SPECIFICATION TSpec\nINVARIANTS OneOwner\nCONSTRAINT Mark\nPOSTCONDITION Report\nCHECK_DEADLOCK FALSE\n"
RACE_CFG = "CONSTANTS G = 3\n  K = 2\n  Names = {\"x\", \"y\"}\n  AtomicMkdir = %s\nSPECIFICATION Spec\nINVARIANTS OneOwner OneCreator PreSafe OwnerKeeps\nCHECK_DEADLOCK FALSE\n"


def mc(ctx0, errs):
    try:
        ctx = Lane(ctx0, 100)
        r = ctx.tlc("Cgroup_MC", cfg=mc_cfg(ctx0.pick(5, 6), 5, withset=True), workers=4, timeout=900)
        ctx0.tlc_ok("Cgroup_MC", r)
        st, tr = r.distinct, r.generated
        r = ctx.tlc("Cgroup_Race", cfg=RACE_CFG % "TRUE", workers=2, timeout=600)
        ctx0.tlc_ok("Cgroup_Race", r)
        st, tr = st + r.distinct, tr + r.generated
        ctx0.cov["mc_states"], ctx0.cov["mc_transitions"] = st, tr
        # sanity of the models (thorough): each defective design must be caught
        if not ctx0.quick():
            for sw in ("ControlsExisting", "RandomFresh", "OpenReturns", "OwnsOnlyCreated", "OpenKeepsLimits", "MovesWholeProcess"):
                b = ctx.tlc("Cgroup_MC", cfg=mc_cfg(5, 4, withset=True, **{sw: "FALSE"}), workers=2, timeout=600)
                if b.invariant != "ImplRefines":
                    raise vlib.Inconclusive("model sanity: %s = FALSE should violate ImplRefines:\n%s" % (sw, b.tail(20)))
            b = ctx.tlc("Cgroup_Race", cfg=RACE_CFG % "FALSE", workers=2, timeout=600)
            if b.invariant not in ("OneOwner", "OneCreator", "OwnerKeeps"):
                raise vlib.Inconclusive("model sanity: AtomicMkdir = FALSE should violate OneOwner:\n%s" % b.tail(20))
        ctx0.cov["model_detects"] = ["stat-then-MkdirAll -> two owners of one directory (Cgroup_Race)",
                                     "v1 handle of an existing group acts on nothing -> AddProc moves nobody",
                                     "Random returns an existing group", "OpenExisting(v1) returns no handle",
                                     "pre-existing directory of a later hierarchy recorded as created -> Destroy removes a foreign group",
                                     "another handle on an existing group re-initialises its cpuset -> a limit written is no longer in force",
                                     "AddProc attaches one thread only -> the process is split across groups"]
    except Exception as e:  # noqa
        errs.append(e)


def histories(ctx, lane, num, out):
    """behaviours of Cgroup_MC produced by TLC's simulator, seeded; the first call names the hierarchies"""
    try:
        r = lane.tlc("Cgroup_MC", cfg=mc_cfg(6, 5, withset=True, emit=True, check=False, more=not ctx.quick()), workers=1,
                     timeout=900, simulate="num=%d" % num, depth=8, extra=["-seed", str(1000 + ctx.seed)])
        seen, res = set(), []
        for m in re.finditer(r'<<"HIST", "(.*)">>', r.out):
            s = m.group(1).encode().decode("unicode_escape")
            if s not in seen:
                seen.add(s)
                res.append(json.loads(s))
        if not res:
            raise vlib.Inconclusive("no histories generated:\n" + r.tail(30))
        out["h"] = res
    except Exception as e:  # noqa
        out["err"] = e


def run(ctx):
    nonce = "p%ds%dx" % (os.getpid(), ctx.seed)
    try:
        return run1(ctx, nonce)
    finally:
        try:
            ctx.vdrive("cgroup", ["sweep", nonce], check=False, timeout=120)
        except Exception:  # noqa
            pass


def parallel(jobs):
    th = [threading.Thread(target=f, args=a) for f, a in jobs]
    for t in th:
        t.start()
    for t in th:
        t.join()


def raise_first(errs):
    for e in errs:
        raise e if isinstance(e, vlib.Inconclusive) else vlib.Inconclusive("%r" % (e,))


def run1(ctx, nonce):
    if ctx.replay:
        return replay(ctx, nonce)
    ctx.build_vdrive("cgroup")
    mcerr, hist, gen = [], {}, {}
    mct = threading.Thread(target=mc, args=(ctx, mcerr))
    mct.start()

    def gen_cases():
        try:
            g = Lane(ctx, 300).tlc("Cgroup_Gen", cfg="CONSTANT WithRace3 = %s\nINIT Init\nNEXT Next\n" % ctx.pick("FALSE", "TRUE"), timeout=600)
            ctx.tlc_ok("Cgroup_Gen", g)
            for n in ("race2", "race3", "units", "fix", "mixed"):
                gen[n] = ctx.read_ndjson(os.path.join(g.dir, n + ".ndjson"))
        except Exception as e:  # noqa
            gen["err"] = e
    parallel([(histories, (ctx, Lane(ctx, 400), ctx.pick(300, 1900), hist)), (gen_cases, ())])
    raise_first([x for x in (hist.get("err"), gen.get("err")) if x])
    # ---- the cases of this run
    hcases = []
    for h in hist["h"]:
        top = [o for o in h if o["op"] == "top"][0]
        ctls = sorted(top["names"])
        top["names"] = []
        hcases.append({"ver": 2 if ctls == ["u"] else 1, "ctls": ctls, "ops": h})
    # groups pre-existing in a subset of the v1 hierarchies: every generated directed history
    for m in gen["mixed"]:
        hcases.append({"ver": 1, "ctls": sorted(m["ctls"]), "ops": m["ops"]})
    race = list(gen["race2"])
    r3 = list(gen["race3"])
    ctx.rng.shuffle(r3)
    if ctx.quick():
        ctx.rng.shuffle(race)
        race = race[:360]
    else:
        race = race + r3[:1800]
    units = sorted(gen["units"], key=lambda u: (u["ver"], u["ms"], u["mib"]))
    if ctx.quick():
        units = [u for u in units if (u["ms"], u["mib"]) in ((30, 24), (120, 8))]
    fix = gen["fix"]
    for lst in (hcases, race, units, fix):
        for i, c in enumerate(lst):
            c["id"] = i + 1
    ctx.log("cases: histories=%d races=%d units=%d fixtures=%d" % (len(hcases), len(race), len(units), len(fix)))
    # ---- real executions (three driver processes side by side; distinct group names)
    errs = []

    def drive(sub, cases, out, arg):
        try:
            cf = ctx.path(sub, "cases.ndjson")
            with open(cf, "w") as fh:
                for c in cases:
                    fh.write(json.dumps(c) + "\n")
            ctx.vdrive("cgroup", [sub, cf, ctx.path(sub, "out.ndjson"), arg], timeout=900)
            out.extend(ctx.read_ndjson(ctx.path(sub, "out.ndjson")))
        except Exception as e:  # noqa
            errs.append(e)
    htr, rtr, uobs, fobs = [], [], [], []
    parallel([(drive, ("run", hcases, htr, nonce + "h")), (drive, ("race", race, rtr, nonce + "r")),
              (drive, ("units", units, uobs, nonce + "u"))])
    drive("fixture", fix, fobs, ctx.mkdir("fixdirs"))
    raise_first(errs)
    if (len(htr), len(rtr), len(uobs), len(fobs)) != (len(hcases), len(race), len(units), len(fix)):
        raise vlib.Inconclusive("driver output incomplete")
    left = sum(t["left"] for t in htr + rtr)
    ctx.cov["groups_removed_by_harness_cleanup"] = left
    # ---- TLC judges
    traces = htr + rtr
    bad, jbad = validate(ctx, traces, uobs, fobs)
    mct.join()
    raise_first(mcerr)
    ctx.states += ctx.cov["mc_states"]
    ctx.transitions += ctx.cov["mc_transitions"]
    report(ctx, traces, hcases + race, bad, jbad, uobs, fobs)
    ctx.traces = len(traces)
    ops = {}
    for t in traces:
        for e in t["ev"]:
            k = "v%d.%s%s" % (t["ver"], e["op"], ".err" if e["err"] else "")
            ops[k] = ops.get(k, 0) + 1
    ctx.cov["calls_on_real_cgroupfs"] = ops
    ctx.cov["judged_readings"] = len(uobs) + len(fobs)
    ctx.sample({"kind": htr[0]["kind"], "ver": htr[0]["ver"], "ev": [brief(e) for e in htr[0]["ev"]]})
    ctx.sample({"kind": rtr[0]["kind"], "ver": rtr[0]["ver"], "ev": [brief(e) for e in rtr[0]["ev"]]})
    ctx.sample(uobs[0])
    ctx.sample(fobs[len(fobs) // 2])
    ctx.assumptions += [
        "existence is tracked per hierarchy: groups may pre-exist in any subset of the v1 hierarchies (administrator's mkdir by the driver); in such a mixed state Existing() may be either value, ownership and Destroy are judged per hierarchy; a handle that answered Existing() may leave what it created in place",
        "Random is only driven with forced names that exist in all hierarchies or in none; API calls only on handles whose group exists in every hierarchy",
        "one Destroy per handle (no retry after a failed one), no calls on a handle after Destroy (client errors)",
        "concurrent v1 creators: a loser that is told 'existing' may still have created the directory of a later controller; Destroy of the owner is then only required to remove what it created (race traces use the lenient Destroy rule)",
        "limits written are the limits in force: after EVERY call all limit files of all groups of the case are read back and every limit a successful Set* established (memory.limit_in_bytes, cpu.cfs_quota_us/period_us, pids.max, cpuset.cpus) must be unchanged until its directory is removed; for cpuset also Cpus_allowed_list of the member processes. A Set* the kernel refuses (hierarchy constraints) is an admissible error and changes nothing",
        "limits: the value passed appears verbatim in the limit file (cfs quota/period in microseconds although the interface comment says ns); memory limits are page multiples",
        "memory.peak / pids.peak / memory.current parsing is exercised on fixture directories (these controllers are bound to v1 on this host); CPU tolerance: factor 2 and 50 ms against the burner's rusage",
        "membership is judged per thread: the helpers (and the burner) are multi-threaded before AddProc/Nest; /proc/<pid>/task/*/cgroup of every thread, the tasks file of every group and pids.current (hierarchical thread count) are compared after every call; membership facts are judged before any accounting comparison",
        "kernel: rmdir of a group with processes or children fails with EBUSY; /proc/<pid>/task/<tid>/cgroup is the truth about membership",
    ]
    nontriv = sum(1 for t in traces if len(t["ev"]) > 2)
    return dict(evaluations=len(traces) + len(uobs) + len(fobs), distinct=nontriv,
                rule="histories: TLC simulation of Cgroup_MC (6 calls, seeded); creator rounds: every release order for 2 creators, seeded sample for 3; fixtures: all generated contents; non-trivial = more than two calls",
                exhaustive=False)


def brief(e):
    return "%s h=%s %s%s%s -> err=%s n=%s ex=%s" % (e["op"], e["h"], e["name"], "/".join(e["path"]), ",".join(e["names"]),
                                                   e["err"], e["n"], e["ex"])


def validate(ctx, traces, uobs, fobs):
    res = {}

    def tr(k, part):
        try:
            res[k] = Lane(ctx, 600 + 10 * k).tlc("Cgroup_Trace", cfg=TRACE_CFG, files={"traces.ndjson": part}, timeout=1200, heap="6g")
        except Exception as e:  # noqa
            res[k] = e

    def judge():
        try:
            res["j"] = Lane(ctx, 700).tlc("Cgroup_Judge", files={"fixobs.ndjson": fobs, "unitobs.ndjson": uobs}, timeout=600)
        except Exception as e:  # noqa
            res["j"] = e
    n = 2 if len(traces) > 400 else (1 if traces else 0)
    parallel([(tr, (k, traces[k::n])) for k in range(n)] + ([(judge, ())] if uobs or fobs else []))
    bad = []
    for k in range(n):
        r = res[k]
        if isinstance(r, Exception):
            raise vlib.Inconclusive("Cgroup_Trace: %r" % r)
        if r.invariant:
            ctx.note("invariant %s violated inside the replay" % r.invariant)
        ctx.tlc_ok("Cgroup_Trace", r)
        ctx.states += r.distinct
        ctx.transitions += r.generated
        for b in ctx.read_ndjson(os.path.join(r.dir, "bad.ndjson")):
            b["t"] = k + (b["t"] - 1) * n
            bad.append(b)
    if "j" not in res:
        return bad, []
    r = res["j"]
    if isinstance(r, Exception):
        raise vlib.Inconclusive("Cgroup_Judge: %r" % r)
    ctx.tlc_ok("Cgroup_Judge", r)
    return bad, ctx.read_ndjson(os.path.join(r.dir, "bad.ndjson"))


def report(ctx, traces, cases, bad, jbad, uobs, fobs):
    for b in bad:
        t = traces[b["t"]]
        e = t["ev"][b["matched"]]
        key = "v%d:%s" % (t["ver"], b["why"])
        if e["op"] == "cdone":
            key = "v%d:%s:%s" % (t["ver"], e["kind"], b["why"])
        ctx.violation(key, "v%d %s, call %d: %s [%s] errs=%r dirs=%s" % (
            t["ver"], t["kind"], b["matched"] + 1, brief(e), b["why"], e["errs"][:80],
            {k: ["/".join(p) for p in v] for k, v in e["dirs"].items()}),
            {"kind": t["kind"], "case": cases[b["t"]], "trace": t, "event": b["matched"] + 1})
    truth = []
    for b in jbad:
        if b["kind"] == "fix":
            o = fobs[b["i"] - 1]
            ctx.violation("fix:%s:%s" % (o["reader"], b["j"]),
                          "reader %s on lines %s (missing=%s): got %s err=%s, specification %s" % (
                              o["reader"], o["lines"], o["missing"], o["got"], o["errs"] or o["err"], b["exp"]),
                          {"kind": "fix", "case": o})
        else:
            o = uobs[b["i"] - 1]
            if b["j"] == "kernel-truth":
                truth.append(o)
                continue
            ctx.violation("units:v%d:%s" % (o["ver"], b["j"]), "burner reading out of unit: %s" % json.dumps(o), {"kind": "units", "case": o})
    ctx.cov["kernel_truth_mismatches"] = len(truth)
    if truth and not ctx.violations and not ctx.known_hits:
        raise vlib.Inconclusive("kernel accounting disagrees with the burner's rusage beyond the tolerance: %s" % json.dumps(truth[0]))


def replay(ctx, nonce):
    c = ctx.replay["case"]
    kind, case = c["kind"], c["case"]
    case["id"] = 1
    sub = {"hist": "run", "race": "race", "fix": "fixture", "units": "units"}[kind]
    cf = ctx.path("replay.ndjson")
    open(cf, "w").write(json.dumps(case) + "\n")
    arg = ctx.mkdir("fixdirs") if kind == "fix" else nonce + "x"
    ctx.vdrive("cgroup", [sub, cf, ctx.path("out.ndjson"), arg])
    out = ctx.read_ndjson(ctx.path("out.ndjson"))
    traces = out if kind in ("hist", "race") else []
    uobs = out if kind == "units" else []
    fobs = out if kind == "fix" else []
    bad, jbad = validate(ctx, traces, uobs, fobs)
    report(ctx, traces, [case], bad, jbad, uobs, fobs)
    ctx.traces = len(traces)
    return dict(evaluations=1, distinct=1, rule="replay of one recorded case", exhaustive=False)
