"""C19 -- control socket: messages, descriptors, credentials intact or not at all.

1. MC   Socket_MC: every sequence of <= MaxOps sends/receives over the size classes on both layers;
        the implementation-layer outcomes must be admissible at the property layer (ImplRefines) and
        InOrder / Whole / LedgerBalanced / StreamInSync must hold.  The two design switches are also
        flipped once to confirm that the model finds the corresponding defect (sanity of the model).
2. Gen  Socket_Gen: TLC enumerates the operation sequences (all send x receive class pairs, all
        valid histories over reduced classes); gob descriptor sizes are measured from the real gob.
3. Bind `socket run` executes every sequence on the real unixsocket.Socket / framed container socket
        (socketpair inside the driver) and logs what it observed.
4. Trace Socket_Trace: TLC replays every log through Socket!Send / Socket!Recv; a log that is not a
        behaviour of Socket.tla is a violation, keyed by layer and by the reason TLC reports.
"""
import json
import os
import threading

import vlib

SHARDS = 4


class Lane:
    """ctx.tlc numbers its scratch directories without a lock: every thread that runs TLC gets a
    lane with its own numbering (everything else is the shared ctx)."""

    def __init__(self, ctx, base):
        self._ctx = ctx
        self._tlc_n = base

    def __getattr__(self, k):
        return getattr(self._ctx, k)

    def tlc(self, *a, **kw):
        kw["count"] = False
        return vlib.Ctx.tlc(self, *a, **kw)

ENV_ERRC = ("eperm", "toomanyrefs", "emsgsize")


def consts(m, **kw):
    d = dict(MaxFds=253, Cap=m["cap"], DescA=m["descA"], DescB=m["descB"])
    d.update(kw)
    return "CONSTANTS " + "\n  ".join("%s = %s" % (k, v) for k, v in d.items()) + "\n"


def mc(ctx0, out):
    try:
        mc1(Lane(ctx0, 100), ctx0)
    except Exception as e:  # noqa
        out.append(e)


def mc1(ctx, ctx0):
    base = open(os.path.join(vlib.VERIF, "spec", "Socket_MC.cfg")).read()
    cfg = base.replace("MaxOps = 4", "MaxOps = %d" % ctx.pick(3, 4))
    r = ctx.tlc("Socket_MC", cfg=cfg + "\n", workers=4, timeout=900)
    ctx.tlc_ok("Socket_MC", r)
    ctx0.cov["mc_states"] = r.distinct
    ctx0.cov["mc_transitions"] = r.generated
    # sanity of the model (thorough): each design switch off must break its invariant
    for sw, inv in () if ctx0.quick() else (("CarryDesc", ("StreamInSync", "ImplRefines")), ("CloseOnReject", ("LedgerBalanced",)),
                    ("RejectCtrunc", ("ImplRefines",)), ("AbsorbDesc", ("StreamInSync", "ImplRefines")),
                    ("ValueHandover", ("DeliveredImmutable",)), ("FreshReader", ("InOrder", "Whole"))):
        bad = cfg.replace("%s = TRUE" % sw, "%s = FALSE" % sw)
        b = ctx.tlc("Socket_MC", cfg=bad + "\n", workers=2, timeout=600)
        if b.invariant not in inv:
            raise vlib.Inconclusive("model sanity: %s = FALSE should violate %s, TLC says:\n%s" % (sw, inv, b.tail(20)))
    ctx0.cov["model_detects"] = ["descriptors dropped with a refused message -> StreamInSync",
                                "descriptors of a refused message not closed -> LedgerBalanced",
                                "MSG_CTRUNC ignored (receiver short of descriptor slots) -> ImplRefines",
                                "descriptors in a packet dropped for MSG_CTRUNC never reach the decoder -> StreamInSync",
                                "delivered messages alias per-socket storage -> DeliveredImmutable",
                                "decoder keeps the unread rest of a rejected packet -> InOrder"]


def describe(tr, i):
    if i >= len(tr["ev"]):
        return "after closing both ends %d descriptor(s) stay open" % tr["endleak"]
    e = tr["ev"][i]
    if e["op"] == "send":
        return "send #%d len=%d val=%d nfds=%d cred=%s typ=%s -> err=%r fdd=%d" % (
            e["id"], e["len"], e["val"], e["nfds"], e["cred"], e["typ"], e["err"], e["fdd"])
    if e["op"] == "recv":
        return ("free=%d " % e["free"] if e.get("free", -1) >= 0 else "") + "recv rbuf=%d want=%s -> err=%r n=%d mids=%s handed=%d fdd=%d" % (
            e["rbuf"], e["want"], e["err"], e["n"], e["mids"], e["handed"], e["fdd"])
    if e["op"] == "inject":
        return "inject #%d %s packet nfds=%d -> err=%r" % (e["id"], e["kind"], e["nfds"], e["err"])
    if e["op"] == "inspect":
        return "inspect delivered message #%d -> files=%s cloexec=%d same=%d cred=%s" % (
            e["j"], e["rfidx"][:8], e["nce"], e["nsame"], e["cred"])
    return "probe empty=%s" % e["empty"]


def run(ctx):
    if ctx.replay:
        return replay(ctx)
    mcerr = []
    mct = threading.Thread(target=mc, args=(ctx, mcerr))
    mct.start()                      # design-level model checking runs beside the real executions
    # gob facts measured from the real encoder (sizes of the type descriptors)
    ctx.vdrive("socket", ["measure", ctx.path("measure.json")])
    m = json.load(open(ctx.path("measure.json")))
    g = ctx.tlc("Socket_Gen", cfg=consts(m, Buf=4096, HLen=ctx.pick(3, 4)) + "INIT Init\nNEXT Next\n",
                timeout=900, count=False, heap="8g")
    ctx.tlc_ok("Socket_Gen", g)
    cases = ctx.read_ndjson(os.path.join(g.dir, "cases.ndjson"))
    generated = len(cases)
    press = [c for c in cases if c["part"].startswith("press")]      # receiver short of descriptor slots: all
    bad = [c for c in cases if c["part"] == "badhist"]               # rejected packets inside message sequences
    ctx.rng.shuffle(bad)
    press += bad[:ctx.pick(400, 4000)]
    cases = [c for c in cases if not c["part"].startswith("press") and c["part"] != "badhist"]
    if ctx.quick():
        # everything up to 2 operations, a seeded sample of the longer histories
        short = [c for c in cases if len(c["ops"]) <= 3]
        longer = [c for c in cases if len(c["ops"]) > 3]
        ctx.rng.shuffle(longer)
        cases = short + longer[:700] + press
    else:
        pairs = [c for c in cases if c["part"] == "pair"]
        hist = [c for c in cases if c["part"] != "pair"]
        ctx.rng.shuffle(hist)
        cases = pairs + hist[:15000] + press
    ctx.rng.shuffle(cases)
    for i, c in enumerate(cases):
        c["id"] = i + 1
    traces = execute(ctx, cases)
    bad, drift = validate(ctx, m, traces)
    mct.join()
    if mcerr:
        raise mcerr[0] if isinstance(mcerr[0], vlib.Inconclusive) else vlib.Inconclusive("MC: %r" % mcerr[0])
    ctx.states += ctx.cov["mc_states"]
    ctx.transitions += ctx.cov["mc_transitions"]
    judge(ctx, cases, traces, bad, drift)
    ctx.traces = len(traces)
    ctx.cov["generated_sequences"] = generated
    ctx.cov["executed_sequences"] = len(cases)
    ctx.assumptions += [
        "kernel: SCM_MAX_FD = 253; a SEQPACKET message longer than the receive buffer is dropped with MSG_TRUNC after its descriptors were installed",
        "we are root: forged SCM_CREDENTIALS (pid 1, uid 4242, gid 4343) are accepted; credentials are delivered only with SO_PASSCRED on the receiving end (then the sender's own when none were specified)",
        "Go runtime latitude (not go-sandbox code): an empty payload with control data travels as one zero byte; an empty payload without control data is reported as EOF by net.UnixConn",
        "a delivered message is immutable: the driver keeps every Msg exactly as RecvMsg returned it and looks at it right away, after the following receive, or after the whole sequence (per case); identity/order/cloexec/credentials are judged at that moment",
        "rejected packets: the driver puts packets that are not protocol messages (a gob type described twice with an unread value behind it, a cut gob stream, garbage; 0 or 2 descriptors attached) on the connection through the raw socket underneath; they use a third gob type that no real message uses, so they are rejected whatever the decoder has seen",
        "receive buffers of at least one byte; at most two 64 KiB messages in flight (socket send buffer)",
        "descriptor-table pressure: the soft RLIMIT_NOFILE of a dedicated driver process is lowered around the receive so that exactly `free` descriptor numbers are unused; the kernel then installs the first `free` descriptors and sets MSG_CTRUNC",
        "framed layer: a value message between Cap - descriptors and Cap may be accepted or refused at the property layer (implementation layer predicts exactly -> drift)",
    ]
    nontriv = sum(1 for t in traces if any(e["op"] == "recv" for e in t["ev"]))
    return dict(evaluations=len(traces), distinct=nontriv,
                rule="TLC enumerates every send-class x receive-class pair on both layers and every valid history over the reduced classes up to the length bound; thorough runs a seeded 15000-history subset of the depth-4 space plus all pairs; non-trivial = at least one message reached a receive",
                exhaustive=False)


def execute(ctx, cases):
    # cases that lower RLIMIT_NOFILE around a receive run in a driver process of their own
    squeezed = [c for c in cases if any(o.get("free", -1) >= 0 for o in c["ops"])]
    plain = [c for c in cases if not any(o.get("free", -1) >= 0 for o in c["ops"])]
    n = min(SHARDS, max(1, len(plain) // 50))
    parts = [plain[k::n] for k in range(n)] + ([squeezed] if squeezed else [])
    n = len(parts)
    outs, errs = [None] * n, []

    def work(k):
        try:
            cf, tf = ctx.path("shard%d" % k, "cases.ndjson"), ctx.path("shard%d" % k, "traces.ndjson")
            with open(cf, "w") as fh:
                for c in parts[k]:
                    fh.write(json.dumps(c) + "\n")
            ctx.vdrive("socket", ["run", cf, tf, ctx.mkdir("shard%d" % k, "files"), str(ctx.seed)], timeout=900)
            outs[k] = ctx.read_ndjson(tf)
        except Exception as e:  # noqa
            errs.append(e)
    ctx.build_vdrive("socket")
    th = [threading.Thread(target=work, args=(k,)) for k in range(n)]
    for t in th:
        t.start()
    for t in th:
        t.join()
    if errs:
        raise errs[0] if isinstance(errs[0], vlib.Inconclusive) else vlib.Inconclusive("driver: %r" % errs[0])
    traces = [t for o in outs for t in o]
    traces.sort(key=lambda t: t["id"])
    if len(traces) != len(cases):
        raise vlib.Inconclusive("driver returned %d traces for %d cases" % (len(traces), len(cases)))
    ctx.log("executed %d sequences, %d events" % (len(traces), sum(len(t["ev"]) for t in traces)))
    return traces


def validate(ctx, m, traces):
    """TLC replays the traces (several TLC processes side by side, each -workers 1)"""
    n = min(SHARDS, max(1, len(traces) // 200))
    cfg = consts(m, CarryDesc="TRUE", CloseOnReject="TRUE", RejectCtrunc="TRUE", AbsorbDesc="TRUE", ValueHandover="TRUE") + \
        "SPECIFICATION TSpec\nINVARIANTS InOrder Whole LedgerBalanced DeliveredImmutable\nCONSTRAINT Mark\nPOSTCONDITION Report\nCHECK_DEADLOCK FALSE\n"
    res, errs = [None] * n, []

    def work(k):
        try:
            res[k] = Lane(ctx, 200 + 10 * k).tlc("Socket_Trace", cfg=cfg, files={"traces.ndjson": traces[k::n]},
                                                 timeout=1500, heap="6g")
        except Exception as e:  # noqa
            errs.append(e)
    th = [threading.Thread(target=work, args=(k,)) for k in range(n)]
    for t in th:
        t.start()
    for t in th:
        t.join()
    if errs:
        raise vlib.Inconclusive("trace validation: %r" % errs[0])
    bad, drift = [], []
    for k, r in enumerate(res):
        if r.invariant:
            raise vlib.Inconclusive("Socket_Trace: invariant %s violated inside the replay (model error):\n%s" % (r.invariant, r.tail(40)))
        ctx.tlc_ok("Socket_Trace shard %d" % k, r)
        ctx.states += r.distinct
        ctx.transitions += r.generated
        for b in ctx.read_ndjson(os.path.join(r.dir, "bad.ndjson")):
            b["t"] = k + (b["t"] - 1) * n      # index into traces
            (drift if b["j"] == "drift" else bad).append(b)
    return bad, drift


def judge(ctx, cases, traces, bad, drift):
    for b in drift[:5]:
        ctx.note("DRIFT outcome differs from SendImpl/RecvImpl: %s" % json.dumps(traces[b["t"]])[:400])
    ctx.cov["drift"] = len(drift)
    env = []
    for b in bad:
        tr = traces[b["t"]]
        i = b["matched"]
        e = tr["ev"][i] if i < len(tr["ev"]) else {"op": "end", "errc": ""}
        why = b["why"] or "unexplained"
        if why == "send:refused-although-it-fits" and e.get("errc") in ENV_ERRC:
            env.append((tr, e))
            continue
        key = "%s:%s" % (tr["layer"], why)
        if "refused" in why or why == "recv:nothing-queued":
            key += ":" + (e.get("errc") or "none")
        if e.get("errc") == "decode" and any(x["op"] == "recv" and x["errc"] == "trunc" for x in tr["ev"][:i]):
            key += ":after-ctrunc-drop"      # an earlier packet was dropped by the receiving socket layer
        ctx.violation(key, "%s layer, event %d of sequence: %s [%s]" % (tr["layer"], i + 1, describe(tr, i), why),
                      {"case": cases[b["t"]], "trace": tr, "event": i + 1, "why": why})
    if env:
        raise vlib.Inconclusive("kernel refused a send the model expects to pass (%s): %s" % (
            env[0][1]["err"], json.dumps(env[0][1])[:300]))
    # coverage of outcome classes actually observed on the real code
    hist = {}
    for t in traces:
        for e in t["ev"]:
            if e["op"] in ("probe", "inspect", "inject"):
                continue
            k = "%s.%s.%s" % (t["layer"], e["op"], e["errc"] or "ok")
            hist[k] = hist.get(k, 0) + 1
    ctx.cov["outcomes"] = hist
    for t in traces:
        if len(t["ev"]) > 3 and any(e["errc"] for e in t["ev"]):
            ctx.sample({"layer": t["layer"], "ev": [describe(t, i) for i in range(len(t["ev"]))]})
            break
    ctx.sample({"layer": traces[0]["layer"], "ev": [describe(traces[0], i) for i in range(len(traces[0]["ev"]))]})
    must = ["raw.recv.trunc", "raw.send.einval", "gob.send.toolarge", "gob.recv.decode", "raw.recv.ok", "gob.recv.ok"]
    miss = [k for k in must if k not in hist]
    if miss and not ctx.violations and not ctx.known_hits:
        raise vlib.Inconclusive("outcome classes never reached on the real code: %s" % miss)


def replay(ctx):
    c = ctx.replay["case"]["case"]
    c["id"] = 1
    ctx.vdrive("socket", ["measure", ctx.path("measure.json")])
    m = json.load(open(ctx.path("measure.json")))
    traces = execute(ctx, [c])
    bad, drift = validate(ctx, m, traces)
    ctx.cov["outcomes"] = {}
    for b in bad:
        tr = traces[b["t"]]
        i = b["matched"]
        e = tr["ev"][i] if i < len(tr["ev"]) else {"errc": ""}
        why = b["why"] or "unexplained"
        key = "%s:%s" % (tr["layer"], why)
        if "refused" in why or why == "recv:nothing-queued":
            key += ":" + (e.get("errc") or "none")
        ctx.violation(key, "%s [%s]" % (describe(tr, i), why), {"case": c, "trace": tr, "event": i + 1, "why": why})
    ctx.traces = 1
    return dict(evaluations=1, distinct=1, rule="replay of one recorded sequence", exhaustive=False)
