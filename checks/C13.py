"""C13 -- pooled containers carry no state between runs; sealed executables are immutable.

Reset half:  Reset.tla is model-checked (all histories of runs and Resets over a nested mount
  table), Reset_Gen lets TLC enumerate every plant set / history shape / configuration, the
  orchestrator composes histories from them (covering family + seeded sample), `contfs reset`
  replays them on real containers (the static probe plants, the host lists through
  /proc/<init>/root, a later program lists from inside) and Reset_Trace validates every recorded
  history as a behaviour of the spec.
Memfd half:  Memfd.tla (kernel sealing semantics + the Immutable property) is model-checked,
  Memfd_Gen enumerates size x pattern x reader x attack order, `contfs memfd` runs
  memfd.DupToMemfd on real data and attacks the result from the harness and from a program
  executed FROM the memfd inside a container, Memfd_Trace validates every recorded case.
"""
import json
import os

import vlib

KINDS_QUICK = ["deep", "deepshort", "mode000", "dot", "symout", "fifo", "sock", "hardlink", "many",
               "owned", "openunl", "nested", "oddname"]


def gen_cfg(ctx):
    return """CONSTANTS GenKinds = {%s}
  MaxPlant = 3
INIT Init
NEXT Next
""" % ", ".join('"%s"' % k for k in KINDS_QUICK)


def compose_histories(ctx, kindsets, assigns, shapes, configs, total):
    """history = configuration x shape x per run (TLC-enumerated kind set, TLC-enumerated assignment of
    its kinds to mounts).  First a covering family (every kind x every mount x every configuration,
    three plants per run), then a seeded sample of the enumerated cross product."""
    rng = ctx.rng
    ksets = sorted(tuple(k["kinds"]) for k in kindsets)
    kindex = {frozenset(k): k for k in ksets}
    asg = {}
    for a in assigns:
        asg.setdefault((a["nm"], len(a["f"])), []).append(tuple(a["f"]))
    for v in asg.values():
        v.sort()
    shapes = sorted(s["shape"] for s in shapes)
    configs = sorted(configs, key=lambda c: c["name"])
    kinds = sorted({k for ks in ksets for k in ks})
    hist = []

    def runspec(ks, f):
        return [{"k": k, "m": m} for k, m in zip(ks, f)]

    def random_run(nm):
        ks = rng.choice(ksets)
        return runspec(ks, rng.choice(asg[(nm, len(ks))]))

    def add(cfg, shape, specs):
        ev = []
        it = iter(specs)
        for s in shape:
            ev.append({"e": "run", "plants": next(it)} if s == "run" else {"e": s})
        hist.append({"id": len(hist) + 1,
                     "cfg": {"name": cfg["name"], "cred": cfg["cred"], "mounts": cfg["mounts"]}, "ev": ev})

    for cfg in configs:
        nm = len(cfg["mounts"])
        pairs = [(k, m) for k in kinds for m in range(1, nm + 1)]
        rng.shuffle(pairs)
        runs = []
        while pairs:
            chunk, rest = [], []
            for p in pairs:       # at most three plants per run, each kind once per run
                if len(chunk) < 3 and p[0] not in [c[0] for c in chunk]:
                    chunk.append(p)
                else:
                    rest.append(p)
            pairs = rest
            ks = kindex[frozenset(c[0] for c in chunk)]         # the enumerated kind set ...
            f = tuple(dict(chunk)[k] for k in ks)
            assert f in asg[(nm, len(ks))]                       # ... and the enumerated assignment
            runs.append(runspec(ks, f))
        while runs:
            shape = shapes[len(hist) % len(shapes)]
            need = shape.count("run")
            while len(runs) < need:
                runs.append(random_run(nm))
            add(cfg, shape, runs[:need])
            runs = runs[need:]
    cover = len(hist)
    while len(hist) < total:
        cfg = rng.choice(configs)
        shape = rng.choice(shapes)
        add(cfg, shape, [random_run(len(cfg["mounts"])) for _ in range(shape.count("run"))])
    return hist, cover


def hist_key(h, tr, at):
    plants = sorted({"%s@%s" % (p["k"], h["cfg"]["mounts"][p["m"] - 1]) for e in h["ev"] if e["e"] == "run" for p in e["plants"]})
    by = tr["ev"][at].get("by", "") if at < len(tr["ev"]) else ""
    return "reset:%s:%s:%s" % (h["cfg"]["name"], by, ",".join(plants))


def classify_reject(tr, at):
    """structural classification of the first event the spec did not accept (no expectation here):
    a listing with no program run since the last Reset shows what Reset left behind."""
    if tr.get("setup"):
        return "setup"
    if at >= len(tr["ev"]):
        return "setup"
    e = tr["ev"][at]
    if e["e"] == "run":
        return "setup"
    if e["e"] == "list":
        j = at - 1
        while j >= 0 and tr["ev"][j]["e"] == "list":
            j -= 1
        if j >= 0 and tr["ev"][j]["e"] == "reset":
            return "leak"
        return "truth"
    return "setup"


def reset_half(ctx, probe_dir):
    # 1. design level
    r = ctx.tlc("Reset", workers=4, coverage=ctx.tier == "thorough", timeout=300)
    ctx.tlc_ok("Reset MC", r)
    ctx.cov["reset_mc_distinct"] = r.distinct
    ctx.log("reset: MC done (%d distinct states)" % r.distinct)
    # 2. TLC enumerates the building blocks
    g = ctx.tlc("Reset_Gen", cfg=gen_cfg(ctx), timeout=600, count=False, workers=2)
    ctx.tlc_ok("Reset_Gen", g)
    rd = lambda n: ctx.read_ndjson(os.path.join(g.dir, n))
    kindsets, assigns, shapes, configs = rd("kindsets.ndjson"), rd("assigns.ndjson"), rd("shapes.ndjson"), rd("configs.ndjson")
    if not kindsets or not assigns or not shapes or not configs:
        raise vlib.Inconclusive("Reset_Gen produced no cases")
    hist, cover = compose_histories(ctx, kindsets, assigns, shapes, configs, ctx.pick(44, 400))
    ctx.log("reset: %d kind sets x %d assignments enumerated, %d histories (%d covering)" % (len(kindsets), len(assigns), len(hist), cover))
    hp, op = ctx.path("reset_hist.ndjson"), ctx.path("reset_obs.ndjson")
    with open(hp, "w") as fh:
        for h in hist:
            fh.write(json.dumps(h) + "\n")
    ctx.vdrive("contfs", ["reset", hp, op, probe_dir, ctx.mkdir("envs"), "4"], timeout=1500)
    ctx.log("reset: histories replayed")
    traces = ctx.read_ndjson(op)
    if len(traces) != len(hist):
        raise vlib.Inconclusive("driver returned %d histories for %d" % (len(traces), len(hist)))
    judge_histories(ctx, hist, traces, "")
    return len(traces)


def judge_histories(ctx, hist, traces, prefix):
    for tr in traces:
        if tr.get("setup"):
            raise vlib.Inconclusive("history %d could not be run: %s" % (tr["id"], tr["setup"]))
    t = ctx.tlc("Reset_Trace", files={"traces.ndjson": traces}, timeout=900)
    ctx.tlc_ok("Reset_Trace", t)
    bad = ctx.read_ndjson(os.path.join(t.dir, "bad.ndjson"))
    drift = 0
    for b in bad:
        tr, h = traces[b["t"] - 1], hist[b["t"] - 1]
        if b["j"] == "drift":
            drift += 1
            if drift <= 3:
                ctx.note("DRIFT Reset return value differs from the implementation-layer model: %s" % json.dumps(
                    [e for e in tr["ev"] if e["e"] == "reset"])[:300])
            continue
        at = b["matched"]
        cls = classify_reject(tr, at)
        if cls == "leak":
            e = tr["ev"][at]
            left = {h["cfg"]["mounts"][i]: l for i, l in enumerate(e["ls"]) if l["n"] != 0}
            ctx.violation(prefix + hist_key(h, tr, at),
                          "after Reset the %s still sees entries: %s" % (e["by"], json.dumps(left)[:400]),
                          {"history": h, "trace": tr, "rejected_event": at + 1})
        elif cls == "truth":
            raise vlib.Inconclusive("model disagrees with the kernel about what was planted (history %d event %d): %s" % (
                tr["id"], at + 1, json.dumps(tr["ev"][at])[:600]))
        else:
            raise vlib.Inconclusive("history %d: event %d could not be set up: %s" % (tr["id"], at + 1, json.dumps(tr["ev"][at])[:600]))
    ctx.cov["drift"] = ctx.cov.get("drift", 0) + drift
    ctx.cov["reset_errors_returned"] = ctx.cov.get("reset_errors_returned", 0) + sum(
        1 for tr in traces for e in tr["ev"] if e["e"] == "reset" and not e["ok"])
    ctx.sample(traces[len(traces) // 2])


def memfd_half(ctx, probe_dir):
    r = ctx.tlc("Memfd", workers=2, timeout=300)
    ctx.tlc_ok("Memfd MC (Immutable under all attempt sequences; every seal needed)", r)
    ctx.log("reset half done; memfd MC done")
    g = ctx.tlc("Memfd_Gen", timeout=300, count=False)
    ctx.tlc_ok("Memfd_Gen", g)
    allc = ctx.read_ndjson(os.path.join(g.dir, "memcases.ndjson"))
    if not allc:
        raise vlib.Inconclusive("Memfd_Gen produced no cases")
    groups = {}
    for c in allc:
        groups.setdefault((c["size"], c["pat"]) if ctx.quick() else (c["size"], c["pat"], c["reader"]), []).append(c)
    cases = []
    for k in sorted(groups):
        g_ = groups[k]
        n = (2 if k[1] == "probe" else 1) if ctx.quick() else 3
        cases += ctx.rng.sample(g_, min(n, len(g_)))
    for i, c in enumerate(cases):
        c["id"] = i + 1
    cp, op = ctx.path("memcases.ndjson"), ctx.path("memobs.ndjson")
    with open(cp, "w") as fh:
        for c in cases:
            fh.write(json.dumps(c) + "\n")
    ctx.vdrive("contfs", ["memfd", cp, op, probe_dir, ctx.mkdir("envs")], timeout=1500)
    ctx.log("memfd: %d cases run" % len(cases))
    traces = ctx.read_ndjson(op)
    if len(traces) != len(cases):
        raise vlib.Inconclusive("driver returned %d memfd cases for %d" % (len(traces), len(cases)))
    for tr in traces:
        if tr.get("setup"):
            raise vlib.Inconclusive("memfd case %d could not be run: %s" % (tr["id"], tr["setup"]))
    t = ctx.tlc("Memfd_Trace", files={"memtraces.ndjson": traces}, timeout=900)
    ctx.tlc_ok("Memfd_Trace", t)
    drift = 0
    for b in ctx.read_ndjson(os.path.join(t.dir, "bad.ndjson")):
        tr = traces[b["t"] - 1]
        if b["j"] == "drift":
            drift += 1
            if drift <= 3:
                ctx.note("DRIFT memfd: seal set at hand-over or an attempt's result code differs from the model (file stayed frozen): case %s" % json.dumps(
                    {k: tr[k] for k in ("size", "pat", "reader", "exec")}))
            continue
        at = b["matched"]
        e = tr["ev"][at] if at < len(tr["ev"]) else {}
        if e.get("e") == "dup" or (e.get("e") == "exec" and e.get("status") != "Normal"):
            raise vlib.Inconclusive("memfd case %d: event %d could not be set up: %s" % (tr["id"], at + 1, json.dumps(e)[:500]))
        what = {"handover": "the memfd handed out by DupToMemfd does not hold exactly the supplied bytes or is not positioned at offset 0",
                "op": "a mutation attempt by the holder of the descriptor changed the sealed file",
                "exec": "the program executed from the memfd changed it"}.get(e.get("e"), "rejected")
        cls = "size%s" % ("=0" if tr["size"] == 0 else "<=page" if 0 < tr["size"] <= 4096 else ">page" if tr["size"] > 4096 else ":probe")
        key = "memfd:%s:%s:%s%s" % (e.get("e"), cls, tr["reader"], (":" + e["op"]) if e.get("e") == "op" else "")
        ctx.violation(key, "%s: %s" % (what, json.dumps(e)[:500]), {"case": tr, "rejected_event": at + 1})
    ctx.cov["drift"] = ctx.cov.get("drift", 0) + drift
    ctx.cov["memfd_cases"] = len(traces)
    ctx.cov["memfd_attempts"] = sum(len(e.get("ops", [])) if e["e"] == "exec" else 1 for tr in traces for e in tr["ev"] if e["e"] in ("op", "exec"))
    ctx.sample({k: v for k, v in traces[0].items() if k != "ev"} | {"ev": traces[0]["ev"][:4]})
    return len(traces)


def stage_probe(ctx):
    """the probe lives alone in a directory that is bind-mounted read-only into the containers"""
    import shutil
    probe = ctx.probe("contfs")
    d = ctx.mkdir("probe")
    shutil.copy(probe, os.path.join(d, "contfs"))
    os.remove(probe)               # the driver binary has the same name
    ctx._probes.pop("contfs", None)
    for p in (ctx.scratch, d):
        os.chmod(p, 0o755)
    os.chmod(os.path.join(d, "contfs"), 0o755)
    return d


def run(ctx):
    probe_dir = stage_probe(ctx)
    ctx.build_vdrive("contfs")
    only = os.environ.get("C13_ONLY", "")          # development / selftest switch: "reset" | "memfd"
    n = reset_half(ctx, probe_dir) if only != "memfd" else 0
    m = memfd_half(ctx, probe_dir) if only != "reset" else 0
    ctx.traces = n + m
    ctx.assumptions += [
        "writable mounts = the tmpfs mounts of the configuration (read-write bind mounts are host directories owned by the caller and are not judged)",
        "strict reading: entries left behind are a breach whether or not Reset returned an error (callers such as pool.Put ignore it)",
        "kernel sealing semantics (mm/memfd.c, mm/shmem.c) as written in MemfdDefs!KernelRes; disagreements are reported as DRIFT",
        "listing through /proc/<init>/root shows the mount namespace of the container init",
    ]
    return dict(evaluations=n + m, distinct=n + m,
                rule="Reset: covering family (every planted kind x every mount x every configuration) + seeded sample of TLC-enumerated "
                     "plant sets x shapes; memfd: TLC-enumerated size x pattern x reader x attack rotation, seeded choice per class",
                exhaustive=False)
