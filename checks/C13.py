"""C13 -- pooled containers carry no state between runs; sealed executables are immutable.

Reset half:  Reset.tla is model-checked (all histories of runs and Resets over a nested mount
  table), Reset_Gen lets TLC enumerate every kind set / assignment to mounts / history shape /
  configuration, the orchestrator composes histories from them (covering family + seeded sample),
  `contfs reset` replays them on real containers (the static probe plants, the host lists through
  /proc/<init>/root, a later program lists from inside) and Reset_Trace validates every recorded
  history as a behaviour of the spec.  A second pass replays chain-planting histories with the
  driver (and so the container init) under RLIMIT_NOFILE 4096.
Memfd half:  Memfd.tla (kernel sealing semantics + the Immutable property) is model-checked,
  Memfd_Gen enumerates size x pattern x reader x attack order, `contfs memfd` runs
  memfd.DupToMemfd on real data and attacks the result from the harness and from a program
  executed FROM the memfd inside a container, Memfd_Trace validates every recorded case.
"""
import json
import os
import shutil
import threading
import time

import vlib

KINDS = ["deep", "deepshort", "abyss", "mode000", "dot", "symout", "fifo", "sock", "hardlink", "many",
         "owned", "openunl", "nested", "oddname"]


def par(jobs):
    """run independent steps (TLC runs, the Go build, drivers) concurrently; first exception wins"""
    res, errs, ths = {}, [], []

    def wrap(name, fn):
        try:
            res[name] = fn()
        except BaseException as e:   # noqa
            errs.append(e)
    for name, fn in jobs:
        th = threading.Thread(target=wrap, args=(name, fn))
        th.start()
        ths.append(th)
        time.sleep(0.4)              # ctx.tlc numbers its scratch directories at call time
    for th in ths:
        th.join()
    if errs:
        raise errs[0]
    return res


def count(ctx, *rs):
    for r in rs:
        ctx.states += r.distinct
        ctx.transitions += r.generated


def gen_cfg():
    return """CONSTANTS GenKinds = {%s}
  MaxPlant = 3
INIT Init
NEXT Next
""" % ", ".join('"%s"' % k for k in KINDS)


# ------------------------------------------------------------------------------------ Reset half
def compose_histories(ctx, kindsets, assigns, shapes, configs, total):
    """history = configuration x shape x per run (TLC-enumerated kind set, TLC-enumerated assignment of
    its kinds to mounts).  First a covering family (every kind x every mount x every configuration,
    three plants per run), then a seeded sample of the enumerated cross product."""
    rng = ctx.rng
    ksets = sorted(tuple(k["kinds"]) for k in kindsets if "abyss" not in k["kinds"])   # the 6000-level chain belongs to the low-limit pass
    kindex = {frozenset(k): k for k in ksets}
    asg = {}
    for a in assigns:
        asg.setdefault((a["nm"], len(a["f"])), []).append(tuple(a["f"]))
    for v in asg.values():
        v.sort()
    shapes = sorted(s["shape"] for s in shapes)
    configs = sorted(configs, key=lambda c: c["name"])
    kinds = sorted({k for ks in ksets for k in ks})
    hist = []

    def runspec(ks, f):
        return [{"k": k, "m": m} for k, m in zip(ks, f)]

    def random_run(nm):
        ks = rng.choice(ksets)
        return runspec(ks, rng.choice(asg[(nm, len(ks))]))

    def add(cfg, shape, specs):
        ev = []
        it = iter(specs)
        for s in shape:
            ev.append({"e": "run", "plants": next(it)} if s == "run" else {"e": s})
        hist.append({"id": len(hist) + 1, "pass": "main",
                     "cfg": {"name": cfg["name"], "cred": cfg["cred"], "mounts": cfg["mounts"]}, "ev": ev})

    for cfg in configs:
        nm = len(cfg["mounts"])
        pairs = [(k, m) for k in kinds for m in range(1, nm + 1)]
        rng.shuffle(pairs)
        runs = []
        while pairs:
            chunk, rest = [], []
            for p in pairs:       # at most three plants per run, each kind once per run
                if len(chunk) < 3 and p[0] not in [c[0] for c in chunk]:
                    chunk.append(p)
                else:
                    rest.append(p)
            pairs = rest
            ks = kindex[frozenset(c[0] for c in chunk)]         # the enumerated kind set ...
            f = tuple(dict(chunk)[k] for k in ks)
            assert f in asg[(nm, len(ks))]                       # ... and the enumerated assignment
            runs.append(runspec(ks, f))
        while runs:
            shape = shapes[len(hist) % len(shapes)]
            need = shape.count("run")
            while len(runs) < need:
                runs.append(random_run(nm))
            add(cfg, shape, runs[:need])
            runs = runs[need:]
    cover = len(hist)
    while len(hist) < total:
        cfg = rng.choice(configs)
        shape = rng.choice(shapes)
        add(cfg, shape, [random_run(len(cfg["mounts"])) for _ in range(shape.count("run"))])
    return hist, cover


def lownofile_histories(ctx, kindsets, assigns, configs):
    """plant {fifo, abyss} (in that order: the chain is the newest entry of the mount) in the mounts of the
    flat configurations; members of the TLC-enumerated kind sets / assignments"""
    if not any(sorted(k["kinds"]) == ["abyss", "fifo"] for k in kindsets):
        raise vlib.Inconclusive("kind set {abyss, fifo} not enumerated")
    hist = []
    for cfg in sorted(configs, key=lambda c: c["name"]):
        if any(cfg["parent"]):
            continue
        nm = len(cfg["mounts"])
        for m in range(1, nm + 1):
            if ctx.quick() and m != 1 + (ctx.seed + len(cfg["name"])) % nm:
                continue
            assert any(a["nm"] == nm and a["f"] == [m, m] for a in assigns)
            hist.append({"id": len(hist) + 1, "pass": "lownofile",
                         "cfg": {"name": cfg["name"], "cred": cfg["cred"], "mounts": cfg["mounts"]},
                         "ev": [{"e": "run", "plants": [{"k": "fifo", "m": m}, {"k": "abyss", "m": m}]},
                                {"e": "reset"}, {"e": "list"}]})
    return hist


def replay_histories(ctx, hist, probe_dir, label, wrapper):
    hp, op = ctx.path("reset_hist_%s.ndjson" % label), ctx.path("reset_obs_%s.ndjson" % label)
    with open(hp, "w") as fh:
        for h in hist:
            fh.write(json.dumps(h) + "\n")
    exe = ctx.build_vdrive("contfs")
    rc, o = ctx.sh((wrapper or []) + [exe, "reset", hp, op, probe_dir, ctx.mkdir("envs-" + label), "4"],
                   timeout=1500, cwd=ctx.scratch)
    if rc != 0:
        raise vlib.Inconclusive("driver contfs reset (%s) exited %d:\n%s" % (label, rc, o[-4000:]))
    traces = ctx.read_ndjson(op)
    if len(traces) != len(hist):
        raise vlib.Inconclusive("driver returned %d histories for %d (%s)" % (len(traces), len(hist), label))
    for tr in traces:
        if tr.get("setup"):
            raise vlib.Inconclusive("history %d (%s) could not be run: %s" % (tr["id"], label, tr["setup"]))
    ctx.log("reset/%s: %d histories replayed on real containers" % (label, len(hist)))
    return traces


def left_behind(h, e, configs):
    """mounts whose listing shows more than the mount points nested in them (structure of the configuration)"""
    cfg = [c for c in configs if c["name"] == h["cfg"]["name"]][0]
    out = []
    for i, l in enumerate(e["ls"]):
        kids = sum(1 for p in cfg["parent"] if p == i + 1)
        if l["n"] > kids:
            names = [n for n in l["names"] if n not in cfg["base"]] if l["names"] else ["%d entries" % l["n"]]
            out.append((h["cfg"]["mounts"][i], names))
    return out


def classify_reject(tr, at):
    """structural classification of the first event the spec did not accept (no expectation here):
    a listing with no program run since the last Reset shows what Reset left behind."""
    if at >= len(tr["ev"]):
        return "setup"
    e = tr["ev"][at]
    if e["e"] == "list":
        j = at - 1
        while j >= 0 and tr["ev"][j]["e"] == "list":
            j -= 1
        if j >= 0 and tr["ev"][j]["e"] == "reset":
            return "leak"
        return "truth"
    return "setup"


def judge_histories(ctx, hist, traces, t, configs):
    bad = ctx.read_ndjson(os.path.join(t.dir, "bad.ndjson"))
    drift = 0
    for b in bad:
        tr, h = traces[b["t"] - 1], hist[b["t"] - 1]
        if b["j"] == "setup":
            raise vlib.Inconclusive("history %d (%s): a listing could not be taken: %s" % (tr["id"], h["pass"], json.dumps(tr["ev"])[:800]))
        if b["j"] == "drift":
            drift += 1
            if drift <= 3:
                ctx.note("DRIFT Reset return value differs from the implementation-layer model (cfg %s): %s" % (
                    tr["cfg"], json.dumps([e for e in tr["ev"] if e["e"] == "reset"])[:300]))
            continue
        at = b["matched"]
        cls = classify_reject(tr, at)
        if cls == "leak":
            e = tr["ev"][at]
            left = left_behind(h, e, configs)
            if h["pass"] == "lownofile":     # key names exactly what stayed, then where
                key = "reset:lownofile:left=%s:%s:%s:%s" % (",".join(sorted(n for _, ns in left for n in ns)), h["cfg"]["name"],
                                                            e["by"], ",".join(m for m, _ in left))
            else:
                key = "reset:%s:left=%s:%s" % (h["cfg"]["name"], ",".join(m for m, _ in left), e["by"])
            ctx.violation(key, "after Reset the %s still sees entries of an earlier program: %s" % (
                              {"host": "host (through /proc/<init>/root)", "prog": "next program"}[e["by"]], json.dumps(left)[:400]),
                          {"pass": h["pass"], "history": h, "trace": tr, "rejected_event": at + 1})
        elif cls == "truth":
            raise vlib.Inconclusive("model disagrees with the kernel about what was planted (history %d/%s event %d): %s" % (
                tr["id"], h["pass"], at + 1, json.dumps(tr["ev"][at])[:600]))
        else:
            raise vlib.Inconclusive("history %d/%s: event %d could not be set up: %s" % (
                tr["id"], h["pass"], at + 1, json.dumps(tr["ev"][at] if at < len(tr["ev"]) else None)[:600]))
    ctx.cov["drift"] = ctx.cov.get("drift", 0) + drift
    ctx.cov["reset_histories"] = len(traces)
    ctx.cov["reset_errors_returned"] = sum(1 for tr in traces for e in tr["ev"] if e["e"] == "reset" and not e["ok"])
    ctx.sample(traces[len(traces) // 2])


# ------------------------------------------------------------------------------------ memfd half
def memfd_cases(ctx, allc):
    """quick: one case per (size, pattern) with the reader kinds dealt round-robin (seeded start), so that
    every reader kind -- in particular every file reader whose st_size differs from what it yields --
    occurs about three times; plus both kernel-file cases and two executed cases.
    thorough: two per (size, pattern, reader) + all kernel-file and executed classes."""
    rng = ctx.rng
    by = {}
    for c in allc:
        by.setdefault((c["size"], c["pat"], c["reader"]), []).append(c)
    readers = sorted({k[2] for k in by if k[1] not in ("probe", "kernel")})
    cases = []
    if ctx.quick():
        sp = sorted({(k[0], k[1]) for k in by if k[1] not in ("probe", "kernel")})
        start = rng.randrange(len(readers))
        for i, (size, pat) in enumerate(sp):
            cases.append(rng.choice(by[(size, pat, readers[(start + i) % len(readers)])]))
        for k in sorted(by):
            if k[1] == "kernel":
                cases.append(rng.choice(by[k]))
        ex = sorted(k for k in by if k[1] == "probe")
        for k in rng.sample(ex, 2):
            cases.append(rng.choice(by[k]))
    else:
        for k in sorted(by):
            cases += rng.sample(by[k], min(2, len(by[k])))
    cases = [dict(c) for c in cases]
    for i, c in enumerate(cases):
        c["id"] = i + 1
    return cases


def replay_memfd(ctx, cases, probe_dir):
    cp, op = ctx.path("memcases.ndjson"), ctx.path("memobs.ndjson")
    with open(cp, "w") as fh:
        for c in cases:
            fh.write(json.dumps(c) + "\n")
    ctx.vdrive("contfs", ["memfd", cp, op, probe_dir, ctx.mkdir("envs-memfd")], timeout=1500)
    traces = ctx.read_ndjson(op)
    if len(traces) != len(cases):
        raise vlib.Inconclusive("driver returned %d memfd cases for %d" % (len(traces), len(cases)))
    for tr in traces:
        if tr.get("setup"):
            raise vlib.Inconclusive("memfd case %d could not be run: %s" % (tr["id"], tr["setup"]))
    skipped = [tr for tr in traces if tr.get("skip")]
    for tr in skipped[:2]:
        ctx.note("memfd case skipped (%s): %s" % (tr["reader"], tr["skip"]))
    traces = [tr for tr in traces if not tr.get("skip")]
    ctx.cov["memfd_skipped"] = len(skipped)
    ctx.cov["memfd_reader_kinds"] = sorted({tr["reader"] for tr in traces})
    ctx.log("memfd: %d cases run on the real DupToMemfd (%d skipped)" % (len(traces), len(skipped)))
    return traces


def judge_memfd(ctx, traces, t):
    drift = 0
    for b in ctx.read_ndjson(os.path.join(t.dir, "bad.ndjson")):
        tr = traces[b["t"] - 1]
        if b["j"] == "setup":
            raise vlib.Inconclusive("memfd case %d: the program executed from the memfd did not complete: %s" % (
                tr["id"], json.dumps([e for e in tr["ev"] if e["e"] == "exec"])[:800]))
        if b["j"] == "drift":
            drift += 1
            if drift <= 3:
                ctx.note("DRIFT memfd: seal set at hand-over or an attempt's result code differs from the model (file stayed frozen): case %s" % json.dumps(
                    {k: tr[k] for k in ("size", "pat", "reader", "exec")}))
            continue
        at = b["matched"]
        e = tr["ev"][at] if at < len(tr["ev"]) else {}
        if e.get("e") == "dup":
            raise vlib.Inconclusive("memfd case %d: DupToMemfd failed / the reader is not the source the case asks for: %s" % (tr["id"], json.dumps(e)[:500]))
        what = {"handover": "the memfd handed out by DupToMemfd does not hold exactly the bytes its reader yielded or is not positioned at offset 0",
                "op": "a mutation attempt by the holder of the descriptor changed the sealed file",
                "exec": "the program executed from the memfd changed it"}.get(e.get("e"), "rejected")
        cls = "size%s" % ("=0" if tr["size"] == 0 else "<=page" if 0 < tr["size"] <= 4096 else ">page" if tr["size"] > 4096 else ":" + tr["pat"])
        key = "memfd:%s:%s:%s%s" % (e.get("e"), cls, tr["reader"], (":" + e["op"]) if e.get("e") == "op" else "")
        ctx.violation(key, "%s: %s" % (what, json.dumps(e)[:500]), {"case": tr, "rejected_event": at + 1})
    ctx.cov["drift"] = ctx.cov.get("drift", 0) + drift
    ctx.cov["memfd_cases"] = len(traces)
    ctx.cov["memfd_attempts"] = sum(len(e.get("ops", [])) if e["e"] == "exec" else 1
                                    for tr in traces for e in tr["ev"] if e["e"] in ("op", "exec"))
    ctx.sample({k: v for k, v in traces[0].items() if k != "ev"} | {"ev": traces[0]["ev"][:4]})


def stage_probe(ctx):
    """the probe lives alone in a directory that is bind-mounted read-only into the containers"""
    probe = ctx.probe("contfs")
    d = ctx.mkdir("probe")
    shutil.copy(probe, os.path.join(d, "contfs"))
    os.remove(probe)               # the driver binary has the same name
    ctx._probes.pop("contfs", None)
    for p in (ctx.scratch, d):
        os.chmod(p, 0o755)
    os.chmod(os.path.join(d, "contfs"), 0o755)
    return d


def run(ctx):
    probe_dir = stage_probe(ctx)
    only = os.environ.get("C13_ONLY", "")          # development / selftest switch: "reset" | "memfd"
    do_reset, do_memfd = only != "memfd", only != "reset"
    # A. design-level model checking, case generation and the build, concurrently
    jobs = [("build", lambda: ctx.build_vdrive("contfs"))]
    if do_reset:
        jobs += [("reset_mc", lambda: ctx.tlc("Reset", workers=2, coverage=ctx.tier == "thorough", timeout=600, count=False)),
                 ("reset_gen", lambda: ctx.tlc("Reset_Gen", cfg=gen_cfg(), timeout=600, count=False))]
    if do_memfd:
        jobs += [("memfd_mc", lambda: ctx.tlc("Memfd", timeout=600, count=False)),
                 ("memfd_gen", lambda: ctx.tlc("Memfd_Gen", timeout=600, count=False))]
    a = par(jobs)
    jobs, n = [], 0
    if do_reset:
        ctx.tlc_ok("Reset MC (CleanAfterReset over all histories, nested mount table)", a["reset_mc"])
        ctx.tlc_ok("Reset_Gen", a["reset_gen"])
        count(ctx, a["reset_mc"])
        ctx.cov["reset_mc_distinct"] = a["reset_mc"].distinct
        rd = lambda f: ctx.read_ndjson(os.path.join(a["reset_gen"].dir, f))
        kindsets, assigns, shapes, configs = rd("kindsets.ndjson"), rd("assigns.ndjson"), rd("shapes.ndjson"), rd("configs.ndjson")
        if not kindsets or not assigns or not shapes or not configs:
            raise vlib.Inconclusive("Reset_Gen produced no cases")
        hist, cover = compose_histories(ctx, kindsets, assigns, shapes, configs, ctx.pick(72, 400))
        low = lownofile_histories(ctx, kindsets, assigns, configs)
        ctx.log("reset: %d kind sets x %d assignments x %d shapes x %d configurations enumerated; %d histories (%d covering) + %d under a low descriptor limit" % (
            len(kindsets), len(assigns), len(shapes), len(configs), len(hist), cover, len(low)))
        jobs += [("main", lambda: replay_histories(ctx, hist, probe_dir, "main", None)),
                 ("low", lambda: replay_histories(ctx, low, probe_dir, "lownofile", ["prlimit", "--nofile=4096:4096"]))]
    if do_memfd:
        ctx.tlc_ok("Memfd MC (Immutable under all attempt sequences; every seal needed)", a["memfd_mc"])
        ctx.tlc_ok("Memfd_Gen", a["memfd_gen"])
        count(ctx, a["memfd_mc"])
        allc = ctx.read_ndjson(os.path.join(a["memfd_gen"].dir, "memcases.ndjson"))
        if not allc:
            raise vlib.Inconclusive("Memfd_Gen produced no cases")
        cases = memfd_cases(ctx, allc)
        jobs += [("memfd", lambda: replay_memfd(ctx, cases, probe_dir))]
    # B. the real code
    b = par(jobs)
    # C. TLC validates what was recorded
    jobs = []
    if do_reset:
        allh, alltr = hist + low, b["main"] + b["low"]
        jobs += [("reset_trace", lambda: ctx.tlc("Reset_Trace", files={"traces.ndjson": alltr}, timeout=900, count=False))]
    if do_memfd:
        jobs += [("memfd_trace", lambda: ctx.tlc("Memfd_Trace", files={"memtraces.ndjson": b["memfd"]}, timeout=900, count=False))]
    c = par(jobs)
    if do_reset:
        ctx.tlc_ok("Reset_Trace", c["reset_trace"])
        count(ctx, c["reset_trace"])
        judge_histories(ctx, allh, alltr, c["reset_trace"], configs)
        n += len(alltr)
    if do_memfd:
        ctx.tlc_ok("Memfd_Trace", c["memfd_trace"])
        count(ctx, c["memfd_trace"])
        judge_memfd(ctx, b["memfd"], c["memfd_trace"])
        n += len(b["memfd"])
    ctx.traces = n
    ctx.assumptions += [
        "writable mounts = the tmpfs mounts of the configuration (read-write bind mounts are host directories owned by the caller and are not judged)",
        "strict reading: entries left behind are a breach whether or not Reset returned an error (callers such as pool.Put ignore it)",
        "kernel sealing semantics (mm/memfd.c, mm/shmem.c) as written in MemfdDefs!KernelRes; disagreements are reported as DRIFT",
        "listing through /proc/<init>/root shows the mount namespace of the container init",
    ]
    return dict(evaluations=n, distinct=n,
                rule="Reset: covering family (every planted kind x every mount x every configuration) + seeded sample of TLC-enumerated "
                     "kind sets x assignments x shapes x configurations; memfd: TLC-enumerated size x pattern x reader x attack rotation, seeded choice per class",
                exhaustive=False)
