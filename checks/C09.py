"""C09 -- every way a program can end is classified per the documented status table.

1. MC   StatusRunners.tla: the three transcribed status mappings (ptrace handle branches, unshare wait
        loop, container convertReply/convertReplyResult) against a small kernel model, checked by TLC
        against Status!Classify for every attempt x runner x child behaviour.
2. Gen  Status_Gen.tla: TLC enumerates the cases (exit 0..255, terminating signals raised / produced by a
        hardware fault / by seccomp / sent from outside, x 4 runner modes x child behaviours).
3. Bind the probe really exits / dies under the real runners (driver `status run`); what ended it is taken
        from the probe's own report (kernel truth), never assumed.
4. Judge Status_Judge.tla: TLC judges every Result line.
"""
import json
import os
import time

RUNNERS = ["ptrace", "unshare", "cbefore", "cafter"]
# signal-number classes every runner gets in the quick tier on top of the table's special ones: an ordinary
# signal, the last classic one's neighbours, 32/33 (reserved by glibc, reachable by a raw kill), SIGRTMIN,
# SIGRTMIN+1, a middle real-time signal, the last two
RT_CLASSES = (15, 30, 32, 33, 34, 35, 50, 63, 64)
REP_EXITS = [0, 1, 2, 3, 42, 77, 99, 100, 126, 127, 128, 137, 139, 200, 254, 255]


def ckey(c):
    return (c["runner"], c["kind"], c["n"], c["child"], c["cn"])


def select(ctx, cases):
    """order the TLC-generated cases: essential ones first (always run), then a seeded shuffle of the
    rest of the tier's domain (run until the time budget is used up)"""
    rng = ctx.rng
    rot = RUNNERS[ctx.seed % 4]
    ess, rest = [], []
    for c in sorted(cases, key=lambda c: json.dumps(c, sort_keys=True)):
        k, n, none = c["kind"], c["n"], c["child"] == "none"
        boundary = k in ("fault", "sys", "badexec") or (k == "ext" and n in (9, 15, 5, 34, 64)) \
            or (k == "raise" and n in (5, 9, 24, 25, 31)) or (k == "exit" and n in (0, 1, 255)) \
            or (k == "raise" and n in RT_CLASSES)
        if c.get("cancel", "none") != "none":
            # the caller cancels around the program's end: deterministic (sync-after container) and racing
            if not ctx.quick():
                ess.append(c)
            elif c["cancel"] == "afterend" and (k, n) in (("exit", 0), ("exit", 3), ("raise", 11), ("raise", 25), ("raise", 15), ("fault", 11)):
                ess.append(c)
            elif c["cancel"] == "race" and c["rep"] <= 2 and (k, n) in (("exit", 3), ("fault", 11)):
                ess.append(c)
            else:
                rest.append(c)
        elif c.get("core") == 1:
            # core dumps enabled: the hardware faults, the seccomp kill, abort and the CPU limit signal on
            # every runner in the quick tier, all ten core-dumping signals (and an orphan) in the thorough one
            if not ctx.quick() or (none and (k in ("fault", "sys") or n in (6, 24))):
                ess.append(c)
            else:
                rest.append(c)
        elif ctx.quick():
            if none and boundary:
                ess.append(c)                       # every runner: the class boundaries of the table
            elif none and c["runner"] == rot and (k == "raise" or (k == "exit" and n in REP_EXITS)):
                ess.append(c)                       # every terminating signal on the rotated runner
            elif not none and c["runner"] == rot and ((k == "exit" and n in (0, 1)) or (k in ("raise", "fault") and n == 11)):
                ess.append(c)                       # every child behaviour on the rotated runner
            elif c["child"].startswith("orphan") and ((k == "exit" and n in (0, 1)) or (k == "raise" and n == 11)):
                ess.append(c)                       # re-parented descendants that end first: every runner mode
            else:
                rest.append(c)
        else:
            if none and (c["runner"] == rot or boundary or k == "raise" or (k == "exit" and n in REP_EXITS)):
                ess.append(c)       # whole domain on the rotated runner; all signals + 16 exit codes on the others
            elif not none and boundary and k != "ext":
                ess.append(c)       # every child behaviour x the class boundaries, all four runner modes
            else:
                rest.append(c)      # the remaining part of the 9392-case space: until the time budget is used up
    rng.shuffle(ess)
    rng.shuffle(rest)
    return ess, rest


def run(ctx):
    t0 = time.time()
    # build the driver and the probe while TLC runs (the machine is shared: every second counts)
    import threading
    built = {}

    def build():
        try:
            built["probe"] = ctx.probe("limits")
            ctx.build_vdrive("status")
        except Exception as e:      # re-raised in the main thread
            built["err"] = e
    th = threading.Thread(target=build)
    th.start()
    # 1. design level + 2. cases (one TLC run: StatusRunners_MC model-checks and writes the case file)
    r = ctx.tlc("StatusRunners_MC", cfg=ctx.pick("StatusRunners_MCquick.cfg", "StatusRunners_MC.cfg"), workers=4, timeout=600)
    ctx.tlc_ok("StatusRunners MC", r)
    ctx.cov["mc_states"] = r.distinct
    if ctx.replay and ctx.replay.get("case"):
        c = ctx.replay["case"]
        ess, rest = [dict((k, c.get(k, 0)) for k in ("runner", "kind", "n", "child", "cn", "core", "cancel", "rep"))], []
        ess[0]["cancel"] = ess[0]["cancel"] or "none"
    else:
        ess, rest = select(ctx, ctx.read_ndjson(os.path.join(r.dir, "cases.ndjson")))
    # 3. real runs
    th.join()
    if "err" in built:
        raise built["err"]
    probe = built["probe"]
    # optional cases run until this many seconds after the start of the check (at least 10 s of them)
    budget = max(ctx.pick(55, 400) - (time.time() - t0), 10)
    cases = ess + rest
    ctx.vdrive("status", ["run", _w(ctx, "cases.ndjson", cases), ctx.path("obs.ndjson"), probe, ctx.mkdir("run"),
                          "8", str(len(ess)), str(int(budget))], timeout=ctx.pick(400, 1500))
    obs = ctx.read_ndjson(ctx.path("obs.ndjson"))
    ctx.log("cases: essential=%d optional=%d executed=%d" % (len(ess), len(rest), len(obs)))
    if len(obs) < len(ess):
        raise __import__("vlib").Inconclusive("driver executed %d of %d essential cases" % (len(obs), len(ess)))
    # 4. judge
    j = ctx.tlc("Status_Judge", files={"obs.ndjson": obs}, timeout=600)
    ctx.tlc_ok("Status_Judge", j)
    bad = ctx.read_ndjson(os.path.join(j.dir, "bad.ndjson"))
    drift = 0
    incon = []
    nolaunch = 0
    vacuous = 0
    for b in bad:
        o = obs[b["i"] - 1]
        if b["j"] == "viol":
            key = "%s:%s:%s:%s%s" % (o["runner"], o["kind"], o["n"], b["why"], (":core" if o.get("core") == 1 else "") + (":cancel-" + o["cancel"] if o.get("cancel", "none") != "none" else ""))
            ctx.violation(key, "%s; expected %s, runner reported status=%s exit=%s err=%r (child=%s)" % (
                b["why"], json.dumps(b["exp"]), o["status"], o["exit"], o["err"][:80], o["child"]), o)
        elif b["j"] == "drift":
            drift += 1
            if drift <= 5:
                ctx.note("DRIFT %s %s" % (b["why"], json.dumps(o)[:300]))
        elif b["j"] == "vacuous":
            vacuous += 1
        elif b["j"] == "nolaunch":
            nolaunch += 1
            if nolaunch <= 3:
                ctx.note("launch failed (Runner Error with text, program never started): %s" % json.dumps(o)[:300])
        else:
            incon.append((b, o))
    ctx.traces = len(obs)
    ctx.cov["drift"] = drift
    ctx.cov["kernel_truth_mismatches"] = len(incon)
    ctx.cov["launch_failures"] = nolaunch
    core_runs = [o for o in obs if o.get("core") == 1 and o["report"] and o["report"][-1]["t"] == "raising"]
    ctx.cov["ended_with_core_dump_enabled"] = len(core_runs)
    ctx.cov["core_dump_witnessed"] = sum(1 for o in core_runs if any(l["t"] == "corewit" and l["v"] == 1 for l in o["report"]))
    ctx.cov["core_cases_vacuous_no_dump_here"] = vacuous
    ctx.cov["ignored_on_entry_by_runner"] = dict((ru, sorted(set(l["v"] for o in obs if o["runner"] == ru for l in o["report"] if l["t"] == "ign"))) for ru in RUNNERS)
    canc = [o for o in obs if o.get("cancel", "none") != "none"]
    ctx.cov["cancelled_around_the_end"] = len(canc)
    ctx.cov["cancelled_after_program_was_gone"] = sum(1 for o in canc if o["endedfirst"])
    ctx.cov["cancel_race_won_by_kill"] = sum(1 for o in canc if o["cancel"] == "race" and o["status"] == 2 and o["exit"] == 9)
    if vacuous:
        ctx.note("%d core-dump cases are vacuous: the kernel produced no dump for the witness child (core_pattern / RLIMIT_CORE of this host)" % vacuous)
    ctx.cov["executed_by_runner"] = dict((r_, sum(1 for o in obs if o["runner"] == r_)) for r_ in RUNNERS)
    ctx.cov["ended_by_signal_for_real"] = sum(1 for o in obs if o["report"] and o["report"][-1]["t"] in ("raising", "ready"))
    ctx.cov["survivors_pid1"] = sum(1 for o in obs if any(l["t"] == "survived" for l in o["report"]))
    for o in obs[:: max(1, len(obs) // 4)]:
        ctx.sample(dict((k, o[k]) for k in ("runner", "kind", "n", "child", "cn", "core", "status", "exit", "report")))
    ctx.assumptions += [
        "what ended the program is read from the probe's own report written before the attempt (raising s / exiting n / survived s)",
        "kernel: a pid-1 process with default dispositions is ended only by forced signals (faults, seccomp) and by SIGKILL from an ancestor namespace (Status!KernelFatal); every run cross-checks this",
        "under ptrace the delivery of SIGXCPU/SIGXFSZ to a *child* ends the run with TLE/OLE: treated as deliberate, judged at the implementation layer only",
        "exit value is judged for Normal / Nonzero Exit Status / Signalled; for TLE/OLE/Disallowed Syscall only the class is pinned by the table",
        "external signals are not sent in sync-after mode (the host never learns the program's pid there)",
        "cancel dimension: afterend = sync-after container, the sync function cancels once the program is a zombie child of the container init in /proc (endedfirst, judged strictly); otherwise the result must be the program's own end or TLE with SIGKILL (the cancellation's kill)",
        "core dimension: RLIMIT_CORE soft > 0 via the runner's RLimits and a writable work dir; whether a dump is produced is witnessed by a child of the probe dying of SIGSEGV just before (WCOREDUMP seen by its parent); the main process is assumed to dump like it",
    ]
    if not ctx.violations and not ctx.known_hits:
        import vlib
        if incon:
            raise vlib.Inconclusive("%d observations could not be judged (%s): %s" % (
                len(incon), incon[0][0]["why"], json.dumps(incon[0][1])[:600]))
        if nolaunch > max(2, len(obs) // 200):
            raise vlib.Inconclusive("%d launches failed with Runner Error before the program started" % nolaunch)
    elif incon:
        ctx.note("%d observations not judged (%s)" % (len(incon), incon[0][0]["why"]))
    distinct = len(set((o["runner"], o["kind"], o["n"]) for o in obs))
    return dict(evaluations=len(obs), distinct=distinct,
                rule="one evaluation = one real run of the probe under a runner, judged by TLC; distinct = (runner, way of ending, code/signal)",
                exhaustive=False)


def _w(ctx, name, rows):
    p = ctx.path(name)
    with open(p, "w") as f:
        for r in rows:
            f.write(json.dumps(r) + "\n")
    return p
