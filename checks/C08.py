"""C08 -- configured limits are in force; exhausting them yields the matching verdict; the capped
output collector never retains more than N+1 bytes and never blocks or breaks the writer.

1. MC    LimitsCollector.tla: writer / kernel pipe / copier goroutine of pkg/pipe, every interleaving.
2. Gen   Limits_Cases.tla (same TLC run): limit records by value class (unset / small / >= 2^32,
         CPU hard below / above soft, NOFILE above what the kernel permits), verdict programs,
         (cap, volume, writer speed) grid.
3. Bind  driver `limits run`: the probe reports getrlimit of all 16 resources under each runner; CPU
         burner, file grower, page toucher under rlimits / runner.Limit; pipe.NewBuffer(N) fed by a
         real writer process whose write() results and liveness are recorded.
4. Judge Limits_Judge.tla: TLC judges every line against Limits.tla (and Status.tla for the verdicts).
"""
import json
import os
import time

RUNNERS = ["ptrace", "unshare", "cbefore", "cafter"]


def run(ctx):
    import vlib
    t0 = time.time()
    # build the driver and the probe while TLC runs (the machine is shared: every second counts)
    import threading
    built = {}

    def build():
        try:
            # the probe and the driver share the family name: build the probe under another file name
            pr = ctx.path("bin", "limits-probe")
            ctx.sh(["gcc", "-static", "-O1", "-Wall", "-o", pr, os.path.join(vlib.VERIF, "probes", "limits.c")], check=True)
            built["probe"] = pr
            ctx.build_vdrive("limits")
        except Exception as e:      # re-raised in the main thread
            built["err"] = e
    th = threading.Thread(target=build)
    th.start()
    r = ctx.tlc("LimitsCollector_MC", cfg=ctx.pick("LimitsCollector_MCquick.cfg", "LimitsCollector_MC.cfg"),
                workers=4, timeout=600)
    ctx.tlc_ok("LimitsCollector MC", r)
    ctx.cov["mc_states"] = r.distinct
    f = lambda n: ctx.read_ndjson(os.path.join(r.dir, n))
    records, progs, collect = f("records.ndjson"), f("verdicts.ndjson"), f("collect.ndjson")
    srt = lambda xs: sorted(xs, key=lambda c: json.dumps(c, sort_keys=True))
    records, progs, collect = srt(records), srt(progs), srt(collect)
    rng = ctx.rng

    # ---- limit records x runners
    ess, rest = [], []
    lim = ctx.pick(1, 2)
    k = ctx.seed
    for rec in records:
        nm = rec["name"].split(".")
        cpu_pair = nm[0] != "z" and all(x == "z" for x in nm[2:7]) and nm[7] == "core"
        full = rec["name"] in ("s.hi.s.s.s.s.s.nocore", "b.b.b.b.b.b.s.nocore")   # every entry of the slice present
        if full:
            for ru in RUNNERS:
                ess.append(dict(rec, runner=ru))
        elif rec["dev"] <= lim or cpu_pair:
            if ctx.quick() and rec["dev"] > 0:
                k += 1
                rs = [RUNNERS[k % 4]]            # rotate the runner over the records (and the seed)
            elif not ctx.quick() and rec["dev"] > 1:
                k += 1
                rs = [RUNNERS[k % 4]]
            else:
                rs = RUNNERS
            for ru in RUNNERS:
                (ess if ru in rs else rest).append(dict(rec, runner=ru))
        else:
            for ru in RUNNERS:
                rest.append(dict(rec, runner=ru))
    rng.shuffle(rest)
    rl_cases = ess + rest[:ctx.pick(400, 4000)]
    # ---- verdict programs x runners
    vr = ["ptrace", "unshare", "cbefore"] if ctx.quick() else RUNNERS
    if ctx.quick():
        # mem-over is the expensive one (80 MiB of page faults): in the quick tier with the two ends that
        # differ most from a plain exit; every other program with every end
        progs = [p for p in progs if p["scen"] != "mem-over" or p["end"] in ("exit:0", "fault:segv", "hang")]
    v_cases = [dict(p, runner=ru) for ru in vr for p in progs]
    v_cases.sort(key=lambda c: (c["name"] != "cpu-rlimit", c["prog"] != "burn"))   # slow ones first
    # ---- collector grid
    if ctx.quick():
        must = [c for c in collect if c["n"] in (100, 65536) and c["chunk"] != 7]
        others = [c for c in collect if c not in must]
        rng.shuffle(others)
        c_cases = must + others[:12]
    else:
        c_cases = collect
    if ctx.replay and ctx.replay.get("case"):
        c = ctx.replay["case"]
        rl_cases, v_cases, c_cases, ess = [], [], [], []
        if "rec" in c:
            rl_cases = ess = [dict((k_, c[k_]) for k_ in ("rec", "dev", "name", "runner"))]
        elif "prog" in c:
            v_cases = [dict((k_, c[k_]) for k_ in ("name", "scen", "end", "prog", "arg", "cpu", "cpuHard", "fsize", "tl_us", "ml_kib", "calib", "runner"))]
        else:
            c_cases = [dict((k_, c[k_]) for k_ in ("n", "volume", "chunk", "delay_us"))]

    th.join()
    if "err" in built:
        raise built["err"]
    probe = built["probe"]
    budget = max(ctx.pick(55, 380) - (time.time() - t0), 10)
    cap_ms = 30000
    ctx.vdrive("limits", ["run", _w(ctx, "rl.ndjson", rl_cases), _w(ctx, "v.ndjson", v_cases), _w(ctx, "c.ndjson", c_cases),
                          ctx.path("rlobs.ndjson"), ctx.path("vobs.ndjson"), ctx.path("cobs.ndjson"),
                          probe, ctx.mkdir("run"), "8", str(cap_ms), str(len(ess)), str(int(budget))],
               timeout=ctx.pick(400, 1500))
    rlobs, vobs, cobs = (ctx.read_ndjson(ctx.path(n)) for n in ("rlobs.ndjson", "vobs.ndjson", "cobs.ndjson"))
    ctx.log("limit records: essential=%d optional=%d executed=%d; verdict runs=%d; collector cases=%d" % (
        len(ess), len(rl_cases) - len(ess), len(rlobs), len(vobs), len(cobs)))
    if len(rlobs) < len(ess) or len(vobs) < len(v_cases) or len(cobs) < len(c_cases):
        raise vlib.Inconclusive("driver did not execute all essential cases")

    j = ctx.tlc("Limits_Judge", files={"rlobs.ndjson": rlobs, "vobs.ndjson": vobs, "cobs.ndjson": cobs}, timeout=900)
    ctx.tlc_ok("Limits_Judge", j)
    bad = ctx.read_ndjson(os.path.join(j.dir, "bad.ndjson"))
    drift, incon, vacuous = 0, [], 0
    for b in bad:
        o = {"rl": rlobs, "v": vobs, "c": cobs}[b["kind"]][b["i"] - 1]
        if b["j"] == "viol":
            if b["why"] == "limit-signal-ignored-at-start":
                key = "start-state:%s:signal%d-ignored" % ("container" if o["runner"] in ("cbefore", "cafter") else o["runner"], b["res"])
                ign = o["ign"] if b["kind"] == "rl" else [l["v"] for l in o["report"] if l["t"] == "ign"]
                what = "under %s the program is started with signal %d ignored (ignored on entry: %s; the caller ignores: %s): crossing the limit has no effect" % (
                    o["runner"], b["res"], ign, o["callerign"])
            elif b["kind"] == "rl":
                key = "rl:%s:%s:res%d" % (o["name"], b["why"], b["res"])
                what = "%s under %s: record %s, resource %d: program saw %s" % (
                    b["why"], o["runner"], o["name"], b["res"],
                    json.dumps(o["got"][b["res"]]) if b["res"] >= 0 and o["got"] else "status=%s err=%r" % (o["status"], o["err"][:80]))
            elif b["kind"] == "v":
                key = "verdict:%s:%s:%s" % (o["runner"], o["name"], b["why"])
                what = "%s: %s under %s: status=%s exit=%s time_us=%s mem_kib=%s (tl_us=%s ml_kib=%s), expected status %s" % (
                    b["why"], o["name"], o["runner"], o["status"], o["exit"], o["time_us"], o["mem_kib"], o["tl_us"], o["ml_kib"], b["res"])
            else:
                key = "collector:%s:n=%d:vol=%d:chunk=%d" % (b["why"], o["n"], o["volume"], o["chunk"])
                what = "%s: cap %d, volume %d: retained=%s written=%s werrno=%s wsig=%s blocked=%s" % (
                    b["why"], o["n"], o["volume"], o["retained"], o["written"], o["werrno"], o["wsig"], o["blocked"])
            ctx.violation(key, what, o)
        elif b["j"] == "vacuous":
            vacuous += 1
            ctx.note("vacuous: %s under %s decided before the program ran (mem_kib=%s > ml_kib=%s)" % (o["name"], o["runner"], o["mem_kib"], o["ml_kib"]))
        elif b["j"] == "drift":
            drift += 1
            if drift <= 5:
                ctx.note("DRIFT %s %s" % (b["why"], json.dumps(dict((k_, v) for k_, v in o.items() if k_ not in ("inh", "got")))[:300]))
        else:
            incon.append((b, o))
    ctx.traces = len(rlobs) + len(vobs) + len(cobs)
    ctx.cov["drift"] = drift
    ctx.cov["vacuous_verdict_runs"] = vacuous
    ctx.cov["kernel_truth_mismatches"] = len(incon)
    ctx.cov["limit_record_runs"] = len(rlobs)
    ctx.cov["verdict_runs"] = len(vobs)
    ctx.cov["start_dispositions_checked"] = len(rlobs) + len(vobs)
    ctx.cov["ignored_on_entry_by_runner"] = dict((ru, sorted(set(x for o in rlobs if o["runner"] == ru for x in o["ign"]))) for ru in RUNNERS)
    ctx.cov["bound_exceeded_then_signal_or_cancel"] = sum(1 for o in vobs if o["scen"] in ("mem-over", "time-over") and o["end"] in ("fault:segv", "hang") and o["limited"])
    ctx.cov["collector_cases"] = len(cobs)
    ctx.cov["records_refused_by_kernel_as_modelled"] = sum(1 for o in rlobs if o["status"] == 8)
    ctx.cov["mem_equal_bound_hits"] = sum(1 for o in vobs if o["name"] == "mem-equal" and o["mem_kib"] == o["ml_kib"])
    if rlobs:
        o = rlobs[len(rlobs) // 2]
        ctx.sample(dict(runner=o["runner"], name=o["name"], status=o["status"], got_cpu=o["got"][0] if o["got"] else None))
    for o in vobs[:: max(1, len(vobs) // 3)]:
        ctx.sample(dict((k_, o[k_]) for k_ in ("runner", "name", "end", "status", "exit", "time_us", "mem_kib", "tl_us", "ml_kib")))
    if cobs:
        ctx.sample(cobs[len(cobs) // 2])
    ctx.assumptions += [
        "inherited limits = /proc/<pid>/limits of the process the program is forked from (the driver; the container init)",
        "no CAP_SYS_RESOURCE in the initial user namespace: a record whose hard limit exceeds the inherited one must be refused (Runner Error with text); hard limits above the host's can therefore not be observed in force",
        "value classes: unset, small, >= 2^32 (never a multiple of 2^32 plus the small value of another field)",
        "what ended a verdict program is read from its own report; a CPU burner that vanished under RLIMIT_CPU was ended by SIGXCPU or the hard limit's SIGKILL (both are Time Limit Exceeded)",
        "start state: SIGXCPU/SIGXFSZ must not be ignored on entry unless the driver itself ignores them (SigIgn of /proc/self/status); the limit programs keep the dispositions they inherit; other inherited dispositions are reported (ignored_on_entry_by_runner), not judged here",
        "runner.Limit exists for the ptrace and namespace runners only; in the container only the rlimit verdicts apply",
        "writer blocked = still alive %d s after start (volumes <= 1.4 MB)" % (cap_ms // 1000),
        "`>` vs `>=` at the bound is observable only when a measurement repeats exactly (mem-equal, reported as mem_equal_bound_hits)",
    ]
    if not ctx.violations and not ctx.known_hits and incon:
        raise vlib.Inconclusive("%d observations could not be judged (%s): %s" % (
            len(incon), incon[0][0]["why"], json.dumps(dict((k_, v) for k_, v in incon[0][1].items() if k_ != "inh"))[:700]))
    if incon:
        ctx.note("%d observations not judged (%s)" % (len(incon), incon[0][0]["why"]))
    return dict(evaluations=ctx.traces, distinct=len(set(o["name"] + o["runner"] for o in rlobs)) + len(vobs) + len(cobs),
                rule="one evaluation = one real run (limit record under a runner / verdict program under a runner / collector case), judged by TLC",
                exhaustive=False)


def _w(ctx, name, rows):
    p = ctx.path(name)
    with open(p, "w") as f:
        for r in rows:
            f.write(json.dumps(r) + "\n")
    return p
