"""Shared helpers for the container-family checks (C10 C11 C12 C16 C17)."""
import json
import os
import subprocess
import concurrent.futures as cf


def run_sharded(ctx, sub, items, shards=6, extra_args=(), timeout=1500, env=None):
    """Split items (list of json objects with an 'id') over several driver processes of cmd/cont;
    returns the list of output records in input order."""
    exe = ctx.build_vdrive("cont")
    probe = ctx.probe("cprobe")
    shards = max(1, min(shards, len(items)))
    parts = [items[i::shards] for i in range(shards)]
    outs = []

    def one(i):
        inp = ctx.path("shard", "%s_in_%d.ndjson" % (sub, i))
        out = ctx.path("shard", "%s_out_%d.ndjson" % (sub, i))
        with open(inp, "w") as f:
            for it in parts[i]:
                f.write(json.dumps(it) + "\n")
        rc, o = ctx.sh([exe, sub, probe, inp, out] + list(extra_args), timeout=timeout, env=env, cwd=ctx.scratch)
        return rc, o, out

    with cf.ThreadPoolExecutor(max_workers=shards) as ex:
        res = list(ex.map(one, range(shards)))
    recs = {}
    for rc, o, out in res:
        if rc != 0:
            import vlib
            raise vlib.Inconclusive("driver cont %s exited %d:\n%s" % (sub, rc, o[-4000:]))
        for r in ctx.read_ndjson(out):
            recs[r["id"]] = r
    return [recs.get(it["id"]) for it in items]


HOST_DEF = {"side": "", "ev": "", "k": "", "b": "", "r": "", "sa": False, "cb": "none", "res": ""}
INIT_DEF = {"ev": "", "k": "", "b": "", "ok": False}


def norm_events(rec):
    """type-stable event records for TLC; side "apix" (destroy/killinit bracket) is not a protocol call"""
    host, init = [], []
    for e in rec["host"]:
        if e.get("side") == "apix":
            continue
        d = dict(HOST_DEF)
        for k in HOST_DEF:
            if k in e and e[k] is not None:
                d[k] = e[k]
        host.append(d)
    for e in rec["init"]:
        d = dict(INIT_DEF)
        for k in INIT_DEF:
            if k in e and e[k] is not None:
                d[k] = e[k]
        init.append(d)
    return host, init


A_DEF = {"r": "", "status": 0, "code": 0, "err": "", "ms": 0, "detail": ""}
OP_DEF = {"k": "", "v": "", "sa": False, "cb": "none", "cancel": "none", "code": 0, "loss": False}


def api_calls(rec):
    """pairs (op, answer) from the api call/ret events, aux opens included as open/ok ops"""
    calls = []
    cur = None
    for e in rec["host"]:
        if e.get("side") == "harness" and e.get("ev") == "killinit" and cur is not None:
            cur["loss"] = True      # the transport was lost while this call was in flight
        if e.get("side") not in ("api", "apix"):
            continue
        if e["ev"] == "call":
            op = dict(OP_DEF)
            for k in OP_DEF:
                if k in e and e[k] not in (None, ""):
                    op[k] = e[k]
            op["v"] = e.get("v", "") or ""
            cur = op
        elif e["ev"] == "ret" and cur is not None:
            a = dict(A_DEF)
            for k in A_DEF:
                if k in e and e[k] is not None:
                    a[k] = e[k]
            calls.append({"op": cur, "a": a})
            cur = None
    if cur is not None:   # call without return: hang
        calls.append({"op": cur, "a": dict(A_DEF, r="hang", ms=10 ** 6)})
    return calls
