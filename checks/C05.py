"""C05 -- FS confinement: only configured mounts visible; read-only means read-only; masked paths
reveal nothing; nothing of the host reachable, including through the old root.

  1. MC    spec/Mounts.tla: both mount sequences (raw in-child, container init), one action per
           syscall against a model of the kernel's mount namespace, every table of the menu;
           invariants = the property sentence in the state in which the program is started.
  2. Gen   spec/Mounts_Gen.tla: TLC enumerates every configuration (table x implementation x
           container options); quick = seeded sample, thorough = all tables <= 2 + seeded sample of
           the 3-entry tables.
  3. Bind  harness/cmd/mounts builds every selected table for real through runner/unshare
           (-> forkexec) and through container.Builder, runs probes/mounts.c inside; the namespace
           runs are recorded with strace.
  4. Judge spec/Mounts_Judge.tla judges every observation against the model's final namespace
           (property layer -> VIOLATION, implementation layer -> DRIFT, kernel views that contradict
           each other -> INCONCLUSIVE); spec/Mounts_Trace.tla validates every strace record as a
           behaviour of the raw in-child sequence.
No expectation exists outside TLA+: this file selects, runs, parses strace text and relays verdicts."""
import errno
import glob
import json
import os
import re
import shutil
import threading
import time

import vlib

STRACE_SET = "mount,mkdirat,mknodat,pivot_root,umount2,unlinkat,statfs,chdir,execveat,execve"


def mc_cfg(maxlen, opts, envs, menu="Kinds"):
    return """CONSTANTS
  Menu <- %s
  MaxLen = %d
  ContOpts <- %s
  Envs <- %s
SPECIFICATION Spec
INVARIANTS
  NoFailure
  FoldAgrees
  HostOnlyDuringSetup
  NoPropagation
  RootIsReadOnly
  OldRootUnreachable
  OnlyConfiguredNames
  DeclaredRoEndsRo
  WritableIffDecl
  MaskedRevealNothing
  OnlyDeclaredWritable
ALIAS Alias
CHECK_DEADLOCK FALSE
""" % (menu, maxlen, opts, envs)


class Bg:
    """run f() in a thread; join() re-raises what it raised"""

    def __init__(self, f):
        self.res, self.exc = None, None

        def w():
            try:
                self.res = f()
            except BaseException as e:      # noqa: relayed by join()
                self.exc = e
        self.th = threading.Thread(target=w, daemon=True)
        self.th.start()

    def join(self):
        self.th.join()
        if self.exc is not None:
            raise self.exc
        return self.res


def tlc_bg(ctx, *a, **kw):
    """ctx.tlc in the background.  ctx.tlc numbers its scratch directories with a plain counter, so
    the next run is only started once this one has created its directory."""
    d = os.path.join(ctx.scratch, "tlc%d" % (ctx._tlc_n + 1))
    kw["count"] = False
    b = Bg(lambda: ctx.tlc(*a, **kw))
    while b.th.is_alive() and not os.path.isdir(d):
        time.sleep(0.02)
    return b


def counted(ctx, r):
    ctx.states += r.distinct
    ctx.transitions += r.generated
    return r


def gen_cfg(ctx):
    """Menu: 16 entry kinds (11 produced by the builder helpers, 5 hand-written mount.Mount literals).
    quick: every table of <= 1 entry in every variant (namespace runner + container x 4 option
    sets), + 5 drawn 2-entry and 15 drawn 3-entry tables, each with the namespace runner and one
    drawn container variant; thorough: every table of <= 1 entry in every variant, 160 of the 256
    2-entry tables and 260 of the 4096 3-entry tables, each with the namespace runner and one drawn
    container variant.  TLC draws (Randomization, -seed)."""
    return """CONSTANTS
  MaxLen = 3
  ContOpts <- ContOptsMain
  FullLen = %d
  NShort = %d
  NLong = %d
INIT Init
NEXT Next
""" % ctx.pick((1, 5, 15), (1, 160, 260))


# ---------------------------------------------------------------- strace text -> events
CALL = re.compile(r"^(\w+)\((.*)\)\s+= (-?\d+|\?)(?: (E\w+))?")


def split_args(s):
    """split a strace argument list at top-level commas"""
    out, cur, depth, instr, esc = [], "", 0, False, False
    for ch in s:
        if instr:
            cur += ch
            if esc:
                esc = False
            elif ch == "\\":
                esc = True
            elif ch == '"':
                instr = False
            continue
        if ch == '"':
            instr = True
            cur += ch
        elif ch in "{[(":
            depth += 1
            cur += ch
        elif ch in "}])":
            depth -= 1
            cur += ch
        elif ch == "," and depth == 0:
            out.append(cur.strip())
            cur = ""
        else:
            cur += ch
    if cur.strip():
        out.append(cur.strip())
    return out


def unq(a):
    if a.startswith('"'):
        return a[1:a.rindex('"')]
    return ""      # NULL or an address strace did not dereference


def flags(a, prefix):
    if a in ("0", "NULL", ""):
        return []
    return sorted(x[len(prefix):] if x.startswith(prefix) else x for x in a.split("|"))


def parse_trace(text, root, srcdir, lockdir, sharedir=None, flipdir=None):
    """events of the mount block of one launch (everything before execve, minus the work-dir chdir)"""
    ev, done, failed_parse = [], False, []

    def path(p):
        if p == "/":
            return "slash", []
        if p == root:
            return "root", []
        if p.startswith("/"):
            return "abs", [c for c in p.split("/") if c]
        return "rel", [c for c in p.split("/") if c]

    def src(p):
        for d in (srcdir, lockdir, sharedir, flipdir):
            if d and p.startswith(d + "/"):
                return p[len(d) + 1:]
        return p

    for line in text.splitlines():
        m = CALL.match(line)
        if not m:
            continue
        name, args, ret, en = m.group(1), split_args(m.group(2)), m.group(3), m.group(4)
        r = 0 if ret == "0" else getattr(errno, en or "", -1)
        e = None
        if name in ("execveat", "execve"):
            done = ret == "0"
            break
        if name == "mount":
            a, p = path(unq(args[1]))
            e = dict(k="mount", src=src(unq(args[0])), abs=a, tgt=p, fst=unq(args[2]), fl=flags(args[3], "MS_"))
        elif name in ("mkdirat", "mknodat"):
            a, p = path(unq(args[1]))
            e = dict(k="mkdir" if name == "mkdirat" else "mknod", src="", abs=a, tgt=p, fst="", fl=[])
        elif name == "statfs":
            fm = re.search(r"f_flags=([A-Z_|0-9a-fx]+)", m.group(2))
            fl = [x for x in flags(fm.group(1) if fm else "", "ST_") if x != "VALID"]
            e = dict(k="statfs", src=src(unq(args[0])), abs="abs", tgt=[], fst="", fl=fl)
        elif name == "pivot_root":
            a, _ = path(unq(args[0]))
            e = dict(k="pivot", src="", abs=a, tgt=path(unq(args[1]))[1], fst="", fl=[])
        elif name == "umount2":
            a, p = path(unq(args[0]))
            e = dict(k="umount", src="", abs=a, tgt=p, fst="", fl=flags(args[1], "MNT_"))
        elif name == "unlinkat":
            a, p = path(unq(args[1]))
            e = dict(k="rmdir" if "AT_REMOVEDIR" in args[2] else "unlink", src="", abs=a, tgt=p, fst="", fl=[])
        elif name == "chdir":
            a, p = path(unq(args[0]))
            if a == "slash":
                continue        # Runner.WorkDir, after the mount block
            e = dict(k="chdir", src="", abs=a, tgt=p, fst="", fl=[])
        if e is not None:
            e["r"] = r
            ev.append(e)
    return ev, done


def prepare_bins(ctx):
    # probe and driver share the family name and therefore the output path bin/mounts:
    # build the probe first, keep it under another name, then build the driver
    probe = ctx.path("bin", "vprobe-mounts")
    if not os.path.exists(probe):
        shutil.copy(ctx.probe("mounts"), probe)
        os.chmod(probe, 0o755)
    return ctx.build_vdrive("mounts"), probe


def run_driver(ctx, cases, tag, strace):
    """build the cases for real; returns (observations, {case id: strace text})"""
    if not cases:
        return [], {}
    exe, probe = prepare_bins(ctx)
    work = ctx.mkdir("run-" + tag)
    cfile = ctx.path(tag + "-cases.ndjson")
    ofile = ctx.path(tag + "-obs.ndjson")
    with open(cfile, "w") as fh:
        for c in cases:
            fh.write(json.dumps(c, separators=(",", ":")) + "\n")
    cmd = ["unshare", "-m", "--propagation", "private"]
    sdir = None
    if strace:
        sdir = ctx.mkdir("strace-" + tag)
        cmd += ["strace", "-ff", "--seccomp-bpf", "-o", os.path.join(sdir, "t"), "-s", "512", "-e", "trace=" + STRACE_SET]
    cmd += [exe, "run", cfile, ofile, probe, work, "8"]
    rc, out = ctx.sh(cmd, timeout=ctx.pick(900, 3600), cwd=ctx.scratch, env={"GOMAXPROCS": "8"})
    if rc != 0:
        raise vlib.Inconclusive("driver (%s) exited %d:\n%s" % (tag, rc, out[-4000:]))
    obs = ctx.read_ndjson(ofile)
    if len(obs) != len(cases):
        raise vlib.Inconclusive("driver (%s) wrote %d observations for %d cases" % (tag, len(obs), len(cases)))
    texts = {}
    if sdir:
        # the record of a sandbox child is the file that mounts the tmpfs on <work>/c<ID>/root
        pat = re.compile(r'^mount\("tmpfs", "' + re.escape(work) + r'/c(\d+)/root", "tmpfs"', re.M)
        for f in glob.glob(os.path.join(sdir, "t.*")):
            txt = open(f, errors="replace").read()
            m = pat.search(txt)
            if m:
                texts[int(m.group(1))] = txt
    left = [x for x in os.listdir(work) if x not in ("locked", "shared", "flip")]
    if left:
        ctx.note("driver left %d case directories behind" % len(left))
    return obs, texts


def build_traces(ctx, fobs, texts):
    traces = []
    byid = {o["case"]["id"]: o for o in fobs}
    work = os.path.join(ctx.scratch, "run-fork")
    for cid in sorted(texts):
        o = byid.get(cid)
        if o is None:
            continue
        ev, done = parse_trace(texts[cid], "%s/c%d/root" % (work, cid), "%s/c%d/src" % (work, cid),
                               "%s/locked/c%d" % (work, cid), "%s/shared/c%d" % (work, cid), "%s/flip/c%d" % (work, cid))
        traces.append(dict(case=o["case"], srcfl=o["srcfl"], lockfl=o["lockfl"], sharefl=o["sharefl"],
                           srcshared=o["srcshared"], flipfl=o["flipfl"], done=done, ev=ev))
    return traces


def key_of(b, o):
    c = o["case"]
    k = "%s:%s:%s" % (b["w"], c["impl"], b["k"] or "-")
    if b["w"] == "mask-exposed":
        k = "mask-exposed:%s:devnull=%s:%s" % (c["impl"], str(c["devnull"]).lower(), "/".join(b["p"][:1]))
    if b["w"] in ("extra-visible",):
        k = "extra-visible:%s:/%s" % (c["impl"], "/".join(b["p"][:1]))
    if b["w"] == "host-canary-reachable":
        k = "host-canary-reachable:%s:%s" % (c["impl"], "old_root" if b["k"].startswith("/old_root") else "direct")
    if b["w"] == "mask-exposed-to-next-program":
        k = "mask-exposed-to-next-program:%s:devnull=%s:%s" % (c["impl"], str(c["devnull"]).lower(), "/".join(b["p"][:1]))
    if b["w"] == "receives-propagation":
        k = "receives-propagation:%s:%s" % (c["impl"], b["k"])
    if b["w"] == "launch-failed":
        k = "launch-failed:%s:%s:%s" % (c["impl"], b["k"], ",".join(sorted(set(c["kinds"]))))
    return k


def run(ctx):
    # fewer GC threads: the machine is shared with other checks (measured 2x faster under load)
    ctx.env["JDK_JAVA_OPTIONS"] = "-XX:ParallelGCThreads=2"
    bg = []
    try:
        return run_body(ctx, bg)
    finally:
        for b in bg:            # never leave a TLC / driver process behind, whatever happened
            b.th.join()


def run_body(ctx, bg):
    # ---- 1. design level (in the background while the sandboxes are built; one MC run at a time)
    def design():
        if ctx.replay:
            return "not run for a replay"
        # vacuity: Mounts.tla ASSUMEs that every syscall kind is executed over the tables <= 1
        # (checked at the start of every MC run).  TLC -coverage per named action is 5-10x slower:
        if os.environ.get("VERIF_C05_COVERAGE"):
            rc = counted(ctx, tlc_bg(ctx, "Mounts", cfg="Mounts_MC1.cfg", workers=2, timeout=2400, coverage=True).join())
            ctx.tlc_ok("Mounts MC (tables <= 1, coverage)", rc)
            zero = rc.coverage_zero()
            acts = len(set(re.findall(r"^<(\w+) line [^>]*>: \d+:\d+$", rc.out, re.M)))
            if zero or acts < 20:
                ctx.note("MC actions never taken: %s (%d actions seen)" % (",".join(sorted(set(zero))), acts))
            ctx.cov["mc_actions_taken"] = acts - len(set(zero))
        if ctx.quick():
            r = counted(ctx, tlc_bg(ctx, "Mounts", cfg=mc_cfg(2, "ContOptsMain", "EnvsOne"), workers=4, timeout=900).join())
            ctx.tlc_ok("Mounts MC (tables <= 2)", r)
            return "full 16-kind menu, tables<=2 x {fork, cont x 4 option sets}: %d states" % r.distinct
        r = counted(ctx, tlc_bg(ctx, "Mounts", workers=4, timeout=2400).join())
        ctx.tlc_ok("Mounts MC (tables <= 3)", r)
        r2 = counted(ctx, tlc_bg(ctx, "Mounts", cfg="Mounts_MC2.cfg", workers=4, timeout=2400).join())
        ctx.tlc_ok("Mounts MC (tables <= 2, full menu, two environments)", r2)
        r1 = counted(ctx, tlc_bg(ctx, "Mounts", cfg="Mounts_MC1.cfg", workers=4, timeout=2400).join())
        ctx.tlc_ok("Mounts MC (tables <= 1, all option sets, two environments)", r1)
        return ("13-kind core menu, tables<=3 x {fork, cont x 2 option sets}: %d states; full 16-kind menu, tables<=2 x {fork, cont x 4} x 2 envs: %d states; "
                "tables<=1 x {fork, cont x 8} x 2 envs: %d states") % (r.distinct, r2.distinct, r1.distinct)
    mc = Bg(design)
    bg.append(mc)
    time.sleep(0.3)
    bins = Bg(lambda: prepare_bins(ctx))        # go build / gcc while TLC enumerates
    bg.append(bins)
    # ---- 2. TLC enumerates the configurations
    if ctx.replay:
        sel = [dict(ctx.replay["case"]["case"], id=1)] if isinstance(ctx.replay.get("case"), dict) and "case" in ctx.replay["case"] else []
        if not sel:
            raise vlib.Inconclusive("replay file carries no case")
        total = 1
    else:
        g = tlc_bg(ctx, "Mounts_Gen", cfg=gen_cfg(ctx), timeout=900, extra=["-seed", str(1000 + ctx.seed)]).join()
        ctx.tlc_ok("Mounts_Gen", g)
        m = re.search(r'"generated", (\d+), "of", (\d+)', g.out)
        total = int(m.group(2)) if m else 0
        sel = [dict(c, id=i + 1) for i, c in enumerate(ctx.read_ndjson(os.path.join(g.dir, "cases.ndjson")))]
        if not sel:
            raise vlib.Inconclusive("Mounts_Gen wrote no cases")
    fork = [c for c in sel if c["impl"] == "fork"]
    cont = [c for c in sel if c["impl"] == "cont"]
    ctx.log("cases: %d enumerated, %d selected (%d namespace runner, %d container)" % (total, len(sel), len(fork), len(cont)))
    # ---- 3. the real code
    bins.join()
    fb = Bg(lambda: run_driver(ctx, fork, "fork", strace=True))
    bg.append(fb)
    cobs, _ = run_driver(ctx, cont, "cont", strace=False)
    ctx.log("container: %d sandboxes" % len(cobs))
    fobs, texts = fb.join()
    ctx.log("namespace runner: %d sandboxes, %d strace records" % (len(fobs), len(texts)))
    obs = fobs + cobs
    # ---- 4a. TLC judges every observation
    jb = tlc_bg(ctx, "Mounts_Judge", files={"obs.ndjson": obs}, timeout=ctx.pick(900, 2400), heap="10g")
    bg.append(jb)
    tb = None
    traces = build_traces(ctx, fobs, texts)
    if fork and len(traces) != len(fork):
        raise vlib.Inconclusive("strace records for %d of %d namespace-runner launches" % (len(traces), len(fork)))
    if traces:
        tb = tlc_bg(ctx, "Mounts_Trace", files={"traces.ndjson": traces}, timeout=ctx.pick(900, 2400), heap="10g")
        bg.append(tb)
    j = counted(ctx, jb.join())
    ctx.tlc_ok("Mounts_Judge", j)
    bad = ctx.read_ndjson(os.path.join(j.dir, "bad.ndjson"))
    drift = 0
    model = []      # kernel views contradict the model: nothing of this run can be trusted
    setup = []      # sandboxes that could not be started for reasons outside the mount block
    mi_drift = set()
    breached = set(b["i"] for b in bad if b["c"] == "viol")
    for b in bad:
        o = obs[b["i"] - 1]
        c = o["case"]
        what = "%s %s at /%s (%s table %s links=%s masks=%s devnull=%s)" % (
            b["w"], b["k"], "/".join(b["p"]), c["impl"], ",".join(c["kinds"]), c["linkm"], c["maskm"], c["devnull"])
        if b["c"] == "viol":
            ctx.violation(key_of(b, o), what + (": " + o["err"] if o.get("err") else ""), o)
        elif b["c"] == "drift":
            drift += 1
            if b["w"] == "mountinfo":
                mi_drift.add(c["id"])
            if drift <= 8:
                ctx.note("DRIFT " + what)
        elif b["c"] == "setup":
            setup.append(what + ": " + o.get("err", ""))
        elif b["i"] in breached:
            # two kernel views of a sandbox that already breaches the property (e.g. the whole host tree
            # under /old_root, which other mounts keep changing) say nothing about the model
            ctx.note("kernel views differ on a breached sandbox: " + what)
        else:
            model.append(what)
    # ---- 4b. TLC validates the strace records of the raw in-child sequence
    byid = {o["case"]["id"]: o for o in fobs}
    rejected = set()
    if tb is not None:
        t = counted(ctx, tb.join())
        ctx.tlc_ok("Mounts_Trace", t)
        for b in ctx.read_ndjson(os.path.join(t.dir, "bad.ndjson")):
            tr = traces[b["t"] - 1]
            rejected.add(tr["case"]["id"])
            drift += 1
            nxt = tr["ev"][b["matched"]] if b["matched"] < len(tr["ev"]) else "(trace ends after %d of %d steps)" % (b["matched"], b["plen"])
            if drift <= 8:
                ctx.note("DRIFT raw mount sequence, table %s: event %d not a step of the spec: %s" % (
                    ",".join(tr["case"]["kinds"]), b["matched"] + 1, json.dumps(nxt)))
    # the code did exactly what the spec says (trace accepted) and still the kernel's table differs
    # from the model's: the model of the kernel is wrong
    for cid in sorted(mi_drift):
        if cid in byid and cid not in rejected:
            model.append("mountinfo differs from the model although the strace record was accepted (case %d, table %s)" % (
                cid, ",".join(byid[cid]["case"]["kinds"])))
    ctx.cov["mc"] = mc.join()
    ctx.traces = len(traces)
    ctx.cov["drift"] = drift
    ctx.cov["sandboxes"] = dict(namespace_runner=len(fobs), container=len(cobs))
    ctx.cov["kernel_truth_mismatches"] = len(model)
    ctx.cov["enumerated_configurations"] = total
    ctx.cov["host_mounts_during_sandbox_lifetime"] = sum(o.get("dynmounted", 0) for o in obs)
    for o in (fobs[:1] + cobs[:1]):
        ctx.sample(dict(case=o["case"], started=o["started"], tree=o["tree"][:12], tests=[dict(p=x["p"], k=x["k"], ro=x["ro"]) for x in o["tests"]],
                        masks=o["masks"][:4], mi=o["mi"][:6], oldroot=o["oldroot"], canary=o["canary"]))
    if traces:
        ctx.sample(dict(trace_of=traces[0]["case"]["kinds"], ev=traces[0]["ev"][:10]))
    ctx.assumptions += [
        "kernel: a bind remount with MS_RDONLY makes the mount read-only for every modification the probe tries; cross-checked per sandbox (statvfs flag, mountinfo, behaviour must agree, else inconclusive)",
        "path resolution model: the last mount whose mount point is a prefix of the path serves it (no moves, no partial unmounts); validated against /proc/<pid>/mountinfo of every sandbox",
        "/proc/<pid>/mountinfo lists mounts in creation order (kernel >= 6.8, here 6.18); on older kernels the table comparison would show up as DRIFT / inconclusive, never as a violation",
        "propagation: the driver runs in its own mount namespace (unshare -m --propagation private) and makes one tmpfs shared; sources of the 'bdros' kind live there and the driver mounts a tmpfs with a marker on <source>/dyn from the sync callback (sandbox set up, program about to be exec'd); all other host mounts are private here, so only that kind can show propagation",
        "source state: sources of the 'bdrof' kind live on a per-case tmpfs that the driver keeps read-only (bind remount) while Builder.FilterNotExist/Build run and makes writable before the sandbox runs: the mount table is built once from host state that later changes",
        "the sandboxed program has no capabilities (runner/unshare and the container both drop them), so remount attempts are expected to fail with EPERM",
        "a launch that fails inside the mount block on a table the model can build is counted as a breach (the configured mounts are not provided); failures elsewhere are inconclusive",
        "container: link/mask/devnull options explored as 4 combinations (all 8 in the model); network and ipc namespaces are not unshared by the driver",
        "thorough real runs: every table of <= 1 entry in every variant, 160 of the 256 two-entry and 260 of the 4096 three-entry tables (drawn by TLC per seed) with the namespace runner and one drawn container variant; model checking covers every table <= 2 over the full menu and every table <= 3 over the 13-kind core menu",
        "'declared read-only' = the MS_RDONLY bit of the entry; hand-written mount.Mount literals (flag sets the builder helpers never produce) are part of the menu",
    ]
    ctx.cov["sandboxes_not_started"] = len(setup)
    if model:
        raise vlib.Inconclusive("the model disagrees with kernel truth on %d sandboxes, first: %s" % (len(model), model[0]))
    if setup:
        if not ctx.violations and not ctx.known_hits:
            raise vlib.Inconclusive("%d sandboxes could not be started, first: %s" % (len(setup), setup[0]))
        ctx.note("%d sandboxes could not be started (not judged), first: %s" % (len(setup), setup[0]))
    nontriv = sum(1 for o in obs if o["case"]["kinds"])
    return dict(evaluations=len(obs) + len(traces), distinct=nontriv,
                rule="one evaluation = one real sandbox judged by TLC (+ one per strace record validated); non-trivial = non-empty mount table",
                exhaustive=False)
