"""C12 -- no residue: no processes, zombies, descriptors or goroutines left behind.

MC: ProcTree (tree shapes x group/session escapes x who ends first, per runner) -- Clean at return.
Gen: TLC enumerates ProcTree's initial states; Python renders each as a cprobe tree.  Real runs: the
tree is built for real under the ptrace / namespace / container runners; after the run has returned the
host's view (/proc scan by nonce, zombie children of the host, children of the container init after the
next call) is judged by TLC (Residue_Judge).  Resource counters (descriptors, children, goroutines of
the host; descriptors and children of init) over repeated histories of operations -- successful,
failing, cancelled -- and build/destroy loops must return to their baseline."""
import json
import os

import contlib
import vlib

OP = lambda k, v="", sa=False, cb="none", cancel="none": {"k": k, "v": v, "sa": sa, "cb": cb, "cancel": cancel}
HISTORY = [
    OP("ping"), OP("open", "ok"), OP("open", "mixed"), OP("open", "bad"), OP("open", "empty"), OP("delete", "ok"), OP("delete", "bad"),
    OP("symlink", "ok"), OP("symlink", "bad"), OP("reset"),
    OP("exec", "run", False, "ok"), OP("exec", "run", True), OP("exec", "noent"), OP("exec", "enoexec", False, "ok"),
    OP("exec", "noexec", True), OP("exec", "dir"), OP("exec", "emptyargs"), OP("exec", "run", False, "fail"), OP("exec", "run", True, "fail"),
    OP("exec", "sleep", False, "ok", "running"), OP("exec", "sleep", True, "none", "pre"), OP("exec", "runslow", False, "none", "race"),
    OP("exec", "term"), OP("exec", "hugearg"), OP("open", "longbatch"), OP("reset"),
    # descriptors that travel with the request (executable, cgroup): released in the container after each run
    OP("exec", "fdexec", False, "ok"), OP("exec", "fdexec", True), OP("exec", "cgexec", False, "ok"), OP("exec", "cgexec", True),
    OP("exec", "fdexec", False, "fail"), OP("exec", "cgexec", True, "fail"),
]


def render(par, esc):
    """ProcTree initial state -> cprobe tree spec of the root's children; returns (spec, nodes)"""
    n = len(par)
    kids = {i: [c for c in range(2, n + 1) if par[c - 1] == i] for i in range(1, n + 1)}
    flag = {"none": "", "setsid": "s", "setpgid": "g", "daemon": "d", "untraced": "u"}
    created = [1]

    def node(i):
        created.append(i)
        return flag[esc[i - 1]] + "l(" + "".join(node(c) for c in kids[i]) + ")"
    spec = "".join(node(c) for c in kids[1])
    return spec, len(created)


def run(ctx):
    m = ctx.tlc("OpenLedger", cfg="CONSTANTS DrainOnDestroy = TRUE\nSPECIFICATION Spec\nINVARIANT NoLimbo\nCHECK_DEADLOCK FALSE\n", timeout=300)
    ctx.tlc_ok("OpenLedger MC", m)
    # the container protocol machine with the descendant ledger: init is never ready for the next command
    # while a descendant of the previous program is alive or an unreaped zombie (ReapedAtServe); the variant
    # without the wait-all pass on the refusal path must fail (vacuity witness)
    cfg = open(os.path.join(vlib.VERIF, "spec", "ContainerProto_MC.cfg")).read().replace("MaxCalls = 3", "MaxCalls = %d" % ctx.pick(1, 2))
    cfg = cfg.replace('{"ping", "open", "delete", "exec"}', '{"ping", "exec"}')
    cfg = "\n".join(l for l in cfg.splitlines() if not l.startswith("PROPERTIES")) + "\n"
    m = ctx.tlc("ContainerProto", cfg=cfg, workers=4, timeout=1500)
    ctx.tlc_ok("ContainerProto MC (ReapedAtServe)", m)
    m = ctx.tlc("ContainerProto", cfg=cfg.replace("ReapOnRefusal = TRUE", "ReapOnRefusal = FALSE"), workers=4, timeout=1500, count=False)
    if m.invariant != "ReapedAtServe":
        raise vlib.Inconclusive("ContainerProto without the wait-all pass on the refusal path should violate ReapedAtServe")
    for r in ("ptrace", "unshare", "container"):
        m = ctx.tlc("ProcTree", cfg="ProcTree_%s.cfg" % r, workers=2, timeout=600)
        ctx.tlc_ok("ProcTree MC (%s)" % r, m)
    g = ctx.tlc("ProcTree_Gen", cfg="CONSTANTS N = 4\nINIT Init\nNEXT Next\n", timeout=300, count=False)
    ctx.tlc_ok("ProcTree_Gen", g)
    raw = ctx.read_ndjson(os.path.join(g.dir, "cases.ndjson"))
    raw.sort(key=lambda c: json.dumps(c, sort_keys=True))
    seen, trees = set(), []
    for c in raw:
        spec, nodes = render(c["par"], c["esc"])
        k = (c["runner"], spec, c["end"])
        if k in seen or nodes < 2:
            continue
        seen.add(k)
        trees.append({"runner": c["runner"], "tree": spec, "nodes": nodes, "end": c["end"], "rootfirst": c["end"] == "exit"})
    ctx.cov["distinct_trees_generated"] = len(trees)
    ctx.rng.shuffle(trees)
    if ctx.quick():
        per = {}
        keep = []
        for t in trees:
            k = (t["runner"], t["end"])
            if per.get(k, 0) < 5:
                per[k] = per.get(k, 0) + 1
                keep.append(t)
        trees = keep
    else:
        trees = trees[:700]
    trees.sort(key=lambda t: t["runner"])          # one container session per shard serves many trees
    trees = [dict(t, id=i + 1) for i, t in enumerate(trees)]
    ctx.log("trees: %d" % len(trees))
    tobs = contlib.run_sharded(ctx, "c12tree", trees, shards=6, timeout=2400)
    reps = ctx.pick(3, 25)
    ctr = [{"id": 1, "what": "session", "ops": HISTORY, "reps": reps},
           {"id": 2, "what": "session", "ops": list(reversed(HISTORY)), "reps": reps},
           {"id": 3, "what": "build", "ops": [], "reps": ctx.pick(5, 40)},
           {"id": 4, "what": "ptrace", "ops": [], "reps": ctx.pick(3, 20)},
           {"id": 5, "what": "unshare", "ops": [], "reps": ctx.pick(3, 20)},
           {"id": 6, "what": "openloss", "ops": [], "reps": ctx.pick(4, 20)},
           {"id": 7, "what": "buildfail", "ops": [], "reps": ctx.pick(4, 20)},
           {"id": 8, "what": "clonefail", "ops": [], "reps": ctx.pick(4, 20)},
           {"id": 9, "what": "fdtight", "ops": [], "reps": ctx.pick(3, 15)}]
    cobs = contlib.run_sharded(ctx, "c12ctr", ctr, shards=9, timeout=2400)
    bad_setup = [o for o in tobs + cobs if o is None or o.get("setup")]
    if bad_setup:
        raise vlib.Inconclusive("%d cases could not be set up: %s" % (len(bad_setup), json.dumps(bad_setup[0])[:500]))
    notseen = [o for o in tobs if o["seen"] < 2]
    ctx.cov["trees_not_fully_observed"] = len(notseen)
    for o in tobs + cobs:
        o.pop("setup", None)
    j = ctx.tlc("Residue_Judge", files={"treeobs.ndjson": tobs, "ctrobs.ndjson": cobs}, timeout=600)
    ctx.tlc_ok("Residue_Judge", j)
    for b in ctx.read_ndjson(os.path.join(j.dir, "bad.ndjson")):
        if b["kind"] == "tree":
            o = tobs[b["i"] - 1]
            what = "hang" if o["r"] == "hang" else "alive" if o["alive"] else "zombie" if o["zombies"] else "initkids"
            esc = "".join(sorted(set(ch for ch in o["tree"] if ch in "sgdu"))) or "-"
            ctx.violation("tree:%s:%s:end=%s:esc=%s" % (o["runner"], what, o["end"], esc),
                          "after the run returned: alive=%d zombies=%d init children=%d r=%s" % (o["alive"], o["zombies"], o["initkids"], o["r"]), o)
        else:
            o = cobs[b["i"] - 1]
            grown = [k for k in ("fds", "kids", "gor", "ifds", "ikids") if o["end"][k] > o["base"][k]]
            ctx.violation("counter:%s:%s" % (o["what"], "+".join(grown)),
                          "resource counters did not return to baseline after %d repetitions: base=%s end=%s" % (o["reps"], o["base"], o["end"]), o)
    ctx.traces += len(tobs) + len(cobs)
    ctx.sample(tobs[0]); ctx.sample(cobs[0] if cobs else {})
    ctx.cov["counter_runs"] = [{k: o[k] for k in ("what", "reps", "base", "end")} for o in cobs]
    ctx.assumptions += ["processes of a program are found by a nonce in /proc/*/cmdline; zombies via /proc/<pid>/task/*/children + stat",
                        "SIGKILL is asynchronous: a process may take up to 2 s to disappear after the run returned; counters may take up to 3 s to settle",
                        "leaving the process group (setsid/setpgid/daemonise) only under the pid-namespace based runners, as the property states"]
    return dict(evaluations=len(tobs) + len(cobs), distinct=len({(o["runner"], o["tree"], o["end"]) for o in tobs}),
                rule="TLC-enumerated ProcTree initial states rendered as real process trees; counters over %d repetitions of a %d-op history" % (reps, len(HISTORY)),
                exhaustive=False)
