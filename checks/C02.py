"""C02 -- the ptrace runner presents to the policy the path the kernel's own resolution leads to, and the
right access class.

1. PathWalkMC: TLC explores the kernel walk state machine from every (forest, start directory, path string,
   follow/no-follow) within the bound: terminates, deterministic, equals the operator Resolve, idempotent.
2. PathWalk_Gen: TLC decodes/enumerates the cases (walk family W, open-flag family K, argument family A,
   memory-placement family M: where the string lies relative to a page boundary of the caller's memory,
   name family N: names that look like something else -- " (deleted)" suffix, leading ".." -- in the string,
   the cwd, the directory behind a descriptor; link family L; dynamic family D: the same call before and
   while two nodes of the tree are exchanged, in one traced run).
3. `pathwalk run`: the forests are materialised; the C probe runs the script twice: directly, reporting the
   kernel's own answer for each (descriptor, name) pair, and under the REAL ptrace runner with a recording
   handler, performing every scripted raw system call.
4. PathWalk_Judge: TLC judges every line: presented path(s) = Resolve, class in ClassSet, and the reference
   walk itself against the kernel truth (disagreement = model wrong = inconclusive, never a violation)."""
import json
import os
import threading
import time

import vlib

KFLAGS_Q = ["O_CREAT", "O_EXCL", "O_TRUNC", "O_APPEND", "O_NOFOLLOW"]
KFLAGS_T = KFLAGS_Q + ["O_DIRECTORY", "O_CLOEXEC", "O_PATH"]


def gen_cfg(ctx, rest, part, parts, kflags):
    return """CONSTANTS Seed = %d
  Rest = %s
  A3Part = %d
  A3Parts = %d
  KFlags = {%s}
  KKinds = {1}
  AForests = %s
  DForests = %s
  DFull = %s
INIT Init
NEXT Next
""" % (ctx.seed % 1000000, "TRUE" if rest else "FALSE", part, parts, ",".join('"%s"' % k for k in kflags),
       ctx.pick("{1}", "{1, 3, 7}"), ctx.pick("{1, 2, 4, 8}", "{1, 2, 3, 4, 5, 6, 7, 8}") if rest else "{}",
       ctx.pick("FALSE", "TRUE"))


def parallel(jobs):
    """run the callables concurrently (each is one single-worker TLC run); results in order"""
    res, err = [None] * len(jobs), []

    def wrap(k, f):
        try:
            res[k] = f()
        except BaseException as e:      # re-raised in the caller's thread
            err.append(e)
    ts = []
    for k, f in enumerate(jobs):
        t = threading.Thread(target=wrap, args=(k, f))
        t.start()
        ts.append(t)
        time.sleep(0.5)                 # ctx.tlc numbers its scratch directories without a lock
    for t in ts:
        t.join()
    if err:
        raise err[0]
    return res


def mc_cfg(maxlen):
    return """CONSTANTS MaxLen = %d
  Alphabet = {"a","b","l1","l2",".","..",""}
  StepBound = 200
SPECIFICATION Spec
INVARIANTS Terminates Deterministic Agrees Idempotent Canonical
PROPERTIES StepIsNext
CHECK_DEADLOCK FALSE
""" % maxlen


def short(x, n=160):
    """long generated strings (runs of slashes) are abbreviated in messages; the replay file has the case"""
    x = str(x)
    return x if len(x) <= n else "%s...<%d bytes>...%s" % (x[:n // 2], len(x), x[-n // 2:])


def feature(ps):
    if ".." in ps["comps"]:
        return "dotdot"
    return "nodots"


def key_of(verdict, o, arg):
    c = o["case"]
    if arg not in (1, 2):
        return "%s:%s" % (verdict, c["sc"])
    d = c["d1"] if arg == 1 else c["d2"]
    ps = c["p1"] if arg == 1 else c["p2"]
    if d["lo"] == "none":
        dc = "nodirfd"
    elif ps["abs"]:
        dc = "abspath"
    else:
        dc = "%s-%s" % (d["lo"], d["hi"])
    if verdict == "class":
        return "class:%s:arg%d:acc%d:%s" % (c["sc"], arg, c["acc"], "+".join(c["fl"]) or "none")
    mem = ps.get("mem", {}).get("b", "static")
    place = "" if mem == "static" else ":@%s%s%s" % (mem, "+gap" if ps["mem"].get("gap") else "",
                                                     "" if ps["mem"].get("prot", "rw") == "rw" else "+" + ps["mem"]["prot"])
    # a name class of the skeleton (" (deleted)" suffix, leading "..") in the name or in the directory it starts from
    special = lambda comps: any(" " in x or (x.startswith("..") and len(x) > 2) for x in comps)
    where = list(ps["comps"]) + list(ps.get("pdir", []))
    if not ps["abs"]:
        where += list(d["dirp"]) if d["lo"] == "fd" else list(c["cwd"])
    names = ":names" if special(where) else ""
    if c.get("swap", {}).get("p"):
        names += ":exchanged"
    return "%s:%s:arg%d:%s:%s%s%s" % (verdict, c["sc"], arg, dc, feature(ps), place, names)


def run(ctx):
    # ---- 1. design level (runs while the cases are generated and executed; joined before reporting)
    mc = []
    mct = None
    if not ctx.replay:
        def mc_run():
            mc.append(ctx.tlc("PathWalkMC", cfg=mc_cfg(ctx.pick(2, 3)), workers=ctx.pick(2, 3), timeout=1200,
                              count=False))
        mct = threading.Thread(target=mc_run)
        mct.start()
        time.sleep(0.5)
    try:
        obs, verdicts, fam = real_runs(ctx)
    finally:
        if mct:
            mct.join()
    if mct:
        if not mc:
            raise vlib.Inconclusive("PathWalkMC did not run")
        ctx.tlc_ok("PathWalkMC", mc[0])
        ctx.log("PathWalkMC: %d distinct states in %.1fs" % (mc[0].distinct, mc[0].wall))
        ctx.cov["mc_states"] = mc[0].distinct
        ctx.states += mc[0].distinct
        ctx.transitions += mc[0].generated
    return report(ctx, obs, verdicts, fam)


def real_runs(ctx):

    # ---- 2. cases: the sampled part + families K, A in one TLC run, the exhaustive block in slices
    n_sel = 1 if ctx.replay else ctx.pick(600, 3000)
    sel = [[ctx.rng.randrange(1 << 30), ctx.rng.randrange(999983), ctx.rng.randrange(999979), ctx.rng.randrange(999961)]
           for _ in range(n_sel)]
    kfl = ctx.pick(KFLAGS_Q, KFLAGS_T)
    parts = 0 if (ctx.quick() or ctx.replay) else 3
    jobs = [lambda: ctx.tlc("PathWalk_Gen", cfg=gen_cfg(ctx, True, 0, 1, kfl), files={"sel.ndjson": sel},
                            timeout=900, count=False)]
    for k in range(1, parts + 1):
        jobs.append(lambda k=k: ctx.tlc("PathWalk_Gen", cfg=gen_cfg(ctx, False, k, parts, kfl),
                                        files={"sel.ndjson": sel}, timeout=900, count=False))
    gens = parallel(jobs)
    for g in gens:
        ctx.tlc_ok("PathWalk_Gen", g)
    forests = os.path.join(gens[0].dir, "forests.ndjson")
    cases = ctx.path("cases.ndjson")
    with open(cases, "w") as fh:
        for g in gens[1:] + gens[:1]:
            fh.write(open(os.path.join(g.dir, "cases.ndjson")).read())
    ctx.log("PathWalk_Gen: %s s" % ", ".join("%.0f" % g.wall for g in gens))
    if ctx.replay:
        rc = ctx.replay["case"]["case"]
        open(cases, "w").write(json.dumps(rc) + "\n")

    # ---- 3. real runs
    # (ctx.probe would write bin/pathwalk, the name of the driver binary)
    probe = ctx.path("bin", "pathwalk_probe")
    ctx.sh(["gcc", "-static", "-O1", "-Wall", "-o", probe, os.path.join(vlib.VERIF, "probes", "pathwalk.c")], check=True)
    top = ctx.mkdir("forest")
    obsf = ctx.path("obs.ndjson")
    ctx.vdrive("pathwalk", ["run", top, forests, cases, probe, obsf], timeout=1500)
    obs = ctx.read_ndjson(obsf)
    if not obs:
        raise vlib.Inconclusive("driver produced no observations")
    fam = {}
    for o in obs:
        fam[o["case"]["fam"]] = fam.get(o["case"]["fam"], 0) + 1
    ctx.log("traced calls: %d %s" % (len(obs), fam))

    # ---- 4. judge (slices of the observation file in parallel single-worker TLC runs)
    nj = 1 if len(obs) < 4000 else 4
    lines = open(obsf).read().splitlines(True)
    step = (len(lines) + nj - 1) // nj
    js = parallel([lambda a=a: ctx.tlc("PathWalk_Judge", files={"obs.ndjson": "".join(lines[a:a + step])},
                                       timeout=1800, count=False) for a in range(0, len(lines), step)])
    verdicts = []
    for j in js:
        ctx.tlc_ok("PathWalk_Judge", j)
        verdicts += ctx.read_ndjson(os.path.join(j.dir, "verdicts.ndjson"))
    ctx.log("PathWalk_Judge: %s s" % ", ".join("%.0f" % j.wall for j in js))
    return obs, verdicts, fam


def report(ctx, obs, verdicts, fam):
    if len(verdicts) != len(obs):
        raise vlib.Inconclusive("judge wrote %d verdicts for %d observation lines" % (len(verdicts), len(obs)))
    model_bad, drift = [], 0
    judged = sum(1 for v in verdicts if v["judged"])
    for k, b in enumerate(verdicts):
        o = obs[k]
        if b["id"] != o["id"]:
            raise vlib.Inconclusive("verdict line %d carries id %s, observation %s" % (k, b["id"], o["id"]))
        if b["j"] == "ok":
            continue
        if b["j"] == "model":
            model_bad.append((o, b))
            continue
        if b["j"] == "drift":
            drift += 1
            if drift <= 5:
                ctx.note("DRIFT class differs from ClassImpl: %s %s seen=%s" % (
                    o["case"]["sc"], o["case"]["fl"], [s["c"] for s in o["seen"]]))
            continue
        arg = b["arg"]
        exp = b["exp"]
        what = "%s(%s%s): handler saw %s; reference: %s" % (
            o["case"]["sc"], repr(short(o["s1"])), (", " + repr(short(o["s2"]))) if len(exp) == 2 else "",
            [(s["c"], short(s["raw"])) for s in o["seen"]],
            [{"paths": ["/" + "/".join(p) for p in e["paths"]] if e["judged"] else "unjudged",
              "classes": e["classes"]} for e in exp])
        ctx.violation(key_of(b["j"], o, arg), what, o)
    ctx.cov["kernel_truth_mismatches"] = len(model_bad)
    ctx.cov["drift"] = drift
    ctx.cov["families"] = fam
    ctx.traces = len(obs)
    ctx.cov["path_judged_calls"] = judged
    for k in (0, len(obs) // 2, len(obs) - 1):
        o = obs[k]
        ctx.sample({"sc": o["case"]["sc"], "forest": o["case"]["f"], "cwd": o["case"]["cwd"], "d1": o["case"]["d1"],
                    "path": short(o["s1"]), "mem": o["case"]["p1"]["mem"],
                    "seen": [(s["c"], short(s["raw"])) for s in o["seen"]], "truth": o["truth"]})
    ctx.assumptions += [
        "the kernel's answer is taken from open(O_PATH[|O_NOFOLLOW]) + readlink(/proc/self/fd/N) by the probe itself, and a real create+remove when the last component is missing",
        "calls the kernel would fail before touching an object (ENOENT/ENOTDIR in the middle, ELOOP, EBADF) and walks that leave the forest top are not judged on the path, only on the class and the number of consultations",
        "calls that do not follow a final symlink: the link's own canonical path or its target's is accepted; not judged on the path when the target cannot be resolved",
        "procfs aliases are judged where the kernel resolves them into the forest (/proc/self/cwd|root|fd/N/..., /proc/thread-self/cwd/... of a single-threaded program); names that stay under /proc (checkProcPath's dangerous/allowed classification) and AT_EMPTY_PATH are outside the forest model",
        "the placement of the string in the caller's memory (page boundary, unmapped next page) and runs of slashes do not change the kernel's resolution (cross-checked: the truth run places the strings identically)",
        "the handler answers 'ban' for the scripted call, so the forest changes only through the generated exchanges (performed by the probe outside the markers, undone after the call); the presented path is computed before the answer",
    ]
    if model_bad:
        o, b = model_bad[0]
        raise vlib.Inconclusive("reference walk disagrees with the kernel on %d calls, e.g. %s" % (
            len(model_bad), json.dumps({"case": o["case"], "s1": o["s1"], "s2": o["s2"], "truth": o["truth"],
                                        "model": [(e["mf"], e["mn"]) for e in b["exp"]]})[:1500]))
    return dict(evaluations=len(obs), distinct=judged,
                rule="one evaluation = one scripted raw system call executed under the real ptrace runner and judged by TLC; non-trivial = the path of at least one argument was judged (kernel resolution succeeds inside the forest)",
                exhaustive=not ctx.quick())
