"""C02 -- the ptrace runner presents to the policy the path the kernel's own resolution leads to, and the
right access class.

1. PathWalkMC: TLC explores the kernel walk state machine from every (forest, start directory, path string,
   follow/no-follow) within the bound: terminates, deterministic, equals the operator Resolve, idempotent.
2. PathWalk_Gen: TLC decodes/enumerates the cases (walk family W, open-flag family K, argument family A).
3. `pathwalk run`: the forests are materialised; the C probe runs the script twice: directly, reporting the
   kernel's own answer for each (descriptor, name) pair, and under the REAL ptrace runner with a recording
   handler, performing every scripted raw system call.
4. PathWalk_Judge: TLC judges every line: presented path(s) = Resolve, class in ClassSet, and the reference
   walk itself against the kernel truth (disagreement = model wrong = inconclusive, never a violation)."""
import json
import os

import vlib

KFLAGS_Q = ["O_CREAT", "O_EXCL", "O_TRUNC", "O_APPEND", "O_NOFOLLOW"]
KFLAGS_T = KFLAGS_Q + ["O_DIRECTORY", "O_CLOEXEC", "O_PATH"]


def gen_cfg(ctx, all3, kflags):
    return """CONSTANTS Seed = %d
  All3 = %s
  KFlags = {%s}
  KKinds = %s
  AForests = %s
INIT Init
NEXT Next
""" % (ctx.seed % 1000000, "TRUE" if all3 else "FALSE", ",".join('"%s"' % k for k in kflags),
       "{1}", ctx.pick("{1}", "{1, 3, 7}"))


def mc_cfg(maxlen):
    return """CONSTANTS MaxLen = %d
  Alphabet = {"a","b","l1","l2",".","..",""}
  StepBound = 200
SPECIFICATION Spec
INVARIANTS Terminates Deterministic Agrees Idempotent Canonical
PROPERTIES StepIsNext
CHECK_DEADLOCK FALSE
""" % maxlen


def feature(ps):
    if ".." in ps["comps"]:
        return "dotdot"
    return "nodots"


def key_of(verdict, o, arg):
    c = o["case"]
    if arg not in (1, 2):
        return "%s:%s" % (verdict, c["sc"])
    d = c["d1"] if arg == 1 else c["d2"]
    ps = c["p1"] if arg == 1 else c["p2"]
    if d["lo"] == "none":
        dc = "nodirfd"
    elif ps["abs"]:
        dc = "abspath"
    else:
        dc = "%s-%s" % (d["lo"], d["hi"])
    if verdict == "class":
        return "class:%s:arg%d:acc%d:%s" % (c["sc"], arg, c["acc"], "+".join(c["fl"]) or "none")
    return "%s:%s:arg%d:%s:%s" % (verdict, c["sc"], arg, dc, feature(ps))


def run(ctx):
    # ---- 1. design level
    if not ctx.replay:
        m = ctx.tlc("PathWalkMC", cfg=mc_cfg(ctx.pick(2, 3)), workers=ctx.pick(2, 4), timeout=900)
        ctx.tlc_ok("PathWalkMC", m)
        ctx.log("PathWalkMC: %d distinct states in %.1fs" % (m.distinct, m.wall))
        ctx.cov["mc_states"] = m.distinct

    # ---- 2. cases
    n_sel = 1 if ctx.replay else ctx.pick(600, 3000)
    sel = [[ctx.rng.randrange(1 << 30), ctx.rng.randrange(999983), ctx.rng.randrange(999979)] for _ in range(n_sel)]
    g = ctx.tlc("PathWalk_Gen", cfg=gen_cfg(ctx, not ctx.quick() and not ctx.replay, ctx.pick(KFLAGS_Q, KFLAGS_T)),
                files={"sel.ndjson": sel}, timeout=900, count=False, heap="12g")
    ctx.tlc_ok("PathWalk_Gen", g)
    ctx.log("PathWalk_Gen %.1fs" % g.wall)
    forests = os.path.join(g.dir, "forests.ndjson")
    cases = os.path.join(g.dir, "cases.ndjson")
    if ctx.replay:
        rc = ctx.replay["case"]["case"]
        cases = ctx.path("replay_cases.ndjson")
        open(cases, "w").write(json.dumps(rc) + "\n")

    # ---- 3. real runs
    # (ctx.probe would write bin/pathwalk, the name of the driver binary)
    probe = ctx.path("bin", "pathwalk_probe")
    ctx.sh(["gcc", "-static", "-O1", "-Wall", "-o", probe, os.path.join(vlib.VERIF, "probes", "pathwalk.c")], check=True)
    top = ctx.mkdir("forest")
    obsf = ctx.path("obs.ndjson")
    ctx.vdrive("pathwalk", ["run", top, forests, cases, probe, obsf], timeout=1500)
    obs = ctx.read_ndjson(obsf)
    if not obs:
        raise vlib.Inconclusive("driver produced no observations")
    fam = {}
    for o in obs:
        fam[o["case"]["fam"]] = fam.get(o["case"]["fam"], 0) + 1
    ctx.log("traced calls: %d %s" % (len(obs), fam))

    # ---- 4. judge
    return judge(ctx, obs, obsf, fam)


def judge(ctx, obs, obsf, fam):
    j = ctx.tlc("PathWalk_Judge", files={"obs.ndjson": open(obsf).read()}, timeout=1800, heap="12g")
    ctx.tlc_ok("PathWalk_Judge", j)
    ctx.log("PathWalk_Judge %.1fs" % j.wall)
    verdicts = ctx.read_ndjson(os.path.join(j.dir, "verdicts.ndjson"))
    if len(verdicts) != len(obs):
        raise vlib.Inconclusive("judge wrote %d verdicts for %d observation lines" % (len(verdicts), len(obs)))
    model_bad, drift = [], 0
    judged = sum(1 for v in verdicts if v["judged"])
    for k, b in enumerate(verdicts):
        o = obs[k]
        if b["id"] != o["id"]:
            raise vlib.Inconclusive("verdict line %d carries id %s, observation %s" % (k, b["id"], o["id"]))
        if b["j"] == "ok":
            continue
        if b["j"] == "model":
            model_bad.append((o, b))
            continue
        if b["j"] == "drift":
            drift += 1
            if drift <= 5:
                ctx.note("DRIFT class differs from ClassImpl: %s %s seen=%s" % (
                    o["case"]["sc"], o["case"]["fl"], [s["c"] for s in o["seen"]]))
            continue
        arg = b["arg"]
        exp = b["exp"]
        what = "%s(%s%s): handler saw %s; reference: %s" % (
            o["case"]["sc"], repr(o["s1"]), (", " + repr(o["s2"])) if len(exp) == 2 else "",
            [(s["c"], s["raw"]) for s in o["seen"]],
            [{"paths": ["/" + "/".join(p) for p in e["paths"]] if e["judged"] else "unjudged",
              "classes": e["classes"]} for e in exp])
        ctx.violation(key_of(b["j"], o, arg), what, o)
    ctx.cov["kernel_truth_mismatches"] = len(model_bad)
    ctx.cov["drift"] = drift
    ctx.cov["families"] = fam
    ctx.traces = len(obs)
    ctx.cov["path_judged_calls"] = judged
    for k in (0, len(obs) // 2, len(obs) - 1):
        o = obs[k]
        ctx.sample({"sc": o["case"]["sc"], "forest": o["case"]["f"], "cwd": o["case"]["cwd"], "d1": o["case"]["d1"],
                    "path": o["s1"], "seen": [(s["c"], s["raw"]) for s in o["seen"]], "truth": o["truth"]})
    ctx.assumptions += [
        "the kernel's answer is taken from open(O_PATH[|O_NOFOLLOW]) + readlink(/proc/self/fd/N) by the probe itself, and a real create+remove when the last component is missing",
        "calls the kernel would fail before touching an object (ENOENT/ENOTDIR in the middle, ELOOP, EBADF) and walks that leave the forest top are not judged on the path, only on the class and the number of consultations",
        "calls that do not follow a final symlink: the link's own canonical path or its target's is accepted; not judged on the path when the target cannot be resolved",
        "/proc/<pid>/fd|cwd|root magic links and AT_EMPTY_PATH are outside the forest model",
        "the handler answers 'ban' for the scripted call so the forest is never modified; the presented path is computed before the answer",
    ]
    if model_bad:
        o, b = model_bad[0]
        raise vlib.Inconclusive("reference walk disagrees with the kernel on %d calls, e.g. %s" % (
            len(model_bad), json.dumps({"case": o["case"], "s1": o["s1"], "s2": o["s2"], "truth": o["truth"],
                                        "model": [(e["mf"], e["mn"]) for e in b["exp"]]})[:1500]))
    return dict(evaluations=len(obs), distinct=judged,
                rule="one evaluation = one scripted raw system call executed under the real ptrace runner and judged by TLC; non-trivial = the path of at least one argument was judged (kernel resolution succeeds inside the forest)",
                exhaustive=not ctx.quick())
