"""C04 -- the program starts in exactly the requested security state, for every option set.

1. MC: Launch.tla (parent + child of pkg/forkexec as transcribed) over all 512 site-flag
   combinations x namespace/environment rows: InvPost (C04 at the first instruction), no kernel
   refusal, termination (except the known stop-before-sync hang).
2. Gen: TLC decodes the orchestrator's (site,row) index pairs (thorough: full factorial of the nine
   site flags x 2 covering rows + random pairs; quick: seed-sampled subset) into option records.
3. Every case is started for real (forkexec.Runner, static probe as target); non-ptrace cases
   additionally under strace -f.
4. Judge: TLC judges every observation line against Post / Final (Launch_Judge).
5. Trace: TLC validates every strace step trace against Launch's actions (Launch_Trace)."""
import json
import os

import launch_common as lc


def mc_cfg(rows, failmode="none", props=True):
    return """CONSTANTS
  Sites = {%s}
  Rows = {%s}
  FailMode = "%s"
  Lsbs = {{}}
SPECIFICATION Spec
INVARIANTS InvPost InvFinal InvAccepted InvRefusalFold CallbackOnce ExecNeedsApproval FailedNeverRuns ReapedAtReturn ErrorNamesStep FailureReported
PROPERTIES CallbackBeforeExec FailedStaysDead %s
CHECK_DEADLOCK FALSE
""" % (",".join(map(str, range(512))), ",".join(map(str, sorted(rows))), failmode,
       "Starts Returns HangIsReal" if props else "")


def run(ctx):
    from vlib import Inconclusive
    rng = ctx.rng
    quick = ctx.quick()
    # ---- 1. design level
    inter = [0, 1, 2, 4, 128, 256]          # user pid mnt cgfd amb: the row flags the step machine reads
    if quick:
        rows = {rng.choice([0, 1, 3, 5, 257, 2, 6, 130, 384, 511])}
    else:
        # user pid mnt combinations, each once with everything else off and once with the rest (and amb) on
        # (the other row flags only add to the namespace set / the launcher's inheritable+ambient sets)
        rest = [0, 256, 128, 8 | 16 | 32 | 64, 256 | 128, 64 | 256, 8 | 128, 16 | 32 | 256]
        rows = {(a | b | c) | rest[(a + b + c) % 8] for a in (0, 1) for b in (0, 2) for c in (0, 4)} | {511}
    import threading, time, json
    mc = {}

    def do_mc():
        mc["r"] = ctx.tlc("Launch", cfg=mc_cfg(rows), workers=ctx.pick(2, 4), timeout=900, extra=("-lncheck", "final"))
    mct = threading.Thread(target=do_mc)
    mct.start()          # runs while the real launches are made
    time.sleep(0.3)

    # ---- 2. cases: full factorial of the site flags x rows
    cov = lc.covering_rows(rng)
    pairs = set()
    nrow = ctx.pick(1, 2)
    sites = list(range(512))
    if quick:
        sites = rng.sample(sites, 176)       # seed-sampled subset of the factorial; thorough takes all 512
    for s in sites:
        dropping = (s & 1) or (s & 2)
        chosen = rng.sample(cov, min(nrow, len(cov))) if not quick else [rng.choice(cov)]
        for rw in chosen:
            if dropping and rng.random() < 0.75:
                rw |= 256                    # ambient launcher: makes a lost capset visible
            x = rng.randrange(8) if (s & 1) else 0      # credential sites: how groups are asked for x gid-map setting
            y = rng.randrange(9) if (rw & 8) else 7     # UTS rows: host name x domain name request (7 = short, long)
            pairs.add(((y * 8 + x) * 512 + s) * 512 + rw)
    for _ in range(ctx.pick(24, 100)):
        pairs.add(((rng.randrange(9) * 8 + rng.randrange(8)) * 512 + rng.randrange(512)) * 512 + rng.randrange(512))
    # container-sequence family: after the fixed gate prefix (Launch_Gen!SeqGate) a seeded walk over the 24
    # container option records; consecutive positions are the (earlier, later) pairs
    seqidx, last = [], 0
    for i in range(1, ctx.pick(13, 60)):
        k = rng.choice([x for x in range(24) if x != last])
        seqidx.append(i * 32 + k)
        last = k
    g, _, _ = lc.par(lambda: ctx.tlc("Launch_Gen", cfg="CONSTANTS\n  C04Pairs = {%s}\n  C04Seq = {%s}\n  C07Bases = {}\nINIT Init\nNEXT Next\n" % (
        ",".join(map(str, sorted(pairs))), ",".join(map(str, seqidx))),
                                      timeout=600, count=False),
                     lambda: ctx.build_vdrive("launch"), lambda: lc.build_probe(ctx))     # build while TLC generates
    ctx.tlc_ok("Launch_Gen", g)
    cases = ctx.read_ndjson(os.path.join(g.dir, "c04cases.ndjson"))
    cases.sort(key=lambda c: (c["s"], c["r"], c["xd"], c["yd"]))
    for i, c in enumerate(cases):
        c["id"] = i + 1
    ctx.log("generated %d cases (%d site combinations)" % (len(cases), len({c["s"] for c in cases})))

    # ---- 3. real launches
    seqcases = sorted(ctx.read_ndjson(os.path.join(g.dir, "c04seq.ndjson")), key=lambda q: q["pos"])
    seqres = {}

    def do_seq():
        try:
            cf = ctx.path("seq", "cases.ndjson")
            with open(cf, "w") as fh:
                for q in seqcases:
                    fh.write(json.dumps(q) + "\n")
            of = ctx.path("seq", "obs.ndjson")
            ctx.vdrive("launch", ["c04seq", cf, of, ctx.mkdir("seq", "s"), lc.build_probe(ctx)], timeout=600)
            seqres["obs"] = ctx.read_ndjson(of)
        except Exception as ex:
            seqres["err"] = ex
    seqt = threading.Thread(target=do_seq)
    seqt.start()
    runcases = ctx.read_ndjson(os.path.join(g.dir, "c04run.ndjson"))
    runcases.sort(key=lambda q: (q["level"], q["caller"], q["opt"]["sync"]))
    for i, q in enumerate(runcases):
        q["id"] = 200000 + i
    runres = {}

    def do_run():
        try:
            cf = ctx.path("run", "cases.ndjson")
            with open(cf, "w") as fh:
                for q in runcases:
                    fh.write(json.dumps(q) + "\n")
            of = ctx.path("run", "obs.ndjson")
            sd = ctx.mkdir("run", "s")
            os.chmod(os.path.dirname(sd), 0o755)
            ctx.vdrive("launch", ["c04run", cf, of, sd, lc.build_probe(ctx)], timeout=600)
            runres["obs"] = ctx.read_ndjson(of)
        except Exception as ex:
            runres["err"] = ex
    runt = threading.Thread(target=do_run)
    runt.start()
    obs, _ = lc.run_chunks(ctx, "c04", cases, "plain", par=4, timeout=ctx.pick(300, 1500))
    st_pool = [c for c in cases if not c["nostrace"]]
    rng.shuffle(st_pool)
    st_cases = []
    for i, c in enumerate(st_pool[:ctx.pick(40, 160)]):
        c2 = dict(c)
        c2["id"] = 100000 + i
        st_cases.append(c2)
    sobs, logs = lc.run_chunks(ctx, "c04", st_cases, "strace", par=4, strace=True, timeout=ctx.pick(300, 1500))
    ctx.log("launches: %d plain, %d under strace" % (len(obs), len(sobs)))
    runt.join()
    if "err" in runres:
        raise Inconclusive("runner-level driver failed: %s" % runres["err"])
    robs = runres["obs"]
    ctx.log("runner level: %d launches through runner/unshare and runner/ptrace as uid 0 and 65534" % len(robs))
    allobs = obs + sobs + robs
    seqt.join()
    if "err" in seqres:
        raise Inconclusive("container-sequence driver failed: %s" % seqres["err"])
    seqobs = seqres["obs"]
    ctx.log("container sequence: %d Execve calls on one environment" % len(seqobs))

    # ---- 1b. the design-level result
    mct.join()
    r = mc["r"]
    ctx.tlc_ok("Launch MC (C04: %d rows x 512 site combinations)" % len(rows), r)
    ctx.cov["mc_configurations"] = 512 * len(rows)
    ctx.cov["mc_states"] = r.distinct
    ctx.log("MC: %d configurations, %d distinct states, %.0fs" % (512 * len(rows), r.distinct, r.wall))

    # ---- 4/5. TLC judges the observations and validates the strace step traces (two runs, concurrently)
    traces = []
    parsed = {}
    for lf in logs:
        parsed.update(lc.parse_strace(lf))
    byid = {o["id"]: o for o in sobs}
    for cid in sorted(parsed):
        o = byid.get(cid)
        if o is None or not o["started"]:
            continue
        p = parsed[cid]
        traces.append({"id": cid, "opt": o["opt"], "req": {"uid": o["req"]["uid"], "gid": o["req"]["gid"], "hostlen": len(o["req"]["host"]), "domlen": len(o["req"]["domain"])},
                       "child": p["child"], "parent": p["parent"]})
    trace_gap = len(traces) < sum(1 for o in sobs if o["started"]) * 0.9
    j, t = lc.par(lambda: ctx.tlc("Launch_Judge", files={"c04obs.ndjson": allobs, "c04seqobs.ndjson": seqobs}, timeout=900, count=False),
                  lambda: ctx.tlc("Launch_Trace", files={"ltraces.ndjson": traces}, timeout=1200, dfs=True) if traces else None)
    ctx.tlc_ok("Launch_Judge", j)
    bad = ctx.read_ndjson(os.path.join(j.dir, "c04bad.ndjson"))
    drift = 0
    truth = 0
    setups = []
    for b in bad:
        o = allobs[b["i"] - 1]
        tag = "%s [%s]%s" % (b["what"], " ".join(lc.opt_on(o["opt"])),
                             (" via runner/%s called as uid %d" % (o["level"], o["caller"])) if o.get("level") else "")
        if b["j"] == "setup":
            setups.append("driver could not arrange case %d: %s" % (o["id"], tag))
            continue
        if b["j"] == "truth":
            truth += 1
            ctx.note("KERNEL-TRUTH mismatch %s" % tag)
            continue
        if b["j"] == "drift":
            drift += 1
            if drift <= 8:
                ctx.note("DRIFT observed state differs from Launch's final state in %s" % tag)
            continue
        what = b["what"]
        if what.startswith("hang:stop-before-sync-word"):
            key = "hang:stop-before-sync-word"
        else:
            key = "%s:%s" % (what, b["sig"])
        ctx.violation(key, "C04 clause '%s' violated for options [%s]" % (what, " ".join(lc.opt_on(o["opt"]))), slim(o))
    for b in ctx.read_ndjson(os.path.join(j.dir, "c04seqbad.ndjson")):
        o = seqobs[b["i"] - 1]
        tag = "%s at position %d of the container sequence: [%s] after [%s]" % (b["what"], b["pos"], b["cur"], b["prev"])
        if b["j"] == "setup":
            setups.append("container sequence: " + b["what"])
        elif b["j"] == "drift":
            drift += 1
            if drift <= 8:
                ctx.note("DRIFT " + tag)
        else:
            ctx.violation("%s:%s>%s" % (b["what"], b["prev"], b["cur"]), "C04 (container path) " + tag, o)
    ctx.cov["container_sequence_execves"] = len(seqobs)
    ctx.cov["runner_level_launches"] = len(robs)
    ctx.cov["kernel_truth_mismatches"] = truth
    # set-up trouble makes the run inconclusive unless a real breach was observed anyway
    if setups and not ctx.violations:
        raise Inconclusive("; ".join(setups[:5]))
    if trace_gap and not ctx.violations:
        raise Inconclusive("strace logs yielded %d traces for %d started launches" % (len(traces), sum(1 for o in sobs if o["started"])))
    if truth and not ctx.violations:
        raise Inconclusive("%d kernel-truth mismatches (probe self-report vs /proc/<pid> seen from outside)" % truth)

    if traces:
        if t.invariant:
            ctx.note("DRIFT: a strace step trace leads the model to a start state that violates Post (%s)" % t.invariant)
            drift += 1
        elif not t.no_error and not ctx.violations:
            raise Inconclusive("Launch_Trace did not finish cleanly:\n" + t.tail(40))
        tb = ctx.read_ndjson(os.path.join(t.dir, "lbad.ndjson"))
        for b in tb:
            tr = traces[b["t"] - 1]
            drift += 1
            evs = tr["child"] + tr["parent"]
            if drift <= 12:
                ctx.note("DRIFT step trace of case %d [%s] rejected after %d of %d events; child log: %s" % (
                    tr["id"], " ".join(lc.opt_on(tr["opt"])), b["matched"], b["total"],
                    " ".join(e["n"] + ("" if e["ok"] else "!") for e in tr["child"])))
        ctx.traces = len(traces)
        ctx.cov["step_traces_rejected"] = len(tb)
    ctx.cov["drift"] = drift
    ctx.cov["real_launches"] = len(allobs)
    ctx.cov["site_combinations_started"] = len({c["s"] for c in cases})
    for o in (allobs[0], allobs[len(allobs) // 2]):
        ctx.sample(slim(o))
    if traces:
        ctx.sample({"id": traces[0]["id"], "child": [e["n"] for e in traces[0]["child"]], "parent": [e["n"] for e in traces[0]["parent"]]})
    ctx.assumptions += [
        "the launcher carries supplementary groups {4242, 4343}; in a user namespace whose setgroups file says deny the kernel lets nobody change the groups, so 'requested groups' is judged only where setgroups is allowed (the code skips the call for deny + empty list; deny + non-empty list is refused by the kernel and is a C07 recipe)",
        "runner level: runner/unshare.Runner and runner/ptrace.Runner are called by a helper process running as uid 0 and as uid 65534 (unprivileged user namespaces work here); the started program is held against Post of the option record the runner is documented to produce",
        "container path: the Execve calls of one sequence share ONE pre-forked environment; filter f1 / f2 answer personality(2) with errno 77 / 78",
        "launcher is root without CAP_SYS_RESOURCE; requested ids are mapped 1:1 when a user namespace is used",
        "pivot root is only run with a mount namespace and host/domain name only with a UTS namespace (anything else would reconfigure the host)",
        "'capability sets' = effective, permitted, inheritable, ambient (the bounding set is recorded, not judged)",
        "a kernel-acceptable option set that the launcher refuses or hangs on counts as a breach (the program does not begin execution)",
        "kernel rules used by the model: cap_emulate_setxuid, cap_bprm_creds_from_file, create_user_ns, PR_SET_SECUREBITS locking, self-SIGSTOP of a pid-namespace init is ignored",
    ]
    nontriv = sum(1 for o in allobs if lc.opt_on(o["opt"]))
    return dict(evaluations=len(allobs) + len(traces), distinct=nontriv,
                rule="one real launch per generated option record, judged by TLC against Post/Final; strace step traces replayed through Launch's actions; non-trivial = at least one option set",
                exhaustive=False)


def slim(o):
    s = o.get("self", {})
    return {"id": o["id"], "opt_on": lc.opt_on(o["opt"]), "started": o["started"], "err": o["err"]["msg"], "hang": o["hang"],
            "req": o["req"], "eff": len(s.get("eff", [])), "perm": len(s.get("perm", [])), "inh": len(s.get("inh", [])),
            "amb": len(s.get("amb", [])), "secbits": s.get("secbits"), "nnp": s.get("nnp"), "seccomp": s.get("seccomp_prctl"),
            "uids": s.get("uids"), "gids": s.get("gids"), "groups": s.get("groups"), "pid": s.get("pid"), "sid": s.get("sid"),
            "cwd": s.get("cwd"), "host": s.get("host"), "domain": s.get("domain"),
            "new_ns": [k for k in s.get("ns", {}) if s["ns"][k] != o["pns"].get(k)], "stops": o["stops"], "exit": o["exit"]}
