"""C03 -- handler verdicts (allow / ban / kill) are enforced for every process and thread.

1. MC   Tracer.tla: the ptrace event loop of ptracer (one action per critical step) + kernel +
        tracee tree, every interleaving for every script x decision function within the bounds;
        invariants Enforced (property layer), TruthfulResult, FinishedAllDead, no deadlock,
        termination under fairness.
2. Gen  Tracer_Gen.tla: TLC writes the scripts x decision functions.
3. Bind each case runs for real: probes/tracer.c under the REAL runner/ptrace runner (driver
        harness/cmd/tracer); the driver's Handler applies the decision function and logs each
        consultation, the program logs every return value, directories show what took effect.
4. TracerProp_Trace.tla (property layer): TLC replays {Trap, Ret, Effect, Result} of every run
        against TracerProp -> rejected run = VIOLATION.
5. Tracer_Trace.tla (implementation layer): TLC replays the hook-recorded wait/setopt/trap/cont/end
        events against the actions of Tracer.tla -> rejected = DRIFT.
"""
import json
import os

import vlib
import tracer_common as tc

MC_QUICK = """CONSTANTS
  MainAlpha = {"T","S","K","W","F","V","C","X3"}
  ChildAlpha = {"T","S","K"}
  MaxMain = 2
  MaxChild = 1
  MaxSpawn = 1
  MaxT = 2
  MaxTotal = 3
  EsrchFatal = FALSE
  ChildSigsysIgnored = FALSE
  AnyDecision = FALSE
  ClenPanics = FALSE
  Noise = TRUE
SPECIFICATION Spec
VIEW MCView
INVARIANTS TypeOK Enforced TruthfulResult FinishedAllDead NeverRunnerError EnforcedFilterKill
CHECK_DEADLOCK TRUE
"""

# three tasks, two spawns (fork/vfork/thread in every combination, grandchildren)
MC_THOROUGH = MC_QUICK.replace('ChildAlpha = {"T","S","K"}', 'ChildAlpha = {"T","S","K","C","F"}') \
    .replace("MaxSpawn = 1", "MaxSpawn = 2")

MC_LIVE = """CONSTANTS
  MainAlpha = {"T","K","W","F","C","V"}
  ChildAlpha = {"T","K"}
  MaxMain = 2
  MaxChild = 1
  MaxSpawn = 1
  MaxT = 2
  MaxTotal = 3
  EsrchFatal = FALSE
  ChildSigsysIgnored = FALSE
  AnyDecision = FALSE
  ClenPanics = FALSE
  Noise = FALSE
SPECIFICATION FairSpec
PROPERTY Terminates
CHECK_DEADLOCK TRUE
"""

GEN = """CONSTANTS
  MainAlpha = {"T","U","S","K","W","F","V","C","X3"}
  ChildAlpha = {"T","U","S","K","C","F"}
  MaxMain = %d
  MaxChild = %d
  MaxSpawn = 2
  MaxT = %d
  MaxTotal = %d
INIT Init
NEXT Next
"""


# decision functions of the call HISTORY: the same key is put to the handler repeatedly (the same path
# "mr" via R, the same syscall name "symlink" via N, also from different tasks) and the answers differ
# by occurrence (allow then kill, ban then allow, ...): every assignment of answers to occurrences
MC_HIST = """CONSTANTS
  MainAlpha = {"N","R","F","C","W"}
  ChildAlpha = {"N","R"}
  MaxMain = %d
  MaxChild = 1
  MaxSpawn = 1
  MaxT = 3
  MaxTotal = %d
  EsrchFatal = FALSE
  ChildSigsysIgnored = FALSE
  AnyDecision = FALSE
  ClenPanics = FALSE
  Noise = %s
SPECIFICATION Spec
VIEW MCView
INVARIANTS TypeOK Enforced TruthfulResult FinishedAllDead NeverRunnerError
CHECK_DEADLOCK TRUE
"""
HIST_GEN = """CONSTANTS
  MainAlpha = {"N","R","F","C","V","W","T"}
  ChildAlpha = {"N","R"}
  MaxMain = 3
  MaxChild = %d
  MaxSpawn = 1
  MaxT = 3
  MaxTotal = 4
INIT Init
NEXT Next
"""


# exec by tasks other than the launched one (and re-exec by the main process): fork / vfork children and
# secondary threads exec the image again (op Z); the new image makes marker calls and exits with a code
MC_EXEC = """CONSTANTS
  MainAlpha = {"F","V","W","T","Z"}
  ChildAlpha = {"Z","T","X3"}
  MaxMain = 2
  MaxChild = %d
  MaxSpawn = 1
  MaxT = 2
  MaxTotal = 4
  EsrchFatal = FALSE
  ChildSigsysIgnored = FALSE
  AnyDecision = FALSE
  ClenPanics = FALSE
  Noise = %s
SPECIFICATION Spec
VIEW MCView
INVARIANTS TypeOK Enforced TruthfulResult FinishedAllDead NeverRunnerError
CHECK_DEADLOCK TRUE
"""
EXEC_GEN = """CONSTANTS
  MainAlpha = {"F","V","C","W","T","Z","X3"}
  ChildAlpha = {"Z","T","X3"}
  MaxMain = 3
  MaxChild = 3
  MaxSpawn = 1
  MaxT = 2
  MaxTotal = 5
INIT Init
NEXT Next
"""
EXEC_PINNED = {"ZT", "ZTX", "FW/ZT", "VW/ZT", "CW/ZT", "FW/ZTX", "VW/ZTX", "CW/ZTX", "FWT/ZT", "VT/ZT"}


def has_thread_exec(c):
    """a task created with C that execs: not modelled at the implementation layer (pid take-over)"""
    for tk in c.get("script") or []:
        for o in tk:
            if o["k"] == "C" and any(x["k"] == "Z" for x in c["script"][o["n"] - 1]):
                return True
    return False


# programs that SIGKILL one of their own child processes while it is being handled (tracer delayed
# at its verifPoint so that the window is hit); same property machine
RACE_GEN = """CONSTANTS
  MainAlpha = {"F","J","T","W"}
  ChildAlpha = {"T"}
  MaxMain = 3
  MaxChild = 1
  MaxSpawn = 1
  MaxT = 2
  MaxTotal = 4
INIT Init
NEXT Next
"""


def shape(c):
    """coarse class of a case for stratified sampling / violation keys: op kinds per task + decisions"""
    ks = "/".join("".join(o["k"] for o in t) for t in c["script"])
    ds = ".".join("".join(d[0] for d in c["dec"][m]) for m in sorted(c["dec"]))
    return ks + ":" + ds


# shapes that are replayed in every quick run (kinds per task): each spawn kind with a waited-for
# child that makes a marker call / is killed by the filter, and the single-task basics
PINNED = {"T", "K", "S", "TX", "FW/T", "VW/T", "CW/T", "FW/K", "VW/K", "CW/K", "FT/T", "CT/T", "FW/S", "CW/S"}


def kinds_of(c):
    return "/".join("".join(o["k"] for o in t) for t in c["script"])


def select_quick(ctx, cases, n):
    """all pinned shapes + a seeded sample stratified by the set of op kinds used"""
    out = [c for c in cases if kinds_of(c) in PINNED]
    cases = [c for c in cases if kinds_of(c) not in PINNED]
    n = max(0, n - len(out))
    groups = {}
    for c in cases:
        kinds = frozenset(o["k"] for t in c["script"] for o in t) | frozenset(d for p in c["dec"].values() for d in p)
        groups.setdefault(kinds, []).append(c)
    keys = sorted(groups, key=lambda k: sorted(k))
    ctx.rng.shuffle(keys)
    n += len(out)
    while len(out) < n and keys:
        for k in list(keys):
            g = groups[k]
            out.append(g.pop(ctx.rng.randrange(len(g))))
            if not g:
                keys.remove(k)
            if len(out) >= n:
                break
    return out


def prep_obs(obs):
    """type-stable fields for TLC"""
    out = []
    for o in obs:
        d = dict(o)
        d["decl"] = [{"m": m, "d": list(o["dec"][m])} for m in sorted(o["dec"] or {})]
        d.pop("dec", None)
        d.pop("class", None)
        d["events"] = [e for e in (o.get("events") or []) if e["ev"] != "start"]
        out.append(d)
    return out


def build_cases(ctx, t):
    # ---- 1. design level
    r = ctx.tlc("Tracer", cfg=MC_THOROUGH if t else MC_QUICK, workers=4, timeout=ctx.pick(400, 1500))
    if r.invariant or r.deadlock:
        raise vlib.Inconclusive("Tracer.tla itself violates %s:\n%s" % (r.invariant or "deadlock-freedom", r.tail(60)))
    ctx.tlc_ok("Tracer MC", r)
    ctx.cov["mc_states"] = r.distinct
    rh = ctx.tlc("Tracer", cfg=MC_HIST % ((3, 4, "TRUE") if t else (2, 3, "FALSE")), workers=4, timeout=ctx.pick(400, 1500))
    if rh.invariant or rh.deadlock:
        raise vlib.Inconclusive("Tracer.tla (decisions by occurrence) violates %s:\n%s" % (rh.invariant or "deadlock-freedom", rh.tail(60)))
    ctx.tlc_ok("Tracer MC, decisions by occurrence", rh)
    ctx.cov["mc_states_history"] = rh.distinct
    rx = ctx.tlc("Tracer", cfg=MC_EXEC % ((3, "TRUE") if t else (2, "FALSE")), workers=4, timeout=ctx.pick(400, 1500))
    if rx.invariant or rx.deadlock:
        raise vlib.Inconclusive("Tracer.tla (exec) violates %s:\n%s" % (rx.invariant or "deadlock-freedom", rx.tail(60)))
    ctx.tlc_ok("Tracer MC, exec by children", rx)
    ctx.cov["mc_states_exec"] = rx.distinct
    if t:
        lv = ctx.tlc("Tracer", cfg=MC_LIVE, workers=4, timeout=900)
        ctx.tlc_ok("Tracer liveness (Terminates under fairness)", lv)
    # ---- 2. cases
    g = ctx.tlc("Tracer_Gen", cfg=GEN % ((3, 2, 2, 4) if t else (3, 1, 2, 3)), timeout=900, count=False)
    ctx.tlc_ok("Tracer_Gen", g)
    cases = ctx.read_ndjson(os.path.join(g.dir, "cases.ndjson"))
    for c in cases:
        if not isinstance(c["dec"], dict):
            c["dec"] = {}
    cases.sort(key=lambda c: json.dumps(c, sort_keys=True))
    total_cases = len(cases)
    if not t:
        cases = select_quick(ctx, cases, 90)
    else:
        # exhaustive for the quick bounds (<= 3 ops, children of one op), seeded sample of the larger space
        small = [c for c in cases if sum(len(x) for x in c["script"]) <= 3 and all(len(x) <= 1 for x in c["script"][1:])]
        rest = [c for c in cases if c not in small]
        ctx.rng.shuffle(rest)
        cases = small + rest[:1200]
    rg = ctx.tlc("Tracer_Gen", cfg=RACE_GEN, timeout=600, count=False)
    ctx.tlc_ok("Tracer_Gen (kill races)", rg)
    rc = [c for c in ctx.read_ndjson(os.path.join(rg.dir, "cases.ndjson"))
          if isinstance(c["dec"], dict) and any(o["k"] == "J" for o in c["script"][0]) and len(c["script"]) == 2 and c["script"][1]]
    rc.sort(key=lambda c: json.dumps(c, sort_keys=True))
    if not t:
        ctx.rng.shuffle(rc)
        pin = [c for c in rc if kinds_of(c) == "FJT/T" and all(d == "allow" for p in c["dec"].values() for d in p)]
        rc = pin + [c for c in rc if c not in pin][:12]
    for c in rc:
        c["delay"] = {"tracer.seccomp": 15}
    cases += rc
    # history-dependent decision functions
    hg = ctx.tlc("Tracer_Gen", cfg=HIST_GEN % (2 if t else 1), timeout=900, count=False)
    ctx.tlc_ok("Tracer_Gen (decisions by occurrence)", hg)
    hc = [c for c in ctx.read_ndjson(os.path.join(hg.dir, "cases.ndjson"))
          if isinstance(c["dec"], dict) and any(len(p) > 1 for p in c["dec"].values())]
    hc.sort(key=lambda c: json.dumps(c, sort_keys=True))
    total_cases += len(hc)
    if not t:
        # every answer sequence for the pinned shapes (one task / across tasks, by path / by name) + a seeded sample
        pin = [c for c in hc if kinds_of(c) in ("NN", "TT", "FNW/N", "CNW/N")]
        rest = [c for c in hc if c not in pin]
        ctx.rng.shuffle(rest)
        hc = pin + rest[:12]
    else:
        small = [c for c in hc if sum(len(x) for x in c["script"]) <= 3]
        rest = [c for c in hc if c not in small]
        ctx.rng.shuffle(rest)
        hc = small + rest[:600]
    cases += hc
    # exec by children / threads / the main process
    eg = ctx.tlc("Tracer_Gen", cfg=EXEC_GEN, timeout=900, count=False)
    ctx.tlc_ok("Tracer_Gen (exec)", eg)
    ec = [c for c in ctx.read_ndjson(os.path.join(eg.dir, "cases.ndjson"))
          if isinstance(c["dec"], dict) and any(o["k"] == "Z" for tk in c["script"] for o in tk)]
    ec.sort(key=lambda c: json.dumps(c, sort_keys=True))
    total_cases += len(ec)
    pin = [c for c in ec if kinds_of(c) in EXEC_PINNED]
    rest = [c for c in ec if c not in pin]
    ctx.rng.shuffle(rest)
    if not t:
        pin = [c for c in pin if len(set(d for p in c["dec"].values() for d in p)) == 1 or kinds_of(c) in ("FW/ZT", "CW/ZT")]
    cases += pin + rest[:ctx.pick(12, 400)]
    return cases, total_cases


def run(ctx):
    t = ctx.tier == "thorough"
    if ctx.replay and ctx.replay.get("case"):
        rc = ctx.replay["case"]
        ops = rc.get("script_ops") or rc.get("script") or []
        cases = [{"script": ops, "dec": rc.get("dec") or {}, "raw": "" if ops else rc.get("raw", ""), "delay": {"tracer.seccomp": 15}}]
        total_cases = 1
    else:
        cases, total_cases = build_cases(ctx, t)
    for i, c in enumerate(cases):
        c["id"] = i + 1
        c["filter"] = "kill"
        c["other"] = "allow"
    ctx.log("cases: %d of %d generated" % (len(cases), total_cases))
    # ---- 3. real runs
    obs = tc.run_cases(ctx, cases, "c03", shards=4, timeout=ctx.pick(300, 1500))
    if len(obs) != len(cases):
        raise vlib.Inconclusive("driver returned %d observations for %d cases" % (len(obs), len(cases)))
    for o in obs:
        for lg in o["logs"]:
            for e in lg:
                if e["op"] in "FVC" and e["ret"] != 1:
                    raise vlib.Inconclusive("could not create a task in case %s: %s" % (o["raw"], e))
    pobs = prep_obs(obs)
    # ---- 4. property layer
    pt = ctx.tlc("TracerProp_Trace", files={"obs.ndjson": pobs}, timeout=ctx.pick(400, 1500), heap="8g")
    ctx.tlc_ok("TracerProp_Trace", pt)
    bad = ctx.read_ndjson(os.path.join(pt.dir, "bad.ndjson"))
    for b in bad:
        o = obs[b["t"] - 1]
        c = cases[b["t"] - 1]
        if b["matched"] >= b["total"]:
            bits = b["bits"]
            why = []
            if not bits & 1:
                why.append("effects %s differ from the calls that may have run" % o["effects"])
            if not bits & 2:
                why.append("verdict %s/%d not the one the program earned" % (o["status"], o["exit"]))
            if not bits & 4:
                why.append("run stuck (%s)" % o.get("stuckat"))
            stage = "final:" + "+".join(x.split()[0] for x in why)
        else:
            why = ["log event %d of %d is not admitted by TracerProp" % (b["matched"] + 1, b["total"])]
            stage = "event"
        key = "%s:%s:%s" % (stage, shape(c), o["status"])
        case = tc.slim(o, keep_events=True)
        case["script_ops"] = c["script"]
        ctx.violation(key, "program %s with decisions %s: %s; status=%s error=%r traps=%s logs=%s" % (
            o["raw"], json.dumps(o["dec"]), "; ".join(why), o["status"], o["error"],
            [(x["m"], x["act"]) for x in o["traps"]],
            [[(e["op"], e["ret"]) for e in lg] for lg in o["logs"]]), case)
    # ---- 5. implementation layer
    iobs = [o for o in obs if not has_thread_exec(o)]
    ctx.cov["thread_exec_runs_property_layer_only"] = len(obs) - len(iobs)
    it = ctx.tlc("Tracer_Trace", files={"obs.ndjson": prep_obs(iobs)}, timeout=ctx.pick(400, 1500), heap="8g")
    ctx.tlc_ok("Tracer_Trace", it)
    drift = ctx.read_ndjson(os.path.join(it.dir, "drift.ndjson"))
    for d in drift[:5]:
        o = iobs[d["t"] - 1]
        evs = [e for e in o["events"] if e["ev"] != "start"]
        e = evs[d["matched"]] if d["matched"] < len(evs) else {}
        ctx.sample(tc.slim(o, keep_events=True), limit=8)
        ctx.note("DRIFT %s: tracer event %d/%d not an action of Tracer.tla: %s" % (
            o["raw"], d["matched"] + 1, d["total"], json.dumps({k: v for k, v in e.items() if v not in (0, "", False)})))
    ctx.cov["drift"] = len(drift)
    ctx.traces = len(obs)
    ctx.cov["cases_generated"] = total_cases
    ctx.cov["tracer_events_validated"] = sum(len(o["events"] or []) for o in obs)
    ctx.cov["statuses"] = {}
    for o in obs:
        ctx.cov["statuses"][o["status"]] = ctx.cov["statuses"].get(o["status"], 0) + 1
    for o in (obs[0], obs[len(obs) // 2], obs[-1]):
        ctx.sample(tc.slim(o))
    ctx.assumptions += [
        "kernel behaviour as listed at the head of Tracer.tla (validated against the hook traces: drift=%d)" % len(drift),
        "marker = mkdirat of a unique name in a private directory; 'took effect' = the directory exists afterwards",
        "the driver's Handler returns dec[basename(path)] and logs the consultation (no oracle in Go)",
        "filter: default kill, explicit allow list for the probe, mkdirat traced (libseccomp Builder)",
    ]
    nontriv = sum(1 for c in cases if c["dec"])
    ctx.cov["cases_with_history_dependent_decisions"] = sum(1 for c in cases if any(len(set(p)) > 1 for p in c["dec"].values()))
    return dict(evaluations=len(obs), distinct=nontriv,
                rule="TLC enumerates every script (<=3 tasks, <=2 spawns, <=4 ops, <=2 markers) x decision function; "
                     "quick runs a seeded stratified sample, thorough all of them; non-trivial = has a marker",
                exhaustive=bool(t))
