"""C01 -- the compiled seccomp filter implements the declared syscall policy exactly.

Spec: spec/Seccomp.tla (Accept = the property sentence, Run = classic-BPF machine over
seccomp_data, representative sets + structural premise of the interval argument).

 1. TLC (Seccomp_Gen) generates the structured policy family and the list pairs for runprog's
    cleanTrace; python adds seeded random / boundary-size / special policies (names only).
 2. `seccomp build|config` runs the REAL libseccomp.Builder.Build() (and the real config.GetConf)
    and reads each program back through Filter.SockFprog() -- pointer + length, what seccomp(2) gets.
 3. TLC (Seccomp_Check, one state per policy, 4 workers) decides
       \\A arch \\in ArchReps, nr \\in NrReps : Class(Run(prog, arch, nr)) \\in Accept(policy, arch, nr)
    which, by the interval argument stated in Seccomp.tla and its TLC-checked premise, is a decision
    for all 2^32 numbers x 2^32 arch tags of that program.
 4. Kernel witness: sampled policies are installed in real children by forkexec.Runner{Seccomp},
    probes/seccomp.c issues one sampled number per child; TLC (Seccomp_Judge) checks each death
    against (a) my cBPF reading (mismatch => exit 2) and (b) Accept (mismatch => violation).
Python holds no expected value: it samples names/numbers and turns TLC's rows into verdict lines.
"""
import glob
import json
import os
import platform
import re
import shutil
import time

import vlib

STRUCT_NAMES = ["read", "write", "open", "execve", "getpid", "exit_group"]
DEFS = [0, 1, 2, 3, 4, 5]                       # caller-side Action: unset, allow, errno, trace, kill, out of range
DEFS_HI = [0x10003, 0x20001, 0x30002, 0x10000, 0xFFFF, 0xFFFFFFFF, 0x7FFF0002, 6, 0x10004, 0x80000001]
# never issued for real in the kernel witness (would fork, block, or touch the host); fixed list,
# independent of any policy
NEVER_ISSUE = {"fork", "vfork", "clone", "clone3", "pause", "rt_sigreturn", "sync", "kill", "tkill", "tgkill",
               "rt_sigqueueinfo", "rt_tgsigqueueinfo", "pidfd_send_signal", "reboot", "msgget", "vhangup",
               # kernel exemption: seccomp lets these two through unfiltered (seccomp_uprobe_exception,
               # Linux >= 6.14) and sys_uretprobe outside a trampoline raises SIGILL
               "uretprobe", "uprobe"}
# sampled in the launch-option witness, where some combinations keep root's capabilities: calls that
# neither block nor change anything with all arguments -1, and that never return ENOSYS/EPERM by
# themselves (so "the call ran" is distinguishable from every non-allow verdict)
SAFE = ["getpid", "getppid", "getuid", "geteuid", "getgid", "getegid", "gettid", "getpgrp", "getsid", "getpgid",
        "sched_yield", "close", "dup", "dup2", "fstat", "lseek", "fsync", "fdatasync", "flock", "fchdir", "fchmod",
        "getdents64", "ioctl", "fcntl", "umask", "getcwd", "times", "sysinfo", "uname", "getrusage", "getrlimit",
        "getpriority", "sched_getscheduler", "sched_getparam", "sched_get_priority_max", "capget", "rt_sigpending",
        "sigaltstack", "stat", "lstat", "access", "readlink", "chdir", "madvise", "mincore", "munmap", "msync",
        "mprotect", "time", "gettimeofday", "clock_gettime", "clock_getres", "nanosleep", "getitimer", "getgroups",
        "getresuid", "getresgid", "getcpu", "pipe", "pread64", "readv", "fadvise64", "ftruncate", "fstatfs", "statfs"]
DEFAULT_OPT = {"unshare": False, "caps": "drop", "sync": False, "mode": "plain"}
I386_SAFE = [20, 24, 47, 49, 50, 64, 199, 200, 201, 202, 224, 1023]   # getpid/get*id/gettid, one invalid


def w32(v):
    return [(v >> 16) & 0xFFFF, v & 0xFFFF]


def build_driver(ctx):
    """ctx.build_vdrive with one more build tag (c01hook) when the tree has the config hooks.
    (needed vlib feature: build_vdrive(tags=...))"""
    hookfile = os.path.join(ctx.repo, "cmd", "runprog", "config", "verif_on.go")
    hook = os.path.exists(hookfile) and "VerifRaw" in open(hookfile).read()
    hdir = os.path.join(vlib.VERIF, "harness")
    modfile = ctx.path("gomod", "go.mod")
    src = open(os.path.join(hdir, "go.mod")).read()
    src = re.sub(r"(replace github.com/criyle/go-sandbox => )\S+", r"\g<1>" + ctx.repo, src)
    open(modfile, "w").write(src)
    shutil.copy(os.path.join(ctx.repo, "go.sum"), ctx.path("gomod", "go.sum"))
    out = ctx.path("bin", "seccomp-drv")     # bin/seccomp is the probe
    tags = "verif,c01hook" if hook else "verif"
    t = time.time()
    rc, o = ctx.sh(["go", "build", "-modfile=" + modfile, "-tags", tags, "-o", out, "./cmd/seccomp"],
                   cwd=hdir, timeout=900)
    if rc != 0:
        raise vlib.Inconclusive("harness build failed against %s:\n%s" % (ctx.repo, o[-6000:]))
    ctx.log("built seccomp driver (tags %s) in %.1fs" % (tags, time.time() - t))
    ctx._vdrive["seccomp"] = out
    return hook


def header_table(ctx):
    rc, o = ctx.sh("echo '#include <sys/syscall.h>' | gcc -dM -E -", timeout=60)
    if rc != 0:
        return {}
    return {m.group(1): int(m.group(2)) for m in re.finditer(r"#define __NR_(\w+) (\d+)\s", o)}


def write_ndjson(path, rows):
    with open(path, "w") as fh:
        for r in rows:
            fh.write(json.dumps(r, separators=(",", ":")) + "\n")


def split_sizes(rng, names, na, nt):
    s = rng.sample(names, na + nt)
    return s[:na], s[na:]


def make_cases(ctx, table, struct_rows):
    """policy cases (names only) for the builder; returns list of dicts"""
    rng = ctx.rng
    names = sorted(table)
    nums = sorted(table.values())
    full = [w32(v) for v in nums] + [w32(v | 0x40000000) for v in nums]
    some = rng.sample(nums, 16)
    small = [w32(v) for v in some] + [w32(v | 0x40000000) for v in some] + [w32(v | 0x80000000) for v in some[:4]]
    cases = []

    def add(kind, allow, trace, d, extra):
        cases.append({"id": "%s%d" % (kind, len(cases) + 1), "kind": kind, "allow": allow, "trace": trace,
                      "def": d, "extra": extra})

    # structured family generated by TLC: all of it (thorough) or a seeded sample (quick)
    rows = struct_rows if not ctx.quick() else rng.sample(struct_rows, 40)
    for r in rows:
        add("struct", r["allow"], r["trace"], r["def"], small)
    # caller Action values with bits above the low 16 / far out of range
    for d in DEFS_HI:
        for r in rng.sample(struct_rows, ctx.pick(1, 6)):
            add("defhi", r["allow"], r["trace"], d, small)
    # empty/empty, all-allow, all-trace
    for d in DEFS + ctx.pick(DEFS_HI[:2], DEFS_HI):
        add("empty", [], [], d, full)
    for d in ctx.pick([rng.choice(DEFS)], DEFS):
        add("allallow", list(names), [], d, full)
        add("alltrace", [], list(names), d, full)
    # sizes around the arch-jump limit (jump over x32 guard + body must fit in 8 bits or become JEQ+JA)
    sweep = []
    for tot in range(246, 256):
        na = rng.randrange(1, tot)
        sweep.append((na, tot - na))
        sweep.append((tot + 4, 0))       # one group only: body is 4 shorter
        sweep.append((0, tot + 4))
    # groups longer than 255 compares: early-return copies are inserted
    sweep += [(256, 0), (257, 5), (300, 80), (5, 257), (0, 300), (190, 190), (379, 1), (1, 379), (255, 1), (254, 126)]
    if ctx.quick():
        sweep = [(125, 125), (126, 125)] + rng.sample(sweep, 4)
    for na, nt in sweep:
        a, t = split_sizes(rng, names, na, nt)
        add("size", a, t, rng.choice(DEFS), full)
    # random disjoint subsets of every size
    n = ctx.pick(6, 220)
    for i in range(n):
        tot = rng.randrange(0, len(names) + 1)
        na = rng.randrange(0, tot + 1)
        a, t = split_sizes(rng, names, na, tot - na)
        add("random", a, t, rng.choice(DEFS + DEFS_HI[:3]), full if (ctx.quick() or i % 2 == 0) else small)
    return cases, full


def make_kernel_cases(ctx, table):
    rng = ctx.rng
    names = sorted(n for n in table if n != "execve")
    inv = {v: k for k, v in table.items()}
    cases = []
    nk = ctx.pick(3, 20)
    sizes = [(15, 10), (270, 40), (60, 290)] + [(rng.randrange(0, 200), rng.randrange(0, 170)) for _ in range(nk)]
    per = ctx.pick(8, 36)
    defs = DEFS + DEFS_HI[:2]
    rng.shuffle(defs)
    for k in range(nk):
        na, nt = sizes[k]
        a, t = split_sizes(rng, names, na, nt)
        a = ["execve"] + a                      # the probe has to be exec'ed under the filter
        rest = [n for n in names if n not in set(a) | set(t)]
        ok = lambda ns: [n for n in ns if n not in NEVER_ISSUE]
        pick = lambda ns: rng.sample(ok(ns), min(per, len(ok(ns))))
        smp = []
        chosen = pick(a) + pick(t) + pick(rest) + [n for n in ("getpid", "getuid", "exit_group") if n in table]
        for n in chosen:
            smp.append({"m": "n", "nr": w32(table[n])})
        for n in rng.sample(chosen, min(ctx.pick(5, 10), len(chosen))):
            smp.append({"m": "n", "nr": w32(table[n] | 0x40000000)})
        for v in (600, 1000, 0x3FFFFFFF, 0x40000000, 0x7FFFFFFF, 0x80000000 | table["getpid"], 0xC0000000 | table["getpid"]):
            if v not in inv:
                smp.append({"m": "n", "nr": w32(v)})
        for v in rng.sample(I386_SAFE, ctx.pick(2, 4)):
            smp.append({"m": "i", "nr": w32(v)})
        smp.insert(0, {"m": "w", "nr": w32(0)})
        for s in smp:
            s.update({"o": "", "v": 0, "d": ""})
        cases.append({"id": "kern%d" % (k + 1), "kind": "kernel", "allow": a, "trace": t,
                      "def": defs[k % 8], "extra": [], "samples": smp, "opt": dict(DEFAULT_OPT)})
    return cases + make_option_cases(ctx, table)


def make_option_cases(ctx, table):
    """the same witness over the forkexec.Runner options that select where the child loads the filter
    (early site / late site after the parent sync / under ptrace / after the SIGSTOP of StopBeforeSeccomp)"""
    rng = ctx.rng
    safe = [n for n in SAFE if n in table]
    others = sorted(n for n in table if n not in set(safe) | {"execve", "read", "write"})
    combos = [(u, c, sy, m) for u in (False, True) for c in ("none", "drop", "cred") for sy in (False, True)
              for m in ("plain", "ptrace", "stop")
              if not (m == "stop" and sy)]     # not startable: Start() waits for the sync of a child that has stopped itself
    npol = 2
    na, nt, nn = ctx.pick((1, 2, 1), (3, 4, 4))
    pols = []
    for d in rng.sample([4, 3, 0, 5], npol):
        names = rng.sample(safe, len(safe))
        third = len(names) // 3
        pad = rng.sample(others, 12)
        # the child's sync with its parent (write, read) can run under the filter, like execve
        pols.append({"allow": ["execve", "read", "write"] + names[:third] + pad[:6], "trace": names[third:2 * third] + pad[6:],
                     "rest": names[2 * third:], "def": d})
    cases = []
    for k, (u, c, sy, m) in enumerate(combos):
        for pi in (range(npol) if not ctx.quick() else [k % npol]):
            p = pols[pi]
            a = rng.sample(p["allow"][3:3 + len(safe) // 3], na)
            smp = [{"m": "w", "nr": w32(0)}]
            for n in a + rng.sample(p["trace"][:len(safe) // 3], nt) + rng.sample(p["rest"], nn):
                smp.append({"m": "n", "nr": w32(table[n])})
            if not ctx.quick():
                smp.append({"m": "n", "nr": w32(table[a[0]] | 0x40000000)})
            for s in smp:
                s.update({"o": "", "v": 0, "d": ""})
            cases.append({"id": "opt%d.%d" % (k + 1, pi + 1), "kind": "kernel-opt", "allow": p["allow"], "trace": p["trace"],
                          "def": p["def"], "extra": [], "samples": smp,
                          "opt": {"unshare": u, "caps": c, "sync": sy, "mode": m}})
    return cases


def hexw(w):
    return "0x%08x" % ((w[0] << 16) | w[1]) if w[0] >= 0 else "BAD(%d)" % w[1]


def run(ctx):
    if platform.machine() != "x86_64":
        raise vlib.Inconclusive("C01 is specified for an x86-64 host (native arch tag and the x32 rule)")
    # TLC generates the structured family and the clean-up list pairs; runs while the harness is being built
    import threading
    gen = {}

    def run_gen():
        cfg = ('CONSTANTS Names = {%s}\n  Defs = {%s}\n  CNames = {"read","open","execve"}\n  CLen = 3\nINIT Init\nNEXT Next\n'
               % (",".join('"%s"' % n for n in STRUCT_NAMES), ",".join(str(d) for d in DEFS)))
        try:
            gen["r"] = ctx.tlc("Seccomp_Gen", cfg=cfg, timeout=300, count=False, heap="1g")
        except BaseException as e:      # re-raised in the main thread
            gen["e"] = e
    th = threading.Thread(target=run_gen)
    th.start()
    try:
        return decide(ctx, th, gen)
    finally:
        th.join()


def decide(ctx, th, gen):
    hook = build_driver(ctx)
    probe = ctx.probe("seccomp", flags=("-nostdlib", "-nostartfiles", "-ffreestanding"))

    # ---- the syscall table the code (and therefore the driver) uses; cross-checked against the C headers
    ctx.vdrive("seccomp", ["table", ctx.path("table.json")])
    tj = json.load(open(ctx.path("table.json")))
    table = tj["names"]
    if tj.get("archname") != "x86_64":
        raise vlib.Inconclusive("driver reports native table %r" % tj.get("archname"))
    hdr = header_table(ctx)
    diff = sorted(n for n in set(hdr) & set(table) if hdr[n] != table[n])
    if diff:
        raise vlib.Inconclusive("assumption broken: arch.GetInfo table differs from <sys/syscall.h> for %s" % diff[:10])
    ctx.cov["table_names"] = len(table)
    ctx.cov["table_names_confirmed_by_headers"] = len(set(hdr) & set(table))
    missing = [n for n in STRUCT_NAMES if n not in table]
    if missing:
        raise vlib.Inconclusive("names %s not in the native table" % missing)

    # ---- 1. the generated cases
    th.join()
    if "e" in gen:
        raise gen["e"]
    g = gen["r"]
    ctx.tlc_ok("Seccomp_Gen", g)
    struct_rows = ctx.read_ndjson(os.path.join(g.dir, "struct.ndjson"))
    clean_rows = ctx.read_ndjson(os.path.join(g.dir, "clean.ndjson"))
    if len(struct_rows) != 3 ** len(STRUCT_NAMES) * len(DEFS):
        raise vlib.Inconclusive("generator produced %d structured cases" % len(struct_rows))

    # ---- 2. real builder on every policy
    cases, full = make_cases(ctx, table, struct_rows)
    write_ndjson(ctx.path("cases.ndjson"), cases)
    ctx.vdrive("seccomp", ["build", ctx.path("cases.ndjson"), ctx.path("policies.ndjson")], timeout=600)
    lines = ctx.read_ndjson(ctx.path("policies.ndjson"))
    if len(lines) != len(cases):
        raise vlib.Inconclusive("driver wrote %d lines for %d cases" % (len(lines), len(cases)))
    cleanobs = []
    if hook:
        write_ndjson(ctx.path("extra.ndjson"), [full])
        ctx.vdrive("seccomp", ["config", ctx.path("extra.ndjson"), ctx.path("cfgpol.ndjson"), ctx.path("cfgobs.ndjson")])
        cfglines = ctx.read_ndjson(ctx.path("cfgpol.ndjson"))
        if not cfglines:
            raise vlib.Inconclusive("config driver produced nothing")
        lines += cfglines
        write_ndjson(ctx.path("cleancases.ndjson"), clean_rows)
        ctx.vdrive("seccomp", ["clean", ctx.path("cleancases.ndjson"), ctx.path("cleanout.ndjson")])
        cleanobs = ctx.read_ndjson(ctx.path("cfgobs.ndjson")) + ctx.read_ndjson(ctx.path("cleanout.ndjson"))
    else:
        ctx.note("tree has no cmd/runprog/config verif hooks: runprog config family and cleanTrace not judged")
        ctx.assumptions.append("config family skipped (hook commit 'verif: cmd/runprog/config' not in this tree)")
    kinds = {}
    for l in lines:
        kinds[l["kind"]] = kinds.get(l["kind"], 0) + 1
    ctx.log("policies: %d %s" % (len(lines), kinds))

    # ---- 3. kernel witness: real children with the filter installed
    kcases = make_kernel_cases(ctx, table)
    write_ndjson(ctx.path("kcases.ndjson"), kcases)
    ctx.vdrive("seccomp", ["kernel", ctx.path("kcases.ndjson"), probe, ctx.path("kernel.ndjson")], timeout=900)
    klines = ctx.read_ndjson(ctx.path("kernel.ndjson"))
    nobs = sum(len(l["obs"]) for l in klines)
    if len(klines) != len(kcases) or (nobs == 0 and not any(l["err"] for l in klines)):
        raise vlib.Inconclusive("kernel witness produced no observations")

    # ---- 4. one TLC run: decides every program (states, 4 workers) and judges the two tables (ASSUMEs)
    r = ctx.tlc("Seccomp_Check", files={"policies.ndjson": lines, "kernel.ndjson": klines, "cleanobs.ndjson": cleanobs}, workers=4, timeout=ctx.pick(300, 1500), heap=ctx.pick("2g", "6g"))
    ctx.tlc_ok("Seccomp_Check", r)
    j = r
    res = {}
    for f in glob.glob(os.path.join(r.dir, "res*.ndjson")):
        for row in ctx.read_ndjson(f):
            res[row["i"]] = row
    if len(res) != len(lines):
        raise vlib.Inconclusive("TLC decided %d of %d policies" % (len(res), len(lines)))
    evals = drift = 0
    undecided = []
    maxlen = 0
    for i, l in enumerate(lines, 1):
        row = res[i]
        case = {"id": l["id"], "kind": l["kind"], "allow": l["nallow"], "trace": l["ntrace"],
                "def": hexw(l["def"]), "program_len": l["len"]}
        maxlen = max(maxlen, l["len"])
        st = row["status"]
        if st == "builderr":
            case["err"] = l["err"]
            ctx.violation("build-error:%s" % l["kind"], "Builder.Build() failed for a valid policy: %s" % l["err"], case)
            continue
        if st == "unmodelled":
            undecided.append(l["id"])
            continue
        if st in ("unloadable", "invalid"):
            case["prog_tail"] = l["prog"][-3:]
            ctx.violation("structure:unloadable", "the program handed to seccomp(2) (Len=%d) would be rejected by the "
                          "kernel (bad opcode, jump out of range or no final RET)" % l["len"], case)
        evals += row["evals"]
        for b in row["bad"]:
            want = "|".join(b["accept"]) if len(b["accept"]) == 1 else "refused"
            key = "bpf:%s:want=%s:got=%s" % (b["zone"], want, b["got"])
            c = dict(case, arch=hexw(b["arch"]), nr=hexw(b["nr"]), filter_returns=hexw(b["ret"]),
                     acceptable=b["accept"], mismatching_points=row["nbad"])
            ctx.violation(key, "filter returns %s (%s) for nr=%s arch=%s; policy demands %s" % (
                hexw(b["ret"]), b["got"], hexw(b["nr"]), hexw(b["arch"]), "/".join(b["accept"])), c)
        if row["ndrift"]:
            drift += 1
            if drift <= 5:
                d = row["drift"][0]
                ctx.note("DRIFT %s: returns %s where the transcribed implementation returns %s (nr=%s arch=%s, class still acceptable)"
                         % (l["id"], hexw(d["ret"]), hexw(d["impl"]), hexw(d["nr"]), hexw(d["arch"])))
    ctx.cov["policies"] = kinds
    ctx.cov["longest_program"] = maxlen
    ctx.cov["policies_with_long_jumps"] = sum(1 for l in lines if l["len"] > 258)
    ctx.cov["points_evaluated_by_tlc"] = evals

    # ---- 5. the table judges' rows
    m = re.search(r'<<"judged", (\d+), (\d+), (\d+), (\d+), (\d+)>>', j.out)
    if not m or int(m.group(1)) != nobs or int(m.group(4)) != len(cleanobs):
        raise vlib.Inconclusive("judge did not see all observations:\n" + j.tail(20))
    skipped = int(m.group(2))
    model_wrong = []
    for b in ctx.read_ndjson(os.path.join(j.dir, "kbad.ndjson")):
        l = klines[b["i"] - 1]
        s = l["obs"][b["j"] - 1]
        optsig = "unshare=%d,caps=%s,sync=%d,mode=%s" % (l["opt"]["unshare"], l["opt"]["caps"], l["opt"]["sync"], l["opt"]["mode"])
        case = {"id": l["id"], "runner_options": optsig, "allow": l["nallow"], "trace": l["ntrace"], "def": hexw(l["def"]), "entry": s["m"],
                "nr": hexw(s["nr"]), "died": "%s %d %s" % (s["o"], s["v"], s["d"]), "my_bpf_reading": hexw(b["ret"]),
                "acceptable": b["accept"]}
        if b["v"] == "model":
            model_wrong.append(case)
        elif b["v"] == "notinstalled":
            ctx.violation("kernel:filter-not-installed:%s" % optsig,
                          "Runner.Seccomp was set but the exec'ed child does not run under exactly that one filter "
                          "(/proc/<pid>/status: Seccomp mode %d, %d filter(s) added)" % (s["v"] // 1000, s["v"] % 1000), case)
        elif b["v"] == "execblocked":
            ctx.violation("kernel:exec-blocked", "policy allows execve but the program handed to the kernel does not: "
                          "the probe could not be exec'ed under the filter (%s)" % case["died"], case)
        else:
            ctx.violation("kernel:%s:%s" % (b["zone"], b["obs"]),
                          "kernel-observed outcome %r of nr=%s (entry %s) is impossible under the declared policy (%s)"
                          % (b["obs"], hexw(s["nr"]), s["m"], "/".join(b["accept"])), case)
    for l in klines:
        if l["err"]:
            ctx.violation("build-error:kernel", "Builder.Build() failed for a valid policy: %s" % l["err"],
                          {"id": l["id"], "allow": l["nallow"], "trace": l["ntrace"], "def": hexw(l["def"])})
    for b in ctx.read_ndjson(os.path.join(j.dir, "cbad.ndjson")):
        o = cleanobs[b["i"] - 1]
        ctx.violation("cleanTrace:%s" % b["v"], "runprog list clean-up does not denote the declared policy with trace "
                      "precedence (%s)" % b["v"], o)
    ctx.traces = nobs - skipped
    ctx.cov["kernel_policies"] = len(klines)
    ctx.cov["kernel_launch_option_combinations"] = len({json.dumps(l["opt"], sort_keys=True) for l in klines})
    ctx.cov["kernel_seccomp_state_reads"] = sum(1 for l in klines for o in l["obs"] if o["o"] == "status")
    ctx.cov["kernel_observations"] = nobs
    ctx.cov["kernel_rows_skipped_no_int80"] = skipped
    ctx.cov["kernel_truth_mismatches"] = len(model_wrong)
    ctx.cov["cleantrace_observations"] = len(cleanobs)
    ctx.cov["drift"] = drift
    if skipped:
        ctx.note("int 0x80 entry not available on this kernel: %d i386-tag rows skipped (foreign tags are decided by TLC only)" % skipped)
    mid = lines[len(lines) // 2]
    ctx.sample({"id": mid["id"], "allow": mid["nallow"][:8], "trace": mid["ntrace"][:8], "def": hexw(mid["def"]), "len": mid["len"],
                "prog_head(code/jt/jf/k)": ["%d/%d/%d/%s" % (x["c"], x["jt"], x["jf"], hexw(x["k"])) for x in mid["prog"][:8]]})
    ctx.sample({k: v for k, v in res[len(lines)].items() if k not in ("bad", "drift")})
    ctx.sample({"id": klines[0]["id"], "def": hexw(klines[0]["def"]),
                "obs": [{"entry": o["m"], "nr": hexw(o["nr"]), "died": "%s %d" % (o["o"], o["v"])} for o in klines[0]["obs"][:5]]})
    if cleanobs:
        ctx.sample(cleanobs[-1])
    ctx.assumptions += [
        "native syscall table = elastic/go-seccomp-bpf arch.GetInfo (also used by the code); confirmed against <sys/syscall.h> for the common names",
        "host is x86-64; Native arch tag and the x32 rule are fixed in Seccomp.tla",
        "numbers >= 2^31 without bit 30 (no ABI uses them) may be refused or get the default action",
        "caller Action: low 16 bits select the basic action (Action.Action()); ERRNO must carry a non-zero errno",
        "kernel witness: no tracer attached, so TRACE shows as ENOSYS; death-signal encoding of probes/seccomp.c",
    ]
    if model_wrong and not ctx.violations:
        raise vlib.Inconclusive("my cBPF reading disagrees with the kernel on %d observations, e.g. %s"
                                % (len(model_wrong), json.dumps(model_wrong[0])))
    if undecided and not ctx.violations:
        raise vlib.Inconclusive("programs use instructions outside the modelled cBPF subset (cannot decide): %s" % undecided[:5])
    nontriv = sum(1 for l in lines if l["allow"] or l["trace"])
    return dict(evaluations=evals + nobs + len(cleanobs), distinct=nontriv,
                rule="one evaluation = one (policy, arch, nr) point run through the cBPF machine and compared with Accept, "
                     "or one kernel observation, or one cleanTrace pair; non-trivial = policy with a non-empty list; "
                     "per program the points are the interval representatives, which decide all 2^32 x 2^32 inputs",
                exhaustive=not ctx.quick())
