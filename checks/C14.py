"""C14 -- container Open / Delete / Symlink: index-aligned results, safe against planted objects.

FileOps.tla model-checks the Open exchange as handleOpen / host Open implement it (error list of
full length, descriptors compacted) for every file-system state over two paths and every batch up
to MaxLen.  FileOps_Gen lets TLC enumerate every file-system state over the three plantable paths,
every Open / Symlink item, every Delete path, the operation-sequence shapes and the long-batch
lengths; the orchestrator composes cases from them (covering family + seeded sample).
`contfs fileops` lets a program plant each state inside a real container, calls the real host API
under a watchdog and records identity / access mode / close-on-exec of every returned descriptor,
the state before and after, and a Ping after every operation.  FileOps_Trace validates every
recorded case against the reference semantics FileOpsDefs.
"""
import json
import os
import shutil
import threading
import time

import vlib


def par(jobs):
    res, errs, ths = {}, [], []

    def wrap(name, fn):
        try:
            res[name] = fn()
        except BaseException as e:   # noqa
            errs.append(e)
    for name, fn in jobs:
        th = threading.Thread(target=wrap, args=(name, fn))
        th.start()
        ths.append(th)
        time.sleep(0.4)
    for th in ths:
        th.join()
    if errs:
        raise errs[0]
    return res


def mc_cfg(ctx):
    return """CONSTANTS MaxLen = %d
  AdvanceFdIndex = TRUE
  CompactErrors = FALSE
SPECIFICATION FSpec
INVARIANTS Aligned NoneLost
CHECK_DEADLOCK FALSE
""" % ctx.pick(4, 5)


def compose(ctx, g, total):
    rng = ctx.rng
    rd = lambda f: ctx.read_ndjson(os.path.join(g.dir, f))
    states = rd("fsstates.ndjson")
    oitems = rd("openitems.ndjson")
    litems = rd("linkitems.ndjson")
    dpaths = [d["p"] for d in rd("deletepaths.ndjson")]
    shapes = sorted(s["shape"] for s in rd("shapes.ndjson"))
    longs = sorted(x["n"] for x in rd("long.ndjson"))
    sustained = sorted(rd("sustained.ndjson"), key=lambda d: json.dumps(d, sort_keys=True))
    nitems = rd("numbereditems.ndjson")
    if not sustained or not nitems:
        raise vlib.Inconclusive("FileOps_Gen produced no sustained-batch shapes")
    nindex = {(i["idx"], i["mode"]): i for i in nitems}
    lopen = {(i["idx"], i["len"], i["what"], i["mode"]): i for i in rd("longopen.ndjson")}
    llink = {(i["idx"], i["len"], i["what"]): i for i in rd("longlink.ndjson")}
    budgets = sorted(rd("budgets.ndjson"), key=lambda d: (d["kib"], d["op"], d["len"]))
    if not lopen or not llink or not budgets:
        raise vlib.Inconclusive("FileOps_Gen produced no long-path items")
    if not (states and oitems and litems and dpaths and shapes and longs):
        raise vlib.Inconclusive("FileOps_Gen produced no cases")
    key = lambda d: json.dumps(d, sort_keys=True)
    states.sort(key=key); oitems.sort(key=key); litems.sort(key=key); dpaths.sort()
    plant = [i for i in oitems if i["p"] in ("a", "b", "c")]
    cases = []

    def batch(maxlen=4):
        n = rng.choice([0, 1, 2, 2, 3, 3, 4, 4])
        return [dict(rng.choice(plant if rng.random() < 0.8 else oitems)) for _ in range(min(n, maxlen))]

    def mkop(kind):
        if kind == "open":
            return {"op": "open", "items": batch()}
        if kind == "symlink":
            return {"op": "symlink", "links": [dict(rng.choice(litems)) for _ in range(rng.choice([0, 1, 2, 3]))]}
        return {"op": "delete", "p": rng.choice(dpaths)}

    def add(fs, ops):
        fs.setdefault("ld", 0)
        fs.setdefault("n", 0)
        fs.setdefault("tl", "absent")
        fs.setdefault("tt", "absent")
        cases.append({"id": len(cases) + 1, "cred": len(cases) % 2 == 1, "fs": fs, "ops": ops})

    def item(p, mode, mk, perm=420):
        it = {"p": p, "idx": 0, "mode": mode, "mk": mk, "perm": perm}
        assert it in oitems
        return it
    # covering family: every kind at one path x every mode x MkdirAll, in the middle of a mixed batch
    kinds = sorted({s["a"] for s in states})
    modes = sorted(m["mode"] for m in rd("modes.ndjson"))
    perms = sorted({i["perm"] for i in oitems})
    base = ("r", "w", "rw")
    for k in kinds:
        for mode in modes:
            for mk in (False, True):
                if ctx.quick() and ((mk and mode != "w") or (mode not in base and k not in ("regular", "unreadable", "absent", "dangling", "fifo"))):
                    continue
                if mk and mode not in base:
                    continue
                cand = [s for s in states if s["a"] == k]
                fs = dict(rng.choice(cand))
                items = [item("target", rng.choice(["r", "a", "rwa"]), False), item("a", mode, mk, rng.choice(perms)),
                         item(rng.choice(["b", "c"]), rng.choice(modes), mk, rng.choice(perms)),
                         item("target", rng.choice(["rw", "rwt", "ws", "a"]), False)]
                add(fs, [{"op": "open", "items": items}, mkop(rng.choice(["open", "symlink", "delete"]))])
    # the same file through several descriptors of one batch: truncate, append, overwrite, exclusive create
    for _ in range(ctx.pick(6, 40)):
        fs = dict(rng.choice([s for s in states if s["a"] in ("regular", "unreadable", "absent")]))
        items = [item("a", rng.choice(modes), False, rng.choice(perms)) for _ in range(rng.choice([2, 3, 4]))]
        add(fs, [{"op": "open", "items": items}, {"op": "open", "items": [item("a", rng.choice(["a", "rwa", "r", "x"]), False)]}])
    # c below a missing / present parent with and without MkdirAll
    for sub in ("absent", "dir"):
        for mk in (False, True):
            for mode in ("r", "w"):
                fs = dict(rng.choice([s for s in states if s["sub"] == sub]))
                add(fs, [{"op": "open", "items": [item("c", mode, mk), item("a", "r", False), item("c", "rw", False)]},
                         {"op": "delete", "p": "c"}, {"op": "delete", "p": "sub"}])
    # empty batches and the long batches
    fs = dict(rng.choice(states))
    add(fs, [{"op": "open", "items": []}, {"op": "symlink", "links": []}, {"op": "open", "items": batch()}])
    for n in longs:
        if ctx.quick() and n not in (253, 254):
            continue
        fs = dict(rng.choice([s for s in states if s["a"] in ("regular", "fifo")]))
        add(fs, [{"op": "open", "many": n, "items": [item("target", "r", False)]},
                 {"op": "open", "many": n, "items": [item("a", "rw", False)]},
                 {"op": "open", "items": batch()}])
    # interacting directory chains: MkdirAll of one item and the parent directory of another item of the batch
    tstates = sorted(rd("treestates.ndjson"), key=key)
    titems = rd("treeitems.ndjson")
    tpats = sorted(x["pat"] for x in rd("treepatterns.ndjson"))
    if not tstates or not titems or not tpats:
        raise vlib.Inconclusive("FileOps_Gen produced no directory-chain family")
    tindex = {(i["p"], i["mk"], i["mode"]): i for i in titems}

    def tree_item(tok):
        if tok == "any":
            return dict(rng.choice(plant if rng.random() < 0.7 else titems))
        p, mk = tok[:-1], tok[-1] == "+"
        mode = rng.choice(["w", "rw", "ac", "x"] if rng.random() < 0.8 else ["r"])
        if p == "c":
            return item("c", mode if mode in ("w", "rw", "r") else "rw", mk)
        return dict(tindex[(p, mk, mode)])
    for ti, ts in enumerate(tstates):
        for pi, pat in enumerate(tpats):
            if ctx.quick() and pi >= 2 and (pi + ti + ctx.seed) % 3:
                continue
            fs = dict(rng.choice([s for s in states if s["sub"] == "absent"]))
            fs.update(ts)
            add(fs, [{"op": "open", "items": [tree_item(t) for t in pat]},
                     {"op": "open", "items": [dict(rng.choice(titems)) for _ in range(rng.choice([1, 2, 3]))]}])
    ctx.cov["directory_chain_cases"] = sum(1 for c in cases if c["ops"] and any(i.get("p") in ("ld", "td") for o in c["ops"] for i in o.get("items", [])))
    # long legal paths: failing items whose error texts add up to 8 / 16 / 24 / 30 KiB (below the 32 KiB
    # frame, so the reply must still be answered item by item), between succeeding items
    def plen(n, what):
        return 2 + 251 * {1: 4, 2: 8, 3: 15}[n] + (10 if what == "miss" else 0)
    for bi, bg in enumerate(budgets):
        if ctx.quick() and bg["len"] != 1 + (bi // 3 + ctx.seed) % 3:      # one path length per (budget, operation)
            continue
        fs = dict(rng.choice([s for s in states if s["sub"] == "absent"]))
        fs["ld"] = 1
        room, n, idxs = bg["kib"] * 1024, bg["len"], list(range(1, 41))
        rng.shuffle(idxs)
        frame = 31000          # the command carries every path as well: keep it (and the reply) inside the 32 KiB frame
        if bg["op"] == "open":
            fail, cmd = [], 5 * 40
            while idxs:
                what = rng.choice(["dir", "miss"])
                cost = plen(n, what) + 40
                if room < cost or cmd + cost > frame:
                    break
                room -= cost
                cmd += cost
                fail.append(dict(lopen[(idxs.pop(), n, what, "r" if what == "miss" else rng.choice(["r", "w", "rw"]))]))
            items = [item("target", "r", False)]
            if cmd + plen(n, "miss") + 40 <= frame:                      # a succeeding item with a long path, if it fits
                items.append(dict(lopen[(idxs.pop(), n, "miss", "rw")]))
            items += fail + [item("dev", "r", False), item(rng.choice(["a", "b"]), rng.choice(["r", "w"]), False), item("target", "rw", False)]
            ops = [{"op": "open", "items": items}, {"op": "open", "items": batch()}]
        else:
            fail, cmd = [], 5 * 60
            while idxs:
                cost = plen(n, "dir") + 50
                if room < cost or cmd + cost > frame:
                    break
                room -= cost
                cmd += cost
                fail.append(dict(llink[(idxs.pop(), n, "dir")]))
            links = [dict(rng.choice(litems))]
            if cmd + plen(n, "miss") + 50 <= frame:
                links.append(dict(llink[(idxs.pop(), n, "miss")]))
                cmd += plen(n, "miss") + 50
            links += fail + [dict(rng.choice(litems))]
            if cmd + plen(n, "miss") + 50 <= frame:
                links.append(dict(llink[(idxs.pop(), n, "miss")]))
            links.append(dict(rng.choice(litems)))
            ops = [{"op": "symlink", "links": links}, {"op": "open", "items": batch()}]
        add(fs, ops)
    # sustained large batches on one long-lived environment (one case = one container, `rounds` batches)
    for sh in sustained:
        if (sh["rounds"] > 100) == ctx.quick():
            continue
        fs = dict(rng.choice([s for s in states if s["sub"] == "absent"]))
        fs["n"] = sh["files"]
        ops = []
        for _ in range(sh["rounds"]):
            idx = rng.sample(range(1, sh["files"] + 1), sh["batch"])
            items = [dict(nindex[(i, rng.choice(["r", "rw"]))]) for i in idx]
            for pos in rng.sample(range(sh["batch"]), 4):          # a few failing items in between
                items[pos] = dict(nindex[(sh["files"] + 1 + rng.randrange(20), "r")])
            ops.append({"op": "open", "items": items})
        add(fs, ops)
    ctx.cov["long_path_cases"] = sum(1 for c in cases if c["fs"].get("ld"))
    if ctx.cov["long_path_cases"] < 8:
        raise vlib.Inconclusive("long-path family not generated")
    cover = len(cases)
    while len(cases) < total:
        fs = dict(rng.choice(states))
        add(fs, [mkop(k) for k in rng.choice(shapes)])
    return cases, cover


def kind0(fs, p):
    if p == "n":
        return "numbered"
    if p == "L":
        return "longpath"
    if p in ("ld", "td"):
        return "%s[l=%s,t=%s]" % (p, fs.get("tl"), fs.get("tt"))
    return {"a": fs["a"], "b": fs["b"], "c": fs["c"] if fs["sub"] == "dir" else "noparent", "sub": fs["sub"]}.get(p, p)


def event_key(tr, at):
    """identify the input class of the rejected event (structure of the request, no expectation)"""
    e = tr["ev"][at]
    fs = tr["fs"]
    if e["e"] == "ping":
        return "ping-after:" + event_key(tr, at - 1)
    if e["e"] == "open":
        if len(e["items"]) > 8:
            if any(i["p"] == "L" for i in e["items"]):
                return "open:longpaths:n=%d:len=%d" % (len(e["items"]), max(i.get("len", 0) for i in e["items"]))
            return "open:long:n=%d:%s/%s" % (len(e["items"]), kind0(fs, e["items"][0]["p"]), e["items"][0]["mode"])
        return "open:" + ",".join("%s/%s%s" % (kind0(fs, i["p"]), i["mode"], "+mk" if i["mk"] else "") for i in e["items"])
    if e["e"] == "symlink" and len(e["links"]) > 8:
        return "symlink:long:n=%d:%s" % (len(e["links"]), "+".join(sorted({kind0(fs, l["link"]) for l in e["links"]})))
    if e["e"] == "symlink":
        return "symlink:" + ",".join("%s->%s" % (kind0(fs, l["link"]), l["to"]) for l in e["links"])
    if e["e"] == "delete":
        return "delete:%s" % kind0(fs, e["p"])
    return e["e"]


def run(ctx):
    probe = ctx.probe("contfs")
    probe_dir = ctx.mkdir("probe")
    shutil.copy(probe, os.path.join(probe_dir, "contfs"))
    os.remove(probe)
    ctx._probes.pop("contfs", None)
    for p in (ctx.scratch, probe_dir):
        os.chmod(p, 0o755)
    a = par([("build", lambda: ctx.build_vdrive("contfs")),
             ("mc", lambda: ctx.tlc("FileOps", cfg=mc_cfg(ctx), workers=4, timeout=900, count=False,
                                    coverage=ctx.tier == "thorough")),
             ("gen", lambda: ctx.tlc("FileOps_Gen", timeout=600, count=False))])
    ctx.tlc_ok("FileOps MC (Aligned, NoneLost for every state x batch)", a["mc"])
    ctx.tlc_ok("FileOps_Gen", a["gen"])
    ctx.states += a["mc"].distinct
    ctx.transitions += a["mc"].generated
    ctx.cov["mc_distinct"] = a["mc"].distinct
    cases, cover = compose(ctx, a["gen"], ctx.pick(190, 2000))
    ctx.log("%d cases (%d covering), %d operations" % (len(cases), cover, sum(len(c["ops"]) for c in cases)))
    cp, op = ctx.path("focases.ndjson"), ctx.path("foobs.ndjson")
    with open(cp, "w") as fh:
        for c in cases:
            fh.write(json.dumps(c) + "\n")
    ctx.vdrive("contfs", ["fileops", cp, op, probe_dir, ctx.mkdir("envs"), "4"], timeout=1800)
    traces = ctx.read_ndjson(op)
    if len(traces) != len(cases):
        raise vlib.Inconclusive("driver returned %d cases for %d" % (len(traces), len(cases)))
    # cases that could not be set up are judged last: a faulty Open (descriptors handed out twice) can
    # damage the driver itself and make the set-up of later cases fail; what was observed still counts
    unset = [tr for tr in traces if tr.get("setup")]
    keep = [i for i, tr in enumerate(traces) if not tr.get("setup")]
    cases = [cases[i] for i in keep]
    traces = [traces[i] for i in keep]
    ctx.log("cases run on real containers (%d could not be set up)" % len(unset))
    t = ctx.tlc("FileOps_Trace", files={"fotraces.ndjson": traces}, timeout=1200, heap="12g")
    ctx.tlc_ok("FileOps_Trace", t)
    drift = 0
    for b in ctx.read_ndjson(os.path.join(t.dir, "bad.ndjson")):
        tr = traces[b["t"] - 1]
        if b["j"] == "drift":
            drift += 1
            if drift <= 3:
                ctx.note("DRIFT implementation-layer difference (empty batch not answered with an error / unreadable file not opened): case %s" % json.dumps(
                    {"fs": tr["fs"], "ev": [e["e"] for e in tr["ev"]]}))
            continue
        at = b["matched"]
        if at >= len(tr["ev"]) or tr["ev"][at]["e"] == "state":
            raise vlib.Inconclusive("case %d: the planted state is not the requested one: %s" % (tr["id"], json.dumps(tr["ev"][:1])[:600]))
        e = tr["ev"][at]
        if e["e"] == "ping":
            what = "the protocol did not survive the previous operation: %s" % e["err"]
        elif e.get("blocked"):
            what = "%s was still blocked after the 8 s watchdog" % e["e"]
        else:
            what = "%s result is not what the reference semantics prescribes for this state: %s" % (e["e"], json.dumps(
                {k: e[k] for k in ("items", "links", "p", "err", "res", "errs", "post") if k in e})[:700])
        ctx.violation(event_key(tr, at), what, {"case": cases[b["t"] - 1], "trace": tr, "rejected_event": at + 1})
    if unset and not ctx.violations and not ctx.known_hits:
        raise vlib.Inconclusive("case %d could not be set up: %s" % (unset[0]["id"], unset[0]["setup"]))
    ctx.states += t.distinct
    ctx.transitions += t.generated
    pats = set()
    nops = nfd = 0
    for tr in traces:
        for e in tr["ev"]:
            if e["e"] == "open" and len(e["res"]) <= 8:
                pats.add("".join("F" if r["fd"] else "e" for r in e["res"]))
            if e["e"] in ("open", "symlink", "delete"):
                nops += 1
            nfd += sum(1 for r in e.get("res", []) if r["fd"])
    ctx.traces = len(traces)
    ctx.cov["sustained_rounds"] = sum(sum(1 for e in tr["ev"] if e["e"] == "open") for tr in traces if tr["fs"].get("n"))
    ctx.cov.update({"drift": drift, "operations": nops, "descriptors_checked": nfd,
                    "open_success_failure_patterns_seen": len(pats),
                    "patterns": sorted(pats)[:64]})
    ctx.sample({"fs": traces[0]["fs"], "ev": traces[0]["ev"][:3]})
    ctx.assumptions += [
        "the check-then-open race inside handleOpen (lstat, then OpenFile) is not exercised: the API is serialized by the environment mutex and every process is killed before Execve returns, so no program runs while the host operates",
        "requests whose command or reply exceeds the 32 KiB frame are answered with one error for the whole call and are not generated; error texts totalling 8-30 KiB (below the frame) are",
        "a batch longer than 253 items may be refused as a whole (one SCM_RIGHTS message), the protocol must stay intact",
        "container init is root in its user namespace: a mode-000 regular file can be opened (refusal is reported as DRIFT)",
    ]
    return dict(evaluations=nops, distinct=len(traces),
                rule="covering family (every planted kind x mode x MkdirAll inside a mixed batch, parent present/absent, empty and long batches) "
                     "+ sustained large batches (up to 253 distinct files, 100-300 rounds on one environment) + seeded sample of TLC-enumerated states x items x shapes",
                exhaustive=False)
