"""Shared helpers of the `launch` family checks (C04, C07): probe build, parallel driver runs,
strace log -> event traces (pure transcription: no expected values live here), case sampling."""
import json
import os
import re
import subprocess
import threading

SITE_KEYS = ["cred", "dropcaps", "nnp", "seccomp", "ptrace", "stop", "sync", "ucg", "pivot"]
ROW_KEYS = ["user", "pid", "mnt", "uts", "ipc", "net", "cgns", "cgfd", "amb"]

STRACE_SET = ("clone,clone3,socketpair,close,read,write,getpid,prctl,setgroups,setgid,setuid,dup3,fcntl,setsid,"
              "ioctl,mount,chdir,mkdirat,mknodat,statfs,pivot_root,umount2,unlinkat,sethostname,setdomainname,"
              "prlimit64,capset,unshare,ptrace,kill,seccomp,execve,execveat,faccessat,openat,wait4")


def build_probe(ctx):
    """static probe in its own directory (that directory is bind-mounted as /bin of pivoted roots)"""
    out = ctx.path("pbin", "launchprobe")
    if not os.path.exists(out):
        ctx.sh(["gcc", "-static", "-O1", "-Wall", "-o", out, os.path.join(os.path.dirname(os.path.dirname(
            os.path.abspath(__file__))), "probes", "launch.c")], check=True)
        os.chmod(os.path.dirname(out), 0o755)
        os.chmod(ctx.scratch, 0o755)
    return out


def run_chunks(ctx, sub, cases, tag, par=4, strace=False, timeout=600, extra_env=None):
    """split cases into `par` chunks, run one driver process per chunk concurrently (each launch on
    its own OS thread inside), optionally each under its own strace -f.  Returns (observations,
    [strace log paths])."""
    from vlib import Inconclusive
    exe = ctx.build_vdrive("launch")
    probe = build_probe(ctx)
    chunks = [cases[i::par] for i in range(par)]
    chunks = [c for c in chunks if c]
    res = [None] * len(chunks)
    logs = []

    def work(k, chunk):
        cf = ctx.path(tag, "cases%d.ndjson" % k)
        of = ctx.path(tag, "obs%d.ndjson" % k)
        with open(cf, "w") as fh:
            for c in chunk:
                fh.write(json.dumps(c, separators=(",", ":")) + "\n")
        sdir = ctx.mkdir(tag, "s%d" % k)
        os.chmod(sdir, 0o755)
        os.chmod(os.path.dirname(sdir), 0o755)
        cmd = [exe, sub, cf, of, sdir, probe]
        if strace:
            lf = ctx.path(tag, "strace%d.out" % k)
            cmd = ["strace", "-f", "-qq", "-s", "64", "-o", lf, "-e", "trace=" + STRACE_SET, "-e", "signal=none"] + cmd + ["strace"]
        rc, o = ctx.sh(cmd, timeout=timeout, cwd=ctx.scratch, env=extra_env)
        res[k] = (rc, o, of)

    ths = [threading.Thread(target=work, args=(k, c)) for k, c in enumerate(chunks)]
    for t in ths:
        t.start()
    for t in ths:
        t.join()
    obs = []
    for k, r in enumerate(res):
        rc, o, of = r
        if rc != 0:
            raise Inconclusive("driver launch %s (chunk %d%s) exited %d:\n%s" % (sub, k, ", strace" if strace else "", rc, o[-4000:]))
        obs += ctx.read_ndjson(of)
        if strace:
            logs.append(ctx.path(tag, "strace%d.out" % k))
    obs.sort(key=lambda x: x["id"])
    return obs, logs


# ------------------------------------------------------------------ strace -> events
_LINE = re.compile(r"^(\d+)\s+(.*)$")
_CALL = re.compile(r"^(\w+)\((.*)$")
_RES = re.compile(r"^<\.\.\. (\w+) resumed>(.*)$")
SECBITS = {"SECBIT_NOROOT": 1, "SECBIT_NOROOT_LOCKED": 2, "SECBIT_NO_SETUID_FIXUP": 4, "SECBIT_NO_SETUID_FIXUP_LOCKED": 8,
           "SECBIT_KEEP_CAPS": 16, "SECBIT_KEEP_CAPS_LOCKED": 32, "SECBIT_NO_CAP_AMBIENT_RAISE": 64,
           "SECBIT_NO_CAP_AMBIENT_RAISE_LOCKED": 128}


def _complete_lines(path):
    """yield (pid, name, argtext, result_text) per completed syscall, in the order of completion per
    pid (unfinished/resumed pairs joined)"""
    pend = {}
    for raw in open(path, errors="replace"):
        m = _LINE.match(raw.rstrip("\n"))
        if not m:
            continue
        pid, rest = int(m.group(1)), m.group(2)
        r = _RES.match(rest)
        if r:
            name, tail = r.group(1), r.group(2)
            head = pend.pop(pid, "")
            full = head + tail
        else:
            c = _CALL.match(rest)
            if not c:
                continue
            name, full = c.group(1), c.group(2)
            if full.endswith("<unfinished ...>"):
                pend[pid] = full[:-len("<unfinished ...>")]
                continue
        k = full.rfind(" = ")
        if k < 0:
            continue
        result = full[k + 3:].strip()
        if result.startswith("?"):
            continue            # interrupted and restarted by the kernel (ERESTARTSYS) / process gone
        yield pid, name, full[:k].rstrip(), result


def _num(s, default=0):
    try:
        return int(s.split()[0], 0)
    except Exception:
        return default


def _secbits(arg):
    v = 0
    for tok in arg.split("|"):
        tok = tok.strip()
        if tok in SECBITS:
            v |= SECBITS[tok]
        else:
            v |= _num(tok)
    return v


def _child_event(name, args, res):
    ok = not res.startswith("-1")
    v = 0
    n = name
    if name == "prctl":
        if args.startswith("PR_SET_SECUREBITS"):
            n = "secbits"
            v = _secbits(args.split(",", 1)[1].rstrip(") ").split(",")[0]) if "," in args else 0
        elif args.startswith("PR_SET_NO_NEW_PRIVS"):
            n = "nnp"
        else:
            n = "prctl_other"
    elif name in ("setgid", "setuid"):
        v = _num(args.rstrip(")"))
    elif name in ("sethostname", "setdomainname"):
        v = _num(args.rsplit(",", 1)[-1].strip().rstrip(")"))      # the length argument
    elif name in ("read", "write"):
        v = _num(res) if ok else 0
    elif name in ("execve", "execveat"):
        n = "execve"
    elif name == "close":
        v = _num(args.rstrip(")"))
    return {"n": n, "v": int(v) & 0x7fffffff, "ok": ok}


def parse_strace(path):
    """-> {case id: {"child": [...], "parent": [...], "childpid": pid}}"""
    out = {}
    cur = {}        # launcher tid -> state of the launch in progress
    bychild = {}    # child pid -> state
    orphans = []    # lines of pids not (yet) known as a child: with CLONE_VFORK the parent's clone line
                    # completes only after the child's execve, i.e. after all of the child's lines
    for pid, name, args, res in _complete_lines(path):
        if name == "faccessat" and "@@" in args:
            m = re.search(r'"@@(case|started|end|cb)-(\d+)"', args)
            if not m:
                continue
            kind, cid = m.group(1), int(m.group(2))
            if kind == "case":
                st = {"id": cid, "child": [], "parent": [], "p0": -1, "p1": -1, "childpid": 0, "open": True,
                      "childdone": False, "mapfds": set()}
                cur[pid] = st
                out[cid] = st
                orphans = []
            elif kind == "cb" and pid in cur:
                cur[pid]["parent"].append({"n": "callback", "v": 0, "ok": True})
            elif kind == "started" and pid in cur:
                cur[pid]["open"] = False
            elif kind == "end":
                st = cur.pop(pid, None)
                if st and st["childpid"] in bychild:
                    del bychild[st["childpid"]]
            continue
        st = cur.get(pid)
        if st is not None and st["open"]:
            ok = not res.startswith("-1")
            if name == "socketpair":
                m = re.search(r"\[(\d+), (\d+)\]", args)
                if m:
                    st["p0"], st["p1"] = int(m.group(1)), int(m.group(2))
            elif name in ("clone", "clone3"):
                cp = _num(res)
                st["parent"].append({"n": "clone", "v": 0, "ok": ok})
                if ok and cp > 0:
                    st["childpid"] = cp
                    bychild[cp] = st
                    for (opid, oname, oargs, ores) in orphans:
                        if opid == cp and not st["childdone"]:
                            ev = _child_event(oname, oargs, ores)
                            st["child"].append(ev)
                            if ev["n"] == "execve" and ev["ok"]:
                                st["childdone"] = True
                    orphans = []
            elif name == "close":
                fd = _num(args.rstrip(")"))
                if fd == st["p1"]:
                    st["parent"].append({"n": "close_p1", "v": 0, "ok": ok})
                    st["p1"] = -1            # the number is reused for the id-map files
                st["mapfds"].discard(fd)
            elif name == "openat":
                m = re.search(r'"/proc/\d+/(uid_map|gid_map|setgroups)"', args)
                if m:
                    if ok:
                        st["mapfds"].add(_num(res))
                    if m.group(1) == "uid_map":
                        st["parent"].append({"n": "idmap", "v": 0, "ok": ok})
                        st["idmap_ev"] = st["parent"][-1]
            elif name in ("read", "write"):
                fd = _num(args.split(",")[0])
                if fd in st["mapfds"] and name == "write" and not ok and st.get("idmap_ev"):
                    st["idmap_ev"]["ok"] = False      # one of the three id-map writes was refused
                if fd == st["p0"]:
                    st["parent"].append({"n": "sock_" + name, "v": _num(res) if ok else 0, "ok": ok})
            elif name == "kill":
                st["parent"].append({"n": "kill", "v": 0, "ok": ok})
            elif name == "wait4":
                st["parent"].append({"n": "wait4", "v": 0, "ok": ok})
            continue
        st = bychild.get(pid)
        if st is None and cur:
            orphans.append((pid, name, args, res))
            if len(orphans) > 4000:
                del orphans[:2000]
        if st is not None and not st["childdone"]:
            ev = _child_event(name, args, res)
            st["child"].append(ev)
            if ev["n"] == "execve" and ev["ok"]:
                st["childdone"] = True
    for st in out.values():
        for k in ("p0", "p1", "open", "childdone", "mapfds", "idmap_ev"):
            st.pop(k, None)
    return out


# ------------------------------------------------------------------ sampling (indices only; TLC decodes)
def covering_rows(rng, nbits=9, strength=2, tries=40):
    """greedy strength-2 covering array over nbits boolean flags -> list of ints"""
    import itertools
    need = set()
    for a, b in itertools.combinations(range(nbits), 2):
        for va in (0, 1):
            for vb in (0, 1):
                need.add((a, va, b, vb))
    rows = []
    while need:
        best, bestc = None, -1
        for _ in range(tries):
            r = rng.getrandbits(nbits)
            c = sum(1 for (a, va, b, vb) in need if (r >> a) & 1 == va and (r >> b) & 1 == vb)
            if c > bestc:
                best, bestc = r, c
        rows.append(best)
        need = {(a, va, b, vb) for (a, va, b, vb) in need
                if not ((best >> a) & 1 == va and (best >> b) & 1 == vb)}
    return rows


def opt_on(o):
    extra = []
    if o.get("cred") and o.get("grp", "several") != "several":
        extra.append("grp=" + o["grp"])
    if o.get("user") and o.get("gmap", "allow") != "allow":
        extra.append("gmap=" + o["gmap"])
    if o.get("uts") and (o.get("hn", "short"), o.get("dn", "long")) != ("short", "long"):
        extra.append("hn=%s,dn=%s" % (o.get("hn"), o.get("dn")))
    return [k for k in SITE_KEYS + ROW_KEYS if o.get(k) is True] + extra


def par(*thunks):
    """run thunks concurrently (staggered so that ctx's TLC run counter is not raced); re-raise the first error"""
    import time
    out = [None] * len(thunks)
    errs = []

    def w(i, f):
        try:
            out[i] = f()
        except BaseException as ex:   # noqa
            errs.append(ex)
    ths = []
    for i, f in enumerate(thunks):
        t = threading.Thread(target=w, args=(i, f))
        t.start()
        ths.append(t)
        time.sleep(0.4)
    for t in ths:
        t.join()
    if errs:
        raise errs[0]
    return out
