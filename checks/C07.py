"""C07 -- sync gate: callback strictly before the target's first instruction with the right pid;
failed launches never run, the error names the failing step, the child is killed and reaped.

1. MC: Launch.tla with FailMode = "all": every fallible step of every site-flag combination may
   fail (one failure per behaviour), the callback may refuse; CallbackBeforeExec, FailedNeverRuns,
   FailedStaysDead, ReapedAtReturn, ErrorNamesStep, FailureReported, ReportedAgrees, Returns.
2. Gen: TLC crosses base configurations with every failure point that has a REAL-input recipe
   (Launch_Gen!Recipes / Applicable) and with callback ok / err.
3. Real runs: forkexec.Runner directly (launch c07) and container.Environment.Execve with SyncFunc,
   sync before / after exec (launch c07c).  No fault-injection hook anywhere.
4. Judge: TLC judges every observation (Launch_JudgeC07).
5. Trace: strace -f step traces of failing (and plain) launches validated against Launch's actions."""
import json
import os
import threading
import time

import launch_common as lc

# site bits: cred1 dropcaps2 nnp4 seccomp8 ptrace16 stop32 sync64 ucg128 pivot256
# row bits : user1 pid2 mnt4 uts8 ipc16 net32 cgns64 cgfd128 amb256
FAMILY = [0, 1, 2, 64, 65, 72, 88, 24, 192, 200, 193, 320, 463, 32, 120, 16, 80, 66, 9, 136, 257, 331, 8, 128, 129, 256, 448, 216, 208]
ROWS = [0, 1, 3, 128, 129, 2]
# = Launch_Gen!GateSites (branch-selecting flags seccomp ptrace stop sync ucg, everything else off)
GATE = {a + b + c + d + e for a in (0, 8) for b in (0, 16) for c in (0, 32) for d in (0, 64) for e in (0, 128)}


def mc_cfg(rows, sites):
    return """CONSTANTS
  Sites = {%s}
  Rows = {%s}
  FailMode = "all"
  Lsbs = {{}}
SPECIFICATION Spec
INVARIANTS InvPost CallbackOnce ExecNeedsApproval FailedNeverRuns ReapedAtReturn ErrorNamesStep FailureReported ReportedAgrees
PROPERTIES CallbackBeforeExec FailedStaysDead Returns
CHECK_DEADLOCK FALSE
""" % (",".join(map(str, sorted(sites))), ",".join(map(str, sorted(rows))))


def ccases():
    out = []
    i = 0
    for ucg in (False, True):
        for mode in ("before", "after"):
            for cb in ("ok", "err"):
                i += 1
                out.append({"id": i, "mode": mode, "cb": cb, "fail": "none", "idx": 0, "ucg": ucg})
            for k in (0, 1, 2):
                i += 1
                out.append({"id": i, "mode": mode, "cb": "ok", "fail": "rlimits", "idx": k, "ucg": ucg})
    return out


def run(ctx):
    from vlib import Inconclusive
    rng = ctx.rng
    quick = ctx.quick()
    # ---- 1. design level (runs while the real launches are made)
    rows = {rng.choice([0, 1, 2, 3])} if quick else {rng.choice([0, 2]), rng.choice([1, 3])}
    mcsites = set(range(512)) if not quick else set(FAMILY) | GATE | set(rng.sample(range(512), 80))
    mc = {}

    def do_mc():
        mc["r"] = ctx.tlc("Launch", cfg=mc_cfg(rows, mcsites), workers=ctx.pick(2, 4), timeout=1200, extra=("-lncheck", "final"))
    mct = threading.Thread(target=do_mc)
    mct.start()
    time.sleep(0.3)

    # ---- 2. cases
    sites = list(FAMILY)
    sites += rng.sample(range(512), ctx.pick(6, 24))
    bases = sorted({s * 512 + r for s in sites for r in ROWS})
    g, _, _ = lc.par(lambda: ctx.tlc("Launch_Gen", cfg="CONSTANTS\n  C04Pairs = {}\n  C04Seq = {}\n  C07Bases = {%s}\nINIT Init\nNEXT Next\n" % ",".join(map(str, bases)),
                                      timeout=600, count=False),
                     lambda: ctx.build_vdrive("launch"), lambda: lc.build_probe(ctx))     # build while TLC generates
    ctx.tlc_ok("Launch_Gen", g)
    allc = ctx.read_ndjson(os.path.join(g.dir, "c07cases.ndjson"))
    allc.sort(key=lambda c: (c["fail"], c["idx"], c["cb"], c["s"], c["r"], c["crash"], c["tbl"]))
    # the gate family (Launch_Gen!GateSites x GateSteps) is run in every tier
    cases = [c for c in allc if c["gate"]]
    ngate = len(cases)
    fam = {}
    for c in allc:
        if c["gate"]:
            continue
        o = c["opt"]
        # class = (failure point, callback, the flags that select the parent's branch and the child's sync site)
        k = (c["fail"], c["idx"], c["cb"], o["sync"], o["ptrace"], o["seccomp"], o["stop"], o["user"])
        fam.setdefault(k, []).append(c)
    pool = []
    per = ctx.pick(1, 2)
    for k in sorted(fam, key=str):
        v = fam[k]
        pool += rng.sample(v, min(per, len(v)))
    budget = ctx.pick(80, 700)
    if len(pool) > budget:
        keep = {}
        for c in pool:        # at least one per (failure point, index, callback)
            keep.setdefault((c["fail"], c["idx"], c["cb"]), c)
        kept = list(keep.values())
        rest = [c for c in pool if all(c is not x for x in kept)]
        pool = kept + rng.sample(rest, max(0, budget - len(kept)))
    cases += pool
    for i, c in enumerate(cases):
        c["id"] = i + 1
    ctx.log("generated %d applicable (configuration, failure point, callback) cases, running %d (%d gate family, %d failure points)" % (
        len(allc), len(cases), ngate, len({(c["fail"], c["idx"]) for c in cases})))
    ctx.cov["gate_family_cases"] = ngate
    ctx.cov["low_descriptor_table_cases"] = sum(1 for c in cases if c["tbl"])
    ctx.cov["launcher_death_cases"] = sum(1 for c in cases if c["crash"])

    # ---- 3. real runs
    res = {}

    def do_cont():
        try:
            cc = ccases()
            cf = ctx.path("cont", "cases.ndjson")
            with open(cf, "w") as fh:
                for c in cc:
                    fh.write(json.dumps(c) + "\n")
            of = ctx.path("cont", "obs.ndjson")
            ctx.vdrive("launch", ["c07c", cf, of, ctx.mkdir("cont", "s"), lc.build_probe(ctx)], timeout=300)
            res["cobs"] = ctx.read_ndjson(of)
        except Exception as ex:       # reported below
            res["cerr"] = ex
    lc.build_probe(ctx)
    ctx.build_vdrive("launch")
    ct = threading.Thread(target=do_cont)
    ct.start()
    obs, _ = lc.run_chunks(ctx, "c07", cases, "plain", par=4, timeout=ctx.pick(300, 1500))
    st_pool = [c for c in cases if not c["crash"] and not c["tbl"] and not c["opt"]["ptrace"] and not (c["opt"]["stop"] and c["opt"]["sync"]) and c["fail"] not in ("keepcaps", "dropA_secbits")]
    rng.shuffle(st_pool)
    st_cases = []
    for i, c in enumerate(st_pool[:ctx.pick(32, 150)]):
        c2 = dict(c)
        c2["id"] = 100000 + i
        st_cases.append(c2)
    sobs, logs = lc.run_chunks(ctx, "c07", st_cases, "strace", par=4, strace=True, timeout=ctx.pick(300, 1500))
    ct.join()
    if "cerr" in res:
        raise Inconclusive("container driver failed: %s" % res["cerr"])
    cobs = res["cobs"]
    ctx.log("launches: %d forkexec, %d under strace, %d container Execve" % (len(obs), len(sobs), len(cobs)))

    mct.join()
    r = mc["r"]
    ctx.tlc_ok("Launch MC (C07: failure at every fallible step, %d rows x %d site combinations)" % (len(rows), len(mcsites)), r)
    ctx.cov["mc_configurations"] = len(mcsites) * len(rows)
    ctx.cov["mc_states"] = r.distinct
    ctx.log("MC: %d distinct states, %.0fs" % (r.distinct, r.wall))

    allobs = obs + sobs
    # ---- 4/5. judge and step traces (two TLC runs, concurrently)
    parsed = {}
    for lf in logs:
        parsed.update(lc.parse_strace(lf))
    byid = {o["id"]: o for o in sobs}
    traces = []
    for cid in sorted(parsed):
        o = byid.get(cid)
        if o is None:
            continue
        p = parsed[cid]
        traces.append({"id": cid, "opt": o["opt"], "req": {"uid": o["req"]["uid"], "gid": o["req"]["gid"], "hostlen": len(o["req"]["host"]), "domlen": len(o["req"]["domain"])},
                       "child": p["child"], "parent": p["parent"]})
    trace_gap = len(traces) < len(sobs) * 0.9
    cfg = open(os.path.join(os.path.dirname(os.path.dirname(os.path.abspath(__file__))), "spec", "Launch_Trace.cfg")).read()
    cfg = cfg.replace('FailMode = "none"', 'FailMode = "all"')
    j, t = lc.par(lambda: ctx.tlc("Launch_JudgeC07", files={"c07obs.ndjson": allobs, "c07cobs.ndjson": cobs}, timeout=900, count=False),
                  lambda: ctx.tlc("Launch_Trace", cfg=cfg, files={"ltraces.ndjson": traces}, timeout=1200, dfs=True) if traces else None)
    ctx.tlc_ok("Launch_JudgeC07", j)
    drift = 0
    setups = []
    for fn, src, kind in (("c07bad.ndjson", allobs, "forkexec"), ("c07cbad.ndjson", cobs, "container")):
        for b in ctx.read_ndjson(os.path.join(j.dir, fn)):
            o = src[b["i"] - 1]
            if kind == "forkexec":
                where = "fail=%s[%d] cb=%s%s [%s]" % (o["fail"], o["idx"], o["cb"], ((" launcher-death=" + o["crash"]) if o["crash"] else "") + ((" files=" + o["tbl"] + "-table sock@" + o["sock"]) if o.get("tbl") else ""),
                                                     " ".join(lc.opt_on(o["opt"])))
                key = "%s:%s:%s" % (b["what"], o["fail"], b["sig"])
                case = slim(o)
            else:
                where = "container mode=%s cb=%s fail=%s[%d]" % (o["mode"], o["cb"], o["fail"], o["idx"])
                key = "container:%s:%s:%s" % (b["what"], o["mode"], o["fail"])
                case = o
            if b["j"] == "setup":
                setups.append("case could not be arranged (%s): %s" % (b["what"], where))
                continue
            if b["j"] == "drift":
                drift += 1
                if drift <= 8:
                    ctx.note("DRIFT %s (%s)" % (b["what"], where))
                continue
            ctx.violation(key, "C07 clause '%s' violated: %s" % (b["what"], where), case)

    # set-up trouble makes the run inconclusive unless a real breach was observed anyway
    if setups and not ctx.violations:
        raise Inconclusive("; ".join(setups[:5]))
    if trace_gap and not ctx.violations:
        raise Inconclusive("strace logs yielded %d traces for %d launches" % (len(traces), len(sobs)))
    if traces:
        if t.invariant:
            ctx.note("DRIFT: a step trace leads the model to a state violating %s" % t.invariant)
            drift += 1
        elif not t.no_error and not ctx.violations:
            raise Inconclusive("Launch_Trace did not finish cleanly:\n" + t.tail(40))
        tb = ctx.read_ndjson(os.path.join(t.dir, "lbad.ndjson"))
        for b in tb:
            tr = traces[b["t"] - 1]
            o = byid[tr["id"]]
            drift += 1
            if drift <= 12:
                ctx.note("DRIFT step trace of case %d fail=%s[%d] [%s] rejected after %d of %d events; child: %s | parent: %s" % (
                    tr["id"], o["fail"], o["idx"], " ".join(lc.opt_on(tr["opt"])), b["matched"], b["total"],
                    " ".join(e["n"] + ("" if e["ok"] else "!") for e in tr["child"]),
                    " ".join(e["n"] + ("" if e["ok"] else "!") for e in tr["parent"])))
        ctx.traces = len(traces)
        ctx.cov["step_traces_rejected"] = len(tb)
    ctx.cov["drift"] = drift
    ctx.cov["failing_launches"] = sum(1 for o in allobs if o["fail"] != "none" or o["cb"] == "err")
    ctx.cov["failure_points_induced"] = sorted({"%s[%d]" % (o["fail"], o["idx"]) for o in allobs if o["fail"] != "none"})
    ctx.cov["container_execves"] = len(cobs)
    ctx.sample(slim(next(o for o in allobs if o["fail"] != "none")))
    ctx.sample(slim(next(o for o in allobs if o["cb"] == "err")))
    ctx.sample(cobs[1])
    ctx.assumptions += [
        "every failure is induced by a real input whose refusal by the kernel is deterministic (missing path, unmapped id, limit above the hard limit without CAP_SYS_RESOURCE, empty BPF program, locked securebits, descriptor not open, clone3 into a non-cgroup directory)",
        "steps with no real failing input (close, getpid, setsid, capset, no_new_privs, ptrace_me, stop, second/third securebits site, umount/unlink of the pivot block) are covered by the model only",
        "with StopBeforeSeccomp or ptrace+seccomp Start returns before exec by design: 'names the failing step' is judged only for errors Start returns (LaunchSteps!Reported), 'never runs' on the marker and the child's end",
        "the callback sleeps 15 ms before looking: a child that is really blocked stays blocked, one that was let go has exec'd by then",
        "launcher death: a helper launcher process exits / is SIGKILLed inside its SyncFunc; the orphaned child is given up to 1.5 s (it needs < 5 ms either way), then everything whose command line carries the case's nonce is killed",
        "container: the marker is looked up through Environment.Open, children through /proc/<init>/task/*/children",
    ]
    return dict(evaluations=len(allobs) + len(cobs) + len(traces), distinct=ctx.cov["failing_launches"] + len(cobs),
                rule="one real launch per generated (configuration, failure point, callback result); non-trivial = a failure or a refusing callback was induced, or a container Execve",
                exhaustive=False)


def slim(o):
    return {"id": o["id"], "opt_on": lc.opt_on(o["opt"]), "fail": o["fail"], "idx": o["idx"], "cb": o["cb"], "started": o["started"],
            "err": o["err"], "marker": o["marker"], "crash": o["crash"], "orphan": o["orphan"], "wait": o["wait"], "kids": o["kids"], "exit": o["exit"], "report": o["report"],
            "cbobs": o["cbobs"], "hostpid": o["hostpid"], "dpid": o["dpid"]}
