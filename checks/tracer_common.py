"""Shared helpers of the tracer family checks (C03, C15): run generated cases through the
`tracer` driver (real runner/ptrace, scripted probe) in parallel shards and read the observations."""
import json
import os
import subprocess

import vlib

PROBE_FLAGS = ["-nostdlib", "-ffreestanding", "-fno-stack-protector", "-no-pie",
               "-fno-tree-loop-distribute-patterns"]


def build_probe(ctx):
    # not ctx.probe(): its output name would collide with the driver binary bin/tracer
    out = ctx.path("bin", "tracer-probe")
    if not os.path.exists(out):
        ctx.sh(["gcc", "-static", "-O1", "-Wall", "-o", out, os.path.join(vlib.VERIF, "probes", "tracer.c")] + PROBE_FLAGS,
               check=True)
    return out


def run_cases(ctx, cases, tag, shards=4, timeout=900):
    """Run the cases; runs that hit the driver's deadline without the 'stuck' pattern (slow host)
    are repeated alone with longer deadlines; still not ending after 60 s -> counted as stuck."""
    obs = _run_cases(ctx, cases, tag, shards, timeout)
    for attempt, dl in enumerate((15000, 60000)):
        slow = [(i, o) for i, o in enumerate(obs) if o.get("timeout")]
        if not slow:
            break
        ctx.note("%d run(s) hit the deadline on a slow host; repeating with %d s" % (len(slow), dl // 1000))
        by_id = {c["id"]: c for c in cases}
        again = []
        for _, o in slow:
            c = dict(by_id[o["id"]])
            c["deadline"] = dl
            c["reps"] = 1
            again.append(c)
        new = _run_cases(ctx, again, "%s_retry%d" % (tag, attempt), 4, max(timeout, len(again) * dl // 4000 + 180))
        if len(new) != len(slow):
            raise vlib.Inconclusive("retry returned %d observations for %d runs" % (len(new), len(slow)))
        for (i, o), n in zip(slow, new):
            n["rep"] = o["rep"]
            obs[i] = n
    # three attempts (4 s, 15 s, 60 s) of a program that needs milliseconds and none ended: the run
    # makes no progress; judged like a stuck run
    for o in obs:
        if o.get("timeout"):
            o["stuck"] = True
            o["stuckat"] = "no end within 60 s in 3 attempts; tracees: %s" % o.get("stuckat")
    return obs


def _run_cases(ctx, cases, tag, shards=4, timeout=900):
    """cases: list of dicts (driver Case format).  Returns the list of observations (driver Obs
    format) in case order."""
    exe = ctx.build_vdrive("tracer")
    probe = build_probe(ctx)
    cpath = ctx.path(tag, "cases.ndjson")
    with open(cpath, "w") as fh:
        for c in cases:
            fh.write(json.dumps(c, separators=(",", ":")) + "\n")
    work = ctx.mkdir(tag, "work")
    procs = []
    shards = max(1, min(shards, len(cases)))
    for i in range(shards):
        out = ctx.path(tag, "obs%d.ndjson" % i)
        p = subprocess.Popen([exe, "run", cpath, out, probe, work, "%d/%d" % (i, shards)],
                             stdout=subprocess.PIPE, stderr=subprocess.STDOUT, text=True, env=ctx.env,
                             cwd=ctx.scratch)
        procs.append((p, out))
    obs = []
    for p, out in procs:
        try:
            o, _ = p.communicate(timeout=timeout)
        except subprocess.TimeoutExpired:
            for q, _ in procs:
                q.kill()
            raise vlib.Inconclusive("tracer driver timed out (%s)" % tag)
        if p.returncode != 0:
            raise vlib.Inconclusive("tracer driver failed (%s): %s" % (tag, (o or "")[-3000:]))
        obs += ctx.read_ndjson(out)
    obs.sort(key=lambda o: (o["id"], o["rep"]))
    return obs


def script_text(o):
    return o.get("raw", "")


def slim(o, keep_events=False):
    """the part of an observation worth keeping in replay files / samples"""
    d = {k: o[k] for k in ("id", "rep", "raw", "script", "dec", "filter", "traps", "logs", "effects", "status", "exit",
                           "error", "stuck", "stuckat", "left", "timeout") if k in o}
    if o.get("class"):
        d["class"] = o["class"]
    if keep_events:
        d["events"] = [[e["ev"], e["p"], e["kind"], e["sig"], e["cause"], e["code"], e["act"], e["err"]]
                       for e in o.get("events") or []]
    return d
