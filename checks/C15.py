"""C15 -- a sandboxed program cannot make the runner itself fail.

1. MC   Tracer.tla in its hostile environment: arbitrary handler answers / memory-read outcomes,
        tasks SIGKILLed by the program while they sit in a ptrace stop (ESRCH on the next request),
        exit_group / filter kills racing with stops: invariant NeverRunnerError, FinishedAllDead,
        deadlock-freedom, termination under fairness.
        Two deliberately "unrepaired" configurations must each produce the counterexample of a
        defect that was found this way (ESRCH -> Runner Error, unterminated path -> panic), and the
        setsid configuration must deadlock (open finding): the model predicts, real runs decide.
2. Gen  Tracer15_Gen.tla: hostile-argument grid (traced syscall x pointer class x length x integer
        garbage x syscall-number class x unreadable open_how); Tracer_Gen.tla with the J/P alphabet:
        task-death races.
3. Bind every case runs under the REAL runner/ptrace runner (probe issues the raw syscall); race
        cases are repeated, with and without small delays at the tracer's verifPoints (widening
        of windows only).
4. Tracer15_Judge.tla: TLC judges Result.status / stuck of every run (property layer) and the
        specific verdict (implementation layer -> drift).  Tracer_Trace.tla validates the tracer's
        hook events of the race runs.
"""
import json
import os

import vlib
import tracer_common as tc

BASE = """CONSTANTS
  MainAlpha = %s
  ChildAlpha = %s
  MaxMain = %d
  MaxChild = %d
  MaxSpawn = %d
  MaxT = 2
  MaxTotal = %d
  EsrchFatal = %s
  ChildSigsysIgnored = FALSE
  AnyDecision = TRUE
  ClenPanics = %s
  Noise = %s
"""
INV = """SPECIFICATION Spec
VIEW MCView
INVARIANTS TypeOK NeverRunnerError FinishedAllDead
CHECK_DEADLOCK TRUE
"""
LIVE = """SPECIFICATION FairSpec
PROPERTY Terminates
CHECK_DEADLOCK TRUE
"""
HOSTILE_MAIN = '{"T","W","F","C","V","J","K","X3"}'


def mc_cfg(main=HOSTILE_MAIN, child='{"T","K"}', mm=3, mc=1, ms=1, tot=3, esrch="FALSE", clen="FALSE", noise="FALSE", tail=INV):
    return BASE % (main, child, mm, mc, ms, tot, esrch, clen, noise) + tail


RACE_GEN = """CONSTANTS
  MainAlpha = {"F","C","V","J","W","X3","K","T"}
  ChildAlpha = {"T","P"}
  MaxMain = 3
  MaxChild = 2
  MaxSpawn = 1
  MaxT = 1
  MaxTotal = 5
INIT Init
NEXT Next
"""

INTS = {"zero": "0", "fdcwd32": "ffffff9c", "fdcwd64": "ffffffffffffff9c", "minus1": "ffffffffffffffff",
        "hi": "deadbeef00000003", "i31": "80000000", "i63": "8000000000000000"}
NRS = {"unknown9999": "270f", "unknownbig": "3fffffff", "neg1": "-1", "neg2": "-2", "negmin": "8000000000000000",
       "x32openat": "40000101", "x32execve": "4000003b", "x32bare": "40000000"}


def render_arg(a):
    c, n = a["c"], a["n"]
    if c in INTS:
        return "%x" % n if (c == "zero" and n) else INTS[c]
    if c in ("str", "odd", "edge", "edgez"):
        return "@%s.%d" % (c, n)
    return "@" + c


def render(c):
    nr = NRS[c["nrc"]] if c["nrc"] else "%x" % c["nr"]
    return "H" + nr + "".join(";" + render_arg(a) for a in c["args"]) + ",X0"


def hostile_of(c):
    """the hostile ingredient of a grid case, for keys and sampling"""
    if c["kind"] == "nr":
        return "nr:" + c["nrc"]
    idx = {"p0": [0], "p0p1": [0, 1], "d0p1": [1], "d0p1d2p3": [1, 3], "how": [1, 2]}[c["lay"]]
    if c["kind"] == "int":
        return "int:%s/%s" % (c["args"][0]["c"], c["args"][2]["c"])
    a = c["args"][idx[-1] if c["kind"] in ("path2", "how") else idx[0]]
    return "%s:%s.%d" % (c["kind"], a["c"], a["n"])


def err_class(o):
    e = o.get("error") or ""
    if "slice bounds out of range" in e:
        return "panic-slice-bounds"
    if "runtime error" in e:
        return "panic"
    if "no such process" in e:
        return "esrch"
    return "-".join(e.split()[:3]) or "none"


def expect_cex(ctx, what, r, kind):
    """a deliberately unrepaired configuration must reproduce the defect in the model"""
    found = (r.invariant == "NeverRunnerError") if kind == "inv" else r.deadlock
    ctx.cov.setdefault("model_counterexamples", {})[what] = bool(found)
    if not found:
        if r.timed_out or r.tool_error:
            raise vlib.Inconclusive("TLC failed on %s:\n%s" % (what, r.tail(40)))
        ctx.note("model no longer reproduces %s" % what)


def build_cases(ctx, t, info):
    # ---- 1. design level
    # quick: 2 tasks, main <= 3 ops; thorough: 3 tasks (2 spawns, threads of children), SIGCHLD / group-stop noise
    r = ctx.tlc("Tracer", cfg=mc_cfg(noise="TRUE", ms=2, mm=2, tot=3, child='{"T","K","C"}') if t else mc_cfg(),
                workers=4, timeout=ctx.pick(400, 1500))
    if r.invariant or r.deadlock:
        raise vlib.Inconclusive("Tracer.tla (hostile) violates %s:\n%s" % (r.invariant or "deadlock-freedom", r.tail(60)))
    ctx.tlc_ok("Tracer MC hostile", r)
    ctx.cov["mc_states"] = r.distinct
    if t:
        lv = ctx.tlc("Tracer", cfg=mc_cfg(main='{"T","W","F","C","J","X3"}', child='{"T"}', mm=3, tot=3, tail=LIVE),
                     workers=4, timeout=900)
        ctx.tlc_ok("Tracer hostile: Terminates under fairness, no deadlock", lv)
    # the model reproduces the defects / the open finding (thorough; quick only the open one)
    e1 = e2 = None
    if t:
        e1 = ctx.tlc("Tracer", cfg=mc_cfg(main='{"C","F","X3"}', child='{"T"}', mm=2, tot=3, esrch="TRUE"), workers=2, timeout=300, count=False)
        expect_cex(ctx, "ESRCH from PTRACE_SETOPTIONS on a task killed in its first stop -> Runner Error", e1, "inv")
        e2 = ctx.tlc("Tracer", cfg=mc_cfg(main='{"T"}', child='{"T"}', mm=1, ms=1, tot=1, clen="TRUE"), workers=2, timeout=300, count=False)
        expect_cex(ctx, "full path buffer without NUL -> panic -> Runner Error", e2, "inv")
    e3 = ctx.tlc("Tracer", cfg=mc_cfg(main='{"F","W"}', child='{"P","T"}', mm=2, mc=2, tot=4), workers=2, timeout=300, count=False)
    expect_cex(ctx, "child leaves the process group (setsid) and stops at a traced call -> nobody waits for it", e3, "deadlock")
    # ---- 2. cases
    g = ctx.tlc("Tracer15_Gen", timeout=600, count=False)
    ctx.tlc_ok("Tracer15_Gen", g)
    grid = ctx.read_ndjson(os.path.join(g.dir, "cases15.ndjson"))
    grid.sort(key=lambda c: json.dumps(c, sort_keys=True))
    rg = ctx.tlc("Tracer_Gen", cfg=RACE_GEN, timeout=900, count=False)
    ctx.tlc_ok("Tracer_Gen (races)", rg)
    races = []
    for c in ctx.read_ndjson(os.path.join(rg.dir, "cases.ndjson")):
        dec = c["dec"] if isinstance(c["dec"], dict) else {}
        ks = [o["k"] for tk in c["script"] for o in tk]
        if len(c["script"]) < 2 or any(d != "allow" for p in dec.values() for d in p):
            continue
        if not (set(ks) & {"J", "X", "K", "P"}) or "T" not in ks:
            continue
        c["dec"] = dec
        races.append(c)
    races.sort(key=lambda c: json.dumps(c, sort_keys=True))
    ngrid, nrace = len(grid), len(races)
    esc = [c for c in races if any(o["k"] == "P" for tk in c["script"] for o in tk)]
    races = [c for c in races if c not in esc]
    # only the escapes that do stop at a traced call afterwards and are waited for are interesting; each costs 3 s
    esc = [c for c in esc if [o["k"] for o in c["script"][1]] == ["P", "T"]
           and [o["k"] for o in c["script"][0]] in (["F", "W"], ["V"], ["F", "W", "T"])]
    if not t:
        pinned = [c for c in grid if c["kind"] == "nr" or (c["name"] in ("openat", "execve", "rename", "openat2") and c["kind"] in ("path", "path2", "how"))]
        rest = [c for c in grid if c not in pinned]
        ctx.rng.shuffle(rest)
        grid = pinned + rest[:max(0, 150 - len(pinned))]
        ctx.rng.shuffle(races)
        races = races[:30]
        esc = esc[:1]
    else:
        esc = esc[:3]
    cases = []
    for c in grid:
        cases.append({"raw": render(c), "dec": {}, "filter": "trace", "other": "allow",
                      "class": {"kind": c["kind"], "name": c["name"], "hostile": hostile_of(c)}})
    reps = ctx.pick(2, 12)
    for c in races:
        for delay in ({}, {"tracer.firststop": 2, "tracer.seccomp": 2}):
            cases.append({"script": c["script"], "dec": c["dec"], "filter": "kill", "other": "allow", "reps": reps, "delay": delay,
                          "class": {"kind": "race", "name": "race", "hostile": "race" + ("+delay" if delay else "")}})
    for c in esc:
        cases.append({"script": c["script"], "dec": c["dec"], "filter": "kill", "other": "allow", "reps": 1, "scan": True,
                      "class": {"kind": "race", "name": "setsid", "hostile": "setsid"}})
    info.update(ngrid=ngrid, nrace=nrace, grid=grid, races=races, esc=esc, reps=reps)
    return cases


def run(ctx):
    t = ctx.tier == "thorough"
    info = {"ngrid": 0, "nrace": 0, "grid": [], "races": [], "esc": [], "reps": 1}
    if ctx.replay and ctx.replay.get("case"):
        rc = ctx.replay["case"]
        cases = [{"raw": "" if rc.get("script") else rc["raw"], "script": rc.get("script") or [],
                  "dec": rc.get("dec") or {}, "filter": rc.get("filter", "trace"), "other": "allow",
                  "reps": 20 if (rc.get("class") or {}).get("kind") == "race" else 1,
                  "class": rc.get("class") or {"kind": "path", "name": "replay", "hostile": "replay"}}]
    else:
        cases = build_cases(ctx, t, info)
    for i, c in enumerate(cases):
        c["id"] = i + 1
    grid, races, esc, ngrid, nrace, reps = info["grid"], info["races"], info["esc"], info["ngrid"], info["nrace"], info["reps"]
    ctx.log("cases: %d grid (of %d), %d race scripts (of %d) x %d reps x 2, %d setsid" % (len(grid), ngrid, len(races), nrace, reps, len(esc)))
    # ---- 3. real runs
    obs = tc.run_cases(ctx, cases, "c15", shards=4, timeout=ctx.pick(400, 1800))
    jobs = [{"i": i + 1, "kind": o["class"]["kind"], "status": o["status"], "stuck": bool(o["stuck"])} for i, o in enumerate(obs)]
    # ---- 4. TLC judges
    j = ctx.tlc("Tracer15_Judge", files={"obs15.ndjson": jobs}, timeout=600)
    ctx.tlc_ok("Tracer15_Judge", j)
    drift = 0
    for b in ctx.read_ndjson(os.path.join(j.dir, "bad15.ndjson")):
        o = obs[b["i"] - 1]
        if b["j"] == "drift":
            drift += 1
            if drift <= 5:
                ctx.note("DRIFT verdict %s (error %r) for %s [%s]" % (o["status"], o["error"], o["raw"], o["class"]["hostile"]))
            continue
        cl = o["class"]
        if o["stuck"]:
            key = "stuck:%s:%s" % (cl["hostile"], "/".join("".join(x["k"] for x in tk) for tk in (o.get("script") or [])))
            what = "the run made no progress: deadline reached with tracees in a ptrace stop nobody waits for (%s); program %s" % (o["stuckat"], o["raw"])
        else:
            key = "%s:%s:%s" % (o["status"], err_class(o), cl["hostile"] if cl["kind"] != "race" else
                                "race:" + "/".join("".join(x["k"] for x in tk) for tk in (o.get("script") or [])))
            what = "verdict %s (%r) for program %s [%s %s]" % (o["status"], o["error"], o["raw"], cl["name"], cl["hostile"])
        ctx.violation(key, what, tc.slim(o, keep_events=True))
    # implementation-layer traces of the race runs
    robs = [o for o in obs if o["class"]["kind"] == "race" and not o["stuck"] and o.get("script")]
    if robs:
        import C03
        it = ctx.tlc("Tracer_Trace", files={"obs.ndjson": C03.prep_obs(robs)}, timeout=ctx.pick(400, 1500), heap="8g")
        ctx.tlc_ok("Tracer_Trace", it)
        dr = ctx.read_ndjson(os.path.join(it.dir, "drift.ndjson"))
        for d in dr[:5]:
            o = robs[d["t"] - 1]
            evs = [e for e in o["events"] if e["ev"] != "start"]
            e = evs[d["matched"]] if d["matched"] < len(evs) else {}
            ctx.sample(tc.slim(o, keep_events=True), limit=8)
            ctx.note("DRIFT %s: tracer event %d/%d not an action of Tracer.tla: %s" % (
                o["raw"], d["matched"] + 1, d["total"], json.dumps({k: v for k, v in e.items() if v not in (0, "", False)})))
        drift += len(dr)
    ctx.cov["drift"] = drift
    ctx.traces = len(obs)
    st = {}
    for o in obs:
        k = "%s/%s" % (o["class"]["kind"], o["status"])
        st[k] = st.get(k, 0) + 1
    ctx.cov["verdicts"] = st
    ctx.cov["grid_generated"] = ngrid
    ctx.cov["left_alive_after_return"] = sum(1 for o in obs if o.get("left"))
    for o in (obs[0], obs[len(obs) // 3], obs[-1]):
        ctx.sample(tc.slim(o))
    ctx.assumptions += [
        "kernel behaviour as listed at the head of Tracer.tla",
        "the handler is allow-all (runner/ptrace's own Handle decodes every argument first)",
        "delays at verifPoints only widen race windows that exist without them (same scripts also run undelayed)",
        "'stuck' = after 3 s the run has not returned and a tracee sits in a ptrace stop while the tracer sleeps in wait4",
    ]
    return dict(evaluations=len(obs), distinct=len(grid) + len(races) + len(esc),
                rule="grid: TLC-enumerated (syscall, pointer class, length, int garbage, number class); races: generated "
                     "kill/exit/filter-kill scripts x repetitions; quick = pinned + seeded sample, thorough = all",
                exhaustive=bool(t))
