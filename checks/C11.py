"""C11 -- cancel / Destroy at any moment end the run promptly with a truthful verdict.

MC: RunCancel (canceller goroutine x child life line; kill(-pgid) reaches the child only after setsid)
for the ptrace and namespace runners, ContainerProto (CancelReturns, AllReturn with Destroy/crash) for
the container.  Gen: TLC enumerates (runner, program, instant, descriptor-list size, Destroy).
Real runs: each case executed; TLC judges the observations (RunCancel_Judge)."""
import json
import os

import contlib
import vlib


def run(ctx):
    for waits, name in (("FALSE", "ptrace runner"), ("TRUE", "namespace runner")):
        cfg = ("CONSTANTS StartWaitsExec = %s\n  KillPid = TRUE\nSPECIFICATION Spec\nINVARIANT Truthful\n"
               "PROPERTY CancelEndsRun\nCHECK_DEADLOCK FALSE\n" % waits)
        r = ctx.tlc("RunCancel", cfg=cfg, timeout=300)
        ctx.tlc_ok("RunCancel MC (%s)" % name, r)
    # the design without the extra kill(pid) must lose the cancellation (the model is not vacuous)
    cfg = ("CONSTANTS StartWaitsExec = FALSE\n  KillPid = FALSE\nSPECIFICATION Spec\nPROPERTY CancelEndsRun\nCHECK_DEADLOCK FALSE\n")
    r = ctx.tlc("RunCancel", cfg=cfg, timeout=300, count=False)
    if not r.temporal:
        raise vlib.Inconclusive("RunCancel without KillPid should violate CancelEndsRun (vacuity check)")
    cfg = open(os.path.join(vlib.VERIF, "spec", "ContainerProto_MC.cfg")).read().replace("MaxCalls = 3", "MaxCalls = %d" % ctx.pick(1, 2))
    cfg = cfg.replace('{"ping", "open", "delete", "exec"}', '{"open", "exec"}')
    r = ctx.tlc("ContainerProto", cfg=cfg, workers=4, timeout=1500)
    ctx.tlc_ok("ContainerProto MC (CancelReturns)", r)
    if not ctx.quick():
        r = ctx.tlc("ContainerProto", cfg="ContainerProto_MCD.cfg", workers=4, timeout=2400)
        ctx.tlc_ok("ContainerProto MC (Destroy/crash, AllReturn)", r)
    offs = ctx.pick("0, 1, 3, 8, 20, 60", "0, 1, 2, 3, 5, 8, 12, 16, 20, 30, 45, 60, 100")
    g = ctx.tlc("RunCancel_Gen", cfg="CONSTANTS Offs = {%s}\n  Reps = %d\nINIT Init\nNEXT Next\n" % (offs, ctx.pick(1, 4)),
                timeout=300, count=False)
    ctx.tlc_ok("RunCancel_Gen", g)
    cases = ctx.read_ndjson(os.path.join(g.dir, "cases.ndjson"))
    cases.sort(key=lambda c: json.dumps(c, sort_keys=True))
    ctx.rng.shuffle(cases)
    cases = [dict(c, id=i + 1) for i, c in enumerate(cases)]
    ctx.log("cancel/destroy cases: %d" % len(cases))
    obs = contlib.run_sharded(ctx, "c11", cases, shards=8, timeout=2400)
    bad_setup = [o for o in obs if o is None or o.get("setup")]
    if bad_setup:
        raise vlib.Inconclusive("%d cases could not be set up: %s" % (len(bad_setup), json.dumps(bad_setup[0])[:500]))
    for o in obs:
        o.pop("setup", None)
    j = ctx.tlc("RunCancel_Judge", files={"obs.ndjson": obs}, timeout=600)
    ctx.tlc_ok("RunCancel_Judge", j)
    for b in ctx.read_ndjson(os.path.join(j.dir, "bad.ndjson")):
        o = obs[b["i"] - 1]
        when = "pre" if o["at"] < 0 else "at"
        how = "hang" if o["r"] == "hang" else "alive" if o["alive"] or o["init_alive"] else \
              "late" if o["r"] == "verdict" and o["status"] == 2 else "%s:%s:%s" % (o["r"], o["status"], o["err"][:40])
        if o.get("frozen") and o["r"] != "err":
            how = "inflight-call-returned-" + o["r"]
        key = "%s:%s:%s:%s:%s" % (o["runner"], "destroy" if o["destroy"] else "cancel", o["prog"], when, how)
        ctx.violation(key, "run did not end as C11 requires: r=%s status=%s code=%s elapsed=%sms alive=%s init_alive=%s err=%r" % (
            o["r"], o["status"], o["code"], o["elapsed"], o["alive"], o["init_alive"], o["err"]), o)
    ctx.traces += len(obs)
    ctx.cov["max_elapsed_after_cancel_ms"] = max(o["elapsed"] - max(o["at"], 0) for o in obs)
    ctx.cov["outcomes"] = {}
    for o in obs:
        k = "%s/%s/%s" % (o["runner"], "destroy" if o["destroy"] else "cancel", "TLE" if o["status"] == 2 else o["r"])
        ctx.cov["outcomes"][k] = ctx.cov["outcomes"].get(k, 0) + 1
    ctx.sample(obs[0]); ctx.sample(obs[len(obs) // 2])
    ctx.assumptions += ["kill(-pgid) reaches a process only after it became leader of that group (setsid)",
                        "bounded time = 8 s after the cancellation instant (typical < 100 ms)",
                        "cancellation instants are timer-based (0..100 ms sweep + already-cancelled); the pre-setsid window is widened with a 3000-entry descriptor list"]
    return dict(evaluations=len(obs), distinct=len({(o["runner"], o["prog"], o["at"], o["nfiles"], o["destroy"], o["frozen"]) for o in obs}),
                rule="TLC-enumerated (runner, program, cancellation/Destroy instant, descriptor list size); distinct = distinct tuples",
                exhaustive=False)
