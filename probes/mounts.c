// C05 probe: runs inside the sandbox (new root) and reports what it can see and do.
// It contains no expectation: it lists, tries, and writes one JSON object to <outfd>.
//
//   mounts <outfd> [T:<path>]... [M:<path>]... [C:<canary basename>] [H:<host abs path of canary>]...
//
//   T:<path>   modification attempts under/at <path> (kind chosen from what the kernel says is there)
//   M:<path>   what is visible at a path that is supposed to be masked
//   C:<name>   basename searched for in the whole visible tree
//   H:<path>   host path tried directly and below /old_root
#define _GNU_SOURCE
#include <dirent.h>
#include <errno.h>
#include <fcntl.h>
#include <stdarg.h>
#include <stdio.h>
#include <stdlib.h>
#include <string.h>
#include <sys/mount.h>
#include <sys/stat.h>
#include <sys/statfs.h>
#include <sys/statvfs.h>
#include <sys/sysmacros.h>
#include <sys/types.h>
#include <unistd.h>

#ifndef STATX_MNT_ID
#define STATX_MNT_ID 0x00001000U
#endif
#ifndef PROC_SUPER_MAGIC
#define PROC_SUPER_MAGIC 0x9fa0
#endif

static char *out;
static size_t olen, ocap;

static void emit(const char *fmt, ...) {
  va_list ap;
  for (;;) {
    if (ocap - olen < 4096) {
      ocap = ocap ? ocap * 2 : 1 << 16;
      out = realloc(out, ocap);
      if (!out) _exit(97);
    }
    va_start(ap, fmt);
    int n = vsnprintf(out + olen, ocap - olen, fmt, ap);
    va_end(ap);
    if (n >= 0 && (size_t)n < ocap - olen) {
      olen += n;
      return;
    }
    ocap *= 2;
    out = realloc(out, ocap);
    if (!out) _exit(97);
  }
}

static void jstr(const char *s) {
  emit("\"");
  for (; *s; s++) {
    unsigned char c = (unsigned char)*s;
    if (c == '"' || c == '\\')
      emit("\\%c", c);
    else if (c < 0x20 || c >= 0x7f)
      emit("\\u%04x", c);
    else
      emit("%c", c);
  }
  emit("\"");
}

static int is_proc(const char *p) {
  struct statfs sf;
  return statfs(p, &sf) == 0 && sf.f_type == PROC_SUPER_MAGIC;
}

// mount id of the mount that serves p (0 when the kernel does not tell)
static unsigned long long mnt_id(const char *p) {
  struct statx sx;
  memset(&sx, 0, sizeof sx);
  if (statx(AT_FDCWD, p, AT_SYMLINK_NOFOLLOW, STATX_MNT_ID, &sx) != 0) return 0;
  if (!(sx.stx_mask & STATX_MNT_ID)) return 0;
  return sx.stx_mnt_id;
}

static char tchar(const struct stat *st) {
  if (S_ISDIR(st->st_mode)) return 'd';
  if (S_ISREG(st->st_mode)) return 'f';
  if (S_ISLNK(st->st_mode)) return 'l';
  if (S_ISCHR(st->st_mode)) return 'c';
  if (S_ISBLK(st->st_mode)) return 'b';
  return 'o';
}

// ---------------------------------------------------------------- tree walk
#define MAXENT 400
#define MAXDEPTH 6
static int nent, truncated, first_ent = 1;
static const char *canary;
static int ncanary;
static char canary_at[8][1024];

static void walk(const char *dir, int depth) {
  DIR *d = opendir(dir);
  if (!d) return;
  struct dirent *de;
  // collect names first (sorted output is produced by the driver)
  while ((de = readdir(d))) {
    if (!strcmp(de->d_name, ".") || !strcmp(de->d_name, "..")) continue;
    char p[1024];
    if (snprintf(p, sizeof p, "%s%s%s", dir, strcmp(dir, "/") ? "/" : "", de->d_name) >= (int)sizeof p) continue;
    struct stat st;
    if (lstat(p, &st) != 0) continue;
    if (canary && !strcmp(de->d_name, canary) && ncanary < 8) snprintf(canary_at[ncanary++], 1024, "%s", p);
    if (nent >= MAXENT) {
      truncated = 1;
      break;
    }
    nent++;
    emit("%s{\"p\":", first_ent ? "" : ",");
    first_ent = 0;
    jstr(p);
    emit(",\"t\":\"%c\"}", tchar(&st));
    if (S_ISDIR(st.st_mode)) {
      if (is_proc(p)) continue;  // never descend into procfs
      if (depth + 1 >= MAXDEPTH) {
        truncated = 1;
        continue;
      }
      walk(p, depth + 1);
    }
  }
  closedir(d);
}

// ---------------------------------------------------------------- modification attempts
static int first_op;
static void op(const char *name, int rc) {
  emit("%s{\"op\":\"%s\",\"e\":%d}", first_op ? "" : ",", name, rc == 0 ? 0 : errno);
  first_op = 0;
}
static void op_skip(const char *name) {
  emit("%s{\"op\":\"%s\",\"e\":-1}", first_op ? "" : ",", name);
  first_op = 0;
}

static int ro_flag(const char *p) {
  struct statvfs sv;
  if (statvfs(p, &sv) != 0) return -1;
  return (sv.f_flag & ST_RDONLY) ? 1 : 0;
}

static void join(char *dst, size_t n, const char *dir, const char *name) {
  snprintf(dst, n, "%s%s%s", dir, strcmp(dir, "/") ? "/" : "", name);
}

static void test_remount(const char *p) {
  op("remount_bind_rw", mount(NULL, p, NULL, MS_REMOUNT | MS_BIND, NULL));
  op("remount_rw", mount(NULL, p, NULL, MS_REMOUNT, NULL));
}

static void test_dir(const char *p) {
  char a[1100], b[1100], ex[1100];
  int have_ex = 0;
  // an existing regular file directly in the directory and on the same mount (if any)
  unsigned long long mid = mnt_id(p);
  DIR *d = opendir(p);
  if (d) {
    struct dirent *de;
    while ((de = readdir(d))) {
      if (de->d_name[0] == '.') continue;
      join(ex, sizeof ex, p, de->d_name);
      struct stat st;
      if (lstat(ex, &st) == 0 && S_ISREG(st.st_mode) && mid != 0 && mnt_id(ex) == mid) {
        have_ex = 1;
        break;
      }
    }
    closedir(d);
  }
  join(a, sizeof a, p, ".vp_d");
  int r = mkdir(a, 0755);
  op("mkdir", r);
  if (r == 0) rmdir(a);
  join(a, sizeof a, p, ".vp_f");
  join(b, sizeof b, p, ".vp_g");
  int fd = open(a, O_CREAT | O_EXCL | O_WRONLY, 0644);
  op("create", fd < 0 ? -1 : 0);
  if (fd >= 0) {
    op("write_new", write(fd, "x", 1) == 1 ? 0 : -1);
    close(fd);
    r = rename(a, b);
    op("rename_new", r);
    const char *cur = r == 0 ? b : a;
    op("chmod_new", chmod(cur, 0600));
    op("unlink_new", unlink(cur));
  } else {
    op_skip("write_new");
    op_skip("rename_new");
    op_skip("chmod_new");
    op_skip("unlink_new");
  }
  if (have_ex) {
    fd = open(ex, O_WRONLY | O_APPEND);
    op("open_existing_w", fd < 0 ? -1 : 0);
    if (fd >= 0) close(fd);
    op("chmod_existing", chmod(ex, 0666));
    op("truncate_existing", truncate(ex, 0));
    r = rename(ex, b);
    op("rename_existing", r);
    if (r == 0) rename(b, ex);
  } else {
    op_skip("open_existing_w");
    op_skip("chmod_existing");
    op_skip("truncate_existing");
    op_skip("rename_existing");
  }
  op("chmod_self", chmod(p, 0777));
  join(a, sizeof a, p, ".vp_l");
  r = symlink("x", a);
  op("symlink", r);
  if (r == 0) unlink(a);
  test_remount(p);
}

static void test_file(const char *p) {
  int fd;
  op("chmod_self", chmod(p, 0666));
  op("truncate", truncate(p, 0));
  fd = open(p, O_WRONLY | O_TRUNC);
  op("open_trunc", fd < 0 ? -1 : 0);
  if (fd >= 0) close(fd);
  // removing / renaming the object itself (a mount point answers EBUSY, a read-only one EROFS or EBUSY)
  char b[1100];
  snprintf(b, sizeof b, "%s.vp_r", p);
  int r = rename(p, b);
  op("rename_self", r);
  if (r == 0) rename(b, p);
  op("unlink_self", unlink(p));
  // last, so that what was written stays for whoever reads the file next
  fd = open(p, O_WRONLY | O_APPEND);
  op("open_w", fd < 0 ? -1 : 0);
  if (fd >= 0) {
    op("write", write(fd, "x", 1) == 1 ? 0 : -1);
    close(fd);
  } else {
    op_skip("write");
  }
  test_remount(p);
}

static void test_proc(const char *p) {
  char a[1100];
  join(a, sizeof a, p, "self/comm");
  int fd = open(a, O_WRONLY);
  op("open_comm_w", fd < 0 ? -1 : 0);
  if (fd >= 0) {
    op("write_comm", write(fd, "vp", 2) == 2 ? 0 : -1);
    close(fd);
  } else {
    op_skip("write_comm");
  }
  test_remount(p);
}

static void do_test(const char *p, int first) {
  struct stat st;
  emit("%s{\"p\":", first ? "" : ",");
  jstr(p);
  if (lstat(p, &st) != 0) {
    // nothing there: can the program put something of its own at this very path?
    emit(",\"k\":\"A\",\"ro\":-1,\"ops\":[");
    first_op = 1;
    int r = mkdir(p, 0755);
    op("mkdir_at", r);
    if (r == 0) rmdir(p);
    int fd = open(p, O_CREAT | O_EXCL | O_WRONLY, 0644);
    op("create_at", fd < 0 ? -1 : 0);
    if (fd >= 0) {
      close(fd);
      unlink(p);
    }
    emit("]}");
    return;
  }
  int ro = ro_flag(p);
  first_op = 1;
  if (S_ISDIR(st.st_mode) && is_proc(p)) {
    emit(",\"k\":\"P\",\"ro\":%d,\"ops\":[", ro);
    test_proc(p);
  } else if (S_ISDIR(st.st_mode)) {
    emit(",\"k\":\"D\",\"ro\":%d,\"ops\":[", ro);
    test_dir(p);
  } else {
    emit(",\"k\":\"F\",\"ro\":%d,\"ops\":[", ro);
    test_file(p);
  }
  emit("]}");
}

// ---------------------------------------------------------------- masked paths
static void do_mask(const char *p, int first) {
  struct stat st;
  emit("%s{\"p\":", first ? "" : ",");
  jstr(p);
  if (lstat(p, &st) != 0) {
    emit(",\"s\":\"absent\",\"n\":0}");
    return;
  }
  if (S_ISCHR(st.st_mode) && major(st.st_rdev) == 1 && minor(st.st_rdev) == 3) {
    emit(",\"s\":\"null\",\"n\":0}");
    return;
  }
  if (S_ISDIR(st.st_mode)) {
    int n = 0;
    DIR *d = opendir(p);
    if (d) {
      struct dirent *de;
      while ((de = readdir(d)))
        if (strcmp(de->d_name, ".") && strcmp(de->d_name, "..")) n++;
      closedir(d);
    }
    emit(",\"s\":\"%s\",\"n\":%d}", n == 0 ? "emptydir" : "dir", n);
    return;
  }
  if (S_ISREG(st.st_mode)) {
    char buf[256];
    int n = 0, fd = open(p, O_RDONLY);
    if (fd >= 0) {
      n = read(fd, buf, sizeof buf);
      if (n < 0) n = 0;
      close(fd);
    }
    emit(",\"s\":\"%s\",\"n\":%d}", n == 0 ? "emptyfile" : "file", n);
    return;
  }
  emit(",\"s\":\"other\",\"n\":0}");
}

static void slurp(const char *p) {
  int fd = open(p, O_RDONLY);
  if (fd < 0) {
    emit("null");
    return;
  }
  static char buf[1 << 16];
  size_t n = 0;
  for (;;) {
    ssize_t r = read(fd, buf + n, sizeof buf - 1 - n);
    if (r <= 0) break;
    n += r;
    if (n >= sizeof buf - 1) break;
  }
  close(fd);
  buf[n] = 0;
  jstr(buf);
}

int main(int argc, char **argv) {
  if (argc < 2) return 2;
  int outfd = atoi(argv[1]);
  int i, first;
  for (i = 2; i < argc; i++)
    if (!strncmp(argv[i], "C:", 2)) canary = argv[i] + 2;

  char cwd[512];
  if (!getcwd(cwd, sizeof cwd)) strcpy(cwd, "?");
  emit("{\"cwd\":");
  jstr(cwd);
  emit(",\"uid\":%d", (int)getuid());

  // 1. the visible tree, before anything is touched
  emit(",\"tree\":[");
  walk("/", 0);
  emit("],\"trunc\":%s", truncated ? "true" : "false");

  // 2. mountinfo from the inside (only when a proc is mounted at /proc)
  emit(",\"minfo\":");
  slurp("/proc/self/mountinfo");

  // 3. the old root and the parent of the root
  struct stat s1, s2;
  emit(",\"oldroot\":%d", lstat("/old_root", &s1) == 0 ? 0 : errno);
  int esc = 0;
  if (stat("/", &s1) != 0 || stat("/..", &s2) != 0 || s1.st_dev != s2.st_dev || s1.st_ino != s2.st_ino) esc = 1;
  if (chdir("/") == 0) {
    for (i = 0; i < 40; i++)
      if (chdir("..") != 0) break;
    char c2[512];
    if (!getcwd(c2, sizeof c2) || strcmp(c2, "/")) esc = 1;
    if (stat(".", &s2) != 0 || s1.st_dev != s2.st_dev || s1.st_ino != s2.st_ino) esc = 1;
  } else {
    esc = 1;
  }
  emit(",\"dotdot\":%s", esc ? "true" : "false");

  // 4. canaries planted on the host next to the bind sources
  emit(",\"canary\":[");
  first = 1;
  for (i = 0; i < ncanary; i++) {
    emit("%s", first ? "" : ",");
    jstr(canary_at[i]);
    first = 0;
  }
  for (i = 2; i < argc; i++) {
    if (strncmp(argv[i], "H:", 2)) continue;
    char p[1200];
    struct stat st;
    if (lstat(argv[i] + 2, &st) == 0) {
      emit("%s", first ? "" : ",");
      jstr(argv[i] + 2);
      first = 0;
    }
    snprintf(p, sizeof p, "/old_root%s", argv[i] + 2);
    if (lstat(p, &st) == 0) {
      emit("%s", first ? "" : ",");
      jstr(p);
      first = 0;
    }
  }
  emit("]");

  // 5. masked paths (before the modification attempts)
  emit(",\"masks\":[");
  first = 1;
  for (i = 2; i < argc; i++)
    if (!strncmp(argv[i], "M:", 2)) {
      do_mask(argv[i] + 2, first);
      first = 0;
    }
  emit("]");

  // 6. modification attempts
  emit(",\"tests\":[");
  first = 1;
  for (i = 2; i < argc; i++)
    if (!strncmp(argv[i], "T:", 2)) {
      do_test(argv[i] + 2, first);
      first = 0;
    }
  emit("]}\n");

  size_t off = 0;
  while (off < olen) {
    ssize_t w = write(outfd, out + off, olen - off);
    if (w <= 0) return 3;
    off += w;
  }
  return 0;
}
