/* contfs.c -- static probe of family contfs (C13 Reset / memfd, C14 file operations).
 * Runs INSIDE the container as the sandboxed program.  It plants file-system objects, lists
 * directories and attacks a sealed memfd; it reports what it did / saw on stdout, one line per
 * fact.  It contains no expectation about go-sandbox: the lines are turned into JSON by the
 * driver and judged by TLC.
 *
 *   contfs plant <tag> (<dir> <kind>)...    "planted <i> <kind> <top-level entries created> <errno>"
 *   contfs list <dir>...                    "list <dir> <count | -errno> <hexname>..."   (<= 24 names)
 *   contfs fs <op>...                       "fs <i> <errno>"   ops: reg:P unr:P dir:P sym:P:T fifo:P sock:P rm:P nreg:DIR:N ldir:DIR
 *   contfs memfd <fd>                       "mut <target> <op> <errno-name>" ; "seals <hex>" ; "size <n>"
 */
#define _GNU_SOURCE
#pragma GCC diagnostic ignored "-Wformat-truncation"
#include <dirent.h>
#include <errno.h>
#include <fcntl.h>
#include <signal.h>
#include <stdio.h>
#include <stdlib.h>
#include <string.h>
#include <sys/mman.h>
#include <sys/socket.h>
#include <sys/stat.h>
#include <sys/types.h>
#include <sys/un.h>
#include <unistd.h>

#ifndef F_ADD_SEALS
#define F_ADD_SEALS 1033
#define F_GET_SEALS 1034
#endif
#ifndef F_SEAL_FUTURE_WRITE
#define F_SEAL_FUTURE_WRITE 0x0010
#endif
#ifndef FALLOC_FL_KEEP_SIZE
#define FALLOC_FL_KEEP_SIZE 1
#define FALLOC_FL_PUNCH_HOLE 2
#endif

static int touch(const char *p, int mode) {
    int fd = open(p, O_WRONLY | O_CREAT | O_EXCL, mode);
    if (fd < 0) return -1;
    if (write(fd, "planted\n", 8) != 8) { close(fd); return -1; }
    close(fd);
    return 0;
}

static const char *ename(int e) {
    switch (e) {
    case 0: return "OK";
    case EPERM: return "EPERM";
    case EACCES: return "EACCES";
    case ETXTBSY: return "ETXTBSY";
    case EBADF: return "EBADF";
    case EINVAL: return "EINVAL";
    case EBUSY: return "EBUSY";
    case ENOENT: return "ENOENT";
    case EROFS: return "EROFS";
    case EFBIG: return "EFBIG";
    case ENOSPC: return "ENOSPC";
    case EOPNOTSUPP: return "EOPNOTSUPP";
    case EISDIR: return "EISDIR";
    default: { static char b[24]; snprintf(b, sizeof b, "E%d", e); return b; }
    }
}

/* ------------------------------------------------------------------ plant (C13) */
static int plant(const char *kind, const char *tag, int *top) {
    char n[600], m[600];
    *top = 0;
    if (!strcmp(kind, "deep")) {                 /* path far beyond PATH_MAX: 25 x 200 bytes */
        char comp[201];
        memset(comp, 'd', 200); comp[200] = 0;
        snprintf(n, sizeof n, "deep-%s", tag);
        if (mkdir(n, 0755) || chdir(n)) return errno;
        *top = 1;
        for (int i = 0; i < 25; i++) {
            comp[0] = 'A' + i;
            if (mkdir(comp, 0755) || chdir(comp)) return errno;
            if (i % 8 == 0 && touch("leaf", 0644)) return errno;
        }
        if (touch("bottom", 0600)) return errno;
        return 0;
    }
    if (!strcmp(kind, "deepshort") || !strcmp(kind, "abyss")) {   /* 1500 / 6000 levels of 1-byte names */
        int depth = kind[0] == 'a' ? 6000 : 1500;
        snprintf(n, sizeof n, "%s-%s", kind[0] == 'a' ? "ab" : "ds", tag);
        if (mkdir(n, 0755) || chdir(n)) return errno;
        *top = 1;
        for (int i = 0; i < depth; i++)
            if (mkdir("x", 0755) || chdir("x")) return errno;
        if (touch("bottom", 0600)) return errno;
        return 0;
    }
    if (!strcmp(kind, "mode000")) {              /* unreadable, unsearchable directories with content */
        snprintf(n, sizeof n, "m000-%s", tag);
        if (mkdir(n, 0755)) return errno;
        *top = 1;
        snprintf(m, sizeof m, "%s/inner", n);
        if (mkdir(m, 0755)) return errno;
        snprintf(m, sizeof m, "%s/inner/f", n);
        if (touch(m, 0)) return errno;
        snprintf(m, sizeof m, "%s/g", n);
        if (touch(m, 0)) return errno;
        snprintf(m, sizeof m, "%s/inner", n);
        if (chmod(m, 0)) return errno;
        if (chmod(n, 0)) return errno;
        return 0;
    }
    if (!strcmp(kind, "dot")) {                  /* hidden names */
        snprintf(n, sizeof n, ".hidden-%s", tag);
        if (touch(n, 0644)) return errno;
        *top = 1;
        snprintf(n, sizeof n, "..%s", tag);
        if (touch(n, 0644)) return errno;
        *top = 2;
        snprintf(n, sizeof n, "...%s", tag);
        if (mkdir(n, 0755)) return errno;
        *top = 3;
        snprintf(m, sizeof m, "%s/.x", n);
        if (touch(m, 0644)) return errno;
        return 0;
    }
    if (!strcmp(kind, "symout")) {               /* links leaving the mount: a read-only tree, another mount, a loop */
        snprintf(n, sizeof n, "symusr-%s", tag);
        if (symlink("/proc", n)) return errno;
        *top = 1;
        snprintf(n, sizeof n, "symup-%s", tag);
        if (symlink("../", n)) return errno;
        *top = 2;
        snprintf(n, sizeof n, "symself-%s", tag);
        if (symlink(n, n)) return errno;
        *top = 3;
        return 0;
    }
    if (!strcmp(kind, "fifo")) {
        snprintf(n, sizeof n, "fifo-%s", tag);
        if (mkfifo(n, 0666)) return errno;
        *top = 1;
        return 0;
    }
    if (!strcmp(kind, "sock")) {
        struct sockaddr_un a;
        int s = socket(AF_UNIX, SOCK_STREAM, 0);
        if (s < 0) return errno;
        memset(&a, 0, sizeof a);
        a.sun_family = AF_UNIX;
        snprintf(a.sun_path, sizeof a.sun_path, "sock-%s", tag);
        if (bind(s, (struct sockaddr *)&a, sizeof a)) return errno;
        close(s);
        *top = 1;
        return 0;
    }
    if (!strcmp(kind, "hardlink")) {
        snprintf(n, sizeof n, "hl-a-%s", tag);
        if (touch(n, 0644)) return errno;
        *top = 1;
        snprintf(m, sizeof m, "hl-b-%s", tag);
        if (link(n, m)) return errno;
        *top = 2;
        snprintf(m, sizeof m, "hl-d-%s", tag);
        if (mkdir(m, 0755)) return errno;
        *top = 3;
        snprintf(m, sizeof m, "hl-d-%s/c", tag);
        if (link(n, m)) return errno;
        return 0;
    }
    if (!strcmp(kind, "many")) {                 /* 5000 top-level entries */
        for (int i = 0; i < 5000; i++) {
            snprintf(n, sizeof n, "many-%s-%04d", tag, i);
            if (i % 10 == 9) { if (mkdir(n, 0755)) return errno; }
            else if (touch(n, 0644)) return errno;
            *top = i + 1;
        }
        return 0;
    }
    if (!strcmp(kind, "owned")) {                /* private tree of whatever uid the program runs as */
        snprintf(n, sizeof n, "own-%s", tag);
        if (mkdir(n, 0700)) return errno;
        *top = 1;
        snprintf(m, sizeof m, "%s/secret", n);
        if (touch(m, 0600)) return errno;
        snprintf(m, sizeof m, "%s/sticky", n);
        if (mkdir(m, 01777)) return errno;
        snprintf(m, sizeof m, "%s/sticky/f", n);
        if (touch(m, 04755)) return errno;
        if (chmod(n, 0500)) return errno;         /* owner cannot write it either */
        return 0;
    }
    if (!strcmp(kind, "openunl")) {              /* unlinked-but-open + still-open file held by a detached child */
        snprintf(n, sizeof n, "ou-gone-%s", tag);
        int fd = open(n, O_RDWR | O_CREAT | O_EXCL, 0600);
        if (fd < 0) return errno;
        if (write(fd, "ghost", 5) != 5) return errno;
        if (unlink(n)) return errno;
        snprintf(n, sizeof n, "ou-held-%s", tag);
        int fd2 = open(n, O_RDWR | O_CREAT | O_EXCL, 0600);
        if (fd2 < 0) return errno;
        *top = 1;
        pid_t p = fork();
        if (p < 0) return errno;
        if (p == 0) {
            setsid();
            close(0); close(1); close(2);
            for (;;) { if (write(fd2, "x", 1) < 0) {} sleep(1); }
        }
        return 0;
    }
    if (!strcmp(kind, "nested")) {
        snprintf(n, sizeof n, "nest-%s", tag);
        if (mkdir(n, 0755)) return errno;
        *top = 1;
        strcpy(m, n);
        for (int i = 0; i < 6; i++) {
            size_t l = strlen(m);
            snprintf(m + l, sizeof m - l, "/n%d", i);
            if (mkdir(m, 0755)) return errno;
            l = strlen(m);
            snprintf(m + l, sizeof m - l, "/f");
            if (touch(m, 0644)) return errno;
            m[l] = 0;
        }
        return 0;
    }
    if (!strcmp(kind, "oddname")) {              /* 255-byte name of odd bytes, newline, leading dash */
        int k = 0;
        for (int c = 1; c < 256 && k < 255 - 8; c++)
            if (c != '/') n[k++] = (char)c;
        snprintf(n + k, sizeof n - k, "%.7s", tag);
        if (touch(n, 0644)) return errno;
        *top = 1;
        snprintf(n, sizeof n, "nl\n%s", tag);
        if (mkdir(n, 0755)) return errno;
        *top = 2;
        snprintf(n, sizeof n, "-rf-%s", tag);
        if (touch(n, 0644)) return errno;
        *top = 3;
        return 0;
    }
    return ENOSYS;
}

static int do_plant(int argc, char **argv) {
    /* plant <tag> (<dir> <kind>)... */
    if (argc < 5) return 2;
    for (int i = 3; i + 1 < argc; i += 2) {
        int top = 0, e;
        if (chdir(argv[i])) e = errno;
        else e = plant(argv[i + 1], argv[2], &top);
        printf("planted %d %s %d %d\n", (i - 3) / 2, argv[i + 1], top, e);
    }
    fflush(stdout);
    return 0;
}

/* ------------------------------------------------------------------ list */
static int do_list(int argc, char **argv) {
    for (int i = 2; i < argc; i++) {
        DIR *d = opendir(argv[i]);
        if (!d) { printf("list %s %d\n", argv[i], -errno); continue; }
        struct dirent *e;
        long cnt = 0;
        char out[24 * 520];
        size_t o = 0;
        while ((e = readdir(d))) {
            if (!strcmp(e->d_name, ".") || !strcmp(e->d_name, "..")) continue;
            if (cnt < 24) {
                out[o++] = ' ';
                for (unsigned char *p = (unsigned char *)e->d_name; *p; p++)
                    o += sprintf(out + o, "%02x", *p);
            }
            cnt++;
        }
        out[o] = 0;
        closedir(d);
        printf("list %s %ld%s\n", argv[i], cnt, out);
    }
    fflush(stdout);
    return 0;
}

/* ------------------------------------------------------------------ fs (C14) */
static int fsop(char *op) {
    char *kind = op, *p = strchr(op, ':'), *t = NULL;
    if (!p) return EINVAL;
    *p++ = 0;
    if (!strcmp(kind, "sym")) {
        t = strchr(p, ':');
        if (!t) return EINVAL;
        *t++ = 0;
        return symlink(t, p) ? errno : 0;
    }
    if (!strcmp(kind, "reg")) return touch(p, 0644) ? errno : 0;
    if (!strcmp(kind, "unr")) { if (touch(p, 0644)) return errno; return chmod(p, 0) ? errno : 0; }
    if (!strcmp(kind, "dir")) return mkdir(p, 0755) ? errno : 0;
    if (!strcmp(kind, "fifo")) return mkfifo(p, 0666) ? errno : 0;
    if (!strcmp(kind, "sock")) {
        struct sockaddr_un a;
        int s = socket(AF_UNIX, SOCK_STREAM, 0);
        if (s < 0) return errno;
        memset(&a, 0, sizeof a);
        a.sun_family = AF_UNIX;
        strncpy(a.sun_path, p, sizeof a.sun_path - 1);
        int e = bind(s, (struct sockaddr *)&a, sizeof a) ? errno : 0;
        close(s);
        return e;
    }
    if (!strcmp(kind, "ldir")) {                 /* ldir:<dir>  fifteen nested 250-byte directories below <dir> */
        char comp[251];
        memset(comp, 'L', 250); comp[250] = 0;
        if (chdir(p)) return errno;
        for (int i = 0; i < 15; i++)
            if (mkdir(comp, 0755) || chdir(comp)) return errno;
        return chdir("/") ? errno : 0;
    }
    if (!strcmp(kind, "nreg")) {                 /* nreg:<dir>:<count>  numbered regular files with distinct content */
        t = strchr(p, ':');
        if (!t) return EINVAL;
        *t++ = 0;
        if (mkdir(p, 0755)) return errno;
        char name[400], pad[86];
        memset(pad, 'n', 85); pad[85] = 0;
        for (int i = 1; i <= atoi(t); i++) {
            snprintf(name, sizeof name, "%s/%04d-%s", p, i, pad);
            int fd = open(name, O_WRONLY | O_CREAT | O_EXCL, 0644);
            if (fd < 0) return errno;
            if (dprintf(fd, "file %d\n", i) < 0) { close(fd); return errno; }
            close(fd);
        }
        return 0;
    }
    if (!strcmp(kind, "rm")) {
        if (unlink(p) == 0) return 0;
        if (errno == ENOENT) return 0;
        if (rmdir(p) == 0) return 0;
        return errno;
    }
    return ENOSYS;
}

static int do_fs(int argc, char **argv) {
    for (int i = 2; i < argc; i++) {
        int e = fsop(argv[i]);
        printf("fs %d %d\n", i - 2, e);
    }
    fflush(stdout);
    return 0;
}

/* ------------------------------------------------------------------ memfd (C13) */
static void rep(const char *target, const char *op, int failed) {
    printf("mut %s %s %s\n", target, op, failed ? ename(errno) : "OK");
}

static void attack_fd(const char *target, int fd, off_t size) {
    char one = 'X';
    rep(target, "write", write(fd, &one, 1) != 1);
    rep(target, "pwrite0", pwrite(fd, &one, 1, 0) != 1);
    rep(target, "pwriteend", pwrite(fd, &one, 1, size) != 1);
    rep(target, "shrink", size == 0 ? (errno = EINVAL, 1) : ftruncate(fd, size / 2) != 0);
    rep(target, "grow", ftruncate(fd, size + 4096) != 0);
    rep(target, "fallocgrow", fallocate(fd, 0, size, 4096) != 0);
    rep(target, "punch", fallocate(fd, FALLOC_FL_PUNCH_HOLE | FALLOC_FL_KEEP_SIZE, 0, 4096) != 0);
    rep(target, "addseals0", fcntl(fd, F_ADD_SEALS, 0) != 0);
    rep(target, "addfuture", fcntl(fd, F_ADD_SEALS, F_SEAL_FUTURE_WRITE) != 0);
    void *m = mmap(NULL, 4096, PROT_READ | PROT_WRITE, MAP_SHARED, fd, 0);
    rep(target, "mmapw", m == MAP_FAILED);
    if (m != MAP_FAILED) {
        if (size > 0) *(volatile char *)m = 'Y';
        munmap(m, 4096);
    }
    m = mmap(NULL, 4096, PROT_READ, MAP_SHARED, fd, 0);
    if (m == MAP_FAILED) rep(target, "mprotectw", 1);
    else {
        int r = mprotect(m, 4096, PROT_READ | PROT_WRITE);
        rep(target, "mprotectw", r != 0);
        if (r == 0 && size > 0) *(volatile char *)m = 'Z';
        munmap(m, 4096);
    }
}

static void attack_path(const char *target, const char *path, off_t size) {
    char one = 'W';
    int fd = open(path, O_RDWR);
    rep(target, "openrdwr", fd < 0);
    if (fd >= 0) {
        rep(target, "reopen-pwrite", pwrite(fd, &one, 1, 0) != 1);
        rep(target, "reopen-shrink", size == 0 ? (errno = EINVAL, 1) : ftruncate(fd, size / 2) != 0);
        rep(target, "reopen-grow", ftruncate(fd, size + 1) != 0);
        close(fd);
    }
    fd = open(path, O_WRONLY | O_TRUNC);
    rep(target, "opentrunc", fd < 0);
    if (fd >= 0) close(fd);
    fd = open(path, O_WRONLY | O_APPEND);
    rep(target, "openappend", fd < 0);
    if (fd >= 0) {
        rep(target, "append-write", write(fd, &one, 1) != 1);
        close(fd);
    }
    rep(target, "truncate0", size == 0 ? (errno = EINVAL, 1) : truncate(path, 0) != 0);
    rep(target, "truncategrow", truncate(path, size + 4096) != 0);
}

static int do_memfd(int argc, char **argv) {
    struct stat st;
    char p[64];
    if (argc < 3) return 2;
    int fd = atoi(argv[2]);
    if (stat("/proc/self/exe", &st)) { printf("mut exe stat %s\n", ename(errno)); }
    else {
        printf("exesize %lld\n", (long long)st.st_size);
        attack_path("exe", "/proc/self/exe", st.st_size);
    }
    if (fstat(fd, &st)) { printf("mut fd fstat %s\n", ename(errno)); }
    else {
        printf("fdsize %lld\n", (long long)st.st_size);
        attack_fd("fd", fd, st.st_size);
        snprintf(p, sizeof p, "/proc/self/fd/%d", fd);
        attack_path("fdpath", p, st.st_size);
        printf("seals %x\n", fcntl(fd, F_GET_SEALS));
        if (fstat(fd, &st) == 0) printf("fdsize-after %lld\n", (long long)st.st_size);
        lseek(fd, 0, SEEK_SET);
    }
    fflush(stdout);
    return 0;
}

int main(int argc, char **argv) {
    if (argc < 2) return 2;
    signal(SIGPIPE, SIG_IGN);
    if (!strcmp(argv[1], "plant")) return do_plant(argc, argv);
    if (!strcmp(argv[1], "list")) return do_list(argc, argv);
    if (!strcmp(argv[1], "fs")) return do_fs(argc, argv);
    if (!strcmp(argv[1], "memfd")) return do_memfd(argc, argv);
    if (!strcmp(argv[1], "true")) return 0;
    return 2;
}
