/* C06 probe: the sandboxed program.  Reports every descriptor it was started with
 * (number, st_dev, st_ino, file type, F_GETFD, file offset) as one JSON line appended to the
 * file named by argv[1].  The scan happens before the probe opens anything itself.
 * Static, no stdio: it must work with no descriptor 0/1/2 at all.
 *
 *   fdshuffle <report-file>
 */
#define _GNU_SOURCE
#include <fcntl.h>
#include <string.h>
#include <sys/stat.h>
#include <sys/types.h>
#include <unistd.h>

#define MAXFD 1024
static char buf[MAXFD * 96 + 256];
static size_t len;

static void put(const char *s) {
	size_t n = strlen(s);
	if (len + n < sizeof buf) {
		memcpy(buf + len, s, n);
		len += n;
	}
}

static void putnum(long long v) {
	char t[32];
	int i = 31, neg = v < 0;
	unsigned long long u = neg ? -(unsigned long long)v : (unsigned long long)v;
	t[i] = 0;
	do {
		t[--i] = '0' + (u % 10);
		u /= 10;
	} while (u);
	if (neg) t[--i] = '-';
	put(t + i);
}

static void putunum(unsigned long long u) {
	char t[32];
	int i = 31;
	t[i] = 0;
	do {
		t[--i] = '0' + (u % 10);
		u /= 10;
	} while (u);
	put(t + i);
}

int main(int argc, char **argv) {
	int first = 1;
	if (argc < 2) return 3;
	put("{\"pid\":");
	putnum(getpid());
	put(",\"fds\":[");
	for (int fd = 0; fd < MAXFD; fd++) {
		struct stat st;
		int fl = fcntl(fd, F_GETFD);
		if (fl < 0) continue;
		if (fstat(fd, &st) != 0) memset(&st, 0, sizeof st);
		if (!first) put(",");
		first = 0;
		put("{\"fd\":");
		putnum(fd);
		put(",\"dev\":\"");
		putunum((unsigned long long)st.st_dev);
		put("\",\"ino\":\"");
		putunum((unsigned long long)st.st_ino);
		put("\",\"type\":");
		putnum((st.st_mode & S_IFMT) >> 12);
		put(",\"cx\":");
		putnum((fl & FD_CLOEXEC) ? 1 : 0);
		put(",\"pos\":");
		putnum((long long)lseek(fd, 0, SEEK_CUR));
		put("}");
	}
	put("]}\n");
	int out = open(argv[1], O_WRONLY | O_APPEND | O_CREAT | O_CLOEXEC, 0666);
	if (out < 0) return 4;
	size_t off = 0;
	while (off < len) {
		ssize_t w = write(out, buf + off, len - off);
		if (w <= 0) return 5;
		off += (size_t)w;
	}
	close(out);
	return 0;
}
