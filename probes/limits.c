/* probes/limits.c -- sandboxed target for the families `status` (C09) and `limits` (C08).
 *
 *   limits <mode> [args]            (static, no threads)
 *
 * fd 0: control pipe (read)  fd 3: report pipe (write)  fd 4: scratch regular file (optional)
 * Every report line is "<tag> <value>\n", written with one write(2) *before* the action it
 * announces, so that what ended the process is kernel truth and not an assumption:
 *   start 0 | ign s (signal s ignored on entry) | raising s | survived s | exiting n | ready 0 | efbig n | ...
 *
 * modes
 *   exit n                         exit(n)
 *   raise s                        kill(getpid(), s) with default disposition; survivor exits 99
 *   fault segv|ill|fpe|trap|bus    a real hardware fault; survivor exits 99
 *   sys nr                         raw syscall nr (killed by the seccomp filter of the case); survivor exits 99
 *   ext s                          writes "ready", blocks in read(0): the driver sends signal s from outside and
 *                                  then one byte; a byte that arrives means the signal did not end us: exit 99
 *   rlimits                        getrlimit of all 16 resources: "rl <res> <cur> <max>"
 *   burn ms [end]                  spin on the CPU for ms of *user CPU time*, report own usage, then end
 *                                  (end: exit:n | fault:segv | hang; default exit 0)
 *                                  (ms = 0: spin until killed; gives up after 20 s CPU with exit 98)
 *   grow bytes chunk               write to fd 4 until bytes are written or an error: "efbig errno", exit 97
 *   touch kib [end]                mmap + touch kib KiB, report own ru_maxrss, then end (as for burn)
 *   write volume chunk delay_us    (collector) write volume bytes of a pattern to fd 1, report every outcome
 * LIMITS_CORE=1 (raise/fault/sys): first a child dies of SIGSEGV and "corewit 0|1" says whether the
 *   kernel produced a core dump for it (WCOREDUMP seen by its parent)
 * child behaviour (environment LIMITS_CHILD, performed before the mode):
 *   none | exitfirst:c | outlive | killed:s | orphanexit:c | orphankilled:s (re-parented descendant)
 */
#define _GNU_SOURCE
#include <errno.h>
#include <fcntl.h>
#include <signal.h>
#include <stdio.h>
#include <stdlib.h>
#include <string.h>
#include <sys/mman.h>
#include <sys/resource.h>
#include <sys/syscall.h>
#include <sys/time.h>
#include <sys/wait.h>
#include <unistd.h>

#define REP 3
#define DATA 4

static void rep(const char *tag, long long v)
{
	char b[96];
	int n = snprintf(b, sizeof b, "%s %lld\n", tag, v);
	if (write(REP, b, n) < 0) {
	}
}

static void rep3(const char *tag, unsigned long long a, unsigned long long b, unsigned long long c)
{
	char s[128];
	int n = snprintf(s, sizeof s, "%s %llu %llu %llu\n", tag, a, b, c);
	if (write(REP, s, n) < 0) {
	}
}

static void die(int code)
{
	rep("exiting", code);
	_exit(code);
}

static void self_signal(int s)
{
	/* raw kill: glibc's raise()/sigaction refuse 32 and 33 */
	syscall(SYS_kill, (long)getpid(), (long)s);
}

static void all_default(void)
{
	struct sigaction sa;
	sigset_t m;
	memset(&sa, 0, sizeof sa);
	sa.sa_handler = SIG_DFL;
	for (int s = 1; s <= 64; s++)
		syscall(SYS_rt_sigaction, (long)s, &sa, NULL, 8L);
	sigemptyset(&m);
	syscall(SYS_rt_sigprocmask, (long)SIG_SETMASK, &m, NULL, 8L);
}

/* the signal dispositions this program was started with are part of its start state: one line
 * "ign s" per signal that is ignored on entry (SIG_IGN survives fork and execve) */
static void report_inherited(void)
{
	struct { void *h; unsigned long f; void *r; unsigned long m; } old;
	for (int s = 1; s <= 64; s++) {
		memset(&old, 0, sizeof old);
		if (syscall(SYS_rt_sigaction, (long)s, NULL, &old, 8L) == 0 && old.h == (void *)SIG_IGN)
			rep("ign", s);
	}
}

static long long cpu_ms(void)
{
	struct rusage ru;
	getrusage(RUSAGE_SELF, &ru);
	return ru.ru_utime.tv_sec * 1000LL + ru.ru_utime.tv_usec / 1000;
}

static void usage_report(void)
{
	struct rusage ru;
	getrusage(RUSAGE_SELF, &ru);
	rep("utime_us", ru.ru_utime.tv_sec * 1000000LL + ru.ru_utime.tv_usec);
	rep("maxrss_kib", ru.ru_maxrss);
}

static void do_child(const char *spec)
{
	if (!spec || !strcmp(spec, "none"))
		return;
	if (!strncmp(spec, "exitfirst:", 10)) {
		int c = atoi(spec + 10), st = 0;
		pid_t p = fork();
		if (p < 0) {
			rep("forkfail", errno);
			_exit(96);
		}
		if (p == 0) {
			close(REP);
			_exit(c);
		}
		waitpid(p, &st, 0);
		rep("childexit", WIFEXITED(st) ? WEXITSTATUS(st) : -1);
		return;
	}
	if (!strncmp(spec, "killed:", 7)) {
		int s = atoi(spec + 7), st = 0;
		pid_t p = fork();
		if (p < 0) {
			rep("forkfail", errno);
			_exit(96);
		}
		if (p == 0) {
			close(REP);
			self_signal(s);
			_exit(95); /* not killed */
		}
		waitpid(p, &st, 0);
		rep("childsig", WIFSIGNALED(st) ? WTERMSIG(st) : -1);
		return;
	}
	if (!strcmp(spec, "outlive")) {
		int pp[2];
		char c;
		if (pipe(pp) < 0)
			_exit(96);
		pid_t p = fork();
		if (p < 0) {
			rep("forkfail", errno);
			_exit(96);
		}
		if (p == 0) {
			close(REP);
			close(0);
			close(pp[0]);
			if (write(pp[1], "x", 1) < 0) {
			}
			for (int i = 0; i < 3000; i++) /* 30 s: the runner must kill us */
				usleep(10000);
			_exit(94);
		}
		close(pp[1]);
		if (read(pp[0], &c, 1) < 0) { /* child is running */
		}
		close(pp[0]);
		rep("childalive", 1);
		return;
	}
	if (!strncmp(spec, "orphanexit:", 11) || !strncmp(spec, "orphankilled:", 13)) {
		/* a re-parented descendant: main -> mid -> orphan; mid exits at once, the orphan stays in
		 * the program's process group, is adopted by whoever reaps orphans here (container init,
		 * the program itself when it is pid 1, the host's reaper under ptrace) and ends BEFORE
		 * the main process, with another exit code or by a signal */
		int killed = spec[6] == 'k';
		int v = atoi(strchr(spec, ':') + 1), st = 0, pp[2];
		char c;
		if (pipe(pp) < 0)
			_exit(96);
		pid_t mid = fork();
		if (mid < 0) {
			rep("forkfail", errno);
			_exit(96);
		}
		if (mid == 0) {
			close(REP);
			close(0);
			close(pp[0]);
			pid_t parent = getpid();
			pid_t o = fork();
			if (o != 0)
				_exit(o < 0 ? 96 : 0);
			for (int i = 0; i < 2000 && getppid() == parent; i++) /* until re-parented */
				usleep(1000);
			if (killed)
				self_signal(v);
			else
				_exit(v);
			_exit(95); /* not killed */
		}
		close(pp[1]);
		waitpid(mid, &st, 0);
		rep("midexit", WIFEXITED(st) ? WEXITSTATUS(st) : -1);
		while (read(pp[0], &c, 1) > 0) { /* EOF: the orphan is gone */
		}
		close(pp[0]);
		usleep(30000); /* let its new parent see it before we end */
		rep("orphangone", v);
		return;
	}
	rep("badchild", 0);
	_exit(96);
}

static volatile int zero;

/* LIMITS_CORE=1: can a core dump be produced here?  A child dies of a null store; what its parent
 * (this process) sees in the wait status, WCOREDUMP included, is kernel truth for that question. */
static void core_witness(void)
{
	const char *e = getenv("LIMITS_CORE");
	int st = 0;
	if (!e || strcmp(e, "1"))
		return;
	pid_t p = fork();
	if (p < 0) {
		rep("forkfail", errno);
		_exit(96);
	}
	if (p == 0) {
		close(REP);
		*(volatile int *)0 = 1;
		_exit(95);
	}
	waitpid(p, &st, 0);
	rep("corewitsig", WIFSIGNALED(st) ? WTERMSIG(st) : -1);
	rep("corewit", WIFSIGNALED(st) && WCOREDUMP(st) ? 1 : 0);
}

/* how a limit-verdict program ends after it used what it was asked to use:
 * exit:n | fault:segv | hang (reports "ready", then blocks until the caller cancels the run) */
static void do_end(const char *end)
{
	if (!end || !*end || !strncmp(end, "exit:", 5))
		die(end && *end ? atoi(end + 5) : 0);
	if (!strcmp(end, "fault:segv")) {
		rep("raising", SIGSEGV);
		*(volatile int *)0 = 1;
		rep("survived", SIGSEGV);
		die(99);
	}
	if (!strcmp(end, "hang")) {
		char c;
		rep("ready", 0);
		for (;;)
			if (read(0, &c, 1) <= 0)
				usleep(10000);
	}
	rep("badend", 0);
	_exit(96);
}

static void do_fault(const char *k)
{
	if (!strcmp(k, "segv")) {
		rep("raising", SIGSEGV);
		*(volatile int *)0 = 1;
		rep("survived", SIGSEGV);
	} else if (!strcmp(k, "ill")) {
		rep("raising", SIGILL);
#if defined(__x86_64__) || defined(__i386__)
		__asm__ volatile("ud2");
#else
		__builtin_trap();
#endif
		rep("survived", SIGILL);
	} else if (!strcmp(k, "fpe")) {
		rep("raising", SIGFPE);
#if defined(__x86_64__) || defined(__i386__)
		volatile int a = 1, r;
		r = a / zero;
		(void)r;
#else
		self_signal(SIGFPE);
#endif
		rep("survived", SIGFPE);
	} else if (!strcmp(k, "trap")) {
		rep("raising", SIGTRAP);
#if defined(__x86_64__) || defined(__i386__)
		__asm__ volatile("int3");
#else
		self_signal(SIGTRAP);
#endif
		rep("survived", SIGTRAP);
	} else if (!strcmp(k, "bus")) {
		if (ftruncate(DATA, 0) < 0) {
			rep("nodata", errno);
			_exit(96);
		}
		volatile char *p = mmap(NULL, 8192, PROT_READ | PROT_WRITE, MAP_SHARED, DATA, 0);
		if (p == MAP_FAILED) {
			rep("nodata", errno);
			_exit(96);
		}
		rep("raising", SIGBUS);
		p[4096] = 1;
		rep("survived", SIGBUS);
	} else {
		rep("badfault", 0);
		_exit(96);
	}
	die(99);
}

static const char *resname[16] = {"cpu", "fsize", "data", "stack", "core", "rss", "nproc", "nofile",
				  "memlock", "as", "locks", "sigpending", "msgqueue", "nice", "rtprio", "rttime"};

int main(int argc, char **argv)
{
	if (argc < 2)
		return 96;
	const char *mode = argv[1];

	if (!strcmp(mode, "write")) { /* collector writer: run by the driver directly, fd 1 = collector */
		long long vol = atoll(argv[2]), chunk = atoll(argv[3]), delay = atoll(argv[4]);
		long long done = 0, calls = 0, shorts = 0;
		char *buf = malloc(chunk > 0 ? chunk : 1);
		signal(SIGPIPE, SIG_DFL);
		rep("start", 0);
		while (done < vol) {
			long long n = vol - done < chunk ? vol - done : chunk;
			for (long long i = 0; i < n; i++)
				buf[i] = (char)(((done + i) * 7 + 3) & 0xff);
			ssize_t w = write(1, buf, n);
			calls++;
			if (w < 0) {
				rep("werrno", errno);
				break;
			}
			if (w < n)
				shorts++;
			done += w;
			if (delay > 0)
				usleep(delay);
		}
		rep("written", done);
		rep("calls", calls);
		rep("shorts", shorts);
		die(0);
	}

	rep("start", 0);
	report_inherited();
	/* the status probes (C09) make their attempts with every disposition at its default; the limit
	 * programs (C08) keep what they inherited, like any program that installs no handlers */
	if (!strcmp(mode, "exit") || !strcmp(mode, "raise") || !strcmp(mode, "fault") || !strcmp(mode, "sys") || !strcmp(mode, "ext"))
		all_default();
	do_child(getenv("LIMITS_CHILD"));
	if (!strcmp(mode, "raise") || !strcmp(mode, "fault") || !strcmp(mode, "sys"))
		core_witness();

	if (!strcmp(mode, "exit")) {
		die(atoi(argv[2]));
	} else if (!strcmp(mode, "raise")) {
		int s = atoi(argv[2]);
		rep("raising", s);
		self_signal(s);
		rep("survived", s);
		die(99);
	} else if (!strcmp(mode, "fault")) {
		do_fault(argv[2]);
	} else if (!strcmp(mode, "sys")) {
		long nr = atol(argv[2]);
		rep("raising", SIGSYS);
		syscall(nr, 0L, 0L, 0L);
		rep("survived", SIGSYS);
		die(99);
	} else if (!strcmp(mode, "ext")) {
		char c;
		rep("ready", atoi(argv[2]));
		ssize_t r = read(0, &c, 1);
		rep("survived", r == 1 ? atoi(argv[2]) : -1);
		die(99);
	} else if (!strcmp(mode, "rlimits")) {
		for (int r = 0; r < 16; r++) {
			struct rlimit rl;
			if (syscall(SYS_prlimit64, 0L, (long)r, NULL, &rl) < 0) {
				rep("rlfail", r);
				_exit(96);
			}
			rep3("rl", r, rl.rlim_cur, rl.rlim_max);
			(void)resname;
		}
		die(0);
	} else if (!strcmp(mode, "burn")) {
		long long ms = atoll(argv[2]);
		volatile unsigned long x = 0;
		rep("burning", ms);
		for (;;) {
			for (int i = 0; i < 2000000; i++)
				x += i;
			long long c = cpu_ms();
			if (ms > 0 && c >= ms)
				break;
			if (ms == 0 && c >= 20000) {
				usage_report();
				die(98);
			}
		}
		usage_report();
		do_end(argc > 3 ? argv[3] : NULL);
	} else if (!strcmp(mode, "grow")) {
		long long total = atoll(argv[2]), chunk = atoll(argv[3]), done = 0;
		char *buf = calloc(1, chunk);
		if (ftruncate(DATA, 0) < 0 || lseek(DATA, 0, SEEK_SET) < 0) {
			rep("nodata", errno);
			_exit(96);
		}
		rep("growing", total);
		while (done < total) {
			long long n = total - done < chunk ? total - done : chunk;
			ssize_t w = write(DATA, buf, n);
			if (w < 0) {
				rep("grown", done);
				rep("efbig", errno);
				die(97);
			}
			done += w;
		}
		rep("grown", done);
		die(0);
	} else if (!strcmp(mode, "touch")) {
		long long kib = atoll(argv[2]);
		if (kib > 0) {
			volatile char *p = mmap(NULL, kib * 1024, PROT_READ | PROT_WRITE, MAP_PRIVATE | MAP_ANONYMOUS, -1, 0);
			if (p == MAP_FAILED) {
				rep("nomem", errno);
				die(93);
			}
			for (long long i = 0; i < kib * 1024; i += 4096)
				p[i] = 1;
		}
		rep("touched", kib);
		usage_report();
		do_end(argc > 3 ? argv[3] : NULL);
	}
	rep("badmode", 0);
	return 96;
}
