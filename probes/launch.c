// launch probe (C04 / C07): static target program started by pkg/forkexec (or the container).
//
//   launch <marker-path|-> [hold]
//
// Very first act: create <marker-path> (C07: must not exist after a failed launch).
// Then write ONE JSON line on fd 1 describing the security state this program started in,
// as the kernel reports it to the program itself, then (if "hold") block reading fd 0 until
// EOF so that the driver can look at /proc/<pid> from outside, then exit 0.
#define _GNU_SOURCE
#include <errno.h>
#include <fcntl.h>
#include <grp.h>
#include <linux/capability.h>
#include <stdio.h>
#include <stdlib.h>
#include <string.h>
#include <sys/personality.h>
#include <sys/prctl.h>
#include <sys/resource.h>
#include <sys/stat.h>
#include <sys/syscall.h>
#include <sys/utsname.h>
#include <unistd.h>

static char out[16384];
static int n;
#define P(...) n += snprintf(out + n, sizeof(out) - n, __VA_ARGS__)

static void caplist(const char *name, unsigned lo, unsigned hi) {
  int first = 1;
  P("\"%s\":[", name);
  for (int i = 0; i < 64; i++) {
    unsigned w = i < 32 ? lo : hi;
    if (w & (1u << (i & 31))) {
      P("%s%d", first ? "" : ",", i);
      first = 0;
    }
  }
  P("],");
}

static void jstr(const char *name, const char *s) {
  P("\"%s\":\"", name);
  for (; *s; s++) {
    unsigned char c = (unsigned char)*s;
    if (c == '"' || c == '\\') P("\\%c", c);
    else if (c < 32 || c > 126) P("?");
    else P("%c", c);
  }
  P("\",");
}

static void statusfield(const char *st, const char *key, const char *name) {
  // copies the text after "Key:\t" up to the newline as a string
  char buf[256] = "";
  const char *p = st ? strstr(st, key) : NULL;
  if (p) {
    p += strlen(key);
    while (*p == '\t' || *p == ' ') p++;
    int k = 0;
    while (*p && *p != '\n' && k < 255) {
      buf[k++] = (*p == '\t') ? ' ' : *p;
      p++;
    }
    buf[k] = 0;
  }
  jstr(name, buf);
}

int main(int argc, char **argv) {
  if (argc > 1 && strcmp(argv[1], "-") != 0) {
    int fd = open(argv[1], O_CREAT | O_WRONLY | O_CLOEXEC, 0666);
    if (fd >= 0) close(fd);
  }
  int hold = argc > 2 && strcmp(argv[2], "hold") == 0;

  P("{");
  // capabilities
  struct __user_cap_header_struct h = {_LINUX_CAPABILITY_VERSION_3, 0};
  struct __user_cap_data_struct d[2];
  memset(d, 0, sizeof d);
  int capok = syscall(SYS_capget, &h, d) == 0;
  P("\"capok\":%s,", capok ? "true" : "false");
  caplist("eff", d[0].effective, d[1].effective);
  caplist("perm", d[0].permitted, d[1].permitted);
  caplist("inh", d[0].inheritable, d[1].inheritable);
  unsigned blo = 0, bhi = 0, alo = 0, ahi = 0;
  for (int i = 0; i < 64; i++) {
    if (prctl(PR_CAPBSET_READ, i, 0, 0, 0) == 1) {
      if (i < 32) blo |= 1u << i; else bhi |= 1u << (i - 32);
    }
    if (prctl(PR_CAP_AMBIENT, PR_CAP_AMBIENT_IS_SET, i, 0, 0) == 1) {
      if (i < 32) alo |= 1u << i; else ahi |= 1u << (i - 32);
    }
  }
  caplist("bnd", blo, bhi);
  caplist("amb", alo, ahi);
  P("\"secbits\":%d,", prctl(PR_GET_SECUREBITS, 0, 0, 0, 0));
  P("\"nnp\":%d,", prctl(PR_GET_NO_NEW_PRIVS, 0, 0, 0, 0));
  P("\"seccomp_prctl\":%d,", prctl(PR_GET_SECCOMP, 0, 0, 0, 0));

  // ids
  uid_t ru, eu, su;
  gid_t rg, eg, sg;
  getresuid(&ru, &eu, &su);
  getresgid(&rg, &eg, &sg);
  P("\"uids\":[%u,%u,%u],\"gids\":[%u,%u,%u],", ru, eu, su, rg, eg, sg);
  gid_t gl[256];
  int ng = getgroups(256, gl);
  P("\"groups\":[");
  for (int i = 0; i < ng; i++) P("%s%u", i ? "," : "", gl[i]);
  P("],");

  // session
  P("\"pid\":%d,\"ppid\":%d,\"sid\":%d,\"pgid\":%d,", getpid(), getppid(), getsid(0), getpgid(0));

  // cwd, uname
  char cwd[4096];
  if (!getcwd(cwd, sizeof cwd)) strcpy(cwd, "?");
  jstr("cwd", cwd);
  struct utsname u;
  memset(&u, 0, sizeof u);
  uname(&u);
  jstr("host", u.nodename);
  jstr("domain", u.domainname);

  // /proc/self (may be absent after pivot_root without a proc mount)
  static char st[8192];
  int sfd = open("/proc/self/status", O_RDONLY | O_CLOEXEC);
  int sl = 0;
  if (sfd >= 0) {
    sl = read(sfd, st, sizeof(st) - 1);
    if (sl < 0) sl = 0;
    close(sfd);
  }
  st[sl] = 0;
  P("\"proc\":%s,", sl > 0 ? "true" : "false");
  statusfield(sl > 0 ? st : NULL, "\nSeccomp:", "seccomp_status");
  statusfield(sl > 0 ? st : NULL, "\nSeccomp_filters:", "seccomp_filters");
  statusfield(sl > 0 ? st : NULL, "\nNoNewPrivs:", "nnp_status");
  statusfield(sl > 0 ? st : NULL, "\nNSpid:", "nspid");
  statusfield(sl > 0 ? st : NULL, "\nTracerPid:", "tracer");
  const char *nsn[] = {"user", "pid", "mnt", "uts", "ipc", "net", "cgroup"};
  P("\"ns\":{");
  for (int i = 0; i < 7; i++) {
    char p[64], v[32] = "";
    struct stat sb;
    snprintf(p, sizeof p, "/proc/self/ns/%s", nsn[i]);
    if (stat(p, &sb) == 0) snprintf(v, sizeof v, "%lu", (unsigned long)sb.st_ino);
    P("%s\"%s\":\"%s\"", i ? "," : "", nsn[i], v);
  }
  P("},");
  // root directory identity (pivot root witness): device:inode of "/"
  struct stat rs;
  char rid[64] = "";
  if (stat("/", &rs) == 0) snprintf(rid, sizeof rid, "%lu:%lu", (unsigned long)rs.st_dev, (unsigned long)rs.st_ino);
  jstr("rootid", rid);
  // container-sequence family: a syscall the test filters answer with distinct errnos, the NOFILE limit,
  // one environment variable
  errno = 0;
  long pr = syscall(SYS_personality, 0xffffffffUL);
  P("\"persona_errno\":%d,", pr < 0 ? errno : 0);
  struct rlimit rl = {0, 0};
  getrlimit(RLIMIT_NOFILE, &rl);
  P("\"nofile\":%ld,", (long)(rl.rlim_cur > 0x7fffffff ? 0x7fffffff : rl.rlim_cur));
  const char *vq = getenv("VQ");
  jstr("envq", vq ? vq : "");
  P("\"argc\":%d}\n", argc);

  int off = 0;
  while (off < n) {
    int w = write(1, out + off, n - off);
    if (w <= 0) break;
    off += w;
  }
  if (hold) {
    char b[16];
    while (read(0, b, sizeof b) > 0) {
    }
  }
  return 0;
}
