/* tracer.c -- scripted tracee for the ptrace-runner checks (C03, C15).
 *
 * Built with: gcc -static -nostdlib -ffreestanding -O1 (no libc: the process issues exactly the
 * system calls of its script, so the tracer's event log contains no start-up noise and every
 * thread can log without TLS).
 *
 *   argv[1] = script: tasks separated by '/', task 0 is the main process; ops separated by ','
 *     T<name>          mkdirat(AT_FDCWD, name, 0700)            -- the *traced* marker call
 *     U<name>          mkdir(name, 0700)                        -- untraced (filter allows it)
 *     N<name>          symlink("x", name)                       -- traced, decided by its NAME only (CheckSyscall)
 *     F<k> V<k> C<k>   fork / vfork (CLONE_VM|CLONE_VFORK, own stack) / thread running task k
 *     W                wait for every task this task created (wait4 / futex on the cleared tid)
 *     S                queue SIGUSR1 to itself; result = number of times the handler ran
 *     Z                execve of this same image: the new image carries on with the ops after Z of the
 *                      same task (argv[2] = "<task>:<next op>") and logs the Z line itself, i.e. only when
 *                      the exec took effect and the new image runs
 *     K                a call the filter kills (getpriority)
 *     P                setsid() (the task leaves the process group the tracer waits on)
 *     X<code>          exit_group(code)   (implicit X0 at the end; a thread ends with exit(0))
 *     E<code>          exit(code) of this task only (a thread / the main thread leaving others behind)
 *     Y<ms>            sleep
 *     J<k>             SIGKILL task k (process or thread id as recorded when it was created)
 *     H<nr>;a0;..;a5   raw syscall nr with hostile arguments (C15):
 *                        hex literal | @class[.len]  (classes below)
 *   fd 3 = log, one line per completed op:  "R <task> <idx> <op> <ret>\n", task start "B <task> <tid>\n"
 *
 * Pointer classes for H (area = 4 mapped RW pages followed by one unmapped page and one PROT_NONE page):
 *   @null  @unmapped  @kernel  @none(PROT_NONE)  @str.L (L non-NUL bytes + NUL, inside the area)
 *   @odd.L (same at an odd address)  @edge.L (L non-NUL bytes ending at the last mapped byte, no NUL)
 *   @edgez.L (L non-NUL bytes + NUL ending at the last mapped byte)  @how (valid open_how) @zero (8 zero bytes)
 */
typedef unsigned long u64;
typedef long i64;

#define SYS_write 1
#define SYS_mmap 9
#define SYS_mprotect 10
#define SYS_munmap 11
#define SYS_rt_sigaction 13
#define SYS_sched_yield 24
#define SYS_nanosleep 35
#define SYS_getpid 39
#define SYS_clone 56
#define SYS_fork 57
#define SYS_execve 59
#define SYS_exit 60
#define SYS_wait4 61
#define SYS_kill 62
#define SYS_mkdir 83
#define SYS_symlink 88
#define SYS_setsid 112
#define SYS_getpriority 140
#define SYS_gettid 186
#define SYS_futex 202
#define SYS_exit_group 231
#define SYS_mkdirat 258
#define SYS_rt_tgsigqueueinfo 297

#define CLONE_VM 0x100
#define CLONE_FS 0x200
#define CLONE_FILES 0x400
#define CLONE_SIGHAND 0x800
#define CLONE_VFORK 0x4000
#define CLONE_THREAD 0x10000
#define CLONE_SYSVSEM 0x40000
#define CLONE_PARENT_SETTID 0x100000
#define CLONE_CHILD_CLEARTID 0x200000
#define SIGCHLD 17
#define SIGUSR1 10
#define SIGKILL 9
#define __WALL 0x40000000
#define AT_FDCWD (-100)
#define MAXTASK 8
#define MAXOPS 16
#define PAGE 4096

static inline i64 sys6(i64 n, u64 a, u64 b, u64 c, u64 d, u64 e, u64 f)
{
	i64 ret;
	register u64 r10 __asm__("r10") = d;
	register u64 r8 __asm__("r8") = e;
	register u64 r9 __asm__("r9") = f;
	__asm__ volatile("syscall" : "=a"(ret) : "a"(n), "D"(a), "S"(b), "d"(c), "r"(r10), "r"(r8), "r"(r9)
			 : "rcx", "r11", "memory");
	return ret;
}
#define sys3(n, a, b, c) sys6(n, (u64)(a), (u64)(b), (u64)(c), 0, 0, 0)

/* clone with an own stack: child calls fn(arg) and leaves with exit(ret) */
long vclone(u64 flags, void *stack_top, int *ptid, int *ctid, long (*fn)(void *), void *arg);
__asm__(".text\n.globl vclone\nvclone:\n"
	"  mov %rcx, %r10\n"
	"  sub $16, %rsi\n"
	"  mov %r8, 0(%rsi)\n"
	"  mov %r9, 8(%rsi)\n"
	"  xor %r8, %r8\n"
	"  mov $56, %eax\n"
	"  syscall\n"
	"  test %rax, %rax\n"
	"  jnz 1f\n"
	"  xor %ebp, %ebp\n"
	"  pop %rax\n"
	"  pop %rdi\n"
	"  call *%rax\n"
	"  mov %eax, %edi\n"
	"  mov $60, %eax\n"
	"  syscall\n"
	"  hlt\n"
	"1: ret\n");

void vrestorer(void);
__asm__(".globl vrestorer\nvrestorer:\n  mov $15, %eax\n  syscall\n");

struct ksigaction { void *handler; u64 flags; void *restorer; u64 mask; };
struct ksiginfo { int si_signo, si_errno, si_code, pad; int si_pid, si_uid; void *si_ptr; char rest[96]; };

static void on_usr1(int sig, struct ksiginfo *info, void *uc)
{
	(void)sig; (void)uc;
	if (info && info->si_ptr)
		(*(volatile int *)info->si_ptr)++;
}

/* ---------------------------------------------------------------- script */
struct op { char kind; char name[24]; long num; const char *raw; };
struct task { int nops; struct op ops[MAXOPS]; };
static struct task tasks[MAXTASK];
static int ntasks;
static int task_tid[MAXTASK];     /* tid/pid of created tasks (shared with threads / vfork children) */
static char *area;                /* hostile-argument area */
static char stacks[MAXTASK][32768] __attribute__((aligned(16)));

static int slen(const char *s) { int n = 0; while (s[n]) n++; return n; }

static char *put_num(char *p, long v)
{
	char tmp[24]; int n = 0; unsigned long u;
	if (v < 0) { *p++ = '-'; u = (unsigned long)(-(v + 1)) + 1; } else u = (unsigned long)v;
	do { tmp[n++] = '0' + (u % 10); u /= 10; } while (u);
	while (n) *p++ = tmp[--n];
	return p;
}

static void logline(char tag, int task, int idx, char opk, long ret, int full)
{
	char buf[96], *p = buf;
	*p++ = tag; *p++ = ' ';
	p = put_num(p, task); *p++ = ' ';
	if (full) { p = put_num(p, idx); *p++ = ' '; *p++ = opk; *p++ = ' '; }
	p = put_num(p, ret); *p++ = '\n';
	sys3(SYS_write, 3, buf, p - buf);
}

static u64 parse_hex(const char **s)
{
	u64 v = 0; const char *p = *s;
	for (;; p++) {
		char c = *p; int d;
		if (c >= '0' && c <= '9') d = c - '0';
		else if (c >= 'a' && c <= 'f') d = c - 'a' + 10;
		else break;
		v = (v << 4) | (u64)d;
	}
	*s = p;
	return v;
}

static long parse_dec(const char **s)
{
	long v = 0; const char *p = *s;
	while (*p >= '0' && *p <= '9') v = v * 10 + (*p++ - '0');
	*s = p;
	return v;
}

static int parse(const char *s)
{
	int t = 0;
	ntasks = 1;
	while (*s) {
		struct task *tk = &tasks[t];
		if (*s == '/') { t++; if (t >= MAXTASK) return -1; ntasks = t + 1; s++; continue; }
		if (*s == ',') { s++; continue; }
		if (tk->nops >= MAXOPS) return -1;
		struct op *o = &tk->ops[tk->nops++];
		o->kind = *s++;
		switch (o->kind) {
		case 'T': case 'U': case 'N': {
			int n = 0;
			while (*s && *s != ',' && *s != '/' && n < 23) o->name[n++] = *s++;
			o->name[n] = 0;
			break; }
		case 'F': case 'V': case 'C': case 'X': case 'E': case 'Y': case 'J':
			o->num = parse_dec(&s);
			break;
		case 'H':
			o->raw = s;
			while (*s && *s != ',' && *s != '/') s++;
			break;
		case 'W': case 'S': case 'K': case 'P': case 'Z':
			break;
		default:
			return -1;
		}
	}
	return 0;
}

/* ---------------------------------------------------------------- hostile arguments */
#define NMAPPED 4
static int streq(const char *a, const char *b, int n) { for (int i = 0; i < n; i++) if (a[i] != b[i]) return 0; return b[n] == 0; }

static void fill(char *p, long n) { for (long i = 0; i < n; i++) p[i] = 'a' + (i % 23); }

static u64 hostile_arg(const char **sp)
{
	const char *s = *sp;
	if (*s != '@') return parse_hex(sp);
	s++;
	const char *w = s; int n = 0;
	while ((s[n] >= 'a' && s[n] <= 'z')) n++;
	s += n;
	long len = 0;
	if (*s == '.') { s++; len = parse_dec(&s); }
	*sp = s;
	char *end = area + NMAPPED * PAGE;           /* first unmapped byte */
	if (len > NMAPPED * PAGE - 16) len = NMAPPED * PAGE - 16;
	if (streq(w, "null", n)) return 0;
	if (streq(w, "unmapped", n)) return (u64)end + 64;
	if (streq(w, "kernel", n)) return 0xffff800000001000UL;
	if (streq(w, "none", n)) return (u64)end + PAGE + 8;
	if (streq(w, "str", n)) { fill(area + 16, len); area[16 + len] = 0; return (u64)(area + 16); }
	if (streq(w, "odd", n)) { fill(area + 17, len); area[17 + len] = 0; return (u64)(area + 17); }
	if (streq(w, "edge", n)) { fill(end - len, len); return (u64)(end - len); }
	if (streq(w, "edgez", n)) { fill(end - len - 1, len); end[-1] = 0; return (u64)(end - len - 1); }
	if (streq(w, "how", n)) { u64 *h = (u64 *)(area + 8192); h[0] = 0; h[1] = 0; h[2] = 0; return (u64)h; }
	if (streq(w, "zero", n)) { u64 *h = (u64 *)(area + 8192 + 64); h[0] = 0; return (u64)h; }
	return 0;
}

static long hostile_call(const char *s)
{
	u64 a[6] = {0, 0, 0, 0, 0, 0};
	int neg = 0;
	if (*s == '-') { neg = 1; s++; }
	u64 nr = parse_hex(&s);
	if (neg) nr = (u64)(-(i64)nr);
	for (int i = 0; i < 6 && *s == ';'; i++) { s++; a[i] = hostile_arg(&s); }
	return sys6((i64)nr, a[0], a[1], a[2], a[3], a[4], a[5]);
}

/* ---------------------------------------------------------------- interpreter */
struct targ { int task; int thread; int start; };
static char **g_argv;
static struct targ targs[MAXTASK];
static int ctid[MAXTASK];          /* CLONE_CHILD_CLEARTID words for threads */

static long run_task(void *p);

static long spawn(int kind, int k)
{
	targs[k].task = k;
	targs[k].start = 0;
	targs[k].thread = kind == 'C';
	void *top = stacks[k] + sizeof stacks[k];
	long r;
	if (kind == 'F') {
		r = sys3(SYS_fork, 0, 0, 0);
		if (r == 0) {
			long c = run_task(&targs[k]);
			sys3(SYS_exit_group, c, 0, 0);
		}
	} else if (kind == 'V') {
		r = vclone(CLONE_VM | CLONE_VFORK | SIGCHLD, top, 0, 0, run_task, &targs[k]);
	} else {
		ctid[k] = 1;
		r = vclone(CLONE_VM | CLONE_FS | CLONE_FILES | CLONE_SIGHAND | CLONE_THREAD | CLONE_SYSVSEM |
			   CLONE_PARENT_SETTID | CLONE_CHILD_CLEARTID, top, &task_tid[k], &ctid[k], run_task, &targs[k]);
	}
	if (r > 0 && kind != 'C') task_tid[k] = (int)r;
	return r;
}

static long run_task(void *p)
{
	struct targ *ta = p;
	int me = ta->task;
	struct task *tk = &tasks[me];
	int kids[MAXTASK], kkind[MAXTASK], nk = 0;
	if (ta->start == 0)
		logline('B', me, 0, 0, sys3(SYS_gettid, 0, 0, 0), 0);
	else
		logline('R', me, ta->start - 1, 'Z', 0, 1);   /* the exec'ed image is running */
	for (int i = ta->start; i < tk->nops; i++) {
		struct op *o = &tk->ops[i];
		long r = 0;
		switch (o->kind) {
		case 'T': r = sys3(SYS_mkdirat, AT_FDCWD, o->name, 0700); break;
		case 'U': r = sys3(SYS_mkdir, o->name, 0700, 0); break;
		case 'N': r = sys3(SYS_symlink, "x", o->name, 0); break;
		case 'F': case 'V': case 'C':
			r = spawn(o->kind, (int)o->num);
			if (r > 0) { kids[nk] = (int)o->num; kkind[nk++] = o->kind; r = 1; }
			break;
		case 'W':
			for (int j = 0; j < nk; j++) {
				int k = kids[j];
				if (kkind[j] == 'C') {
					int v;
					while ((v = *(volatile int *)&ctid[k]) != 0)
						sys6(SYS_futex, (u64)&ctid[k], 0 /*FUTEX_WAIT*/, (u64)v, 0, 0, 0);
				} else {
					int st = 0;
					long w = sys6(SYS_wait4, (u64)task_tid[k], (u64)&st, __WALL, 0, 0, 0);
					if (w < 0) r = w;
				}
			}
			nk = 0;
			break;
		case 'S': {
			volatile int cnt = 0;
			struct ksiginfo si;
			for (unsigned j = 0; j < sizeof si; j++) ((char *)&si)[j] = 0;
			si.si_signo = SIGUSR1; si.si_code = -1 /*SI_QUEUE*/; si.si_ptr = (void *)&cnt;
			si.si_pid = (int)sys3(SYS_getpid, 0, 0, 0);
			r = sys6(SYS_rt_tgsigqueueinfo, (u64)si.si_pid, (u64)sys3(SYS_gettid, 0, 0, 0), SIGUSR1, (u64)&si, 0, 0);
			if (r == 0) r = cnt;
			break; }
		case 'K': r = sys3(SYS_getpriority, 0, 0, 0); break;
		case 'Z': {
			char res[24], *q = put_num(res, me);
			*q++ = ':'; q = put_num(q, i + 1); *q = 0;
			char *nargv[4] = { g_argv[0], g_argv[1], res, 0 };
			char *nenv[1] = { 0 };
			r = sys3(SYS_execve, g_argv[0], nargv, nenv);   /* returns only on failure */
			break; }
		case 'P': r = sys3(SYS_setsid, 0, 0, 0); if (r > 0) r = 1; break;
		case 'Y': { long ts[2] = { o->num / 1000, (o->num % 1000) * 1000000L }; r = sys3(SYS_nanosleep, ts, 0, 0); break; }
		case 'J': r = sys3(SYS_kill, task_tid[o->num], SIGKILL, 0); break;
		case 'H': r = hostile_call(o->raw); break;
		case 'X':
			logline('R', me, i, 'X', o->num, 1);
			sys3(SYS_exit_group, o->num, 0, 0);
			break;
		case 'E':
			logline('R', me, i, 'E', o->num, 1);
			sys3(SYS_exit, o->num, 0, 0);
			break;
		}
		logline('R', me, i, o->kind, r, 1);
	}
	logline('R', me, tk->nops, ta->thread ? 'E' : 'X', 0, 1);
	if (ta->thread)
		return 0;          /* vclone: exit(0) of this thread only */
	sys3(SYS_exit_group, 0, 0, 0);
	return 0;
}

void cmain(long *sp)
{
	long argc = sp[0];
	char **argv = (char **)(sp + 1);
	if (argc < 2 || parse(argv[1]) < 0) {
		sys3(SYS_write, 2, "tracer probe: bad script\n", 25);
		sys3(SYS_exit_group, 97, 0, 0);
	}
	(void)slen;
	struct ksigaction sa = { (void *)on_usr1, 0x04000004UL /*SA_RESTORER|SA_SIGINFO*/, (void *)vrestorer, 0 };
	sys6(SYS_rt_sigaction, SIGUSR1, (u64)&sa, 0, 8, 0, 0);
	/* hostile area: NMAPPED RW pages, one unmapped page, one PROT_NONE page */
	area = (char *)sys6(SYS_mmap, 0, (NMAPPED + 2) * PAGE, 3, 0x22 /*PRIVATE|ANON*/, (u64)-1, 0);
	if ((i64)area < 0 && (i64)area > -4096) sys3(SYS_exit_group, 98, 0, 0);
	sys3(SYS_munmap, area + NMAPPED * PAGE, PAGE, 0);
	sys3(SYS_mprotect, area + (NMAPPED + 1) * PAGE, PAGE, 0);
	g_argv = argv;
	int t0 = 0;
	targs[0].start = 0;
	if (argc >= 3) {           /* resumed after an exec: "<task>:<next op>" */
		const char *r = argv[2];
		t0 = (int)parse_dec(&r);
		if (*r == ':') r++;
		targs[t0].start = (int)parse_dec(&r);
	}
	targs[t0].task = t0; targs[t0].thread = 0;
	run_task(&targs[t0]);
	sys3(SYS_exit_group, 0, 0, 0);
}

__asm__(".globl _start\n_start:\n  xor %ebp, %ebp\n  mov %rsp, %rdi\n  and $-16, %rsp\n  call cmain\n  hlt\n");
