/* C01 kernel cross-check probe (family seccomp).
 *
 * Freestanding (no libc): after execve this program issues exactly ONE system call, the one under
 * test, so that an arbitrary seccomp policy (which only has to let execve through) can be
 * installed around it.  It cannot rely on write/exit being permitted, therefore the outcome is
 * reported through the way the process dies, which needs no system call:
 *
 *     result == -ENOSYS (-38)  ->  ud2          -> killed by SIGILL  (4)
 *     result == -EPERM  (-1)   ->  divide by 0  -> killed by SIGFPE  (8)
 *     any other result         ->  int3         -> killed by SIGTRAP (5)
 *     filter said KILL/TRAP    ->  (kernel)     -> killed by SIGSYS  (31)
 *     the call was exit/exit_group and ran      -> normal exit
 *     int $0x80 without ia32 emulation          -> SIGSEGV (11), row is skipped by the judge
 *
 * usage: seccomp n|i|w <hex syscall number>
 *   n : `syscall` instruction, rax = number (zero extended), all six arguments = -1
 *   i : `int $0x80` (i386 ABI entry, seccomp_data.arch = AUDIT_ARCH_I386), all arguments = -1
 *   w : no system call at all: spin until killed (the harness reads /proc/<pid>/status meanwhile)
 *
 * build: gcc -static -nostdlib -nostartfiles -ffreestanding
 */

static long parse_hex(const char *s)
{
	unsigned long v = 0;
	if (s[0] == '0' && (s[1] == 'x' || s[1] == 'X'))
		s += 2;
	for (; *s; s++) {
		unsigned c = (unsigned char)*s;
		if (c >= '0' && c <= '9')
			v = v * 16 + (c - '0');
		else if (c >= 'a' && c <= 'f')
			v = v * 16 + (c - 'a' + 10);
		else if (c >= 'A' && c <= 'F')
			v = v * 16 + (c - 'A' + 10);
		else
			break;
	}
	return (long)v;
}

static long native_call(unsigned long nr)
{
	long ret;
	register long r10 __asm__("r10") = -1;
	register long r8 __asm__("r8") = -1;
	register long r9 __asm__("r9") = -1;
	__asm__ volatile("syscall"
			 : "=a"(ret)
			 : "a"(nr), "D"(-1L), "S"(-1L), "d"(-1L), "r"(r10), "r"(r8), "r"(r9)
			 : "rcx", "r11", "memory");
	return ret;
}

static long int80_call(unsigned long nr)
{
	long ret;
	__asm__ volatile("push %%rbp\n\t"
			 "mov $-1, %%ebp\n\t"
			 "int $0x80\n\t"
			 "pop %%rbp"
			 : "=a"(ret)
			 : "a"(nr), "b"(-1L), "c"(-1L), "d"(-1L), "S"(-1L), "D"(-1L)
			 : "memory", "r8", "r9", "r10", "r11");
	return (long)(int)ret; /* the compat entry returns a 32-bit value in eax */
}

__attribute__((used, noreturn)) static void cmain(long *sp)
{
	long argc = sp[0];
	char **argv = (char **)(sp + 1);
	long r;
	unsigned long nr;

	if (argc < 3)
		__asm__ volatile("hlt"); /* SIGSEGV: usage error, never a verdict */
	nr = (unsigned long)parse_hex(argv[2]);
	if (argv[1][0] == 'w')
		for (;;)
			__asm__ volatile("pause");
	if (argv[1][0] == 'i')
		r = int80_call(nr);
	else
		r = native_call(nr);

	if (r == -38)
		__asm__ volatile("ud2");
	if (r == -1)
		__asm__ volatile("xor %%edx, %%edx\n\txor %%ecx, %%ecx\n\tdiv %%ecx" ::: "eax", "ecx", "edx");
	__asm__ volatile("int3");
	for (;;)
		__asm__ volatile("ud2");
}

__attribute__((naked, noreturn)) void _start(void)
{
	__asm__ volatile("mov %rsp, %rdi\n\t"
			 "and $-16, %rsp\n\t"
			 "call cmain\n\t"
			 "ud2");
}
