/* cprobe: script-driven sandbox target for the container / runner family checks (C10 C11 C12 C16 C17).
 * usage: cprobe <nonce> op op op ...      (the nonce only serves to find the processes in /proc)
 *   exit:N        _exit(N)
 *   sleep:MS      sleep
 *   spin:MS       burn cpu
 *   raise:SIG     raise signal with default disposition
 *   ignore        ignore every signal that can be ignored
 *   write:PATH:TEXT   create/truncate PATH with TEXT
 *   append:PATH:TEXT  append TEXT + newline
 *   say:FD:TEXT   write TEXT + newline to FD
 *   pid:FD        write "pid <getpid> <getppid>" to FD
 *   waitfd:FD     block until FD is readable/EOF (harness-controlled exit instant)
 *   closefd:FD
 *   tree:SPEC     build a process tree, see below; the root continues with the next op
 *   envexit:NAME:A:B  _exit(A) if the environment variable NAME is set, else _exit(B)
 *   badopen:N     call openat(AT_FDCWD, (char *)8, O_RDONLY) N times: a path pointer nobody can read (EFAULT)
 *   mkdirs:DIR:N  call mkdir(DIR/x<i>) N times (results ignored)
 *   fds:PATH      write the list of open descriptors (fd dev ino cloexec) to PATH
 *   fdsfd:FD      the same, written to descriptor FD (the list includes FD itself)
 * tree SPEC: node* ; node := flag* '(' node* ')'
 *   flags: i ignore signals, s setsid, g setpgid(0,0), d double fork (intermediate exits -> orphan),
 *          l linger 60 s (default: exit at once after creating its children), w wait for children,
 *          u created with clone(CLONE_UNTRACED): a tracer of the parent is not attached to it
 *          z become a zombie's parent: spawn a child that exits at once and never reap it (with l)
 * every created process appends "node <pid>" to the file named by env CPROBE_REPORT if set.
 */
#define _GNU_SOURCE
#include <errno.h>
#include <fcntl.h>
#include <poll.h>
#include <signal.h>
#include <sched.h>
#include <sys/syscall.h>
#include <stdio.h>
#include <stdlib.h>
#include <string.h>
#include <sys/stat.h>
#include <sys/types.h>
#include <sys/wait.h>
#include <time.h>
#include <unistd.h>
#include <dirent.h>

static void msleep(long ms) {
  struct timespec ts = {ms / 1000, (ms % 1000) * 1000000L};
  while (nanosleep(&ts, &ts) == -1 && errno == EINTR) {}
}

static void ignore_all(void) {
  for (int s = 1; s < 65; s++) {
    if (s == SIGKILL || s == SIGSTOP || s == SIGCHLD) continue;
    signal(s, SIG_IGN);
  }
}

static void report_node(void) {
  const char *p = getenv("CPROBE_REPORT");
  if (!p) return;
  int fd = open(p, O_WRONLY | O_CREAT | O_APPEND, 0666);
  if (fd < 0) return;
  char b[64];
  int n = snprintf(b, sizeof b, "node %d\n", getpid());
  if (write(fd, b, n) < 0) {}
  close(fd);
}

static const char *parse_nodes(const char *s, int depth);

/* parse one node at s (flags then '('), create it, return pointer after its ')' */
static const char *parse_node(const char *s, int depth) {
  int fi = 0, fs = 0, fg = 0, fd_ = 0, fl = 0, fw = 0, fz = 0, fu = 0;
  for (; *s && *s != '('; s++) {
    switch (*s) {
      case 'i': fi = 1; break;
      case 's': fs = 1; break;
      case 'g': fg = 1; break;
      case 'd': fd_ = 1; break;
      case 'l': fl = 1; break;
      case 'w': fw = 1; break;
      case 'z': fz = 1; break;
      case 'u': fu = 1; break;
    }
  }
  if (*s != '(') return s;
  /* find matching ')' for the parent to skip */
  const char *body = s + 1;
  int lvl = 1;
  const char *e = body;
  for (; *e && lvl > 0; e++) {
    if (*e == '(') lvl++;
    if (*e == ')') lvl--;
  }
  pid_t p = fu ? (pid_t)syscall(SYS_clone, CLONE_UNTRACED | SIGCHLD, 0, 0, 0, 0) : fork();
  if (p == 0) {
    if (fd_) {
      pid_t q = fork();
      if (q != 0) _exit(0); /* intermediate exits: grandchild is an orphan */
    }
    if (fi) ignore_all();
    if (fs) setsid();
    if (fg) setpgid(0, 0);
    report_node();
    parse_nodes(body, depth + 1);
    if (fz) {
      pid_t z = fork();
      if (z == 0) _exit(0);
    }
    if (fw) while (wait(NULL) > 0 || errno == EINTR) {}
    if (fl) msleep(60000);
    _exit(0);
  }
  if (fd_ && p > 0) waitpid(p, NULL, 0);
  return e;
}

static const char *parse_nodes(const char *s, int depth) {
  while (*s && *s != ')') s = parse_node(s, depth);
  return s;
}

static void dump_fds_to(int out, int skip);
static void dump_fds(const char *path) {
  int out = open(path, O_WRONLY | O_CREAT | O_TRUNC, 0666);
  if (out < 0) return;
  dump_fds_to(out, out);
  close(out);
}

static void dump_fds_to(int out, int skip) {
  for (int fd = 0; fd < 1024; fd++) {
    if (fd == skip) continue;
    struct stat st;
    if (fstat(fd, &st) != 0) continue;
    int fl = fcntl(fd, F_GETFD);
    char b[128];
    int n = snprintf(b, sizeof b, "%d %lu %lu %d\n", fd, (unsigned long)st.st_dev, (unsigned long)st.st_ino, fl & FD_CLOEXEC ? 1 : 0);
    if (write(out, b, n) < 0) {}
  }
}

int main(int argc, char **argv) {
  for (int i = 2; i < argc; i++) {
    char *op = argv[i];
    char *a = strchr(op, ':');
    char *arg = a ? a + 1 : (char *)"";
    size_t oplen = a ? (size_t)(a - op) : strlen(op);
#define IS(name) (oplen == strlen(name) && strncmp(op, name, oplen) == 0)
    if (IS("exit")) _exit(atoi(arg));
    else if (IS("sleep")) msleep(atol(arg));
    else if (IS("spin")) {
      struct timespec t0, t;
      clock_gettime(CLOCK_MONOTONIC, &t0);
      long ms = atol(arg);
      volatile unsigned long x = 0;
      for (;;) {
        for (int k = 0; k < 100000; k++) x += k;
        clock_gettime(CLOCK_MONOTONIC, &t);
        if ((t.tv_sec - t0.tv_sec) * 1000 + (t.tv_nsec - t0.tv_nsec) / 1000000 >= ms) break;
      }
    } else if (IS("raise")) {
      int s = atoi(arg);
      signal(s, SIG_DFL);
      sigset_t ss;
      sigemptyset(&ss);
      sigaddset(&ss, s);
      sigprocmask(SIG_UNBLOCK, &ss, NULL);
      raise(s);
    } else if (IS("ignore")) ignore_all();
    else if (IS("write") || IS("append")) {
      char *t = strchr(arg, ':');
      if (!t) continue;
      *t++ = 0;
      int fd = open(arg, O_WRONLY | O_CREAT | (IS("append") ? O_APPEND : O_TRUNC), 0666);
      if (fd >= 0) {
        if (write(fd, t, strlen(t)) < 0) {}
        if (IS("append") && write(fd, "\n", 1) < 0) {}
        close(fd);
      }
    } else if (IS("say")) {
      char *t = strchr(arg, ':');
      if (!t) continue;
      *t++ = 0;
      int fd = atoi(arg);
      if (write(fd, t, strlen(t)) < 0) {}
      if (write(fd, "\n", 1) < 0) {}
    } else if (IS("pid")) {
      char b[64];
      int n = snprintf(b, sizeof b, "pid %d %d\n", getpid(), getppid());
      if (write(atoi(arg), b, n) < 0) {}
    } else if (IS("waitfd")) {
      int fd = atoi(arg);
      char c;
      while (read(fd, &c, 1) == -1 && errno == EINTR) {}
    } else if (IS("closefd")) close(atoi(arg));
    else if (IS("tree")) parse_nodes(arg, 0);
    else if (IS("envexit")) {
      char *a = strchr(arg, ':');
      if (!a) continue;
      *a++ = 0;
      char *b = strchr(a, ':');
      if (!b) continue;
      *b++ = 0;
      _exit(getenv(arg) ? atoi(a) : atoi(b));
    } else if (IS("mkdirs")) {
      char *n = strchr(arg, ':');
      if (!n) continue;
      *n++ = 0;
      long cnt = atol(n);
      char path[512];
      for (long k = 0; k < cnt; k++) {
        snprintf(path, sizeof path, "%s/x%ld", arg, k);
        mkdir(path, 0755);
      }
    }
    else if (IS("badopen")) {
      for (long k = atol(arg); k > 0; k--) syscall(SYS_openat, AT_FDCWD, (char *)8, O_RDONLY);
    }
    else if (IS("fds")) dump_fds(arg);
    else if (IS("fdsfd")) dump_fds_to(atoi(arg), -1);
  }
  return 0;
}
