/*
 * pathwalk probe (C02).  Reads a script on stdin, one case per line, and runs it in one of two modes
 * (same script, same descriptor set-up, so both runs see the same (dirfd, path) pairs):
 *   pathwalk truth   (run directly) asks the kernel where the (dirfd, path) pair(s) of each call lead:
 *      open(O_PATH) and open(O_PATH|O_NOFOLLOW) + readlink(/proc/self/fd/N); if the last component is
 *      missing, a real creation (open O_CREAT, or mkdirat for a trailing slash) followed by removal.
 *      prints:  <id> <path1 follow> <path1 nofollow> <path2 follow> <path2 nofollow>
 *   pathwalk trace   (run under the real ptrace runner) issues
 *         getppid()   <scripted raw syscall with caller-chosen 64-bit registers>   getsid(0)
 *      (the two markers tell the driver's handler which consultations belong to the scripted call;
 *       the handler answers "ban" between the markers so the scripted call itself never executes)
 *      prints:  <id> <ret>:<errno>
 * There is no expectation in here: names are translated to numbers with the C headers, nothing more.
 *
 * script line (space separated; strings hex-encoded with a leading 'x'):
 *   id cwd sysname acc flags d1lo d1hi d1dir p1 p1fd d2lo d2hi d2dir p2 p2fd args m1 m2 swp swq
 * swp/swq: if not empty, two nodes of the tree that are exchanged (renameat2 RENAME_EXCHANGE) before the
 *   case and exchanged back after it: the tree is different while this call is made (both modes alike)
 * p1fd/p2fd: if not empty, a directory to open; the name becomes /proc/self/fd/<N>/<p>
 * m1/m2: <where>:<gap>:<prot> placement of the string relative to a page boundary B of an mmap'ed region:
 *   static (the ordinary buffer), in (ends 100 bytes before B), end (NUL is the last byte before B),
 *   one / mid / last (B after the first byte / in the middle / before the last byte), nul (only the NUL
 *   behind B); gap=1: the page after the one holding the NUL is PROT_NONE; prot: protection given to the
 *   page holding the NUL after the string was written (rw, w = PROT_WRITE only, none).  Both modes alike.
 */
#define _GNU_SOURCE
#include <errno.h>
#include <fcntl.h>
#include <stdint.h>
#include <stdio.h>
#include <stdlib.h>
#include <string.h>
#include <sys/mman.h>
#include <sys/stat.h>
#include <sys/syscall.h>
#include <unistd.h>

#ifndef SYS_openat2
#define SYS_openat2 437
#endif
#ifndef SYS_faccessat2
#define SYS_faccessat2 439
#endif
#ifndef SYS_fchmodat2
#define SYS_fchmodat2 452
#endif
#ifndef RENAME_EXCHANGE
#define RENAME_EXCHANGE 2
#endif
#ifndef AT_EACCESS
#define AT_EACCESS 0x200
#endif

struct how { uint64_t flags, mode, resolve; };

static const struct { const char *n; long nr; } sysnr[] = {
	{"open", SYS_open}, {"openat", SYS_openat}, {"openat2", SYS_openat2},
	{"readlink", SYS_readlink}, {"readlinkat", SYS_readlinkat},
	{"unlink", SYS_unlink}, {"unlinkat", SYS_unlinkat},
	{"mkdirat", SYS_mkdirat}, {"mknodat", SYS_mknodat}, {"symlinkat", SYS_symlinkat},
	{"fchmodat", SYS_fchmodat}, {"fchmodat2", SYS_fchmodat2},
	{"linkat", SYS_linkat}, {"renameat", SYS_renameat}, {"renameat2", SYS_renameat2},
	{"access", SYS_access}, {"faccessat", SYS_faccessat}, {"faccessat2", SYS_faccessat2},
	{"stat", SYS_stat}, {"lstat", SYS_lstat}, {"newfstatat", SYS_newfstatat}, {"statx", SYS_statx},
	{"execve", SYS_execve}, {"execveat", SYS_execveat},
	{"chmod", SYS_chmod}, {"rename", SYS_rename},
	{0, 0}};

static const struct { const char *n; uint64_t v; } flagv[] = {
	{"O_CREAT", O_CREAT}, {"O_EXCL", O_EXCL}, {"O_TRUNC", O_TRUNC}, {"O_APPEND", O_APPEND},
	{"O_NOFOLLOW", O_NOFOLLOW}, {"O_DIRECTORY", O_DIRECTORY}, {"O_CLOEXEC", O_CLOEXEC},
	{"O_PATH", O_PATH}, {"O_NONBLOCK", O_NONBLOCK}, {"O_SYNC", O_SYNC}, {"O_NOCTTY", O_NOCTTY},
	{"AT_SYMLINK_NOFOLLOW", AT_SYMLINK_NOFOLLOW}, {"AT_SYMLINK_FOLLOW", AT_SYMLINK_FOLLOW},
	{"AT_REMOVEDIR", AT_REMOVEDIR}, {"AT_EACCESS", AT_EACCESS},
	{0, 0}};

static const char *ename(int e)
{
	static char b[16];
	switch (e) {
	case ENOENT: return "ENOENT";
	case ENOTDIR: return "ENOTDIR";
	case ELOOP: return "ELOOP";
	case EBADF: return "EBADF";
	case EACCES: return "EACCES";
	case EINVAL: return "EINVAL";
	case EEXIST: return "EEXIST";
	case EISDIR: return "EISDIR";
	case ENAMETOOLONG: return "ENAMETOOLONG";
	case EFAULT: return "EFAULT";
	}
	snprintf(b, sizeof b, "E%d", e);
	return b;
}

static void die(const char *m, const char *a);

static void cpy(char *dst, size_t cap, const char *src)
{
	size_t n = strlen(src);
	if (n >= cap) die("token too long", src);
	memcpy(dst, src, n + 1);
}

static void die(const char *m, const char *a)
{
	fprintf(stderr, "pathwalk probe: %s %s\n", m, a ? a : "");
	exit(3);
}

static int unhex(const char *s, char *out, size_t cap)
{
	size_t n = 0;
	if (*s != 'x') die("bad string token", s);
	for (s++; s[0] && s[1]; s += 2) {
		unsigned v;
		if (n + 1 >= cap || sscanf(s, "%2x", &v) != 1) die("bad hex", s);
		out[n++] = (char)v;
	}
	out[n] = 0;
	return (int)n;
}

static void hexout(char *dst, const char *s)
{
	*dst++ = 'x';
	for (; *s; s++) dst += sprintf(dst, "%02x", (unsigned char)*s);
	*dst = 0;
}

static uint64_t flagword(const char *names)
{
	uint64_t v = 0;
	char tmp[512], *t, *sv;
	if (!strcmp(names, "-")) return 0;
	cpy(tmp, sizeof tmp, names);
	for (t = strtok_r(tmp, ",", &sv); t; t = strtok_r(0, ",", &sv)) {
		int i, ok = 0;
		for (i = 0; flagv[i].n; i++)
			if (!strcmp(flagv[i].n, t)) { v |= flagv[i].v; ok = 1; }
		if (!ok) die("unknown flag", t);
	}
	return v;
}

static int fdpath(int fd, char *out, size_t cap)
{
	char p[64];
	ssize_t n;
	snprintf(p, sizeof p, "/proc/self/fd/%d", fd);
	n = readlink(p, out, cap - 1);
	if (n < 0) return -1;
	out[n] = 0;
	return 0;
}

/* kernel truth for (reg, path): writes "ok:<hex>" | "create:<hex>" | "err:<errno>:<errno of creation>" */
static void truth(uint64_t reg, const char *path, int nofollow, char *out)
{
	char got[4200], hx[8500];
	long fd = syscall(SYS_openat, reg, path, (long)(O_PATH | O_CLOEXEC | (nofollow ? O_NOFOLLOW : 0)), 0L);
	if (fd >= 0) {
		if (fdpath((int)fd, got, sizeof got)) die("readlink fd", "");
		close((int)fd);
		hexout(hx, got);
		sprintf(out, "ok:%s", hx);
		return;
	}
	if (errno != ENOENT) {
		sprintf(out, "err:%s:-", ename(errno));
		return;
	}
	/* last component may be missing: create it for real to learn where it lands, then remove it */
	size_t l = strlen(path);
	int ce;
	if (l && path[l - 1] == '/') {
		if (syscall(SYS_mkdirat, reg, path, 0700L) == 0) {
			fd = syscall(SYS_openat, reg, path, (long)(O_PATH | O_DIRECTORY | O_CLOEXEC), 0L);
			if (fd < 0 || fdpath((int)fd, got, sizeof got)) die("created dir vanished", path);
			close((int)fd);
			if (rmdir(got)) die("rmdir", got);
			hexout(hx, got);
			sprintf(out, "create:%s", hx);
			return;
		}
		ce = errno;
	} else {
		fd = syscall(SYS_openat, reg, path,
			     (long)(O_CREAT | O_WRONLY | O_NOCTTY | O_CLOEXEC | (nofollow ? O_NOFOLLOW : 0)), 0600L);
		if (fd >= 0) {
			if (fdpath((int)fd, got, sizeof got)) die("readlink created fd", "");
			close((int)fd);
			if (unlink(got)) die("unlink", got);
			hexout(hx, got);
			sprintf(out, "create:%s", hx);
			return;
		}
		ce = errno;
	}
	sprintf(out, "err:ENOENT:%s", ename(ce));
}

#define PG 4096
#define NPG 6

/* copy s into region (NPG pages, read-write) as the token asks; returns where it starts */
static char *place(char *region, char *s, const char *tok)
{
	char b[16];
	int gap = 0;
	size_t len = strlen(s), tot = len + 1, bpos;
	const char *c = strchr(tok, ':');
	if (!c || (size_t)(c - tok) >= sizeof b) die("bad placement", tok);
	memcpy(b, tok, (size_t)(c - tok));
	b[c - tok] = 0;
	gap = c[1] == '1';
	const char *prot = strlen(c) >= 4 ? c + 3 : "rw";
	if (!strcmp(b, "static")) return s;
	if (mprotect(region, NPG * PG, PROT_READ | PROT_WRITE)) die("mprotect rw", "");
	memset(region, 0, NPG * PG);
	char *B = region + 2 * PG;
	if (!strcmp(b, "in")) bpos = tot + 100;
	else if (!strcmp(b, "end")) bpos = tot;
	else if (!strcmp(b, "one")) bpos = 1;
	else if (!strcmp(b, "mid")) bpos = tot / 2 ? tot / 2 : 1;
	else if (!strcmp(b, "last")) bpos = len > 1 ? len - 1 : 1;
	else if (!strcmp(b, "nul")) bpos = len ? len : 1;
	else { die("unknown placement", tok); return 0; }
	if (tot > PG) die("string too long to place", "");
	char *start = B - bpos;
	memcpy(start, s, tot);
	char *nulpage = region + ((size_t)(start + len - region) / PG) * PG;
	if (gap && mprotect(nulpage + PG, PG, PROT_NONE)) die("mprotect none", "");
	if (!strcmp(prot, "w")) {
		if (mprotect(nulpage, PG, PROT_WRITE)) die("mprotect w", "");
	} else if (!strcmp(prot, "none")) {
		if (mprotect(nulpage, PG, PROT_NONE)) die("mprotect none", "");
	} else if (strcmp(prot, "rw")) die("unknown protection", tok);
	return start;
}

struct dspec { char lo[16], hi[16], dir[4200]; int fd; uint64_t reg; };

static void dprep(struct dspec *d)
{
	uint32_t low;
	d->fd = -1;
	if (!strcmp(d->lo, "cwd")) low = (uint32_t)AT_FDCWD;
	else if (!strcmp(d->lo, "none")) { d->reg = (uint64_t)(int64_t)AT_FDCWD; return; }
	else if (!strcmp(d->lo, "fd")) {
		d->fd = open(d->dir, O_RDONLY | O_DIRECTORY | O_CLOEXEC);
		low = (uint32_t)d->fd; /* -1 if the directory could not be opened: a bad descriptor */
	} else low = 9999;
	if (!strcmp(d->hi, "ones")) d->reg = 0xffffffff00000000ull | low;
	else if (!strcmp(d->hi, "junk")) d->reg = 0xdeadbeef00000000ull | low;
	else d->reg = low;
}

int main(int argc, char **argv)
{
	int do_truth = argc > 1 && !strcmp(argv[1], "truth");
	if (argc < 2 || (!do_truth && strcmp(argv[1], "trace"))) die("usage: pathwalk truth|trace < script", "");
	static char line[60000], cwd[4200], p1[4300], p2[4300], pf1[4200], pf2[4200], tmpn[4200], swp[4200], swq[4200], tok[20][8500];
	static char t1f[9000], t1n[9000], t2f[9000], t2n[9000], buf[4096];
	static struct dspec d1, d2;
	static char strarg[] = "zz/tgt";
	char *reg1 = mmap(0, NPG * PG, PROT_READ | PROT_WRITE, MAP_PRIVATE | MAP_ANONYMOUS, -1, 0);
	char *reg2 = mmap(0, NPG * PG, PROT_READ | PROT_WRITE, MAP_PRIVATE | MAP_ANONYMOUS, -1, 0);
	if (reg1 == MAP_FAILED || reg2 == MAP_FAILED) die("mmap", "");
	static char *argvv[] = {"probe", 0};
	static struct how how;
	setvbuf(stdout, 0, _IOFBF, 1 << 16);
	close(9999);
	while (fgets(line, sizeof line, stdin)) {
		int n = 0, i;
		char *sv, *t;
		for (t = strtok_r(line, " \n", &sv); t && n < 20; t = strtok_r(0, " \n", &sv))
			cpy(tok[n++], sizeof tok[0], t);
		if (n == 0) continue;
		if (n != 20) die("bad script line", tok[0]);
		unhex(tok[1], cwd, sizeof cwd);
		long nr = -1;
		for (i = 0; sysnr[i].n; i++)
			if (!strcmp(sysnr[i].n, tok[2])) nr = sysnr[i].nr;
		if (nr < 0) die("unknown syscall", tok[2]);
		uint64_t acc = strtoull(tok[3], 0, 10);
		uint64_t fl = flagword(tok[4]);
		cpy(d1.lo, sizeof d1.lo, tok[5]);
		cpy(d1.hi, sizeof d1.hi, tok[6]);
		unhex(tok[7], d1.dir, sizeof d1.dir);
		unhex(tok[8], p1, sizeof p1);
		unhex(tok[9], pf1, sizeof pf1);
		cpy(d2.lo, sizeof d2.lo, tok[10]);
		cpy(d2.hi, sizeof d2.hi, tok[11]);
		unhex(tok[12], d2.dir, sizeof d2.dir);
		unhex(tok[13], p2, sizeof p2);
		unhex(tok[14], pf2, sizeof pf2);
		unhex(tok[18], swp, sizeof swp);
		unhex(tok[19], swq, sizeof swq);
		if (swp[0] && syscall(SYS_renameat2, (long)AT_FDCWD, swp, (long)AT_FDCWD, swq, (long)RENAME_EXCHANGE))
			die("exchange", swp);
		if (chdir(cwd)) die("chdir", cwd);
		dprep(&d1);
		dprep(&d2);
		int afd1 = -1, afd2 = -1;
		if (pf1[0]) {
			afd1 = open(pf1, O_RDONLY | O_DIRECTORY | O_CLOEXEC);
			cpy(tmpn, sizeof tmpn, p1);
			snprintf(p1, sizeof p1, "/proc/self/fd/%d/%s", afd1, tmpn);
		}
		if (pf2[0]) {
			afd2 = open(pf2, O_RDONLY | O_DIRECTORY | O_CLOEXEC);
			cpy(tmpn, sizeof tmpn, p2);
			snprintf(p2, sizeof p2, "/proc/self/fd/%d/%s", afd2, tmpn);
		}

		char *q1 = place(reg1, p1, tok[16]);
		char *q2 = place(reg2, p2, tok[17]);

		if (do_truth) {
			int two = strstr(tok[15], "p2") != 0;
			truth(d1.reg, q1, 0, t1f);
			truth(d1.reg, q1, 1, t1n);
			if (two) {
				truth(d2.reg, q2, 0, t2f);
				truth(d2.reg, q2, 1, t2n);
			} else {
				strcpy(t2f, "-");
				strcpy(t2n, "-");
			}
			printf("%s %s %s %s %s\n", tok[0], t1f, t1n, t2f, t2n);
			goto done;
		}

		uint64_t a[6];
		for (i = 0; i < 6; i++) a[i] = 0x5a5a5a5a5a5a5a50ull + (uint64_t)i;
		how.flags = acc | fl;
		how.mode = (fl & O_CREAT) ? 0644 : 0;
		how.resolve = 0;
		i = 0;
		char args[256];
		cpy(args, sizeof args, tok[15]);
		for (t = strtok_r(args, ",", &sv); t && i < 6; t = strtok_r(0, ",", &sv), i++) {
			if (!strcmp(t, "d1")) a[i] = d1.reg;
			else if (!strcmp(t, "d2")) a[i] = d2.reg;
			else if (!strcmp(t, "p1")) a[i] = (uint64_t)(uintptr_t)q1;
			else if (!strcmp(t, "p2")) a[i] = (uint64_t)(uintptr_t)q2;
			else if (!strcmp(t, "fl")) a[i] = acc | fl;
			else if (!strcmp(t, "at")) a[i] = fl;
			else if (!strcmp(t, "how")) a[i] = (uint64_t)(uintptr_t)&how;
			else if (!strcmp(t, "howsz")) a[i] = sizeof how;
			else if (!strcmp(t, "mode")) a[i] = 0644;
			else if (!strcmp(t, "amode")) a[i] = R_OK;
			else if (!strcmp(t, "mask")) a[i] = 0x7ff;
			else if (!strcmp(t, "buf")) a[i] = (uint64_t)(uintptr_t)buf;
			else if (!strcmp(t, "bufsz")) a[i] = 256;
			else if (!strcmp(t, "zero")) a[i] = 0;
			else if (!strcmp(t, "str")) a[i] = (uint64_t)(uintptr_t)strarg;
			else if (!strcmp(t, "argv")) a[i] = (uint64_t)(uintptr_t)argvv;
			else die("unknown arg kind", t);
		}

		syscall(SYS_getppid);                                   /* marker: scripted call begins */
		long ret = syscall(nr, a[0], a[1], a[2], a[3], a[4], a[5]);
		int err = errno;
		syscall(SYS_getsid, 0L);                                /* marker: scripted call ended  */

		printf("%s %ld:%s\n", tok[0], ret, ret < 0 ? ename(err) : "-");
	done:
		if (d1.fd >= 0) close(d1.fd);
		if (d2.fd >= 0) close(d2.fd);
		if (afd1 >= 0) close(afd1);
		if (afd2 >= 0) close(afd2);
		if (swp[0] && syscall(SYS_renameat2, (long)AT_FDCWD, swp, (long)AT_FDCWD, swq, (long)RENAME_EXCHANGE))
			die("exchange back", swp);
	}
	fflush(stdout);
	return 0;
}
