#!/bin/bash
# usage: selftest/C19/run.sh [patch ...]   -- applies each mutant to a scratch worktree of the
# repaired tree (VERIF_BASE, default branch verif-sockcg or /repo HEAD) and runs the quick check.
cd "$(dirname "$0")/../.." || exit 2
PROP=$(basename "$(dirname "$0")")
BASE=${VERIF_BASE:-$(git -C /repo rev-parse --verify -q verif-sockcg || git -C /repo rev-parse HEAD)}
[ $# -eq 0 ] && set -- selftest/$PROP/*.patch
for p in "$@"; do
  wt=/var/tmp/mut-$PROP-$$
  git -C /repo worktree add -q --detach "$wt" "$BASE" || exit 2
  if ! git -C "$wt" apply "$(realpath "$p")"; then echo "$(basename "$p"): DOES NOT APPLY"; git -C /repo worktree remove --force "$wt"; continue; fi
  out=$(VERIF_REPO=$wt bin/check $PROP ${TIER:-quick} 2>&1); rc=$?
  echo "$(basename "$p"): exit $rc  $(echo "$out" | grep -A1 '^VIOLATION' | grep 'key=' | cut -c1-160 | head -3 | tr '\n' '|')"
  [ $rc -eq 2 ] && echo "$out" | tail -5
  git -C /repo worktree remove --force "$wt"
done
