#!/bin/bash
# Apply every selftest/C01/*.patch to a scratch worktree of the branch given as $1 (default
# verif-seccomp) and run `bin/check C01 <tier>`; prints the exit code and the verdict keys.
# usage: selftest/C01/run_mutants.sh [branch] [tier] [patch-glob]
branch=${1:-verif-seccomp}; tier=${2:-quick}; glob=${3:-m*.patch}
here=$(cd "$(dirname "$0")" && pwd)
for p in $here/$glob; do
  n=$(basename $p .patch)
  wt=/var/tmp/wt-seccomp-mut-$n
  git -C /repo worktree remove --force $wt >/dev/null 2>&1
  git -C /repo worktree add --detach $wt $branch >/dev/null 2>&1 || { echo "$n: worktree failed"; continue; }
  if git -C $wt apply $p; then
    out=$(cd /verif && VERIF_NOEVIDENCE=1 VERIF_REPO=$wt VERIF_SEED=${VERIF_SEED:-0} bin/check C01 $tier 2>&1); rc=$?
    echo "== $n exit=$rc"
    echo "$out" | grep -E "^  key=|INCONCLUSIVE|KNOWN" | cut -c1-200 | head -8
  else
    echo "$n: patch does not apply"
  fi
  git -C /repo worktree remove --force $wt >/dev/null 2>&1
done
