----------------------------- MODULE ResetDefs -----------------------------
(* C13, first half: vocabulary shared by the Reset state machine, its case    *)
(* generator and its trace validator.  Pure operators only.                   *)
EXTENDS Integers, Sequences, FiniteSets, SequencesExt

(* The catalogue of things a hostile program plants in a writable mount, and  *)
(* how many top-level directory entries each adds to the mount it is planted   *)
(* in (this is what a later listing of the mount sees before any Reset).       *)
Catalogue == { "deep",      \* path far beyond PATH_MAX (25 x 200-byte components)
               "deepshort", \* 1500 nested one-byte directories
               "abyss",     \* 6000 nested one-byte directories (deeper than a 4096 descriptor limit)
               "mode000",   \* mode-000 directories with content
               "dot",       \* hidden names: .hidden  ..x  .../
               "symout",    \* symlinks leaving the mount (/proc, ../, a loop)
               "fifo", "sock",
               "hardlink",  \* hard link pair + a third link in a sub directory
               "many",      \* 5000 top-level entries
               "owned",     \* private 0500 tree of the program's uid, sticky dir, setuid file
               "openunl",   \* unlinked-but-open file + a file held open by a detached child
               "nested",    \* six nested directories with files
               "oddname" }  \* 255-byte name of odd bytes, newline in a name, leading dash

TopCount(k) ==
  CASE k = "many" -> 5000
    [] k \in {"dot", "symout", "hardlink", "oddname"} -> 3
    [] OTHER -> 1

(* Depth of the directory chain a kind creates.  os.RemoveAll keeps one descriptor per    *)
(* level open, so a chain deeper than RLIMIT_NOFILE of the container init cannot be       *)
(* removed (implementation layer; the property layer still demands that it is gone).      *)
ChainDepth(k) == CASE k = "abyss" -> 6000 [] k = "deepshort" -> 1500 [] k = "deep" -> 26 [] OTHER -> 8
Unremovable(k, nofile) == ChainDepth(k) + 64 >= nofile

(* A container configuration: tmpfs mount targets in configuration order,     *)
(* parent[i] = index of the tmpfs mount that contains target i (0: it lies in  *)
(* the read-only root), base[i] = last path component of target i.             *)
Configs ==
  { [name |-> "flat",   cred |-> FALSE, mounts |-> <<"w", "tmp", "data/scratch">>,
     parent |-> <<0, 0, 0>>, base |-> <<"w", "tmp", "scratch">>],
    [name |-> "cred",   cred |-> TRUE,  mounts |-> <<"w", "tmp", "data/scratch">>,
     parent |-> <<0, 0, 0>>, base |-> <<"w", "tmp", "scratch">>],
    [name |-> "nested", cred |-> FALSE, mounts |-> <<"w", "w/inner", "tmp", "var/x/y">>,
     parent |-> <<0, 1, 0, 0>>, base |-> <<"w", "inner", "tmp", "y">>],
    [name |-> "nestedcred", cred |-> TRUE, mounts |-> <<"tmp", "w", "w/inner", "w/inner/deeper">>,
     parent |-> <<0, 0, 2, 3>>, base |-> <<"tmp", "w", "inner", "deeper">>],
    \* mount targets that are string prefixes of each other WITHOUT being nested (siblings), shorter
    \* name first, longer name first, and mixed with really nested ones
    [name |-> "sibling", cred |-> FALSE, mounts |-> <<"w", "work", "w2", "tmp", "tmpx">>,
     parent |-> <<0, 0, 0, 0, 0>>, base |-> <<"w", "work", "w2", "tmp", "tmpx">>],
    [name |-> "siblingrev", cred |-> TRUE, mounts |-> <<"work", "w", "tmpx", "tmp">>,
     parent |-> <<0, 0, 0, 0>>, base |-> <<"work", "w", "tmpx", "tmp">>],
    [name |-> "siblingnested", cred |-> FALSE, mounts |-> <<"w", "w/inner", "winner", "w/innermost">>,
     parent |-> <<0, 1, 0, 1>>, base |-> <<"w", "inner", "winner", "innermost">>] }

Children(parent, i) == { j \in DOMAIN parent : parent[j] = i }
RECURSIVE BelowP(_, _)
BelowP(parent, i) == LET c == Children(parent, i) IN c \cup UNION { BelowP(parent, j) : j \in c }

(* a program run number r plants the (kind, mount) pairs P *)
PlantP(c, P, r) == [m \in DOMAIN c |-> c[m] \cup { <<pk[1], r>> : pk \in { q \in P : q[2] = m } }]

(* one iteration of the loop in handleReset = removeContents(mount i): every entry of the   *)
(* mount is removed recursively, which also empties tmpfs mounts below it; the nested mount *)
(* point itself cannot be removed (EBUSY) and makes the iteration report an error.          *)
MountStepP(parent, c, i) == [m \in DOMAIN c |-> IF m = i \/ m \in BelowP(parent, i) THEN {} ELSE c[m]]
MountErrP(parent, i) == Children(parent, i) # {}

(* the whole Reset call; stop = TRUE is the loop before the fix (return at the first error) *)
ResetWholeP(parent, stop, c) ==
  LET step(acc, i) == IF acc.stop THEN acc
                      ELSE [c |-> MountStepP(parent, acc.c, i), err |-> acc.err \/ MountErrP(parent, i),
                            stop |-> MountErrP(parent, i) /\ stop]
  IN FoldLeft(step, [c |-> c, err |-> FALSE, stop |-> FALSE], [i \in DOMAIN c |-> i])
=============================================================================
