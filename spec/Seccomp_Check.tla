--------------------------- MODULE Seccomp_Check ---------------------------
(***************************************************************************)
(* C01 decision run.  Input: policies.ndjson, one line per policy written  *)
(* by `seccomp build|config|kernel`:                                       *)
(*   [id, kind, allow, trace : numbers, def : word, err, len,              *)
(*    prog : <<[c, jt, jf, k]>> read back through SockFprog, extra, obs]   *)
(* One TLC state per policy (so that workers share the load); the step     *)
(* from "todo" to "done" evaluates                                         *)
(*    \A arch \in ArchReps, nr \in NrReps : Ok(P, arch, nr, Run(prog,...)) *)
(* and writes a result line res<i>.ndjson.  The invariant Decided makes    *)
(* TLC itself fail if a result could not be produced.                      *)
(***************************************************************************)
EXTENDS Seccomp_Judge     \* brings Seccomp, TLC, Json and the kernel / cleanTrace table judges

Pol == ndJsonDeserialize("policies.ndjson")
N   == Len(Pol)

FirstK(S, k) == LET s == SetToSeq(S) IN SubSeq(s, 1, IF Len(s) < k THEN Len(s) ELSE k)

Result(i) ==
  LET l     == Pol[i]
      P     == Policy(l)
      prog  == l.prog
  IN
  IF l.err # "" THEN
     [i |-> i, id |-> l.id, status |-> "builderr", evals |-> 0, nbad |-> 0, ndrift |-> 0,
      bad |-> <<>>, drift |-> <<>>, narch |-> 0, nnr |-> 0]
  ELSE IF Struct(prog) # "ok" THEN
     \* not loadable: the kernel refuses it (a verdict); loadable but outside my subset: undecided
     [i |-> i, id |-> l.id, status |-> IF ~Loadable(prog) THEN "unloadable" ELSE Struct(prog),
      evals |-> 0, nbad |-> 0, ndrift |-> 0,
      bad |-> <<>>, drift |-> <<>>, narch |-> 0, nnr |-> 0]
  ELSE
  LET blocks == Blocks(prog)
      reach == Reach(prog)
      AR    == ArchReps(prog, reach)
      NR    == NrReps(P, prog, reach, ToSet(l.extra))
      T     == { <<a, n, RunI(prog, blocks, a, n)>> : a \in AR, n \in NR }
      BadT  == { t \in T : ~Ok(P, t[1], t[2], t[3]) }
      DriftT == { t \in T \ BadT : t[3] # ImplRet(P, t[1], t[2]) }
      Row(t) == [arch |-> t[1], nr |-> t[2], ret |-> t[3], got |-> Class(t[3]),
                 zone |-> Zone(P, t[1], t[2]), accept |-> SetToSeq(Accept(P, t[1], t[2])),
                 impl |-> ImplRet(P, t[1], t[2])]
  IN [i |-> i, id |-> l.id,
      status |-> IF ~Loadable(prog) THEN "unloadable" ELSE "ok",
      evals |-> Cardinality(AR) * Cardinality(NR),
      narch |-> Cardinality(AR), nnr |-> Cardinality(NR),
      nbad |-> Cardinality(BadT), ndrift |-> Cardinality(DriftT),
      bad |-> [j \in DOMAIN FirstK(BadT, 4) |-> Row(FirstK(BadT, 4)[j])],
      drift |-> [j \in DOMAIN FirstK(DriftT, 2) |-> Row(FirstK(DriftT, 2)[j])]]

VARIABLES i, done
Init == i \in 1..N /\ done = FALSE
Next == /\ ~done
        /\ done' = ndJsonSerialize("res" \o ToString(i) \o ".ndjson", <<Result(i)>>)
        /\ i' = i
Decided == done \in BOOLEAN
=============================================================================
