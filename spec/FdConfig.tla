------------------------------ MODULE FdConfig ------------------------------
(* C06: the configuration space of a launch as far as descriptors go (no      *)
(* variables): the caller's list, where Runner.ExecFile sits, where the two    *)
(* ends of the synchronisation socketpair land, vfork sharing or not.          *)
(* Used by FdShuffle (initial states of the model check) and FdShuffle_Gen     *)
(* (cases for the real code).                                                  *)
EXTENDS FdTable

CONSTANTS Vals,      \* numbers a caller may list
          WithClose, \* lists may also contain -1 = "close this slot" (cfg files cannot spell -1)
          MaxLen,    \* max list length
          PipePos,   \* numbers where the child's end of the sync socketpair lands
          ExecPos    \* numbers of Runner.ExecFile (0 = none)

ListVals == Vals \cup (IF WithClose THEN {-1} ELSE {})
Lists == UNION { [1..n -> ListVals] : n \in 0..MaxLen }
Used(f, e) == { x \in Range(f) : x >= 0 } \cup (IF e > 0 THEN {e} ELSE {})
\* the parent's end p[0] is the lowest free number, the child's end p[1] the next one: the
\* caller's table has exactly one hole below p[1]; the hole is the lowest ("lo") or the highest
\* ("hi") number below p[1] that the configuration does not use
HasHole(U, p) == \E a \in 0..(p - 1) : a \notin U
Hole(U, p, mode) ==
  IF mode = "lo" THEN CHOOSE a \in 0..(p - 1) : a \notin U /\ \A b \in 0..(a - 1) : b \in U
                 ELSE CHOOSE a \in 0..(p - 1) : a \notin U /\ \A b \in (a + 1)..(p - 1) : b \in U
\* (built as filter + map: TLC's UNION over many small sets is quadratic)
Quads == { t \in Lists \X ExecPos \X PipePos \X {"lo", "hi"} :
             LET U == Used(t[1], t[2]) IN t[3] \notin U /\ HasHole(U, t[3]) }
ConfigSet == { [files |-> t[1], exec |-> t[2], par |-> Hole(Used(t[1], t[2]), t[3], t[4]), pipe |-> t[3], vfork |-> v] :
                 t \in Quads, v \in BOOLEAN }
=============================================================================
