\* the configuration constants are not used by trace validation (the configuration comes
\* from the trace); MaxFd covers the helper's own report descriptor (60)
CONSTANTS Vals = {0}
          WithClose = TRUE
          MaxLen = 0
          PipePos = {1}
          ExecPos = {0}
          MaxFd = 63
          FixSkipExec = TRUE
          FixLocalExec = TRUE
SPECIFICATION TSpec
CONSTRAINT Mark
POSTCONDITION Report
CHECK_DEADLOCK FALSE
