----------------------------- MODULE Cgroup_MC -----------------------------
(* Sequential histories of the cgroup API on a small tree (C20).              *)
(*  MC : every history of at most MaxOps calls; each call is executed with the *)
(*       implementation-layer operator and compared with the property layer    *)
(*       (ok), and the state invariants are checked.                           *)
(*  Gen: the same state machine in simulation mode prints histories (hist) of  *)
(*       exactly MaxOps calls, which the driver replays on the real cgroupfs.  *)
EXTENDS Cgroup, TLC, Json, SequencesExt
CONSTANTS CtlSets, Names, RNames, PidSet, MaxOps, MaxDepth, MaxHandles, WithSet, Rich, Emit
VARIABLES S, ok, hist
vars == <<S, ok, hist>>

Op(o, h, name, names, path, pid, kind, val) ==
  [op |-> o, h |-> h, name |-> name, names |-> names, path |-> path, pid |-> pid, kind |-> kind, val |-> val]

S0(cs, pre) == [ctls |-> cs, dirs |-> [c \in cs |-> IF c \in pre THEN {<<>>} ELSE {}],
                mem |-> [c \in cs |-> [k \in PidSet |-> Outside]], hs |-> <<>>, lim |-> {}]
\* the first call of every history creates the base group (v1 with a set of controllers, or cgroup2:
\* {"u"}); before it an administrator may have made the base directory in some of the hierarchies
Init == \E cs \in CtlSets : \E pre \in (SUBSET cs) \ {cs} :
        LET r == ImplNewAt(S0(cs, pre), <<>>) IN
        /\ S = r.S /\ ok = AdmNewAt(S0(cs, pre), <<>>, r)
        /\ hist = (IF pre = {} THEN <<>> ELSE <<Op("mk", 0, "", SetToSeq(pre), <<>>, "", "", 0)>>)
                  \o <<Op("top", 0, "", SetToSeq(cs), <<>>, "", "", 0)>>

KindOK(k) == (k = "mem" /\ "memory" \in S.ctls) \/ (k \in {"cpu", "pids"} /\ k \in S.ctls) \/ (k = "cpus" /\ "cpuset" \in S.ctls)
\* <<kind, value as written, number handed to the driver>> (cpus: 1 = "0", 2 = "0-1", 3 = "2-3")
SetVals == IF Rich THEN { <<"mem", "67108864", 67108864>>, <<"mem", "8388608", 8388608>>, <<"cpu", "50000", 50000>>,
                          <<"cpu", "100000", 100000>>, <<"pids", "7", 7>>, <<"cpus", "0", 1>>, <<"cpus", "0-1", 2>>, <<"cpus", "2-3", 3>>}
           ELSE { <<"mem", "8388608", 8388608>>, <<"cpu", "50000", 50000>>, <<"cpus", "0-1", 2>> }
Usable(h) == S.hs[h].live /\ Exists(S, S.hs[h].path)
Room == Len(S.hs) < MaxHandles
\* adm: the implementation's result is admissible at the property layer
Step(impl, adm, o) ==
  /\ S' = impl.S
  /\ ok' = (ok /\ adm)
  /\ hist' = Append(hist, o)

Next ==
  /\ Len(hist) < MaxOps
  /\ \/ \E h \in DOMAIN S.hs, n \in Names :
          /\ Usable(h) /\ Room /\ Len(S.hs[h].path) < MaxDepth
          /\ \/ Step(ImplNew(S, h, n), AdmNewAt(S, Child(S.hs[h].path, n), ImplNew(S, h, n)), Op("new", h, n, <<>>, <<>>, "", "", 0))
             \/ Step(ImplNest(S, h, n), AdmNest(S, h, n, ImplNest(S, h, n)), Op("nest", h, n, <<>>, <<>>, "", "", 0))
     \* an administrator's mkdir of a child in some (not all) hierarchies
     \/ \E h \in DOMAIN S.hs, n \in Names, cs \in (SUBSET S.ctls) \ {{}, S.ctls} :
          /\ Usable(h) /\ Len(S.hs[h].path) < MaxDepth
          /\ Fresh(S, Child(S.hs[h].path, n))
          /\ LET r == SpecMk(S, Child(S.hs[h].path, n), cs) IN
             Step(r, TRUE, Op("mk", 0, "", SetToSeq(cs), Child(S.hs[h].path, n), "", "", 0))
     \/ \E h \in DOMAIN S.hs, n \in Names, r \in RNames :
          /\ Usable(h) /\ Room /\ Len(S.hs[h].path) < MaxDepth
          /\ Fresh(S, Child(S.hs[h].path, r)) /\ Uniform(S, Child(S.hs[h].path, n))
          /\ Step(ImplRandom(S, h, <<n, r>>), ImplRandom(S, h, <<n, r>>) = SpecRandom(S, h, <<n, r>>), Op("random", h, "", <<n, r>>, <<>>, "", "", 0))
     \/ \E h \in DOMAIN S.hs, n \in Names :
          /\ Usable(h) /\ Room /\ Len(S.hs[h].path) < MaxDepth
          /\ LET p == Child(S.hs[h].path, n) IN
             Step(ImplOpen(S, p), ImplOpen(S, p) = SpecOpen(S, p), Op("open", 0, "", <<>>, p, "", "", 0))
     \/ \E h \in DOMAIN S.hs, k \in PidSet :
          /\ Usable(h)
          /\ Step(ImplAdd(S, h, k), ImplAdd(S, h, k) = SpecAdd(S, h, k), Op("add", h, "", <<>>, <<>>, k, "", 0))
     \/ \E h \in DOMAIN S.hs :
          /\ S.hs[h].live
          /\ Step(ImplDestroy(S, h), AdmDestroy(S, h, ImplDestroy(S, h)), Op("destroy", h, "", <<>>, <<>>, "", "", 0))
     \* Set*: the value is a decimal string, or (cpus) a cpu list; the same limit may be set again
     \/ /\ WithSet
        /\ \E h \in DOMAIN S.hs, kv \in SetVals :
             /\ Usable(h) /\ KindOK(kv[1])
             /\ Step(ImplSet(S, h, kv[1], kv[2]), ImplSet(S, h, kv[1], kv[2]) = SpecSet(S, h, kv[1], kv[2]),
                     Op("set", h, "", <<>>, <<>>, "", kv[1], kv[3]))
     \* another top-level New of the (now existing) base prefix
     \/ /\ Room /\ Exists(S, <<>>)
        /\ Step(ImplNewAt(S, <<>>), AdmNewAt(S, <<>>, ImplNewAt(S, <<>>)), Op("top", 0, "", <<>>, <<>>, "", "", 0))
\* generator: a history of full length is printed once
Done == /\ Emit /\ Len(hist) >= MaxOps
        /\ PrintT(<<"HIST", ToJson(hist)>>)
        /\ UNCHANGED vars
Spec == Init /\ [][Next \/ Done]_vars

ImplRefines == ok
OneOwner == NoDoubleOwner(S)
Housed == MembersHoused(S) /\ LimitsHoused(S)
\* a directory is only ever removed by Destroy through a handle that created it (checked on every step)
OnlyOwnersRemove ==
  [][\A c \in S.ctls : \A p \in S.dirs[c] \ S'.dirs[c] :
        \E h \in DOMAIN S.hs : S.hs[h].path = p /\ c \in S.hs[h].own /\ S.hs[h].live]_vars
View == <<S, ok, Len(hist)>>
=============================================================================
