----------------------------- MODULE Cgroup_MC -----------------------------
(* Sequential histories of the cgroup API on a small tree (C20).              *)
(*  MC : every history of at most MaxOps calls; each call is executed with the *)
(*       implementation-layer operator and compared with the property layer    *)
(*       (ok), and the state invariants are checked.                           *)
(*  Gen: the same state machine in simulation mode prints histories (hist) of  *)
(*       exactly MaxOps calls, which the driver replays on the real cgroupfs.  *)
EXTENDS Cgroup, TLC, Json, SequencesExt
CONSTANTS CtlSets, Names, RNames, PidSet, MaxOps, MaxDepth, MaxHandles, WithSet, Emit
VARIABLES S, ok, hist
vars == <<S, ok, hist>>

Op(o, h, name, names, path, pid, kind, val) ==
  [op |-> o, h |-> h, name |-> name, names |-> names, path |-> path, pid |-> pid, kind |-> kind, val |-> val]

S0(cs) == [ctls |-> cs, dirs |-> [c \in cs |-> {}], mem |-> [c \in cs |-> [k \in PidSet |-> Outside]], hs |-> <<>>]
\* the first call of every history creates the base group (v1 with a set of controllers, or cgroup2: {"u"})
Init == \E cs \in CtlSets :
        LET r == ImplNewAt(S0(cs), <<>>) IN
        /\ S = r.S /\ ok = (r = SpecNewAt(S0(cs), <<>>))
        /\ hist = <<Op("top", 0, "", SetToSeq(cs), <<>>, "", "", 0)>>

KindOK(k) == (k = "mem" /\ "memory" \in S.ctls) \/ (k \in {"cpu", "pids"} /\ k \in S.ctls)
Usable(h) == S.hs[h].live /\ Exists(S, S.hs[h].path)
Room == Len(S.hs) < MaxHandles
Step(impl, spec, o) ==
  /\ S' = impl.S
  /\ ok' = (ok /\ impl = spec)
  /\ hist' = Append(hist, o)

Next ==
  /\ Len(hist) < MaxOps
  /\ \/ \E h \in DOMAIN S.hs, n \in Names :
          /\ Usable(h) /\ Room /\ Len(S.hs[h].path) < MaxDepth
          /\ \/ Step(ImplNew(S, h, n), SpecNew(S, h, n), Op("new", h, n, <<>>, <<>>, "", "", 0))
             \/ Step(ImplNest(S, h, n), SpecNest(S, h, n), Op("nest", h, n, <<>>, <<>>, "", "", 0))
     \/ \E h \in DOMAIN S.hs, n \in Names, r \in RNames :
          /\ Usable(h) /\ Room /\ Len(S.hs[h].path) < MaxDepth
          /\ Fresh(S, Child(S.hs[h].path, r))
          /\ Step(ImplRandom(S, h, <<n, r>>), SpecRandom(S, h, <<n, r>>), Op("random", h, "", <<n, r>>, <<>>, "", "", 0))
     \/ \E h \in DOMAIN S.hs, n \in Names :
          /\ Usable(h) /\ Room /\ Len(S.hs[h].path) < MaxDepth
          /\ LET p == Child(S.hs[h].path, n) IN
             Step(ImplOpen(S, p), SpecOpen(S, p), Op("open", 0, "", <<>>, p, "", "", 0))
     \/ \E h \in DOMAIN S.hs, k \in PidSet :
          /\ Usable(h)
          /\ Step(ImplAdd(S, h, k), SpecAdd(S, h, k), Op("add", h, "", <<>>, <<>>, k, "", 0))
     \/ \E h \in DOMAIN S.hs :
          /\ S.hs[h].live
          /\ Step(ImplDestroy(S, h), SpecDestroy(S, h), Op("destroy", h, "", <<>>, <<>>, "", "", 0))
     \/ /\ WithSet
        /\ \E h \in DOMAIN S.hs, kv \in {<<"mem", 67108864>>, <<"mem", 8388608>>, <<"cpu", 50000>>, <<"cpu", 100000>>, <<"pids", 7>>} :
             /\ Usable(h) /\ KindOK(kv[1])
             /\ UNCHANGED <<S, ok>>
             /\ hist' = Append(hist, Op("set", h, "", <<>>, <<>>, "", kv[1], kv[2]))
\* generator: a history of full length is printed once
Done == /\ Emit /\ Len(hist) = MaxOps
        /\ PrintT(<<"HIST", ToJson(hist)>>)
        /\ UNCHANGED vars
Spec == Init /\ [][Next \/ Done]_vars

ImplRefines == ok
OneOwner == NoDoubleOwner(S)
Housed == MembersHoused(S)
\* a directory is only ever removed by Destroy through a handle that created it (checked on every step)
OnlyOwnersRemove ==
  [][\A c \in S.ctls : \A p \in S.dirs[c] \ S'.dirs[c] :
        \E h \in DOMAIN S.hs : S.hs[h].path = p /\ c \in S.hs[h].own /\ S.hs[h].live /\ ~S'.hs[h].live]_vars
View == <<S, ok, Len(hist)>>
=============================================================================
