--------------------------- MODULE RunCancel_Judge ---------------------------
(* C11: judges observations of real cancelled / destroyed runs.               *)
(* obs: [runner, prog, at, nfiles, destroy, frozen, r ("verdict"|"err"|"hang"),       *)
(*       status, code, err, elapsed (ms), alive (program processes left),     *)
(*       init_alive, follow]                                                  *)
EXTENDS Integers, Sequences, FiniteSets, TLC, Json, SequencesExt
Obs == ndJsonDeserialize("obs.ndjson")
Bound == 8000                      \* "bounded time": typical is < 100 ms after the cancellation
After(o) == IF o.at < 0 THEN 0 ELSE o.at

TLE(o)     == o.r = "verdict" /\ o.status = 2
Genuine(o) == o.prog = "quick" /\ o.r = "verdict" /\ o.status = 7 /\ o.code = 7     \* (a soft ban lets the program go on)
\* cancellation: returns in bounded time, TLE or the genuine verdict, never a runner error or a policy
\* violation, the program is gone
JudgeCancel(o) ==
  /\ o.r # "hang" /\ o.elapsed <= After(o) + Bound
  /\ TLE(o) \/ Genuine(o)
  /\ o.alive = 0
  \* the cancellation of the NEXT run on the same environment is not lost either
  /\ o.follow \in {"", "verdict:2"}
\* Destroy in flight: the call returns (an error, or the verdict if the program had ended), and
\* everything inside dies
JudgeDestroy(o) ==
  /\ o.r # "hang" /\ o.elapsed <= After(o) + Bound
  /\ (o.frozen => o.r = "err")          \* the call cannot have completed: it must report the destruction
  /\ \/ o.r = "err" /\ o.err # ""
     \/ o.prog = "quick" /\ Genuine(o)
     \/ o.rep >= 300 /\ TLE(o)                 \* cancelled first: the kill may have been answered before the loss
     \/ o.prog \in {"open", "ping", "reset", "delete"} /\ o.r = "ok"         \* the file operation had already completed
  /\ o.alive = 0 /\ ~o.init_alive
Judge(o) == IF o.destroy THEN JudgeDestroy(o) ELSE JudgeCancel(o)
Bad == { i \in DOMAIN Obs : ~Judge(Obs[i]) }
ASSUME ndJsonSerialize("bad.ndjson", SetToSeq({ [i |-> i] : i \in Bad }))
ASSUME PrintT(<<"judged", Len(Obs), Cardinality(Bad)>>)
VARIABLE x
Init == x = 0
Next == UNCHANGED x
=============================================================================
