CONSTANTS MaxLen = 4
  AdvanceFdIndex = TRUE
  CompactErrors = FALSE
SPECIFICATION FSpec
INVARIANTS Aligned NoneLost
CHECK_DEADLOCK FALSE
