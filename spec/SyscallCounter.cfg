CONSTANTS Names = {"n1","n2"}
  MaxBudget = 3
SPECIFICATION CSpec
INVARIANTS NeverOverBudget ImplRefines
CONSTRAINT CBound
CHECK_DEADLOCK FALSE
