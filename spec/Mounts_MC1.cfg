CONSTANTS
  Menu <- Kinds
  MaxLen = 1
  ContOpts <- ContOptsAll
  Envs <- EnvsTwo
SPECIFICATION Spec
INVARIANTS
  NoFailure
  FoldAgrees
  HostOnlyDuringSetup
  NoPropagation
  RootIsReadOnly
  OldRootUnreachable
  OnlyConfiguredNames
  DeclaredRoEndsRo
  WritableIffDecl
  MaskedRevealNothing
  OnlyDeclaredWritable
ALIAS Alias
CHECK_DEADLOCK FALSE
