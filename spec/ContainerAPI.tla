---------------------------- MODULE ContainerAPI ----------------------------
(***************************************************************************)
(* Property layer of C10 (and the container part of C11): what a user of   *)
(* container.Environment may observe.  Calls are sequential (the           *)
(* environment holds a mutex); each call returns exactly one answer, the   *)
(* answer is the one this request must get, request/program caused         *)
(* failures leave the environment usable, after transport loss every call  *)
(* fails promptly.                                                          *)
(* An op is [k, v, sa, cb, cancel, code, loss]; an answer is                      *)
(*   [r \in {"ok","err","verdict","hang"}, status, code, err, ms, detail].  *)
(* Status numbers are runner.Status: 1 Normal, 2 TLE, 6 Signalled,          *)
(* 7 Nonzero Exit, 8 Runner Error.                                          *)
(***************************************************************************)
EXTENDS Naturals, Sequences

PromptMs == 10000      \* "promptly": generous wall-clock bound (typical: < 200 ms)

ExecFails == {"noent", "noentabs", "noexec", "enoexec", "dir", "emptyargs", "hugearg"}   \* request/program caused
ExecRuns  == {"run", "runslow", "sleep", "term", "fdexec", "envrun", "cgexec"}

Genuine(op, a) ==
  CASE op.v \in {"run", "runslow", "fdexec", "envrun", "cgexec"} ->      \* (the program exits 99/98 if it sees / misses VQMARK wrongly)
         /\ a.r = "verdict" /\ a.code = op.code
         /\ a.status = (IF op.code = 0 THEN 1 ELSE 7)
    [] op.v = "term"  -> a.r = "verdict" /\ a.status = 6 /\ a.code = 15
    [] op.v = "sleep" -> FALSE              \* never ends on its own within the bound
    [] OTHER -> FALSE
TLE(a)    == a.r = "verdict" /\ a.status = 2
CallErr(a) == a.r = "err" /\ a.err # ""

ExecAllowed(op, a) ==
  IF op.v \in ExecFails \/ op.cb = "fail" THEN CallErr(a)
  ELSE IF op.cancel = "none" THEN Genuine(op, a)
  ELSE Genuine(op, a) \/ TLE(a)             \* cancelled: the genuine verdict if it had ended, else TLE

Allowed(op, a) ==
  /\ a.ms <= PromptMs \/ (op.k = "exec" /\ op.v = "sleep" /\ op.cancel = "none")
  /\ CASE op.k = "ping"  -> a.r = "ok"
       [] op.k = "reset" -> IF op.v = "busy" THEN CallErr(a) ELSE a.r = "ok"    \* busy: mounts nested in the tmpfs mounts cannot be removed
       [] op.k = "open"  -> CASE op.v = "ok"    -> a.r = "ok" /\ a.detail = "."
                              [] op.v = "bad"   -> a.r = "ok" /\ a.detail = "E"
                              [] op.v = "mixed" -> a.r = "ok" /\ a.detail = ".E."
                              [] op.v = "max"   -> a.r = "ok" /\ a.detail = ".x253"      \* 253 files, every one opened
                              [] op.v = "longbatch" -> CallErr(a) \/ (a.r = "ok" /\ a.detail # "")   \* per-item errors or one error
                              [] OTHER          -> CallErr(a)          \* empty batch
       [] op.k = "delete" -> IF op.v = "ok" THEN a.r = "ok" ELSE CallErr(a)      \* bad, huge, emptypath
       [] op.k = "symlink" -> CASE op.v = "ok"  -> a.r = "ok" /\ a.detail = "."
                                [] op.v = "bad" -> a.r = "ok" /\ a.detail = "E"
                                [] OTHER        -> CallErr(a)
       [] op.k = "exec" -> ExecAllowed(op, a)
       [] OTHER -> FALSE

\* after loss of the transport every call fails, promptly
AllowedLost(op, a) == a.r = "err" /\ a.err # "" /\ a.ms <= PromptMs

VARIABLE env      \* "usable" | "lost"
AInit == env = "usable"
\* one API call with its answer
Call(op, a) ==
  IF op.k \in {"destroy", "killinit"} THEN env' = "lost"
  ELSE IF op.k = "ping" /\ op.v = "stall" THEN
       \* the container is stalled for longer than Ping's bound (3 s): the call must come back in time; after a
       \* timed-out Ping the environment is consistently one of the two -- lost (what the code does: the bound is a
       \* socket deadline) or still fully usable; TLC explores both, the rest of the history has to fit one of them
       /\ a.ms <= PromptMs
       /\ IF env = "usable" THEN \/ (a.r = "ok" /\ UNCHANGED env)
                                \/ (a.r = "err" /\ a.err # "" /\ env' \in {"usable", "lost"})
                         ELSE (AllowedLost(op, a) /\ UNCHANGED env)
  ELSE IF op.loss THEN      \* the transport was lost while this call was in flight: either answer
       /\ (IF env = "usable" THEN Allowed(op, a) \/ AllowedLost(op, a) ELSE AllowedLost(op, a))
       /\ env' = "lost"
  ELSE /\ IF env = "usable" THEN Allowed(op, a) ELSE AllowedLost(op, a)
       /\ UNCHANGED env
=============================================================================
