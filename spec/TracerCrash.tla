----------------------------- MODULE TracerCrash -----------------------------
(* C16, ptrace half: every traced task dies when its tracer dies.             *)
(* Tasks are attached with PTRACE_O_EXITKILL: the launcher's first stop is    *)
(* answered with PTRACE_SETOPTIONS, children created through the              *)
(* TRACEFORK/VFORK/CLONE options inherit the options (kernel).  The only      *)
(* task without EXITKILL is the launcher between PTRACE_TRACEME and the       *)
(* tracer's first SETOPTIONS.                                                 *)
EXTENDS Naturals, FiniteSets
CONSTANTS MaxTasks
VARIABLES tracer,     \* "alive" | "dead"
          st          \* [task -> "none" | "preopt" | "traced" | "dead"]   task 1 is the launcher
vars == <<tracer, st>>
Init == tracer = "alive" /\ st = [i \in 1..MaxTasks |-> IF i = 1 THEN "preopt" ELSE "none"]
SetOptions == tracer = "alive" /\ st[1] = "preopt" /\ st' = [st EXCEPT ![1] = "traced"] /\ UNCHANGED tracer
Fork == /\ tracer = "alive"
        /\ \E p \in 1..MaxTasks, c \in 1..MaxTasks :
             st[p] = "traced" /\ st[c] = "none" /\ st' = [st EXCEPT ![c] = "traced"]   \* options inherited
        /\ UNCHANGED tracer
Exit == \E p \in 1..MaxTasks : st[p] = "traced" /\ st' = [st EXCEPT ![p] = "dead"] /\ UNCHANGED tracer
TracerDies == tracer = "alive" /\ tracer' = "dead" /\ UNCHANGED st
ExitKill == /\ tracer = "dead"
            /\ \E p \in 1..MaxTasks : st[p] = "traced" /\ st' = [st EXCEPT ![p] = "dead"]
            /\ UNCHANGED tracer
Next == SetOptions \/ Fork \/ Exit \/ TracerDies \/ ExitKill
Spec == Init /\ [][Next]_vars /\ WF_vars(ExitKill)
\* once the options are set, tracer death kills everything
AllDie == [](tracer = "dead" /\ st[1] # "preopt" => <>(\A p \in 1..MaxTasks : st[p] \in {"none", "dead"}))
\* the window the design cannot cover: the launcher before its first SETOPTIONS (target code has not
\* run yet: it is still go-sandbox's own child, stopped by raise(SIGSTOP) under PTRACE_TRACEME)
Window == tracer = "dead" /\ st[1] = "preopt"
=============================================================================
