---------------------------- MODULE Status_Cases ----------------------------
(* C09 case space (pure): every exit code and every terminating signal, every way of producing  *)
(* it for real, in each runner, with each behaviour of a secondary process.                      *)
EXTENDS Status

KillSigs == {SIGKILL, SIGSEGV, SIGTERM}      \* what a child is killed by (property layer)
LimitSigs == {SIGXCPU, SIGXFSZ}              \* ptrace only: implementation layer (see StatusRunners!Judged)

Attempts(r) ==
       { [kind |-> "exit",  n |-> n] : n \in ExitCodes }
  \cup { [kind |-> "raise", n |-> s] : s \in TermSignals }
  \cup { [kind |-> "fault", n |-> s] : s \in FaultSigs }
  \cup { [kind |-> "sys",   n |-> SIGSYS] }
  \cup (IF r = "cafter" THEN {} ELSE { [kind |-> "ext", n |-> s] : s \in TermSignals })

OtherCode(a) == IF a.kind = "exit" THEN (a.n + 7) % 256 ELSE 3
Children(r, a) ==
       { [child |-> "none", cn |-> 0], [child |-> "outlive", cn |-> 0],
         [child |-> "exitfirst", cn |-> OtherCode(a)] }
  \cup { [child |-> "killed", cn |-> s] : s \in KillSigs \cup (IF r = "ptrace" THEN LimitSigs ELSE {}) }
  \* a re-parented descendant (double fork, the intermediate parent exits) that stays in the program's
  \* process group and ends before the main process, with another code or by a signal
  \cup { [child |-> "orphanexit", cn |-> OtherCode(a)] }
  \cup { [child |-> "orphankilled", cn |-> s] : s \in KillSigs }

\* core = 1: core dumps are enabled for the program (RLIMIT_CORE > 0 through the runner's RLimits,
\* writable work dir): "every way a program can end" includes ending with a core dump.  The class and
\* the signal number must not depend on it.
CoreAttempts ==
       { [kind |-> "raise", n |-> s] : s \in CoreSigs }
  \cup { [kind |-> "fault", n |-> s] : s \in FaultSigs }
  \cup { [kind |-> "sys",   n |-> SIGSYS] }
CoreChildren == { [child |-> "none", cn |-> 0], [child |-> "orphankilled", cn |-> SIGSEGV] }

\* cancel: the caller's context is cancelled around the end of the program.
\*   afterend  container, sync after exec: the sync function returns (and cancels) only once the program has
\*             ended by itself -- the host then finds "cancelled" and "result" pending together
\*   race      every runner: cancel the moment the program announces its final attempt; repeated
\* The verdict is still Classify of the ACTUAL end: the program's own, unless the cancellation killed it.
CancelCases ==
       { [runner |-> "cafter", kind |-> a.kind, n |-> a.n, child |-> "none", cn |-> 0, core |-> 0, cancel |-> "afterend", rep |-> 1] :
            a \in { [kind |-> "exit", n |-> n] : n \in {0, 1, 3, 255} }
               \cup { [kind |-> "raise", n |-> s] : s \in {SIGTERM, SIGSEGV, SIGXFSZ, SIGXCPU, SIGKILL, SIGSYS, 6} }
               \cup { [kind |-> "fault", n |-> s] : s \in FaultSigs } }
  \cup { [runner |-> r, kind |-> a.kind, n |-> a.n, child |-> "none", cn |-> 0, core |-> 0, cancel |-> "race", rep |-> i] :
            r \in Runners, i \in 1..4,
            a \in { [kind |-> "exit", n |-> 3], [kind |-> "exit", n |-> 0], [kind |-> "fault", n |-> SIGSEGV] } }

PlainCases ==
  UNION { UNION { { [runner |-> r, kind |-> a.kind, n |-> a.n, child |-> c.child, cn |-> c.cn, core |-> 0, cancel |-> "none", rep |-> 0] : c \in Children(r, a) }
                  : a \in Attempts(r) } : r \in Runners }
  \cup { [runner |-> r, kind |-> "badexec", n |-> 0, child |-> "none", cn |-> 0, core |-> 0, cancel |-> "none", rep |-> 0] : r \in Runners }
  \cup { [runner |-> r, kind |-> a.kind, n |-> a.n, child |-> c.child, cn |-> c.cn, core |-> 1, cancel |-> "none", rep |-> 0] :
            r \in Runners, a \in CoreAttempts, c \in CoreChildren }
RealCases == PlainCases \cup CancelCases
=============================================================================
