---------------------------- MODULE LaunchSteps ----------------------------
(* C04 / C07, pure operators (no variables).                                *)
(*                                                                          *)
(* The child of pkg/forkexec forkAndExecInChild (fork_child_linux.go) as a  *)
(* list of steps in CODE ORDER with THE CODE'S GUARDS, the effect of every  *)
(* step on the kernel-visible security state of the process, the kernel     *)
(* rules this relies on (assumptions, cross-checked by the probe), the      *)
(* error location every step reports, and the property-layer post-condition *)
(* Post(o, x) = the sentence of C04 clause by clause.                       *)
(*                                                                          *)
(* Shared by the state machine Launch (MC, Trace) and by Launch_Gen /       *)
(* Launch_Judge.                                                            *)
EXTENDS Integers, Sequences, FiniteSets, SequencesExt

-----------------------------------------------------------------------------
\* Options.  The first nine select among the differently ordered code sites
\* ("site" flags), the rest are namespace flags / launcher environment ("row").
SiteKeys == <<"cred", "dropcaps", "nnp", "seccomp", "ptrace", "stop", "sync", "ucg", "pivot">>
RowKeys  == <<"user", "pid", "mnt", "uts", "ipc", "net", "cgns", "cgfd", "amb">>

Bit(n, i) == (n \div (2 ^ i)) % 2 = 1

\* option record from two integers 0..511 (site bits, row bits), made safe to run for real:
\* pivot_root without a private mount namespace would re-root the HOST, so pivot forces mnt.
MkOpt(s, r) ==
  [cred |-> Bit(s, 0), dropcaps |-> Bit(s, 1), nnp |-> Bit(s, 2), seccomp |-> Bit(s, 3),
   ptrace |-> Bit(s, 4), stop |-> Bit(s, 5), sync |-> Bit(s, 6), ucg |-> Bit(s, 7), pivot |-> Bit(s, 8),
   user |-> Bit(r, 0), pid |-> Bit(r, 1), mnt |-> Bit(r, 2) \/ Bit(s, 8), uts |-> Bit(r, 3), ipc |-> Bit(r, 4),
   net |-> Bit(r, 5), cgns |-> Bit(r, 6), cgfd |-> Bit(r, 7), amb |-> Bit(r, 8),
   grp |-> "several", gmap |-> "allow", hn |-> "short", dn |-> "long"]

\* Credential / gid-mapping dimension x in 0..7 (only meaningful with cred / user):
\*   grp  = what Credential.Groups asks for: "several" | "one" | "empty" (no supplementary groups) |
\*          "nosg" (Credential.NoSetGroups: nothing requested, the launcher's groups stay)
\*   gmap = GIDMappingsEnableSetgroups of the gid map the drivers give with a user namespace:
\*          "allow" | "deny"
\* Kernel rule: in a user namespace whose /proc/<pid>/setgroups says "deny", setgroups(2) fails
\* (EPERM) whatever the list.  The code skips the call exactly for "map given, deny, empty list"
\* (fork_child_linux.go:123); every other deny combination is refused by the kernel (a C07 recipe), so
\* MkOptX repairs it to "allow" -- only startable option sets are generated for C04.
GrpOf(x)  == CASE x % 4 = 0 -> "several" [] x % 4 = 1 -> "one" [] x % 4 = 2 -> "empty" [] OTHER -> "nosg"
\* UTS dimension y in 0..8 (only meaningful with uts): HostName and DomainName are INDEPENDENT requests,
\*   hn, dn in "none" (field empty: the name the new UTS namespace inherited stays) | "short" | "long";
\* the drivers use four strings of four different lengths and different content.  Default y = 7:
\* short host name, long domain name.
NameOf(k) == CASE k = 0 -> "none" [] k = 1 -> "short" [] OTHER -> "long"
YDefault == 7
MkOptXY(s, r, x, y) ==
  LET o == MkOpt(s, r)
      g == GrpOf(x)
      m == IF x \div 4 = 1 /\ (~o.cred \/ g \in {"empty", "nosg"}) THEN "deny" ELSE "allow"
  IN [o EXCEPT !.grp = g, !.gmap = m, !.hn = NameOf(y % 3), !.dn = NameOf(y \div 3)]
MkOptX(s, r, x) == MkOptXY(s, r, x, YDefault)
\* Runner level: what the two runners built on forkexec ask for, transcribed from their Run():
\*   runner/unshare/run_linux.go : NoNewPrivs, DropCaps, the filter, CloneFlags = NEWNS|NEWPID|NEWUSER|NEWUTS|
\*       NEWCGROUP, HostName/DomainName, UnshareCgroupAfterSync -- for EVERY caller (the caller is mapped to
\*       uid 0 of the new user namespace and holds every capability there, whoever it is outside)
\*   runner/ptrace/run_linux.go  : the filter, Ptrace, UnshareCgroupAfterSync iff the caller is root
UnshareRunnerOpt(sync) ==
  [MkOpt(0, 0) EXCEPT !.dropcaps = TRUE, !.nnp = TRUE, !.seccomp = TRUE, !.sync = sync, !.ucg = TRUE,
                      !.user = TRUE, !.pid = TRUE, !.mnt = TRUE, !.uts = TRUE, !.cgns = TRUE]
PtraceRunnerOpt(sync, root) ==
  [MkOpt(0, 0) EXCEPT !.seccomp = TRUE, !.ptrace = TRUE, !.sync = sync, !.ucg = root]
\* the drivers give a gid map exactly when a user namespace is requested
GidMapGiven(o) == o.user
SetgroupsDenied(o) == o.user /\ o.gmap = "deny"

\* Host name / domain name are requested only when a UTS namespace is (without one sethostname would
\* rename the host), each independently (hn, dn); a work directory is always requested.
Sane(o) == o.pivot => o.mnt

\* short signature of the flags that select code sites (key of findings)
B(b) == IF b THEN "1" ELSE "0"
SiteSig(o) == "c" \o B(o.cred) \o "d" \o B(o.dropcaps) \o "n" \o B(o.nnp) \o "s" \o B(o.seccomp) \o "p" \o B(o.ptrace)
              \o "t" \o B(o.stop) \o "y" \o B(o.sync) \o "u" \o B(o.ucg)
              \o (IF o.cred /\ o.grp # "several" THEN "-" \o o.grp ELSE "") \o (IF o.user /\ o.gmap = "deny" THEN "-deny" ELSE "")

-----------------------------------------------------------------------------
\* securebits (consts_linux.go); numeric values for the strace binding
SecBitVal == [NOROOT |-> 1, NOROOT_LOCKED |-> 2, NO_SETUID_FIXUP |-> 4, NO_SETUID_FIXUP_LOCKED |-> 8,
              KEEP_CAPS |-> 16, KEEP_CAPS_LOCKED |-> 32, NO_CAP_AMBIENT_RAISE |-> 64, NO_CAP_AMBIENT_RAISE_LOCKED |-> 128]
SecBitNames == DOMAIN SecBitVal
SecBitsOf(v) == { b \in SecBitNames : (v \div SecBitVal[b]) % 2 = 1 }
SecBitsNum(S) == FoldLeft(LAMBDA a, b : a + (IF b \in S THEN SecBitVal[b] ELSE 0), 0,
                          <<"NOROOT", "NOROOT_LOCKED", "NO_SETUID_FIXUP", "NO_SETUID_FIXUP_LOCKED", "KEEP_CAPS",
                            "KEEP_CAPS_LOCKED", "NO_CAP_AMBIENT_RAISE", "NO_CAP_AMBIENT_RAISE_LOCKED">>)
\* fork_child_linux.go:110 and :360/:393/:458
SbKeep == {"KEEP_CAPS_LOCKED", "NO_SETUID_FIXUP", "NO_SETUID_FIXUP_LOCKED"}
SbDrop == SbKeep \cup {"NOROOT", "NOROOT_LOCKED"}
LockOf(b) == b \o "_LOCKED"
BaseBits == {"NOROOT", "NO_SETUID_FIXUP", "KEEP_CAPS", "NO_CAP_AMBIENT_RAISE"}
\* kernel rule (cap_task_prctl PR_SET_SECUREBITS): needs CAP_SETPCAP, a lock can not be
\* cleared and a locked bit can not change
SecbitsAllowed(old, new, hascap) ==
  /\ hascap
  /\ \A b \in BaseBits : LockOf(b) \in old => (LockOf(b) \in new /\ ((b \in old) <=> (b \in new)))

-----------------------------------------------------------------------------
\* The child's steps in code order.
StepOrder ==
  << "close_p0", "userns_read", "getpid", "keepcaps", "setgroups", "setgid", "setuid", "fds", "setsid", "ctty",
     "mount_root", "pivot_tmpfs", "pivot_chdir", "mounts", "pivot_root", "hostname", "domainname", "chdir",
     "rlimits", "nnp", "dropA_secbits", "dropA_capset",
     "syncA_write", "syncA_read", "ucgA", "dropB_secbits", "dropB_capset", "tracemeA",
     "stop", "seccompA",
     "syncB_write", "syncB_read", "ucgB", "dropC_secbits", "dropC_capset", "seccompB",
     "tracemeB", "exec" >>
StepNames == ToSet(StepOrder)

PS(o)   == o.ptrace /\ o.seccomp          \* the first sync block (fork_child_linux.go:371)
Drop(o) == o.cred \/ o.dropcaps
Early(o) == o.stop \/ (o.seccomp /\ o.ptrace)   \* Start returns before exec (fork_linux.go:107)
\* setgroups is skipped for "GIDMappings given, setgroups disabled, no groups" and for NoSetGroups
\* (fork_child_linux.go:123).
Guard(n, o) ==
  CASE n \in {"close_p0", "getpid", "fds", "setsid", "mounts", "rlimits", "exec", "chdir"} -> TRUE
    [] n = "userns_read"   -> o.user
    [] n = "keepcaps"      -> o.cred \/ o.ucg
    [] n = "setgroups"     -> o.cred /\ ~(GidMapGiven(o) /\ o.gmap = "deny" /\ o.grp = "empty") /\ o.grp # "nosg"
    [] n \in {"setgid", "setuid"} -> o.cred
    [] n = "ctty"          -> FALSE                     \* CTTY is never requested by the drivers
    [] n = "mount_root"    -> o.mnt
    [] n \in {"pivot_tmpfs", "pivot_chdir", "pivot_root"} -> o.pivot
    [] n = "hostname"      -> o.uts /\ o.hn # "none"   \* names are only ever requested with a UTS namespace
    [] n = "domainname"    -> o.uts /\ o.dn # "none"
    [] n = "nnp"           -> o.nnp \/ o.seccomp
    [] n \in {"dropA_secbits", "dropA_capset"} -> Drop(o) /\ ~o.ucg
    [] n \in {"syncA_write", "syncA_read"} -> PS(o) /\ o.sync
    [] n = "ucgA"          -> PS(o) /\ o.ucg
    [] n \in {"dropB_secbits", "dropB_capset"} -> PS(o) /\ o.ucg /\ Drop(o)
    [] n = "tracemeA"      -> PS(o)
    [] n = "stop"          -> o.stop \/ (o.seccomp /\ o.ptrace)
    [] n = "seccompA"      -> o.seccomp /\ (~o.ucg \/ o.ptrace)
    [] n \in {"syncB_write", "syncB_read"} -> (~o.ptrace \/ ~o.seccomp) /\ o.sync
    [] n = "ucgB"          -> (~o.ptrace \/ ~o.seccomp) /\ o.ucg
    [] n \in {"dropC_secbits", "dropC_capset"} -> (~o.ptrace \/ ~o.seccomp) /\ o.ucg /\ Drop(o)
    [] n = "seccompB"      -> (~o.ptrace \/ ~o.seccomp) /\ o.ucg /\ o.seccomp
    [] n = "tracemeB"      -> o.ptrace /\ ~o.seccomp

ChildPath(o) == SelectSeq(StepOrder, LAMBDA n : Guard(n, o))

\* the child is created with CLONE_VM|CLONE_VFORK (parent suspended until exec/exit) iff
\* (fork_child_linux.go:33)
Vfork(o) == ~o.sync /\ ~Early(o) /\ ~o.user

\* StopBeforeSeccomp puts the self-SIGSTOP BEFORE the second sync block: with a callback and
\* without ptrace+seccomp the child stops itself before it writes the sync word while Start is
\* still blocked reading it, so nobody can continue the child (the caller has no pid yet).
\* A SIGSTOP sent by the init of a pid namespace to itself is ignored, so no hang there.
\* (open finding C04:hang; TLC finds it as a deadlock of Launch.)
HangCombo(o) == o.stop /\ o.sync /\ ~PS(o) /\ ~o.pid

-----------------------------------------------------------------------------
\* Error locations (errloc_linux.go).  LocOf is by what the step IS, not by the constant
\* the code happens to pass; where the code passes another constant it is listed in CodeLoc.
LocOf(n) ==
  CASE n = "clone" -> "clone"
    [] n = "close_p0" -> "close_write"
    [] n \in {"userns_read", "idmap"} -> "unshare_user_read"
    [] n = "getpid" -> "getpid"
    [] n = "keepcaps" -> "keep_capability"
    [] n = "setgroups" -> "setgroups"
    [] n = "setgid" -> "setgid"
    [] n = "setuid" -> "setuid"
    [] n = "fds" -> "dup3"
    [] n = "setsid" -> "setsid"
    [] n = "ctty" -> "ioctl"
    [] n = "mount_root" -> "mount(root)"
    [] n = "pivot_tmpfs" -> "mount(tmpfs)"
    [] n = "pivot_chdir" -> "mount(chdir)"
    [] n = "mounts" -> "mount"
    [] n = "mounts_mkdir" -> "mount(mkdir)"
    [] n = "pivot_root" -> "pivot_root"
    [] n = "chdir" -> "chdir"
    [] n = "rlimits" -> "setrlimt"                \* sic (errloc_linux.go)
    [] n = "nnp" -> "set_no_new_privs"
    [] n \in {"dropA_secbits", "dropB_secbits", "dropC_secbits"} -> "drop_capability"
    [] n \in {"dropA_capset", "dropB_capset", "dropC_capset"} -> "set_cap"
    [] n \in {"tracemeA", "tracemeB"} -> "ptrace_me"
    [] n = "stop" -> "stop"
    [] n \in {"seccompA", "seccompB"} -> "seccomp"
    [] n \in {"syncA_write", "syncB_write"} -> "sync_write"
    [] n \in {"syncA_read", "syncB_read"} -> "sync_read"
    [] n = "exec" -> "execve"
    [] OTHER -> "unknown"
\* sites B and C report the NOROOT securebits step as keep_capability (fork_child_linux.go:395,:460);
\* no real input makes those two prctl calls fail after the identical call of "keepcaps"
\* succeeded, so this is unobservable and only recorded here.
CodeLoc(n) == IF n \in {"dropB_secbits", "dropC_secbits"} THEN "keep_capability" ELSE LocOf(n)
Indexed(n) == n \in {"mounts", "mounts_mkdir", "rlimits"}
Fallible(n) == n \notin {"hostname", "domainname", "ucgA", "ucgB"}   \* results ignored by the code

\* errno values of resource shortage on a loaded machine (EINTR EAGAIN ENOMEM ENFILE EMFILE ETXTBSY ENOSPC):
\* a launch refused with one of them says nothing about the launcher; judged as "could not set the case up"
TransientErrno == {4, 11, 12, 23, 24, 26, 28}

\* C07 interpretation: does Start itself return the error?  (early-return modes report only what fails before the
\* child's sync word; without a callback they report nothing but a failed clone)
PosOf(n) == CHOOSE i \in 1..Len(StepOrder) : StepOrder[i] = (IF n = "mounts_mkdir" THEN "mounts" ELSE n)
SyncWriteOf(o) == IF PS(o) THEN "syncA_write" ELSE "syncB_write"
Reported(o, f) ==
  \/ f.step = "clone"
  \/ ~Early(o)
  \/ o.sync /\ f.step = "idmap"
  \/ o.sync /\ f.step \notin {"idmap"} /\ PosOf(f.step) <= PosOf(SyncWriteOf(o))


-----------------------------------------------------------------------------
\* Abstract kernel-visible state of the child.
\*   eff perm inh amb : the capability set is non-empty
\*   sb               : securebits (set of names)
\*   uid gid groups   : "launcher" (inherited) | "req" (the Credential's, non-root)
\*   sid              : "inherited" | "own"
\*   cwd              : "inherited" | "newroot" | "req";   root : "host" | "pivot"
\*   host domain      : "inherited" | "req"
\*   ns               : set of namespace kinds that are new w.r.t. the launcher
NsKinds == {"user", "pid", "mnt", "uts", "ipc", "net", "cgroup"}
CloneNs(o) == {k \in NsKinds : CASE k = "user" -> o.user [] k = "pid" -> o.pid [] k = "mnt" -> o.mnt [] k = "uts" -> o.uts
                                  [] k = "ipc" -> o.ipc [] k = "net" -> o.net [] k = "cgroup" -> o.cgns}
\* the property's "new namespaces exactly for the requested flags": late cgroup unshare is a request
ReqNs(o) == CloneNs(o) \cup (IF o.ucg THEN {"cgroup"} ELSE {})

\* state right after clone.  lsb = the launcher thread's securebits.
\* kernel rule (create_user_ns): a new user namespace starts with full permitted/effective,
\* empty inheritable/ambient and default securebits.
Born(o, lsb) ==
  [eff |-> TRUE, perm |-> TRUE, inh |-> (o.amb /\ ~o.user), amb |-> (o.amb /\ ~o.user),
   sb |-> (IF o.user THEN {} ELSE lsb), nnp |-> FALSE, filt |-> FALSE,
   uid |-> "launcher", gid |-> "launcher", groups |-> "launcher", sid |-> "inherited",
   cwd |-> "inherited", root |-> "host", host |-> "inherited", domain |-> "inherited",
   ns |-> CloneNs(o), traced |-> FALSE]

\* would the kernel refuse step n in state x?  (the launcher is root; the requested ids are
\* mapped when a user namespace is used)
Refused(n, o, x) ==
  CASE n \in {"keepcaps"} -> ~SecbitsAllowed(x.sb, SbKeep, x.eff)
    [] n \in {"dropA_secbits", "dropB_secbits", "dropC_secbits"} -> ~SecbitsAllowed(x.sb, SbDrop, x.eff)
    [] n = "setgroups" -> ~x.eff \/ SetgroupsDenied(o)
    [] n \in {"setgid", "setuid"} -> ~x.eff
    [] n \in {"mount_root", "pivot_tmpfs", "pivot_root"} -> ~x.eff
    [] n \in {"seccompA", "seccompB"} -> ~(x.nnp \/ x.eff)
    [] OTHER -> FALSE

\* kernel rule cap_emulate_setxuid for root -> non-root
SetuidFix(x) ==
  IF "NO_SETUID_FIXUP" \in x.sb THEN x
  ELSE [x EXCEPT !.eff = FALSE, !.perm = (IF "KEEP_CAPS" \in x.sb THEN x.perm ELSE FALSE), !.amb = FALSE]

Effect(n, o, x) ==
  CASE n = "keepcaps"  -> [x EXCEPT !.sb = SbKeep]
    [] n = "setgroups" -> [x EXCEPT !.groups = "req"]
    [] n = "setgid"    -> [x EXCEPT !.gid = "req"]
    [] n = "setuid"    -> [SetuidFix(x) EXCEPT !.uid = "req"]
    [] n = "setsid"    -> [x EXCEPT !.sid = "own"]
    [] n = "pivot_chdir" -> [x EXCEPT !.cwd = "newroot"]
    [] n = "pivot_root" -> [x EXCEPT !.root = "pivot"]
    [] n = "hostname"  -> IF x.eff THEN [x EXCEPT !.host = "req"] ELSE x
    [] n = "domainname" -> IF x.eff THEN [x EXCEPT !.domain = "req"] ELSE x
    [] n = "chdir"     -> [x EXCEPT !.cwd = "req"]
    [] n = "nnp"       -> [x EXCEPT !.nnp = TRUE]
    [] n \in {"dropA_secbits", "dropB_secbits", "dropC_secbits"} -> [x EXCEPT !.sb = SbDrop]
    [] n \in {"dropA_capset", "dropB_capset", "dropC_capset"} ->
         [x EXCEPT !.eff = FALSE, !.perm = FALSE, !.inh = FALSE, !.amb = FALSE]
    [] n \in {"ucgA", "ucgB"} -> IF x.eff THEN [x EXCEPT !.ns = @ \cup {"cgroup"}] ELSE x
    [] n \in {"tracemeA", "tracemeB"} -> [x EXCEPT !.traced = TRUE]
    [] n \in {"seccompA", "seccompB"} -> [x EXCEPT !.filt = TRUE]
    [] OTHER -> x

\* kernel rule (cap_bprm_creds_from_file, file without capabilities or set-id bits):
\* uid 0 without SECBIT_NOROOT regains the bounding set; otherwise permitted = effective = ambient;
\* inheritable and ambient are kept; SECBIT_KEEP_CAPS is cleared.
ExecRule(x) ==
  LET rootish == x.uid = "launcher" /\ "NOROOT" \notin x.sb IN
  [x EXCEPT !.perm = (IF rootish THEN TRUE ELSE x.amb), !.eff = (IF rootish THEN TRUE ELSE x.amb),
            !.sb = @ \ {"KEEP_CAPS"}]

\* state of the program at its first instruction when nothing fails and the kernel refuses nothing
RunTo(o, lsb, path) == FoldLeft(LAMBDA x, n : Effect(n, o, x), Born(o, lsb), path)
Final(o) == ExecRule(RunTo(o, {}, ChildPath(o)))
\* first step the kernel would refuse ("none" if the launch goes through)
FirstRefusal(o, lsb) ==
  LET r == FoldLeft(LAMBDA a, n : IF a.bad # "none" THEN a
                                  ELSE IF Refused(n, o, a.x) THEN [a EXCEPT !.bad = n]
                                  ELSE [a EXCEPT !.x = Effect(n, o, a.x)],
                    [x |-> Born(o, lsb), bad |-> "none"], ChildPath(o))
  IN r.bad

-----------------------------------------------------------------------------
\* C04, clause by clause, on an abstract state x of the started program.  Returns the set of
\* violated clauses.
PostViol(o, x) ==
     (IF Drop(o) /\ (x.eff \/ x.perm \/ x.inh \/ x.amb) THEN {"caps-not-empty"} ELSE {})
\cup (IF Drop(o) /\ "NOROOT" \notin x.sb THEN {"implicit-root-on-exec"} ELSE {})
\cup (IF (o.nnp \/ o.seccomp) /\ ~x.nnp THEN {"no-new-privs"} ELSE {})
\cup (IF x.filt # o.seccomp THEN {"seccomp-iff-given"} ELSE {})
\cup (IF o.cred /\ x.uid # "req" THEN {"uid"} ELSE {})
\cup (IF o.cred /\ x.gid # "req" THEN {"gid"} ELSE {})
\cup (IF o.cred /\ o.grp # "nosg" /\ ~SetgroupsDenied(o) /\ x.groups # "req" THEN {"groups"} ELSE {})
\cup (IF x.sid # "own" THEN {"own-session"} ELSE {})
\cup (IF x.cwd # "req" THEN {"workdir"} ELSE {})
\cup (IF o.uts /\ o.hn # "none" /\ x.host # "req" THEN {"hostname"} ELSE {})
\cup (IF o.uts /\ o.dn # "none" /\ x.domain # "req" THEN {"domainname"} ELSE {})
\cup (IF x.ns # ReqNs(o) THEN {"namespaces"} ELSE {})
Post(o, x) == PostViol(o, x) = {}
=============================================================================
