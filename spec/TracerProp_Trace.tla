-------------------------- MODULE TracerProp_Trace --------------------------
(* C03, property layer, multi-trace validation.  Each line of obs.ndjson is one *)
(* real run of a scripted program under the real ptrace runner:                 *)
(*   script, decl (<<[m, d]>>), traps (handler log, in order), logs (the        *)
(*   program's own log, one sequence per task), effects (directories that exist *)
(*   afterwards), status, exit, stuck.                                          *)
(* One behaviour per run (t), one cursor per task log (lc) and one for the      *)
(* handler log (tc); the logs are NOT merged by time: TLC explores the           *)
(* interleavings TracerProp admits.  Register t = high-water mark of consumed    *)
(* events (+1 when all are consumed and the final observation is admitted);      *)
(* register N+t = which parts of the final observation some complete replay      *)
(* admitted (1 effects, 2 verdict, 4 not stuck).  -workers 1.                    *)
EXTENDS TracerProp, TLC, Json, SequencesExt
Obs == ndJsonDeserialize("obs.ndjson")
N == Len(Obs)
VARIABLES t, lc, tc
tvars == <<pvars, t, lc, tc>>
O == Obs[t]
DecOf(l) == [m \in { l[i].m : i \in DOMAIN l } |-> (l[CHOOSE i \in DOMAIN l : l[i].m = m]).d]
Total(o) == Len(o.traps) + FoldLeft(LAMBDA a, b : a + Len(b), 0, o.logs)

TInit ==
  /\ t \in 1..N
  /\ PInit(Obs[t].script, DecOf(Obs[t].decl))
  /\ lc = [k \in DOMAIN Obs[t].script |-> 0] /\ tc = 0

AtEnd(k) == lc[k] = Len(O.logs[k])

TTrap ==
  /\ tc < Len(O.traps)
  /\ \E k \in PTasks : Trap(k, O.traps[tc + 1].m, O.traps[tc + 1].act)
  /\ tc' = tc + 1 /\ UNCHANGED <<t, lc>>
TLine(k) ==
  /\ ~AtEnd(k)
  /\ LET e == O.logs[k][lc[k] + 1] IN
       /\ e.i = ppc[k]
       /\ IF e.op \in {"T", "N"} THEN e.op = POp(k).k /\ Ret(k, e.ret)
                               ELSE (Step(k, e.op, e.ret) \/ EndStep(k, e.op, e.ret))
  /\ lc' = [lc EXCEPT ![k] = @ + 1] /\ UNCHANGED <<t, tc>>
TSilent ==
  /\ \/ \E k \in PTasks : AtEnd(k) /\ (RetUnseen(k) \/ StepUnseen(k) \/ ExecUnseen(k) \/ FilterKill(k))
     \/ \E j \in PTasks : Birth(j)
     \/ FilterKillSeen
  /\ UNCHANGED <<t, lc, tc>>
TNext == TTrap \/ TSilent \/ \E k \in PTasks : TLine(k)
TSpec == TInit /\ [][TNext]_tvars

Consumed == tc + FoldLeft(LAMBDA a, k : a + lc[k], 0, SetToSeq(PTasks))
AllConsumed == tc = Len(O.traps) /\ \A k \in PTasks : AtEnd(k)
EffOK == ToSet(O.effects) = exe
VerOK == Verdict(O.status, O.exit)
FinalBits == (IF EffOK THEN 1 ELSE 0) + (IF VerOK THEN 2 ELSE 0) + (IF ~O.stuck THEN 4 ELSE 0)
Hi(a, b) == IF a < b THEN b ELSE a
Mark ==
  /\ TLCSet(t, Hi(TLCGet(t), Consumed + (IF AllConsumed /\ FinalBits = 7 THEN 1 ELSE 0)))
  /\ (AllConsumed => TLCSet(N + t, Hi(TLCGet(N + t), FinalBits)))
ASSUME \A i \in 1..(2 * N) : TLCSet(i, 0)
Report ==
  ndJsonSerialize("bad.ndjson",
     SetToSeq({ [t |-> i, matched |-> TLCGet(i), total |-> Total(Obs[i]), bits |-> TLCGet(N + i)] :
                i \in { j \in 1..N : TLCGet(j) < Total(Obs[j]) + 1 } }))
=============================================================================
