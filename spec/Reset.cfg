CONSTANTS NM = 4
  Parent <- MCParentNested
  Kinds = {"fifo", "nested"}
  MaxRuns = 2
  StopAtFirstError = FALSE
SPECIFICATION RSpec
INVARIANTS TypeOK WholeAgrees CleanAfterReset ErrIffNested
CHECK_DEADLOCK FALSE
