-------------------------- MODULE ContainerAPI_Gen --------------------------
(* TLC as generator of API histories for C10/C11.                             *)
EXTENDS Naturals, Sequences, FiniteSets, TLC, Json, SequencesExt, Randomization
CONSTANTS NRandom,     \* number of random 3-op histories
          Level        \* 1 = quick alphabet, 2 = full alphabet

Op(k, v, sa, cb, c) == [k |-> k, v |-> v, sa |-> sa, cb |-> cb, cancel |-> c]
Simple ==
  { Op("ping", "", FALSE, "none", "none"), Op("reset", "", FALSE, "none", "none"),
    Op("open", "ok", FALSE, "none", "none"), Op("open", "bad", FALSE, "none", "none"),
    Op("open", "mixed", FALSE, "none", "none"), Op("open", "empty", FALSE, "none", "none"),
    Op("open", "longbatch", FALSE, "none", "none"), Op("open", "max", FALSE, "none", "none"), Op("delete", "huge", FALSE, "none", "none"),
    Op("delete", "emptypath", FALSE, "none", "none"),
    Op("delete", "ok", FALSE, "none", "none"), Op("delete", "bad", FALSE, "none", "none"),
    Op("symlink", "ok", FALSE, "none", "none"), Op("symlink", "bad", FALSE, "none", "none"),
    Op("symlink", "empty", FALSE, "none", "none") }
Fails == {"noent", "noentabs", "noexec", "enoexec", "dir", "emptyargs", "hugearg"}
\* every exec variant: what to run x sync mode x callback x cancellation
ExecAll ==
  { Op("exec", v, sa, cb, c) :
      v \in Fails \cup {"run", "runslow", "term", "sleep", "fdexec", "envrun", "cgexec"}, sa \in BOOLEAN, cb \in {"none", "ok", "fail"},
      c \in {"none", "pre", "running", "race"} }
\* a sleeping program needs a cancel (or a failing callback) to end
Sane(o) == o.v = "sleep" => (o.cancel \in {"pre", "running"} \/ o.cb = "fail")
Exec == { o \in ExecAll : Sane(o) }
\* the variants that fail for a request/program reason
ExecFailing == { o \in Exec : o.v \in Fails \/ o.cb = "fail" }

Ping == Op("ping", "", FALSE, "none", "none")
Run  == Op("exec", "run", FALSE, "ok", "none")
RunA == Op("exec", "run", TRUE, "none", "none")
Tail3 == <<Ping, Run, RunA>>      \* "leaves the environment fully usable"

Alphabet == Simple \cup Exec
H(ops, g, d) == [ops |-> ops \o Tail3, gate |-> g, delays |-> d]

\* (a) every op alone
Singles == { H(<<o>>, "", "") : o \in Alphabet }
\* (b) every ordered pair of failing / cancelled ops (desynchronisation needs two steps to show)
Interesting ==
       { Op("exec", v, FALSE, "ok", "none") : v \in Fails } \cup { Op("exec", v, TRUE, "none", "none") : v \in Fails }
  \cup { Op("exec", "run", sa, "fail", "none") : sa \in BOOLEAN }
  \cup { Op("exec", "run", sa, "ok", c) : sa \in BOOLEAN, c \in {"pre", "running", "race"} }
  \cup { o \in Simple : o.v \in {"bad", "empty", "longbatch", "huge"} }
Pairs == IF Level >= 2 THEN { H(<<a, b>>, "", "") : a \in Interesting, b \in Interesting } ELSE {}
\* (c) the two select races, pinned with a gate on the host or a delay in init
Races ==
  { H(<<Op("exec", v, sa, cb, "race")>>, g, d) :
      v \in {"run", "runslow", "enoexec"}, sa \in BOOLEAN, cb \in {"none", "ok"},
      g \in {"", "wait-both", "wait-short"}, d \in {"", "init.started=60"} }
\* (d) random triples over the whole alphabet
Rand == { H(f, "", "") : f \in RandomSubset(NRandom, [1..3 -> Alphabet]) }
\* (e) transport loss: afterwards every call must fail promptly
Loss == { [ops |-> pre \o <<[k |-> how, v |-> "", sa |-> FALSE, cb |-> "none", cancel |-> "none"]>> \o post,
           gate |-> "", delays |-> ""] :
           how \in {"destroy", "killinit"},
           pre \in { <<>>, <<Run>>, <<Op("exec", "enoexec", FALSE, "ok", "none")>> },
           post \in { <<Ping>>, <<Run, Ping>>, <<Op("open", "ok", FALSE, "none", "none"), RunA>>, <<Op("reset", "", FALSE, "none", "none"), Ping, Ping>> } }

\* (g) carry-over: a request whose field is left at its zero value right after a request that set it
\* (executable descriptor, environment, path, batch) -- host and container must agree on THIS command
Carry ==
  { H(<<a, b>>, "", "") : a \in { Op("exec", v, sa, cb, "none") : v \in {"fdexec", "cgexec"}, sa \in BOOLEAN, cb \in {"none", "ok"} }
                               \cup { Op("exec", "envrun", sa, "ok", "none") : sa \in BOOLEAN },
                        b \in { Op("exec", "run", sa, "ok", "none") : sa \in BOOLEAN } }
  \cup { H(<<Op("delete", "ok", FALSE, "none", "none"), Op("delete", "emptypath", FALSE, "none", "none")>>, "", ""),
         H(<<Op("open", "ok", FALSE, "none", "none"), Op("open", "empty", FALSE, "none", "none")>>, "", ""),
         H(<<Op("open", "mixed", FALSE, "none", "none"), Op("open", "empty", FALSE, "none", "none")>>, "", ""),
         H(<<Op("symlink", "ok", FALSE, "none", "none"), Op("symlink", "empty", FALSE, "none", "none")>>, "", ""),
         H(<<Op("exec", "enoexec", FALSE, "ok", "none"), Op("exec", "fdexec", FALSE, "ok", "none")>>, "", "") }
\* (h) two failures in a row on one environment: a flag set on one failure path must not survive into the
\* next call (each failure class: before fork, before the sync, at the sync, after the sync)
FailCore == { Op("exec", v, FALSE, "ok", "none") : v \in {"noent", "noentabs", "enoexec", "emptyargs"} }
            \cup { Op("exec", "run", sa, "fail", "none") : sa \in BOOLEAN }
            \cup { Op("exec", "enoexec", TRUE, "none", "none"), Op("exec", "sleep", FALSE, "ok", "pre") }
FailPairs == { H(<<a, b>>, "", "") : a \in FailCore, b \in FailCore }
\* (f) transport loss while a reply is pending (gate "stale"): a stale reply must never satisfy a later call
Stale == { [ops |-> <<Op("exec", v, sa, "ok", "none")>> \o post, gate |-> "stale", delays |-> ""] :
            v \in {"run", "runslow"}, sa \in BOOLEAN,
            post \in { <<Ping, Ping, Ping, Ping>>, <<Run, Ping, Ping>>, <<Op("reset", "", FALSE, "none", "none"), Ping, RunA>>,
                       <<Op("open", "ok", FALSE, "none", "none"), Ping, Ping>> } }
\* (i) a Ping that runs into its own bound because the container is stalled (SIGSTOP) and answers late: the
\* late pong must never be taken for the answer of a later call
StallPing == Op("ping", "stall", FALSE, "none", "none")
Stall == { [ops |-> <<StallPing>> \o post, gate |-> "", delays |-> ""] :
            post \in { <<Op("delete", "bad", FALSE, "none", "none"), Ping, Op("open", "bad", FALSE, "none", "none")>>,
                       <<Ping, Op("delete", "bad", FALSE, "none", "none"), Run>>,
                       <<Op("exec", "noent", FALSE, "ok", "none"), Ping, Ping>>,
                       <<Run, Op("symlink", "bad", FALSE, "none", "none"), Ping>> } }
\* (j) an operation that fails in more than one place at once (Reset with two tmpfs mounts it cannot empty):
\* still exactly one answer
ResetBusy == Op("reset", "busy", FALSE, "none", "none")
Nested == { [ops |-> pre \o <<ResetBusy>> \o post, gate |-> "nested", delays |-> ""] :
             pre \in { <<>>, <<Run>> },
             post \in { <<Ping, Op("delete", "bad", FALSE, "none", "none"), Op("open", "ok", FALSE, "none", "none"), Ping>>,
                        <<ResetBusy, Run, Ping>> } }
All == Nested \cup Singles \cup Pairs \cup Races \cup Rand \cup Loss \cup Stale \cup Carry \cup FailPairs \cup Stall
ASSUME ndJsonSerialize("histories.ndjson", SetToSeq(All))
ASSUME PrintT(<<"histories", Cardinality(Singles), Cardinality(Pairs), Cardinality(Races), Cardinality(Rand), Cardinality(Loss)>>)
VARIABLE x
Init == x = 0
Next == UNCHANGED x
=============================================================================
