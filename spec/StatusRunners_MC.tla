------------------------- MODULE StatusRunners_MC -------------------------
(* What `bin/check C09` runs first: model-check StatusRunners and, in the same TLC run, write the *)
(* case file of Status_Cases (saves one JVM start).                                                *)
EXTENDS StatusRunners, Json, SequencesExt
Cases == INSTANCE Status_Cases
ASSUME ndJsonSerialize("cases.ndjson", SetToSeq(Cases!RealCases))
=============================================================================
