------------------------ MODULE SyscallCounter_Trace ------------------------
(* Trace validation for the syscall counter: each line of traces.ndjson is one  *)
(* recorded history of the real SyscallCounter / Handler.CheckSyscall:          *)
(*    [budget |-> [name |-> n or -1 (uncounted)], ev |-> << [n, r], ... >>]     *)
(* TLC starts one behaviour per history (variable t) and replays the events     *)
(* through SyscallCounter!Call.  Register t keeps the high-water mark of        *)
(* matched events; register N+t is set when a step differs from the             *)
(* implementation-layer prediction (drift).  -workers 1.                        *)
EXTENDS SyscallCounter, TLC, Json, SequencesExt
Traces == ndJsonDeserialize("traces.ndjson")
N == Len(Traces)
VARIABLES t, l
tvars == <<cvars, t, l>>

BudgetOf(rec) == LET D == { n \in DOMAIN rec : rec[n] >= 0 } IN [n \in D |-> rec[n]]

TInit ==
  /\ t \in 1..N /\ l = 1
  /\ budget = BudgetOf(Traces[t].budget)
  /\ used = [n \in Names |-> 0] /\ refused = {} /\ left = budget

TStep ==
  /\ l <= Len(Traces[t].ev)
  /\ LET e == Traces[t].ev[l] IN
       /\ Call(e.n, e.r)
       /\ (e.r # CallImpl(e.n) => TLCSet(N + t, 1))
  /\ l' = l + 1 /\ t' = t
TSpec == TInit /\ [][TStep]_tvars

Mark == TLCSet(t, IF TLCGet(t) < l - 1 THEN l - 1 ELSE TLCGet(t))
ASSUME \A i \in 1..(2 * N) : TLCSet(i, 0)
Report ==
  /\ ndJsonSerialize("bad.ndjson",
        SetToSeq({ [t |-> i, matched |-> TLCGet(i), j |-> "viol"] : i \in { j \in 1..N : TLCGet(j) < Len(Traces[j].ev) } })
     \o SetToSeq({ [t |-> i, matched |-> TLCGet(i), j |-> "drift"] : i \in { j \in 1..N : TLCGet(N + j) = 1 } }))
=============================================================================
