----------------------------- MODULE Reset_Gen -----------------------------
(* TLC as case generator for C13/Reset: the building blocks of histories.      *)
(*   kindsets : every set of <= MaxPlant kinds of the catalogue                  *)
(*   assigns  : every assignment of the (<= MaxPlant) planted kinds to mounts    *)
(*   shapes   : the history shapes                                             *)
(*   configs  : the container configurations of ResetDefs                      *)
(* The orchestrator composes histories from these with the seeded sampler      *)
(* (every kind x every mount x every configuration is covered first).          *)
EXTENDS ResetDefs, TLC, Json
CONSTANTS GenKinds, MaxPlant

(* a program plants up to MaxPlant different kinds, each in a mount of its choice:        *)
(* a run = a kind set K (as a sequence) and an assignment slot -> mount of the same length *)
KindSets == { K \in SUBSET GenKinds : K # {} /\ Cardinality(K) <= MaxPlant }
Assigns(nm) == UNION { [1..k -> 1..nm] : k \in 1..MaxPlant }

Shapes == { <<"run", "run", "reset", "list">>,
            <<"run", "reset", "list", "run", "reset", "list">>,
            <<"run", "list", "reset", "list">>,
            <<"run", "reset", "reset", "list", "run", "list", "reset", "list">>,
            <<"reset", "list", "run", "run", "run", "reset", "list">> }

ASSUME ndJsonSerialize("kindsets.ndjson", SetToSeq({ [kinds |-> SetToSeq(K)] : K \in KindSets }))
MountCounts == { Len(c.mounts) : c \in Configs }
ASSUME ndJsonSerialize("assigns.ndjson", SetToSeq(UNION { { [nm |-> nm, f |-> f] : f \in Assigns(nm) } : nm \in MountCounts }))
ASSUME ndJsonSerialize("shapes.ndjson", SetToSeq({ [shape |-> s] : s \in Shapes }))
ASSUME ndJsonSerialize("configs.ndjson", SetToSeq(Configs))
ASSUME PrintT(<<"generated", Cardinality(KindSets), MountCounts, Cardinality(Shapes), Cardinality(Configs)>>)
VARIABLE x
Init == x = 0
Next == UNCHANGED x
=============================================================================
