--------------------------- MODULE FileSet_Judge ---------------------------
(* TLC as judge for C18 observation lines written by `vdrive c18`.           *)
(* setobs:  [set, q, got]              got = IsInSetSmart result             *)
(* compobs: [where, via, e, b, q, class, got]   got = Handler.Check* verdict *)
EXTENDS FileSet, TLC, Json

SetObs  == ndJsonDeserialize("setobs.ndjson")
CompObs == ndJsonDeserialize("compobs.ndjson")


\* ---- single set: admitting an uncovered path is a violation; refusing a covered one is drift
JudgeSet(o) ==
  LET exp == InSet(ToSet(o.set), o.q)
  IN IF o.got = exp THEN "ok" ELSE IF o.got /\ ~exp THEN "viol" ELSE "drift"

Build(o) ==
  LET base == [EmptySets EXCEPT !.b = ToSet(o.b)]
      E    == ToSet(o.e)
  IN IF E = {} THEN base
     ELSE LET e == CHOOSE x \in E : TRUE IN
          IF o.via = "perm" THEN AddPerm(base, e, o.where)
          ELSE CASE o.where = "write" -> [base EXCEPT !.w = E]
                 [] o.where = "read"  -> [base EXCEPT !.r = E]
                 [] o.where = "stat"  -> [base EXCEPT !.s = E]

Stronger(fs, class, q) ==   \* covered by a set that *implies* this class
  CASE class = "write" -> FALSE
    [] class = "read"  -> InSet(fs.w, q)
    [] class = "stat"  -> InSet(fs.w, q) \/ InSet(fs.r, q)

JudgeComp(o) ==
  LET fs  == Build(o)
      exp == Verdict(fs, o.class, o.q)
  IN IF o.got = exp THEN "ok"
     ELSE IF o.got = "allow" THEN "viol"                       \* uncovered path admitted
     ELSE IF exp = "allow" THEN (IF Stronger(fs, o.class, o.q) THEN "viol" ELSE "drift")
     ELSE "viol"                                               \* ban/kill swapped

BadSet  == { i \in DOMAIN SetObs  : JudgeSet(SetObs[i])   # "ok" }
BadComp == { i \in DOMAIN CompObs : JudgeComp(CompObs[i]) # "ok" }

ASSUME ndJsonSerialize("bad.ndjson",
         SetToSeq({ [kind |-> "set",  i |-> i, j |-> JudgeSet(SetObs[i])]   : i \in BadSet })
      \o SetToSeq({ [kind |-> "comp", i |-> i, j |-> JudgeComp(CompObs[i]),
                     exp |-> Verdict(Build(CompObs[i]), CompObs[i].class, CompObs[i].q)] : i \in BadComp }))
ASSUME PrintT(<<"judged", Len(SetObs), Len(CompObs), Cardinality(BadSet), Cardinality(BadComp)>>)
VARIABLE x
Init == x = 0
Next == UNCHANGED x
=============================================================================
