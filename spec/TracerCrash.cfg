CONSTANTS MaxTasks = 3
SPECIFICATION Spec
PROPERTIES AllDie
CHECK_DEADLOCK FALSE
