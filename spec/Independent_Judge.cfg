INIT Init
NEXT Next
