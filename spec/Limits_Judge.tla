---------------------------- MODULE Limits_Judge ----------------------------
(* TLC as judge for C08: three observation files written by `limits run`.                     *)
(*  rlobs:  [runner, rec, name, inh, got, ign, callerign, status, errlen, setup]               *)
(*                         getrlimit and ignored signals seen by the probe on entry            *)
(*  vobs:   [runner, name, scen, end, prog, arg, cpu, fsize, tl_us, ml_kib, limited, cancelled, *)
(*           status, exit, time_us, mem_kib, report, setup]        limit verdict runs          *)
(*  cobs:   [n, volume, chunk, delay_us, written, werrno, wsig, wexit, blocked,                *)
(*           retained, done, prefix, setup]                        capped collector            *)
(* Verdicts: ok | viol | drift (implementation layer) | model (my model of the kernel / the    *)
(* scenario is off: inconclusive) | setup                                                      *)
EXTENDS Limits, TLC, Json, SequencesExt

RlObs == ndJsonDeserialize("rlobs.ndjson")
VObs  == ndJsonDeserialize("vobs.ndjson")
CObs  == ndJsonDeserialize("cobs.ndjson")

V(j, why, res) == [j |-> j, why |-> why, res |-> res]

(* ------------------------------- rlimits ------------------------------- *)
WrongRes(o) == { res \in Resources : o.got[res + 1] # InForce(o.rec, o.inh, res) }
MinOf(S) == CHOOSE x \in S : \A y \in S : x <= y
JudgeRl(o) ==
  IF o.setup # "" THEN V("setup", "setup", -1)
  ELSE IF o.status = StRunnerError /\ o.errlen = 0 THEN V("viol", "runner-error-without-text", -1)
  ELSE IF ~Settable(o.rec, o.inh) THEN
       IF o.status = StRunnerError THEN V("ok", "", -1)
       ELSE V("model", "kernel-accepted-a-record-it-should-refuse", -1)
  ELSE IF Len(o.got) # 16 THEN
       IF o.status = StRunnerError THEN V("viol", "settable-limits-not-set", -1)
       ELSE V("model", "no-report", -1)
  ELSE IF ~StartDispositionsOK(ToSet(o.ign), ToSet(o.callerign))
       THEN V("viol", "limit-signal-ignored-at-start", MinOf(IgnoredLimitSignals(ToSet(o.ign), ToSet(o.callerign))))
  ELSE IF WrongRes(o) # {} THEN V("viol", "limit-not-in-force", MinOf(WrongRes(o)))
  ELSE IF o.status # StNormal THEN V("viol", "wrong-status", -1)
  ELSE V("ok", "", -1)

(* ------------------------------- verdicts ------------------------------ *)
LastLine(o) == o.report[Len(o.report)]
HasTag(o, tag) == \E i \in DOMAIN o.report : o.report[i].t = tag
TagVal(o, tag) == LET i == CHOOSE i \in DOMAIN o.report : o.report[i].t = tag IN o.report[i].v

\* what ended the program (its own report = kernel truth)
VEnd(o) ==
  IF Len(o.report) = 0 THEN [k |-> "none", n |-> 0]
  ELSE LET l == LastLine(o) IN
    CASE l.t = "exiting"                            -> ExitEnd(l.v)
      [] l.t = "raising"                            -> SigEnd(l.v)       \* hardware fault after the work was done
      [] l.t = "ready" /\ o.cancelled               -> SigEnd(SIGKILL)   \* blocked until the caller cancelled: caller kill
      [] l.t = "growing"                            -> SigEnd(SIGXFSZ)   \* gone in the middle of write()
      [] l.t = "burning" /\ o.arg = 0 /\ o.cpu > 0  -> SigEnd(SIGXCPU)   \* SIGXCPU or the hard limit's SIGKILL: both TLE
      [] OTHER                                      -> [k |-> "unknown", n |-> 0]

IgnAtStart(o) == { o.report[i].v : i \in { j \in DOMAIN o.report : o.report[j].t = "ign" } }
JudgeV(o) ==
  IF o.setup # "" THEN V("setup", "setup", -1)
  ELSE IF HasTag(o, "start") /\ ~StartDispositionsOK(IgnAtStart(o), ToSet(o.callerign))
       THEN V("viol", "limit-signal-ignored-at-start", MinOf(IgnoredLimitSignals(IgnAtStart(o), ToSet(o.callerign))))
  ELSE LET e == VEnd(o) IN
  IF o.status = StRunnerError THEN
       (IF o.errlen = 0 THEN V("viol", "runner-error-without-text", -1)
        ELSE IF HasTag(o, "start") THEN V("viol", "runner-error-for-a-program-that-ran", -1)
        ELSE V("setup", "not-launched", -1))
  ELSE IF o.limited /\ ~HasTag(o, "start") /\ o.status = StMLE /\ o.mem_kib > o.ml_kib THEN
       \* the bound is below the image the child was forked from: verdict before the program ran
       V("vacuous", "bound-below-the-runner's-own-size", -1)
  ELSE IF e.k \notin {"exit", "signal"} THEN
       \* a limited runner may end the run at any wait event once a measurement is above its bound
       IF o.limited /\ HasTag(o, "start")
          /\ o.status = ExpectedStatus(TRUE, o.time_us, o.mem_kib, o.tl_us, o.ml_kib, ExitEnd(0))
          /\ o.status \in {StMLE, StTLE}
       THEN V("ok", "", -1) ELSE V("model", "end-unknown", -1)
  ELSE LET exp == ExpectedStatus(o.limited, o.time_us, o.mem_kib, o.tl_us, o.ml_kib, e)
           wit == HasTag(o, "utime_us") /\ HasTag(o, "maxrss_kib") IN
       \* the scenario must exercise what its name says, otherwise the run proves nothing
       IF /\ o.scen = "fsize-over" /\ ~(e = SigEnd(SIGXFSZ) \/ (Pid1(o.runner) /\ e = ExitEnd(97))) THEN V("model", "scenario", -1)
       ELSE IF o.scen = "mem-over" /\ ~(wit /\ TagVal(o, "maxrss_kib") > o.ml_kib) THEN V("model", "scenario", -1)
       ELSE IF o.scen = "time-over" /\ ~(wit /\ TagVal(o, "utime_us") > o.tl_us) THEN V("model", "scenario", -1)
       ELSE IF o.scen = "cpu-rlimit" /\ e.k # "signal" THEN V("model", "scenario", -1)
       \* the runner's measurements can not be below what the program saw itself before it ended
       ELSE IF wit /\ (o.mem_kib < TagVal(o, "maxrss_kib") \/ o.time_us < TagVal(o, "utime_us"))
            THEN V("viol", "measurement-below-the-program's-own", -1)
       \* property layer: the program's own figures exceed the bound => the limit verdict
       ELSE IF o.limited /\ wit /\ TagVal(o, "maxrss_kib") > o.ml_kib /\ o.status # StMLE THEN V("viol", "memory-bound-exceeded-not-reported", StMLE)
       ELSE IF o.limited /\ wit /\ TagVal(o, "utime_us") > o.tl_us /\ o.status \notin {StTLE, StMLE} THEN V("viol", "time-bound-exceeded-not-reported", StTLE)
       ELSE IF o.status # exp THEN V("viol", "wrong-status", exp)
       ELSE IF exp = Classify(e).status /\ ExitPinned(exp) /\ o.exit # e.n THEN V("viol", "wrong-exit-value", exp)
       \* implementation layer: where the program is not pid 1 the soft CPU limit's SIGXCPU ends it, well
       \* before the hard limit
       ELSE IF o.scen = "cpu-rlimit" /\ ~Pid1(o.runner) /\ 2 * o.time_us >= (o.cpu + o.cpuHard) * 1000000
            THEN V("drift", "ended-at-the-hard-cpu-limit", exp)
       ELSE V("ok", "", exp)

(* ------------------------------- collector ----------------------------- *)
JudgeC(o) ==
  IF o.setup # "" THEN V("setup", "setup", -1)
  ELSE IF o.blocked THEN V("viol", "writer-blocked", -1)
  ELSE IF o.wsig # 0 \/ o.werrno # 0 THEN V("viol", "writer-broken", -1)
  ELSE IF o.wexit # 0 \/ o.written # o.volume THEN V("model", "writer", -1)
  ELSE IF ~o.done THEN V("drift", "collector-not-done", -1)
  ELSE IF o.retained > o.n + 1 THEN V("viol", "retained-more-than-cap-plus-one", -1)
  ELSE IF o.retained # Retained(o.written, o.n) THEN V("drift", "retained-not-min(written,N+1)", -1)
  ELSE IF ~o.prefix THEN V("drift", "retained-not-a-prefix", -1)
  ELSE V("ok", "", -1)

BadRl == { i \in DOMAIN RlObs : JudgeRl(RlObs[i]).j # "ok" }
BadV  == { i \in DOMAIN VObs  : JudgeV(VObs[i]).j # "ok" }
BadC  == { i \in DOMAIN CObs  : JudgeC(CObs[i]).j # "ok" }
ASSUME ndJsonSerialize("bad.ndjson",
          SetToSeq({ [kind |-> "rl", i |-> i] @@ JudgeRl(RlObs[i]) : i \in BadRl })
       \o SetToSeq({ [kind |-> "v",  i |-> i] @@ JudgeV(VObs[i])   : i \in BadV })
       \o SetToSeq({ [kind |-> "c",  i |-> i] @@ JudgeC(CObs[i])   : i \in BadC }))
ASSUME PrintT(<<"judged", Len(RlObs), Len(VObs), Len(CObs), Cardinality(BadRl), Cardinality(BadV), Cardinality(BadC)>>)
VARIABLE x
Init == x = 0
Next == UNCHANGED x
=============================================================================
