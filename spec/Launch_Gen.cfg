CONSTANTS
  C04Pairs = {0, 1537, 262143}
  C04Seq = {33, 70}
  C07Bases = {0, 32769}
INIT Init
NEXT Next
