CONSTANTS CollectN = {0, 1, 2, 100, 4095, 4096, 65535, 65536, 65537, 1048576}
  SlowMax = 5000
  RecMaxDev = 8
INIT Init
NEXT Next
