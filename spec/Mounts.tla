------------------------------- MODULE Mounts -------------------------------
(***************************************************************************)
(* C05 -- the two mount sequences as a state machine, one action per        *)
(* syscall, over every mount table of the menu (MountsBase).                *)
(*                                                                         *)
(* Init picks a configuration (table of <= MaxLen entries, implementation,  *)
(* container options) and an environment; each step executes the next       *)
(* syscall of the code's sequence (Prog) against the kernel model (Apply).  *)
(* The invariants are the property sentence evaluated in the state in which *)
(* the sandboxed program is started (Done).                                 *)
(*                                                                         *)
(* The state holds indices (ci, ei) into the constant tables CfgSeq/EnvSeq  *)
(* instead of the records themselves: it keeps the states small (measured:  *)
(* 4x faster than carrying the program in the state).                       *)
(***************************************************************************)
EXTENDS MountsBase, TLC

CONSTANTS Menu,          \* entry kinds the tables are made of (Kinds | KindsCore of MountsBase)
          MaxLen,        \* longest mount table
          ContOpts,      \* set of <<linkm, maskm, devnull>> explored for the container
          Envs           \* set of environments

\* option sets usable from a .cfg: ContOpts <- ContOptsAll | ContOptsMain (MountsBase)
\* which maskable procfs entries exist, mount flags of the file systems holding the sources
ProcSome == { [p |-> <<"keys">>, t |-> "f"], [p |-> <<"timer_list">>, t |-> "f"], [p |-> <<"acpi">>, t |-> "d"] }
EnvHere  == [proc |-> ProcSome, srcfl |-> {"RELATIME"}, lockfl |-> {"NOSUID", "NODEV", "NOEXEC", "RELATIME"},
             sharefl |-> {"RELATIME"}, shared |-> TRUE, flipfl |-> {"RELATIME"}]
EnvOther == [proc |-> ProcSome, srcfl |-> {"NOSUID", "NODEV", "RELATIME"}, lockfl |-> {"NOSUID", "NOATIME"},
             sharefl |-> {"NOSUID", "RELATIME"}, shared |-> FALSE, flipfl |-> {"NODEV", "RELATIME"}]
EnvsOne  == { EnvHere }
EnvsTwo  == { EnvHere, EnvOther }

ForkCfgs == ForkCfgsOver(Menu, MaxLen)
ContCfgs == ContCfgsOver(Menu, MaxLen, ContOpts)
Cfgs == ForkCfgs \cup ContCfgs

\* constant tables (TLCEval: evaluated eagerly, once -- TLC keeps function constructors lazy otherwise)
CfgSeq  == TLCEval(SetToSeq(Cfgs))
EnvSeq  == TLCEval(SetToSeq(Envs))
ProgSeq == TLCEval([i \in DOMAIN CfgSeq |-> TLCEval([e \in DOMAIN EnvSeq |-> TLCEval(Prog(CfgSeq[i], EnvSeq[e]))])])

VARIABLES ci, ei, pc, st, hm      \* hm: the host has mounted below the shared sources (program running)
vars == <<ci, ei, pc, st, hm>>
cfg  == CfgSeq[ci]
env  == EnvSeq[ei]
prog == ProgSeq[ci][ei]

Init ==
  /\ ci \in DOMAIN CfgSeq
  /\ ei \in DOMAIN EnvSeq
  /\ pc = 1
  /\ st = St0
  /\ hm = FALSE

Running == pc <= Len(prog) /\ ~st.fail
Done    == pc > Len(prog) /\ ~st.fail

\* conditional steps that are not taken are passed over together with the step before them
RECURSIVE SkipFrom(_, _)
SkipFrom(s, p) == IF p <= Len(prog) /\ Skipped(s, prog[p]) THEN SkipFrom(s, p + 1) ELSE p
NextPc(s, p) == SkipFrom(s, p + 1)

\* one action per syscall kind
At(k) == Running /\ prog[pc].k = k
Step  == /\ st' = Apply(st, prog[pc], env)
         /\ pc' = NextPc(st', pc)
         /\ UNCHANGED <<ci, ei, hm>>
MakePrivate == At("private")   /\ Step      \* mount("none", "/", MS_REC|MS_PRIVATE)
MountRoot   == At("mountroot") /\ Step      \* mount("tmpfs", root, "tmpfs")
Chdir       == At("chdir")     /\ Step
Mkdir       == At("mkdir")     /\ Step      \* mkdirat per prefix of a target / old_root / link directories
Mknod       == At("mknod")     /\ Step      \* mknodat for the last prefix of a file bind
Mount       == At("mount")     /\ Step      \* mount(source, target, fstype, flags)
Statfs      == At("statfs")    /\ Step      \* statfs(source) before the read-only bind remount
Remount     == At("remount")   /\ Step      \* MS_REMOUNT|MS_BIND (read-only binds, and "/" at the end)
PivotRoot   == At("pivot")     /\ Step
Umount      == At("umount")    /\ Step      \* umount2("old_root", MNT_DETACH)
Rmdir       == At("rmdir")     /\ Step
Symlink     == At("symlink")   /\ Step
MaskBind    == At("maskbind")  /\ Step      \* maskPath: bind /dev/null
MaskStat    == At("maskstat")  /\ Step
MaskTmpfs   == At("masktmp")   /\ Step      \* maskPath: read-only tmpfs over a directory
MaskMkTemp  == At("maskmk")    /\ Step      \* maskPath without /dev/null: empty file ...
MaskBindTmp == At("maskbinde") /\ Step      \* ... bound over the file ...
MaskRemount == At("maskro")    /\ Step      \* ... read-only ...
MaskRmTemp  == At("maskrm")    /\ Step      \* ... and unlinked

\* environment: while the program runs the host mounts a file system below every shared source
HostMount == /\ pc > Len(prog) /\ ~st.fail /\ ~hm
             /\ st' = HostMounted(st, env)
             /\ hm' = TRUE
             /\ UNCHANGED <<ci, ei, pc>>

Next == \/ HostMount \/ MakePrivate \/ MountRoot \/ Chdir \/ Mkdir \/ Mknod \/ Mount \/ Statfs \/ Remount
        \/ PivotRoot \/ Umount \/ Rmdir \/ Symlink \/ MaskBind \/ MaskStat \/ MaskTmpfs
        \/ MaskMkTemp \/ MaskBindTmp \/ MaskRemount \/ MaskRmTemp
Spec == Init /\ [][Next]_vars

\* no action is vacuous: already over the tables of <= 1 entry every kind of syscall is executed
\* (TLC -coverage says the same per named action, but costs 5x; VERIF_C05_COVERAGE=1 runs it)
ASSUME NoVacuousAction ==
  UNION { Final(c, e).seen : c \in ForkCfgsOf(1) \cup ContCfgsOf(1, ContOptsAll), e \in EnvsTwo } = OpKinds

\* ------------------------------------------------------------------ invariants
\* every table of the menu can be built: no syscall of the sequence fails fatally
NoFailure == ~st.fail
\* the state machine and the fold used by the judge are the same function
FoldAgrees == (Done /\ ~hm) => st = Final(cfg, env)
\* the host tree is reachable only until the old root is detached, and the program never runs before
HostOnlyDuringSetup == Done => ~HostReachable(st)

\* no mount of the sandbox receives propagation from the host
NoPropagation == Done => AllPrivate(st)

\* the property sentence, in the state in which the program starts and after the host mounted
\* something below the shared sources (Done holds in both)
RootIsReadOnly      == Done => RootReadOnly(st, env)
OldRootUnreachable  == Done => OldRootGone(st, env)
OnlyConfiguredNames == Done => OnlyConfigured(cfg, st, env)
DeclaredRoEndsRo    == Done => \A i \in DOMAIN Effective(cfg) :
                                  (Effective(cfg)[i].ro /\ ~DeclHidden(Effective(cfg), i))
                                    => ~Writable(st, Effective(cfg)[i].tgt, env)
WritableIffDecl     == Done => WritableIffDeclared(cfg, st, env)
MaskedRevealNothing == Done => MasksHold(cfg, st, env)
\* every mount that is not declared writable rejects modifications -- mask mounts included: a writable
\* mount is a table entry without MS_RDONLY, or /dev/null itself (declared writable by its entry) put over a masked file
OnlyDeclaredWritable ==
  Done => \A j \in DOMAIN st.mt : WritableM(st.mt[j]) =>
            \/ \E i \in DOMAIN Effective(cfg) : Effective(cfg)[i].tgt = st.mt[j].at /\ ~Effective(cfg)[i].ro
                                                  /\ (IsBind(Effective(cfg)[i]) => st.mt[j].id = Effective(cfg)[i].src)
            \/ st.mt[j].id = "devnull" /\ cfg.devnull

\* printed with counterexamples
Alias == [cfg |-> cfg, env |-> env, pc |-> pc, hm |-> hm, op |-> IF pc <= Len(prog) THEN prog[pc] ELSE "end", st |-> st]
=============================================================================
