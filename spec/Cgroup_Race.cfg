CONSTANTS G = 3
  K = 2
  Names = {"x", "y"}
  AtomicMkdir = TRUE
SPECIFICATION Spec
INVARIANTS OneOwner OneCreator PreSafe OwnerKeeps
CHECK_DEADLOCK FALSE
