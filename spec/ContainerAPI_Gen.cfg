CONSTANTS NRandom = 50
  Level = 2
INIT Init
NEXT Next
