---------------------------- MODULE Reset_Trace ----------------------------
(* Trace validation for C13/Reset.  Each line of traces.ndjson is one history   *)
(* recorded on a real container:                                                *)
(*   [id, cfg (name of a ResetDefs!Configs entry), nofile (RLIMIT_NOFILE of the *)
(*    driver = of the container init), ev |-> << event ... >>]                  *)
(*   run   : plants <<[k, m]>>, status, planted <<[k, top, errno]>>             *)
(*   reset : ok                                                                 *)
(*   list  : by ("host" through /proc/<init>/root | "prog" = a later program),  *)
(*           ls <<[n, names]>> one per configured mount                         *)
(* One behaviour per history; an event is enabled only through the spec action. *)
(* Register t = high-water mark of matched events; register N+t = 1 when the    *)
(* return value of Reset differs from the implementation-layer prediction.      *)
EXTENDS ResetDefs, TLC, Json
Traces == ndJsonDeserialize("traces.ndjson")
N == Len(Traces)
VARIABLES t, l, content, nrun
tvars == <<t, l, content, nrun>>

Cfg(name) == CHOOSE c \in Configs : c.name = name
C(i) == Cfg(Traces[i].cfg)

TInit ==
  /\ t \in 1..N /\ l = 1 /\ nrun = 0
  /\ content = [m \in DOMAIN C(t).mounts |-> {}]

CountOf(c) == FoldSet(LAMBDA e, acc : acc + TopCount(e[1]), 0, c)   \* top-level entries of a mount

ERun(e) ==
  /\ e.status = "Normal"
  /\ Len(e.planted) = Len(e.plants)
  /\ \A i \in DOMAIN e.plants :
       /\ e.planted[i].k = e.plants[i].k /\ e.planted[i].errno = 0
       /\ e.planted[i].top = TopCount(e.plants[i].k)
  /\ nrun' = nrun + 1
  /\ content' = PlantP(content, { <<e.plants[i].k, e.plants[i].m>> : i \in DOMAIN e.plants }, nrun + 1)

EReset(e) ==
  LET r == ResetWholeP(C(t).parent, FALSE, content) IN
  /\ content' = r.c                     \* property layer: nothing is left, whatever Reset returned
  /\ LET stuck == \E m \in DOMAIN content : \E x \in content[m] : Unremovable(x[1], Traces[t].nofile)
     IN (e.ok = (r.err \/ stuck) => TLCSet(N + t, 1))  \* implementation layer: error exactly for a tmpfs inside
                                                        \* a tmpfs or a chain deeper than the descriptor limit
  /\ UNCHANGED nrun

(* a listing that could not be taken (the listing program failed, the directory could not *)
(* be read) judges nothing: flagged as a set-up problem (register 2N+t)                     *)
EList(e) ==
  /\ Len(e.ls) = Len(C(t).mounts)
  /\ IF (e.by = "prog" /\ e.status # "Normal") \/ \E i \in DOMAIN e.ls : e.ls[i].n < 0
       THEN TLCSet(2 * N + t, 1)
       ELSE \A i \in DOMAIN e.ls :
              LET kids == Children(C(t).parent, i) IN
              /\ e.ls[i].n = CountOf(content[i]) + Cardinality(kids)
              /\ (content[i] = {} => ToSet(e.ls[i].names) = { C(t).base[j] : j \in kids })
  /\ UNCHANGED <<content, nrun>>

TStep ==
  /\ l <= Len(Traces[t].ev)
  /\ LET e == Traces[t].ev[l] IN
       CASE e.e = "run"   -> ERun(e)
         [] e.e = "reset" -> EReset(e)
         [] e.e = "list"  -> EList(e)
  /\ l' = l + 1 /\ t' = t
TSpec == TInit /\ [][TStep]_tvars

Mark == TLCSet(t, IF TLCGet(t) < l - 1 THEN l - 1 ELSE TLCGet(t))
ASSUME \A i \in 1..(3 * N) : TLCSet(i, 0)
Report ==
  ndJsonSerialize("bad.ndjson",
        SetToSeq({ [t |-> i, matched |-> TLCGet(i), j |-> "reject"] : i \in { j \in 1..N : TLCGet(j) < Len(Traces[j].ev) } })
     \o SetToSeq({ [t |-> i, matched |-> TLCGet(i), j |-> "drift"] : i \in { j \in 1..N : TLCGet(N + j) = 1 } })
     \o SetToSeq({ [t |-> i, matched |-> TLCGet(i), j |-> "setup"] : i \in { j \in 1..N : TLCGet(2 * N + j) = 1 } }))
=============================================================================
