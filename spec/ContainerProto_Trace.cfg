CONSTANTS MaxCalls = 0
  Ops = {}
  AllowDestroy = TRUE
  AllowCrash = FALSE
  FixEatKill = TRUE
  ReapOnRefusal = TRUE
  FixDonePrio = TRUE
  AllowDeadline = TRUE
  DeadlineBreaks = TRUE
SPECIFICATION TSpec
CONSTRAINT Mark
POSTCONDITION Report
CHECK_DEADLOCK FALSE
