------------------------- MODULE PolicyAssembly_Gen -------------------------
(* TLC writes the assembly cases: which names go into which of the four extra lists. *)
EXTENDS PolicyAssembly, TLC, Json, FiniteSetsExt
CONSTANTS MaxLists      \* how many of the four lists may be non-empty at once

One(S) == { {} } \cup { {n} : n \in S }
Combos == { c \in [rraw : One(RawNames), rext : One(ExtNames), wraw : One(RawNames), wext : One(ExtNames)] :
              Cardinality({ f \in {"rraw", "rext", "wraw", "wext"} : c[f] # {} }) <= MaxLists }
Cases == { [rraw |-> SetToSeq(c.rraw), rext |-> SetToSeq(c.rext), wraw |-> SetToSeq(c.wraw), wext |-> SetToSeq(c.wext)] : c \in Combos }
ASSUME ndJsonSerialize("asmcases.ndjson", SetToSeq(Cases))
ASSUME ndJsonSerialize("asmqueries.ndjson", SetToSeq({ [q |-> q] : q \in Queries }))
ASSUME PrintT(<<"assembly cases", Cardinality(Cases), Cardinality(Queries)>>)
VARIABLE x
Init == x = 0
Next == UNCHANGED x
=============================================================================
