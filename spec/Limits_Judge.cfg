INIT Init
NEXT Next
