--------------------------- MODULE StatusRunners ---------------------------
(***************************************************************************)
(* C09, implementation layer: the three copies of the status mapping,      *)
(* transcribed, running against a small model of the kernel side of a run  *)
(* (main process, at most one child or re-parented descendant, wait        *)
(* events, signal-delivery-stops).                                         *)
(*                                                                         *)
(*   ptrace     ptracer/tracer_track_linux.go  ptraceHandle.handle         *)
(*   unshare    runner/unshare/run_linux.go    Run, wait loop              *)
(*   container  container/container_exec_linux.go convertReply (in init)   *)
(*              container/host_exec_linux.go   convertReplyResult (host)   *)
(*                                                                         *)
(* TLC checks, for every attempt to end x runner x child behaviour and all *)
(* orders in which the tracer can see the events, that the reported result *)
(* is the documented one (Status!Classify) for what really ended the main  *)
(* process, and that Runner Error always carries a text.                   *)
(* DeliverTrap = FALSE is the code as found (a genuine SIGTRAP is          *)
(* discarded by the tracer): TLC then reports FateOK violated.             *)
(***************************************************************************)
EXTENDS Status, TLC

CONSTANTS ChildCodes,    \* exit codes used by a child that exits first
          ChildSigs,     \* signals a child is killed by
          ExtSigs,       \* signals the caller sends from outside
          MCExits,       \* exit codes explored (0..255 in the thorough tier)
          DeliverTrap,   \* BOOLEAN: tracer hands a genuine SIGTRAP to the tracee
          LowByteSignal, \* BOOLEAN: the namespace runner takes the whole low byte of the wait status as the
                         \* signal (FALSE = the code: WaitStatus.Signal(); TRUE shows what that would break)
          RelabelOnCancel, \* BOOLEAN: the container host turns every result it receives after a cancel into TLE
                         \* (FALSE = the code: the reply of init is reported as it is)
          ContainerSigTable, \* 0 = the code (a switch over the signal); k > 0: a lookup table with k entries
                         \* guarded by `sig < k`, signals >= k keep the initial StatusNormal
          WaitGroup      \* BOOLEAN: the container init waits for the program's process group (-pid)
                         \* instead of the program (FALSE = the code; TRUE shows what that would break)

VARIABLES runner, att, child, execved, mpc, mws, kpc, kws, result, actual,
          core,          \* core dumps enabled for the program (RLIMIT_CORE > 0, writable work dir)
          cancel         \* the caller cancels its context after the program has ended by itself
vars == <<runner, att, child, execved, mpc, mws, kpc, kws, result, actual, core, cancel>>

None == [k |-> "none", n |-> 0]
NoWs == [t |-> "none", n |-> 0, raw |-> 0]
Exited(n)   == [t |-> "exited",   n |-> n, raw |-> 0]
\* wait status of a process ended by signal s: the low byte is s, plus 0x80 when a core was dumped;
\* WaitStatus.Signal() masks the flag off (n), the raw low byte does not (raw)
SignaledC(s, c) == [t |-> "signaled", n |-> s, raw |-> s + (IF c /\ s \in CoreSigs THEN 128 ELSE 0)]
Signaled(s) == SignaledC(s, FALSE)
Stopped(s)  == [t |-> "stopped",  n |-> s, raw |-> 0]
NoResult == [status |-> StInvalid, exit |-> 0, err |-> ""]
Res(st, ex, er) == [status |-> st, exit |-> ex, err |-> er]

Attempts ==
       { [kind |-> "exit",  n |-> n] : n \in MCExits }
  \cup { [kind |-> "raise", n |-> s] : s \in TermSignals }
  \cup { [kind |-> "fault", n |-> s] : s \in FaultSigs }
  \cup { [kind |-> "sys",   n |-> SIGSYS] }
  \cup { [kind |-> "ext",   n |-> s] : s \in ExtSigs }
  \cup { [kind |-> "badexec", n |-> 0] }

Children ==
       { [k |-> "none", n |-> 0], [k |-> "outlive", n |-> 0] }
  \cup { [k |-> "exitfirst", n |-> c] : c \in ChildCodes }
  \cup { [k |-> "killed", n |-> s] : s \in ChildSigs }
  \* re-parented descendant (double fork): not a child of the main process any more, still in its
  \* process group, ends before the main process does
  \cup { [k |-> "orphanexit", n |-> c] : c \in ChildCodes }
  \cup { [k |-> "orphankilled", n |-> s] : s \in ChildSigs }

(* ----------------------- the three transcriptions ---------------------- *)
SwitchSignal(s) ==      \* the switch that appears, identically, in all three copies
  CASE s = SIGXCPU \/ s = SIGKILL -> StTLE
    [] s = SIGXFSZ                -> StOLE
    [] s = SIGSYS                 -> StBanned
    [] OTHER                      -> StSignalled

\* ptraceHandle.handle(pid, wstatus): [status, exit, err, finished, cont]
\* cont: what happens to the stopped tracee: "none" | "suppress" (PtraceCont(pid, 0)) | "deliver"
H(st, ex, er, fin, cont) == [status |-> st, exit |-> ex, err |-> er, finished |-> fin, cont |-> cont]
PtraceHandle(isMain, ws, ev) ==
  CASE ws.t = "exited" ->
         IF isMain
         THEN IF ev THEN H(IF ws.n = 0 THEN StNormal ELSE StNonzero, ws.n, "", TRUE, "none")
                    ELSE H(StRunnerError, 0, "child process exit before execve", TRUE, "none")
         ELSE H(StNormal, 0, "", FALSE, "none")
    [] ws.t = "signaled" ->
         IF isMain THEN H(SwitchSignal(ws.n), ws.n, "", FALSE, "none")
         ELSE H(StNormal, 0, "", FALSE, "none")
    [] ws.t = "stopped" ->
         IF ws.n = SIGTRAP          \* trap cause 0: not a ptrace event
         THEN H(StNormal, 0, "", FALSE, IF DeliverTrap /\ ev THEN "deliver" ELSE "suppress")
         ELSE IF ws.n = SIGXCPU THEN H(StTLE, 0, "", FALSE, "none")
         ELSE IF ws.n = SIGXFSZ THEN H(StOLE, 0, "", FALSE, "none")
         ELSE H(StNormal, 0, "", FALSE, "deliver")

\* runner/unshare Run: Wait4(pgid) only ever returns the main process, exited or signaled
UnshareResult(ws) ==
  IF ws.t = "exited" THEN Res(IF ws.n # 0 THEN StNonzero ELSE StNormal, ws.n, "")
  ELSE LET sig == IF LowByteSignal THEN ws.raw ELSE ws.n IN Res(SwitchSignal(sig), sig, "")

\* container: init converts the wait status into a reply, the host converts the reply
InitReply(ws) ==
  CASE ws.t = "exited"   -> [error |-> "", status |-> IF ws.n # 0 THEN StNonzero ELSE StNormal, exit |-> ws.n]
    [] ws.t = "signaled" -> [error |-> "", exit |-> ws.n,
                             status |-> IF ContainerSigTable > 0 /\ ws.n >= ContainerSigTable THEN StNormal ELSE SwitchSignal(ws.n)]
    [] OTHER             -> [error |-> "execve: unknown status", status |-> StInvalid, exit |-> 0]
HostResult(rep) ==
  IF rep.error # "" THEN Res(StRunnerError, 0, rep.error) ELSE Res(rep.status, rep.exit, "")

(* ------------------------------ behaviour ------------------------------ *)
Init ==
  /\ runner \in Runners /\ att \in Attempts /\ child \in Children
  /\ att.kind = "ext" => runner # "cafter"        \* host never learns the program's pid there
  /\ att.kind = "badexec" => child.k = "none"
  /\ execved = (att.kind # "badexec")
  /\ mpc = "fork" /\ mws = NoWs /\ kpc = "absent" /\ kws = NoWs
  /\ result = NoResult /\ actual = None
  /\ core \in BOOLEAN
  /\ cancel \in BOOLEAN
  /\ cancel => runner \in {"cbefore", "cafter"} /\ child.k = "none" /\ ~core /\ att.kind # "badexec"
  /\ core => att.kind \in {"raise", "fault", "sys"} /\ SignalOf(att.kind, att.n) \in CoreSigs

Running == result = NoResult

\* launch of a file that does not exist
StartFails ==
  /\ Running /\ att.kind = "badexec" /\ mpc = "fork"
  /\ IF runner = "ptrace"
     THEN \* Start() succeeds (the child is stopped before exec), exec fails, the child exits
          /\ mpc' = "dead" /\ mws' = Exited(1) /\ UNCHANGED result
     ELSE /\ result' = Res(StRunnerError, 0, "execve: no such file or directory")
          /\ UNCHANGED <<mpc, mws, core, cancel>>
  /\ UNCHANGED <<runner, att, child, execved, kpc, kws, actual, core, cancel>>

MainFork ==
  /\ Running /\ mpc = "fork" /\ att.kind # "badexec"
  /\ CASE child.k = "none"    -> mpc' = "act" /\ UNCHANGED kpc
       [] child.k = "outlive" -> mpc' = "act" /\ kpc' = "sleep"
       [] OTHER               -> mpc' = "waitkid" /\ kpc' = "act"
  /\ UNCHANGED <<runner, att, child, execved, mws, kws, result, actual, core, cancel>>

KidAct ==
  /\ Running /\ kpc = "act"
  /\ IF child.k \in {"exitfirst", "orphanexit"} THEN kpc' = "dead" /\ kws' = Exited(child.n)
     ELSE IF runner = "ptrace" /\ child.n # SIGKILL
          THEN kpc' = "stopped" /\ kws' = Stopped(child.n)
          ELSE kpc' = "dead" /\ kws' = Signaled(child.n)
  /\ UNCHANGED <<runner, att, child, execved, mpc, mws, result, actual, core, cancel>>

KidAfter ==    \* the child's signal did not end it
  /\ Running /\ kpc = "after"
  /\ kpc' = "dead" /\ kws' = Exited(95)
  /\ UNCHANGED <<runner, att, child, execved, mpc, mws, result, actual, core, cancel>>

\* waitpid() in the main process returns once the child is dead; a traced child is handed
\* back to its real parent only after the tracer has seen its end
Orphan == child.k \in {"orphanexit", "orphankilled"}
MainWaitKid ==
  /\ Running /\ mpc = "waitkid"
  /\ IF Orphan
     THEN \* the main process only learns (EOF on a pipe) that the orphan is gone; somebody else reaps it
          kpc \in {"dead", "reaped"} /\ UNCHANGED kpc
     ELSE (IF runner = "ptrace" THEN kpc = "reaped" ELSE kpc = "dead") /\ kpc' = "reaped"
  /\ mpc' = "act"
  /\ UNCHANGED <<runner, att, child, execved, mws, kws, result, actual, core, cancel>>

MainAct ==
  /\ Running /\ mpc = "act"
  /\ LET s == SignalOf(att.kind, att.n) IN
     IF att.kind = "exit"
     THEN mpc' = "dead" /\ mws' = Exited(att.n) /\ actual' = ExitEnd(att.n)
     ELSE IF ~KernelFatal(runner, att.kind, s)
     THEN mpc' = "after" /\ UNCHANGED <<mws, actual, core, cancel>>
     ELSE IF runner = "ptrace" /\ StopsFirst(att.kind, s)
     THEN mpc' = "stopped" /\ mws' = Stopped(s) /\ UNCHANGED actual
     ELSE mpc' = "dead" /\ mws' = SignaledC(s, core) /\ actual' = SigEnd(s)
  /\ UNCHANGED <<runner, att, child, execved, kpc, kws, result, core, cancel>>

MainAfter ==
  /\ Running /\ mpc = "after"
  /\ mpc' = "dead" /\ mws' = Exited(SurvivorExit) /\ actual' = ExitEnd(SurvivorExit)
  /\ UNCHANGED <<runner, att, child, execved, kpc, kws, result, core, cancel>>

\* one iteration of the tracer loop: wait4(-pgid) returns any pending event
TracerMain ==
  /\ Running /\ runner = "ptrace" /\ mpc \in {"stopped", "dead"}
  /\ LET h == PtraceHandle(TRUE, mws, execved) IN
     IF h.finished \/ h.status # StNormal
     THEN /\ result' = Res(h.status, h.exit, h.err)
          \* a main process stopped at the delivery of s is killed by the runner: s is what ended it
          /\ actual' = IF mpc = "stopped" THEN SigEnd(mws.n) ELSE actual
          /\ UNCHANGED <<mpc, mws, core, cancel>>
     ELSE /\ UNCHANGED result
          /\ IF h.cont = "suppress" THEN mpc' = "after" /\ mws' = NoWs /\ UNCHANGED actual
             ELSE mpc' = "dead" /\ mws' = SignaledC(mws.n, core) /\ actual' = SigEnd(mws.n)
  /\ UNCHANGED <<runner, att, child, execved, kpc, kws, core, cancel>>

TracerKid ==
  /\ Running /\ runner = "ptrace" /\ kpc \in {"stopped", "dead"}
  /\ LET h == PtraceHandle(FALSE, kws, execved) IN
     IF h.finished \/ h.status # StNormal
     THEN result' = Res(h.status, h.exit, h.err) /\ UNCHANGED <<kpc, kws, core, cancel>>
     ELSE /\ UNCHANGED result
          /\ IF kpc = "dead" THEN kpc' = "reaped" /\ UNCHANGED kws
             ELSE IF h.cont = "suppress" THEN kpc' = "after" /\ kws' = NoWs
             ELSE kpc' = "dead" /\ kws' = Signaled(kws.n)
  /\ UNCHANGED <<runner, att, child, execved, mpc, mws, actual, core, cancel>>

Waiter ==      \* unshare: Wait4(pgid); container: waitLoop Wait4(pid) + the two conversions
  /\ Running /\ runner # "ptrace" /\ mpc = "dead"
  /\ result' = IF runner = "unshare" THEN UnshareResult(mws)
               ELSE \* waitForDone: "result" branch, or "cancelled" branch (kill, then the same reply)
                    LET rp == InitReply(mws) IN
                    HostResult(IF cancel /\ RelabelOnCancel /\ rp.error = "" THEN [rp EXCEPT !.status = StTLE] ELSE rp)
  /\ UNCHANGED <<runner, att, child, execved, mpc, mws, kpc, kws, actual, core, cancel>>

\* Only with WaitGroup: in the container the orphan is a child of init (pid 1) and still in the
\* program's process group, so wait4(-pid) may return it
WaiterGroup ==
  /\ Running /\ WaitGroup /\ runner \in {"cbefore", "cafter"} /\ Orphan /\ kpc = "dead"
  /\ result' = HostResult(InitReply(kws))
  /\ UNCHANGED <<runner, att, child, execved, mpc, mws, kpc, kws, actual, core, cancel>>

Next == WaiterGroup \/ StartFails \/ MainFork \/ KidAct \/ KidAfter \/ MainWaitKid \/ MainAct \/ MainAfter
        \/ TracerMain \/ TracerKid \/ Waiter
Spec == Init /\ [][Next]_vars /\ WF_vars(Next)

(* ------------------------------ properties ----------------------------- *)
Reported == result # NoResult
\* under ptrace the delivery of SIGXCPU / SIGXFSZ to *any* traced process ends the run with
\* TLE / OLE (deliberate: an rlimit hit anywhere in the tree); not part of the property layer
Judged == ~(runner = "ptrace" /\ child.k \in {"killed", "orphankilled"} /\ child.n \in {SIGXCPU, SIGXFSZ})

VerdictOK ==
  Reported /\ att.kind # "badexec" /\ Judged =>
     /\ actual # None
     /\ Conforms([status |-> result.status, exit |-> result.exit], actual)
ErrorOK == Reported /\ result.status = StRunnerError => result.err # ""
RunnerErrorOnlyForRunner == Reported /\ result.status = StRunnerError => att.kind = "badexec"
BadExecIsRunnerError == Reported /\ att.kind = "badexec" => result.status = StRunnerError
ChildLimitImpl ==
  Reported /\ ~Judged => result.status = (IF child.n = SIGXCPU THEN StTLE ELSE StOLE)
\* the kernel model agrees with Status!IntendedEnd (used by the judge to cross-check real runs)
FateOK == actual # None => actual = IntendedEnd(runner, att.kind, att.n)
\* implementation layer: exit value in the classes where the table does not pin it
ImplExit(r, kind, n) ==
  LET s == SignalOf(kind, n) IN
  IF r = "ptrace" /\ StopsFirst(kind, s) /\ s \in {SIGXCPU, SIGXFSZ} THEN 0 ELSE s
ImplExitOK ==
  Reported /\ Judged /\ actual # None /\ actual.k = "signal" => result.exit = ImplExit(runner, att.kind, att.n)

EveryRunReported == <>Reported
=============================================================================
