CONSTANTS Vals = {0, 1, 2, 3, 4, 7}
          WithClose = TRUE
          MaxLen = 2
          PipePos = {1, 2, 3, 4, 5, 6, 8, 9, 10}
          ExecPos = {0, 1, 2, 3, 4, 5, 6, 8, 9, 10}
          CtSrc = 3
          CtLen = 3
INIT Init
NEXT Next
