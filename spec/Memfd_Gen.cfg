INIT Init
NEXT Next
