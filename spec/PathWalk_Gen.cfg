CONSTANTS Seed = 0
  Rest = TRUE
  A3Part = 0
  A3Parts = 1
  KFlags = {"O_CREAT","O_EXCL","O_TRUNC","O_APPEND","O_NOFOLLOW","O_DIRECTORY"}
  KKinds = {1}
  AForests = {1}
  DForests = {1,2,3,4,5,6,7,8}
  DFull = FALSE
INIT Init
NEXT Next
