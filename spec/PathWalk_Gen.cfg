CONSTANTS Seed = 0
  All3 = FALSE
  KFlags = {"O_CREAT","O_EXCL","O_TRUNC","O_APPEND","O_NOFOLLOW","O_DIRECTORY"}
  KKinds = {1}
  AForests = {1}
INIT Init
NEXT Next
