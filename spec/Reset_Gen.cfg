CONSTANTS GenKinds = {"deep", "deepshort", "mode000", "dot", "symout", "fifo", "sock", "hardlink", "many", "owned", "openunl", "nested", "oddname"}
  MaxPlant = 3
INIT Init
NEXT Next
