\* launcher threads with locked securebits (the C07 recipes for keepcaps / dropA_secbits):
\* the kernel refusal follows from the state, the error names the refusing step
CONSTANTS
  Sites = {1,2,3,64,65,66,128,129,130,192,193,194}
  Rows = {0,2}
  FailMode = "none"
  Lsbs = {{}, {"NO_SETUID_FIXUP_LOCKED"}, {"NOROOT_LOCKED"}}
SPECIFICATION Spec
INVARIANTS InvPost CallbackOnce ExecNeedsApproval FailedNeverRuns ReapedAtReturn ErrorNamesStep
PROPERTIES CallbackBeforeExec FailedStaysDead Returns
CHECK_DEADLOCK FALSE
