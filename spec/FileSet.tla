------------------------------ MODULE FileSet ------------------------------
(***************************************************************************)
(* C18 -- the example path-set policy of runner/ptrace/filehandler and the *)
(* syscall counter.                                                        *)
(*                                                                         *)
(* Paths are sequences of components; <<>> is the root "/".  The special   *)
(* query EMPTY stands for the empty string (an unresolvable name).         *)
(* An entry is [k |-> kind, p |-> path]:                                   *)
(*    "exact"     covers p                     (string: "/a/b"; root: "/") *)
(*    "dir"       covers p and all beneath     (string: "/a/b/")           *)
(*    "children"  covers direct children of p  (string: "/a/b/*"; "/*")    *)
(* This module is the *property layer*: it says what may be admitted.      *)
(* It knows nothing about strings, maps, levels or dirname().              *)
(***************************************************************************)
EXTENDS Integers, Sequences, FiniteSets, SequencesExt

CONSTANTS Comps          \* path alphabet

Paths(d) == UNION { [1..n -> Comps] : n \in 0..d }

Entries(d) ==
       { [k |-> "exact",    p |-> p] : p \in Paths(d) }
  \cup { [k |-> "dir",      p |-> p] : p \in Paths(d) \ {<<>>} }
  \cup { [k |-> "children", p |-> p] : p \in Paths(d) }

Covers(e, q) ==
  CASE e.k = "exact"    -> q = e.p
    [] e.k = "dir"      -> IsPrefix(e.p, q)
    [] e.k = "children" -> Len(q) = Len(e.p) + 1 /\ IsPrefix(e.p, q)

\* q is either a path or EMPTYQ (the empty string: an unresolvable name)
EMPTYQ == <<"EMPTY">>
InSet(S, q) == q # EMPTYQ /\ \E e \in S : Covers(e, q)

(* FileSets: four sets; writable => readable => statable *)
Admit(fs, class, q) ==
  CASE class = "write" -> InSet(fs.w, q)
    [] class = "read"  -> InSet(fs.w, q) \/ InSet(fs.r, q)
    [] class = "stat"  -> InSet(fs.w, q) \/ InSet(fs.r, q) \/ InSet(fs.s, q)

\* Handler verdict: allow | ban (soft) | kill
Verdict(fs, class, q) ==
  IF Admit(fs, class, q) THEN "allow"
  ELSE IF InSet(fs.b, q) THEN "ban" ELSE "kill"

(* AddFilePermission(name, mode): the entry goes to the set of its mode and every proper, *)
(* non-root ancestor of its *string* becomes an exact statable entry.                      *)
Ancestors(p) == { SubSeq(p, 1, n) : n \in 1..(Len(p) - 1) }
EntryAncestors(e) ==
  \* the string of a dir entry "/a/" has dirname "/a"; of a children entry "/a/*" has "/a"
  IF e.k = "exact" THEN Ancestors(e.p) ELSE Ancestors(e.p) \cup (IF e.p = <<>> THEN {} ELSE {e.p})
AddPerm(fs, e, mode) ==
  LET anc == { [k |-> "exact", p |-> a] : a \in EntryAncestors(e) }
      s2  == fs.s \cup anc
  IN CASE mode = "write" -> [fs EXCEPT !.w = @ \cup {e}, !.s = s2]
       [] mode = "read"  -> [fs EXCEPT !.r = @ \cup {e}, !.s = s2]
       [] mode = "stat"  -> [fs EXCEPT !.s = s2 \cup {e}]

EmptySets == [w |-> {}, r |-> {}, s |-> {}, b |-> {}]

=============================================================================
