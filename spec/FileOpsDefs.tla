---------------------------- MODULE FileOpsDefs ----------------------------
(* C14: reference semantics of the container's host file operations over the  *)
(* file-system states a program may have left behind.  Pure operators.         *)
(*                                                                             *)
(* Paths (driver rendering):  a = /w/a   b = /w/b   sub = /w/sub  c = /w/sub/c *)
(*   fixed:  target = /w/target (regular)  tdir = /w/tdir (directory)          *)
(*           nowhere = /w/nowhere (never exists)  dev = /dev/null (device)     *)
(*           probe = /probe/contfs (regular file outside the writable mounts)  *)
EXTENDS Integers, Sequences, FiniteSets, SequencesExt

Kinds == { "absent", "regular",
           "unreadable",   \* regular file with mode 000
           "dir",          \* empty directory
           "symreg",       \* symlink -> target (a regular file)
           "symdir",       \* symlink -> tdir
           "symout",       \* symlink -> probe (a file outside the writable mounts)
           "symdev",       \* symlink -> /dev/null
           "dangling",     \* symlink -> nowhere
           "fifo", "sock" }
FSStates == { [a |-> x, b |-> y, sub |-> s, c |-> z] :
                x \in Kinds, y \in Kinds, s \in {"absent", "dir"}, z \in Kinds }
WellFormed(fs) == fs.sub = "absent" => fs.c = "absent"

(* Besides these a state may hold numbered regular files /w/n/<i>-nnn... (distinct files for   *)
(* long batches): a trace-level state has a field n (files 1..n planted), the internal state   *)
(* has ns = the set of indices present.                                                       *)
(* Long legal paths (error texts embed the path, so many failing items make a long reply):     *)
(* if ld = 1 a chain of fifteen 250-byte directories /w/L250/L250/... is planted; an item with  *)
(* p = "L" names  what = "dir":  the prefix of 4 / 8 / 15 components (len 1 / 2 / 3 = about      *)
(* 1 / 2 / 3.8 KiB), an existing directory;  what = "miss": <that prefix>/miss-<idx>, absent     *)
(* until somebody creates it (ls = regular files, lk = symlinks created there).                  *)
(* Interacting directory chains (MkdirAll items whose parents depend on each other):            *)
(*   /w/l  (tl: absent | dir | file | link = symlink -> t)        /w/t  (tt: absent | dir)        *)
(*   item p = "ld" names /w/l/d/f, item p = "td" names /w/t/d/g.  Through the link /w/l/d IS      *)
(*   /w/t/d, so an earlier item's MkdirAll can fail (dangling link) while a later item of the     *)
(*   same batch makes that directory resolvable.  dl / dt: the directories /w/l/d (l a real       *)
(*   directory) and /w/t/d exist; fl / ft: the file names present in them.                        *)
Planted(k) == IF k \in {"regular", "unreadable"} THEN [size |-> 8, og |-> TRUE] ELSE [size |-> 0, og |-> FALSE]
Internal(f) == [a |-> f.a, b |-> f.b, sub |-> f.sub, c |-> f.c, ns |-> 1..f.n, ld |-> f.ld, ls |-> {}, lk |-> {},
                tl |-> f.tl, tt |-> f.tt, dl |-> FALSE, dt |-> FALSE, fl |-> {}, ft |-> {},
                ct |-> [a |-> Planted(f.a), b |-> Planted(f.b), c |-> Planted(IF f.sub = "dir" THEN f.c ELSE "absent"),
                        target |-> Planted("regular")]]
LongKind(fs, x) ==
  IF fs.ld = 0 THEN "noparent"
  ELSE IF x.what = "dir" THEN "dir"
  ELSE IF <<x.len, x.idx>> \in fs.ls THEN "regular"
  ELSE IF <<x.len, x.idx>> \in fs.lk THEN "symreg" ELSE "absent"

OpenPaths == {"a", "b", "c", "dev", "target"}      \* + "n" with an index (numbered file)
(* Flag combinations a caller can legitimately request (name -> access mode, flags).  Of the   *)
(* flags only O_APPEND and O_SYNC stay visible in F_GETFL of the descriptor (StatusFlags).    *)
Modes == {"r", "w", "rw", "a", "ac", "rwa", "x", "rwt", "ws", "rc"}
Acc(m) == CASE m \in {"r", "rc"} -> "r" [] m \in {"w", "a", "ac", "x", "ws"} -> "w" [] OTHER -> "rw"
Flags(m) ==
  CASE m = "r"   -> {}                          \* O_RDONLY
    [] m = "rc"  -> {"CLOEXEC"}                 \* O_RDONLY|O_CLOEXEC
    [] m = "w"   -> {"CREAT", "TRUNC"}          \* O_WRONLY|O_CREAT|O_TRUNC
    [] m = "rw"  -> {"CREAT"}                   \* O_RDWR|O_CREAT
    [] m = "a"   -> {"APPEND"}                  \* O_WRONLY|O_APPEND
    [] m = "ac"  -> {"APPEND", "CREAT"}         \* O_WRONLY|O_APPEND|O_CREAT
    [] m = "rwa" -> {"APPEND"}                  \* O_RDWR|O_APPEND
    [] m = "x"   -> {"CREAT", "EXCL"}           \* O_WRONLY|O_CREAT|O_EXCL
    [] m = "rwt" -> {"TRUNC"}                   \* O_RDWR|O_TRUNC
    [] m = "ws"  -> {"SYNC", "CLOEXEC"}         \* O_WRONLY|O_SYNC|O_CLOEXEC
StatusFlags == {"APPEND", "SYNC", "NONBLOCK", "DIRECT"}
Creat(m) == "CREAT" \in Flags(m)
Perms == {420, 384, 0}        \* 0644, 0600, 0000: mode of a file the request creates (init runs with umask 0)
(* Content of the files at a, b, c and target is tracked as [size, og]: a planted regular file *)
(* holds the 8 bytes "planted\n" (og = these original bytes are still at its start).          *)
Tracked == {"a", "b", "c", "target"}
TokenLen == 3                 \* the driver writes 3 bytes through every writable descriptor it got for a tracked path
MaxBatch == 253               \* descriptors one SCM_RIGHTS message can carry

KindOf(fs, p) ==
  CASE p = "a" -> fs.a [] p = "b" -> fs.b
    [] p = "c" -> IF fs.sub = "dir" THEN fs.c ELSE "noparent"
    [] p = "dev" -> "device" [] p = "target" -> "regular" [] p = "tdir" -> "dir"
    [] p = "nowhere" -> "absent" [] p = "probe" -> "regular"
SetKind(fs, p, k) ==
  CASE p = "a" -> [fs EXCEPT !.a = k] [] p = "b" -> [fs EXCEPT !.b = k] [] p = "c" -> [fs EXCEPT !.c = k]
    [] OTHER -> fs

(* which real directory the parent of a tree item is: "L" = /w/l/d, "T" = /w/t/d, "none" = unresolvable *)
TreeDir(fs, p) ==
  IF p = "td" THEN (IF fs.tt = "dir" /\ fs.dt THEN "T" ELSE "none")
  ELSE IF fs.tl = "dir" THEN (IF fs.dl THEN "L" ELSE "none")
  ELSE IF fs.tl = "link" /\ fs.tt = "dir" /\ fs.dt THEN "T" ELSE "none"
TreeName(p) == IF p = "ld" THEN "f" ELSE "g"
TreeKind(fs, p) ==
  LET D == TreeDir(fs, p) IN
  IF D = "none" THEN "noparent"
  ELSE IF TreeName(p) \in (IF D = "L" THEN fs.fl ELSE fs.ft) THEN "regular" ELSE "absent"
TreeCreate(fs, p) == IF TreeDir(fs, p) = "L" THEN [fs EXCEPT !.fl = @ \cup {TreeName(p)}]
                     ELSE [fs EXCEPT !.ft = @ \cup {TreeName(p)}]

(* os.MkdirAll of the parent directory of an item: [ok, fs].  It follows links like any path walk: *)
(* through a dangling link it fails (the link is in the way), through a file it fails, through a  *)
(* link to a directory it creates inside the link's target.                                      *)
MkdirFor(fs, it) ==
  CASE it.p = "c"  -> [ok |-> TRUE, fs |-> IF fs.sub = "absent" THEN [fs EXCEPT !.sub = "dir", !.c = "absent"] ELSE fs]
    [] it.p = "td" -> [ok |-> TRUE, fs |-> [fs EXCEPT !.tt = "dir", !.dt = TRUE]]
    [] it.p = "ld" ->
         ( CASE fs.tl = "absent" -> [ok |-> TRUE, fs |-> [fs EXCEPT !.tl = "dir", !.dl = TRUE]]
             [] fs.tl = "dir"    -> [ok |-> TRUE, fs |-> [fs EXCEPT !.dl = TRUE]]
             [] fs.tl = "file"   -> [ok |-> FALSE, fs |-> fs]
             [] fs.tl = "link"   -> IF fs.tt = "dir" THEN [ok |-> TRUE, fs |-> [fs EXCEPT !.dt = TRUE]]
                                    ELSE [ok |-> FALSE, fs |-> fs] )
    [] OTHER -> [ok |-> TRUE, fs |-> fs]            \* the parent exists

ItemKind(fs, it) == IF it.p \in {"ld", "td"} THEN TreeKind(fs, it.p) ELSE IF it.p = "n" THEN (IF it.idx \in fs.ns THEN "regular" ELSE "absent")
                    ELSE IF it.p = "L" THEN LongKind(fs, it) ELSE KindOf(fs, it.p)
NoContent == [size |-> 0, og |-> FALSE]
SetContent(fs, p, v) == IF p \in Tracked THEN [fs EXCEPT !.ct[p] = v] ELSE fs
Created(fs, it) == IF it.p \in {"ld", "td"} THEN TreeCreate(fs, it.p) ELSE IF it.p = "n" THEN [fs EXCEPT !.ns = @ \cup {it.idx}]
                   ELSE IF it.p = "L" THEN [fs EXCEPT !.ls = @ \cup {<<it.len, it.idx>>}]
                   ELSE SetContent(SetKind(fs, it.p, IF it.perm = 0 THEN "unreadable" ELSE "regular"), it.p, NoContent)

(* ---- Open: one item.  MkdirAll of the parent first (it stays even if the item fails),  *)
(* then: a descriptor iff the path is a regular file, or is absent and the flags create;  *)
(* a final-component symlink is never followed, nothing that is not a regular file is     *)
(* opened (so the call cannot block), nothing is created through a dangling link.         *)
(* O_CREAT|O_EXCL refuses an existing file; O_TRUNC empties it; a created file has Perm.     *)
(* Item i is evaluated in the state items 1..i-1 left behind (OpenBatch folds left to right):    *)
(* its own MkdirAll runs immediately before its own check, never earlier; an item whose MkdirAll *)
(* fails is answered with that error and nothing of it is opened or created.                     *)
OpenItem(fs, it) ==
  LET mk  == IF it.mk THEN MkdirFor(fs, it) ELSE [ok |-> TRUE, fs |-> fs]
      fs1 == mk.fs
      k   == ItemKind(fs1, it)
      F   == Flags(it.mode)
  IN IF ~mk.ok THEN [r |-> "err", k |-> "mkdirfail", fs |-> fs1]
     ELSE IF k \in {"regular", "unreadable"}
       THEN IF {"CREAT", "EXCL"} \subseteq F THEN [r |-> "err", k |-> k, fs |-> fs1]
            ELSE [r |-> "fd", k |-> k, fs |-> IF "TRUNC" \in F THEN SetContent(fs1, it.p, NoContent) ELSE fs1]
     ELSE IF k = "absent" /\ Creat(it.mode) THEN [r |-> "fd", k |-> k, fs |-> Created(fs1, it)]
     ELSE [r |-> "err", k |-> k, fs |-> fs1]

(* a write of TokenLen bytes through a descriptor opened with mode m, fresh from Open (offset 0) *)
WriteThrough(fs, p, m) ==
  LET c == fs.ct[p] IN
  IF "APPEND" \in Flags(m) THEN [fs EXCEPT !.ct[p] = [size |-> c.size + TokenLen, og |-> c.og]]     \* old + new
  ELSE [fs EXCEPT !.ct[p] = [size |-> IF c.size > TokenLen THEN c.size ELSE TokenLen, og |-> FALSE]] \* overwrites the start

(* a batch is processed in order; result i belongs to item i *)
OpenBatch(fs, items) ==
  FoldLeft(LAMBDA acc, it : LET r == OpenItem(acc.fs, it)
                            IN [res |-> Append(acc.res, r.r), ks |-> Append(acc.ks, r.k), fs |-> r.fs],
           [res |-> <<>>, ks |-> <<>>, fs |-> fs], items)

(* ---- Symlink: one item *)
LinkPaths == {"a", "b", "c"}
LinkTargets == {"target", "tdir", "probe", "dev", "nowhere"}
SymKind(to) == CASE to = "target" -> "symreg" [] to = "tdir" -> "symdir" [] to = "probe" -> "symout"
                 [] to = "dev" -> "symdev" [] to = "nowhere" -> "dangling"
LinkItem(fs, l) ==
  IF l.link = "L"
    THEN IF LongKind(fs, l) = "absent" THEN [r |-> "ok", fs |-> [fs EXCEPT !.lk = @ \cup {<<l.len, l.idx>>}]]
         ELSE [r |-> "err", fs |-> fs]
  ELSE IF KindOf(fs, l.link) = "absent" THEN [r |-> "ok", fs |-> SetKind(fs, l.link, SymKind(l.to))]
  ELSE [r |-> "err", fs |-> fs]
LinkBatch(fs, links) ==
  FoldLeft(LAMBDA acc, l : LET r == LinkItem(acc.fs, l) IN [res |-> Append(acc.res, r.r), fs |-> r.fs],
           [res |-> <<>>, fs |-> fs], links)

(* ---- Delete (single path): removes a file, a link itself, an empty directory *)
DeletePaths == {"a", "b", "c", "sub", "dev", "nowhere"}
DeleteOne(fs, p) ==
  IF p = "sub" THEN IF fs.sub = "dir" /\ fs.c = "absent" THEN [r |-> "ok", fs |-> [fs EXCEPT !.sub = "absent"]]
                    ELSE [r |-> "err", fs |-> fs]
  ELSE IF p \in {"a", "b", "c"} /\ KindOf(fs, p) \notin {"absent", "noparent"}
       THEN [r |-> "ok", fs |-> SetKind(fs, p, "absent")]
       ELSE [r |-> "err", fs |-> fs]

(* what a host-side look at the container must show in state fs *)
Shows(obs, fs) ==
  /\ obs.a = fs.a /\ obs.b = fs.b /\ obs.sub = fs.sub
  /\ obs.c = (IF fs.sub = "dir" THEN fs.c ELSE "absent")
  /\ obs.target = "regular" /\ obs.tdir = "dir" /\ obs.nowhere = "absent" /\ obs.dev = "device"
(* the directory-chain family: obs.tl .. obs.ttg are the host's lstat kinds of /w/l, /w/t, /w/l/d, *)
(* /w/t/d, /w/l/d/f, /w/t/d/f, /w/t/d/g ("an item reported as failed leaves no file behind")       *)
Has(b) == IF b THEN "regular" ELSE "absent"
ShowsT(obs, fs) ==
  LET viaT == fs.tl = "link" /\ fs.tt = "dir" IN
  /\ obs.tl = (CASE fs.tl = "file" -> "regular" [] fs.tl = "link" -> "symt" [] OTHER -> fs.tl)
  /\ obs.tt = fs.tt
  /\ obs.ttd = (IF fs.tt = "dir" /\ fs.dt THEN "dir" ELSE "absent")
  /\ obs.tld = (IF fs.tl = "dir" THEN (IF fs.dl THEN "dir" ELSE "absent")
                ELSE IF viaT /\ fs.dt THEN "dir" ELSE "absent")
  /\ obs.ttf = Has(fs.tt = "dir" /\ fs.dt /\ "f" \in fs.ft)
  /\ obs.ttg = Has(fs.tt = "dir" /\ fs.dt /\ "g" \in fs.ft)
  /\ obs.tlf = (IF fs.tl = "dir" THEN Has(fs.dl /\ "f" \in fs.fl) ELSE Has(viaT /\ fs.dt /\ "f" \in fs.ft))
ShowsN(count, fs) == count = Cardinality(fs.ns)     \* entries of /w/n
ShowsL(deep, count, fs) ==                          \* the long chain and the miss-* entries in it
  /\ deep = (IF fs.ld = 1 THEN "dir" ELSE "absent") /\ count = Cardinality(fs.ls) + Cardinality(fs.lk)
=============================================================================
