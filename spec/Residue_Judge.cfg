INIT Init
NEXT Next
