CONSTANTS Names = {"n1","n2"}
  MaxBudget = 3
SPECIFICATION TSpec
CONSTRAINT Mark
POSTCONDITION Report
CHECK_DEADLOCK FALSE
