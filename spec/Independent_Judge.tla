-------------------------- MODULE Independent_Judge --------------------------
(* C17: every run -- alone or among 15 others -- is judged by the same        *)
(* sequential specification of one run:                                       *)
(*   the verdict is the one its own program earns (C09: Nonzero Exit with its *)
(*   own code; Time Limit Exceeded when it alone was cancelled),              *)
(*   its descriptor table is exactly its own list (C06): 0..2 the null        *)
(*   device, 3 its own file, nothing else,                                    *)
(*   and its side effect (marker in its own file) is its own.                 *)
EXTENDS Naturals, Sequences, FiniteSets, TLC, Json, SequencesExt
Obs == ndJsonDeserialize("obs.ndjson")
Cancelled(o) == o.kind \in {"ptrace-cancel", "envA-cancel", "unshare-cancel"}
FileOps(o) == o.kind \in {"envA-ops", "envB-ops"}
\* an environment of its own destroyed while its Open is in flight: that call reports the loss (C11); the point
\* here is what the OTHER runs of the round and of the following rounds see -- nothing
OpenLoss(o) == o.kind = "envX-openloss"
VerdictOK(o) == IF OpenLoss(o) THEN o.r = "err"
                ELSE IF FileOps(o) THEN o.r = "ok"
                ELSE IF Cancelled(o) THEN o.r = "verdict" /\ o.status = 2
                ELSE o.r = "verdict" /\ o.status = 7 /\ o.code = o.want
\* (a cancelled program is killed at an arbitrary point: before it has written anything, or part-way through
\*  listing its descriptors -- what it did list must be the beginning of its own table)
FullTable == <<"0:null", "1:null", "2:null", "3:own">>
TableOK(o)  == o.fds = FullTable \/ (Cancelled(o) /\ IsPrefix(o.fds, FullTable)) \/ ((FileOps(o) \/ OpenLoss(o)) /\ o.fds = <<>>)
EffectOK(o) == o.marker = o.expmarker \/ ((Cancelled(o) \/ OpenLoss(o)) /\ o.marker = "")
\* no run receives another run's trap events: the handler of a traced run is only shown its own paths
TrapsOK(o)  == o.foreign = 0 /\ (o.kind = "ptracet" => o.traps > 0)
Judge(o) == VerdictOK(o) /\ TableOK(o) /\ EffectOK(o) /\ TrapsOK(o)
Bad == { i \in DOMAIN Obs : ~Judge(Obs[i]) }
ASSUME ndJsonSerialize("bad.ndjson", SetToSeq({ [i |-> i, verdict |-> VerdictOK(Obs[i]), table |-> TableOK(Obs[i]), effect |-> EffectOK(Obs[i]), traps |-> TrapsOK(Obs[i])] : i \in Bad }))
ASSUME PrintT(<<"judged", Len(Obs), Cardinality(Bad)>>)
VARIABLE x
Init == x = 0
Next == UNCHANGED x
=============================================================================
