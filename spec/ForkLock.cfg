CONSTANTS Openers = {"o1","o2"}
  Forkers = {"f1","f2"}
  UseLock = TRUE
SPECIFICATION Spec
INVARIANT NoLeak
CHECK_DEADLOCK FALSE
