CONSTANTS Comps = {"a","b"}
  EntryDepth = 2
  QueryDepth = 3
  SetSize = 2
  CompDepth = 2
  CompQuery = 3
  Names = {"n1","n2"}
  MaxBudget = 3
  HistLen = 8
INIT Init
NEXT Next
