CONSTANTS MaxLen = 4
  AdvanceFdIndex = TRUE
  CompactErrors = TRUE
SPECIFICATION FSpec
INVARIANTS Aligned NoneLost
CHECK_DEADLOCK FALSE
