---------------------------- MODULE Cgroup_Trace ----------------------------
(* Trace validation for C20.  Each line of traces.ndjson is one history        *)
(* ("hist") or one round of concurrent creators ("race") performed on the real *)
(* cgroupfs by `cgroup run` / `cgroup race`; every event carries the state of  *)
(* the kernel objects read back after the call (directories per hierarchy,     *)
(* /proc/<pid>/cgroup of the helper processes, limit files).                   *)
(* An event is enabled only if the call's result and the state read back are   *)
(* what the property layer of Cgroup.tla (Spec* operators) demands.            *)
(* Register t: <<high-water mark of matched events, why the next one failed>>. *)
(* -workers 1.                                                                 *)
EXTENDS Cgroup, TLC, Json, SequencesExt
Traces == ndJsonDeserialize("traces.ndjson")
N == Len(Traces)
VARIABLES t, l, S, npre
tvars == <<t, l, S, npre>>

ObsDirs(e) == [c \in S.ctls |-> ToSet(e.dirs[c])]
ObsMem(T, e) == [c \in S.ctls |-> [k \in ToSet(T.pids) |-> e.mem[c][k]]]
\* limit files of every group read back after the call, and Cpus_allowed_list of the helpers
ObsLim(e) == { <<x.path, x.kind, x.val>> : x \in ToSet(e.lims) }
\* "limits written are the limits in force": every limit a Set* call established (S1.lim) is still what
\* the kernel reports, whatever call was just made; a cpuset limit also binds the processes in the group
LimitsKept(T, e, S1) ==
  IF ~(S1.lim \subseteq ObsLim(e)) THEN "limit-not-in-force"
  ELSE IF \E x \in S1.lim : x[2] = "cpus" /\ \E k \in ToSet(T.pids) : S1.mem["cpuset"][k] = x[1] /\ e.allowed[k] # x[3]
       THEN "limit-not-in-force-for-member"
  ELSE ""

\* "adding a pid really moves that process (and only it)": a process is all its threads.  Every thread of
\* every helper (/proc/<pid>/task/*/cgroup) is in the group the model has the process in; the tasks file of
\* every group lists tasks of exactly the helpers that are in it; pids.current is their thread count
\* pids.current is hierarchical: the tasks of the group and of every group below it
Under(m, p) == m # Outside /\ Len(m) >= Len(p) /\ SubSeq(m, 1, Len(p)) = p
RECURSIVE SumThr(_, _)
SumThr(e, K) == IF K = {} THEN 0 ELSE LET k == CHOOSE x \in K : TRUE IN e.nthr[k] + SumThr(e, K \ {k})
ThreadsOK(T, e, S1) ==
  LET P == ToSet(T.pids) IN
  IF \E c \in S1.ctls : e.self[c] # Outside THEN "moved-a-foreign-process"            \* "(and only it)": here the driver itself
  ELSE IF \E c \in S1.ctls : \E k \in P : ToSet(e.thr[c][k]) # {S1.mem[c][k]} THEN "process-split-across-groups"
  ELSE IF \E x \in ToSet(e.ten) : ToSet(x.who) # { k \in P : S1.mem[x.ctl][k] = x.path } THEN "tasks-file"
  ELSE IF \E x \in ToSet(e.pcur) : x.val # ToString(SumThr(e, { k \in P : Under(S1.mem["pids"][k], x.path) })) THEN "pids-current"
  ELSE ""

\* compares the logged outcome of a call with the result r of its Spec operator
Against(T, e, r) ==
  IF e.err /\ ~r.err THEN "unexpected-error"
  ELSE IF ~e.err /\ r.err THEN "error-expected"
  ELSE IF r.n # 0 /\ e.n = 0 THEN "no-handle-returned"
  ELSE IF e.n # r.n THEN "handle-numbering"
  ELSE IF r.n # 0 /\ e.ex # r.S.hs[r.n].ex THEN "existing-flag"
  ELSE IF ObsDirs(e) # r.S.dirs THEN
         (IF \E c \in S.ctls : (S.dirs[c] \ ObsDirs(e)[c]) \ (S.dirs[c] \ r.S.dirs[c]) # {} THEN "removed-foreign-group"
          ELSE IF \E c \in S.ctls : r.S.dirs[c] \ ObsDirs(e)[c] # {} THEN "group-missing"
          ELSE "group-not-removed")
  ELSE IF ObsMem(T, e) # r.S.mem THEN "membership"
  ELSE IF ThreadsOK(T, e, r.S) # "" THEN ThreadsOK(T, e, r.S)
  ELSE LimitsKept(T, e, r.S)


\* ---- race events
PathsOf(I) == { S.hs[i].path : i \in I }
CheckDone(e) ==
  LET p == e.path  obs == ObsDirs(e) IN
  IF e.err THEN "create-failed"
  ELSE IF e.n # Len(S.hs) + 1 THEN "handle-numbering"
  ELSE IF e.kind = "random" /\ e.ex THEN "random-returned-existing-group"
  ELSE IF e.kind # "random" /\ p # <<e.name>> THEN "wrong-path"
  ELSE IF ~e.ex /\ p \in PathsOf(1..npre) THEN "owns-preexisting-group"
  ELSE IF ~e.ex /\ \E i \in DOMAIN S.hs : S.hs[i].path = p /\ S.hs[i].own # {} THEN "two-owners"
  ELSE IF e.ex /\ p \notin PathsOf(DOMAIN S.hs) /\ \A c \in S.ctls : p \notin obs[c] THEN "existing-but-absent"
  ELSE IF \E c \in S.ctls : p \notin obs[c] THEN "created-group-missing"
  ELSE IF \E i \in DOMAIN S.hs : S.hs[i].live /\ \E c \in S.hs[i].own : S.hs[i].path \notin obs[c] THEN "owned-group-vanished"
  ELSE ""
CheckRDestroy(e) ==
  LET p == S.hs[e.h].path  obs == ObsDirs(e)
      gone == [c \in S.ctls |-> S.dirs[c] \ obs[c]] IN
  IF \E c \in S.ctls : gone[c] \ {p} # {} THEN "removed-foreign-group"
  ELSE IF S.hs[e.h].ex /\ \E c \in S.ctls : gone[c] # {} THEN "existing-handle-removed-group"
  ELSE IF \E c \in S.ctls : obs[c] \ S.dirs[c] # {} THEN "group-appeared"
  ELSE IF ~S.hs[e.h].ex /\ ~e.err /\ \A c \in S.ctls : gone[c] = {} THEN "group-not-removed"
  ELSE ""

\* Destroy: the strict result, or (handle that answered Existing() in a mixed state) nothing removed
DestroyRes(T, e) ==
  IF Against(T, e, SpecDestroy(S, e.h)) # "" /\ LazyAllowed(S, e.h) /\ Against(T, e, SpecDestroyLazy(S, e.h)) = ""
  THEN SpecDestroyLazy(S, e.h) ELSE SpecDestroy(S, e.h)
MkSet(e) == ToSet(e.names)
CheckMk(T, e) ==
  IF e.err THEN "harness-mkdir-failed"
  ELSE Against(T, e, SpecMk(S, e.path, MkSet(e)))

Check(T, e) ==
  CASE e.op = "top"     -> Against(T, e, SpecNewAtEx(S, <<>>, e.ex))
    [] e.op = "mk"      -> CheckMk(T, e)
    [] e.op = "new"     -> Against(T, e, SpecNewEx(S, e.h, e.name, e.ex))
    [] e.op = "random"  -> Against(T, e, SpecRandom(S, e.h, e.names))
    [] e.op = "nest"    -> Against(T, e, SpecNestEx(S, e.h, e.name, e.ex))
    [] e.op = "open"    -> Against(T, e, SpecOpen(S, e.path))
    [] e.op = "add"     -> Against(T, e, SpecAdd(S, e.h, e.pid))
    [] e.op = "destroy" -> Against(T, e, DestroyRes(T, e))
    \* a limit the kernel refuses (hierarchy constraints, usage above the limit) is reported as an
    \* error and changes nothing; a limit that was accepted is in force from now on
    [] e.op = "set"     -> Against(T, e, IF e.err THEN Res(S, TRUE, 0) ELSE SpecSet(S, e.h, e.kind, e.val))
    [] e.op = "cdone"   -> CheckDone(e)
    [] e.op = "rdestroy" -> CheckRDestroy(e)
    [] OTHER -> "unknown-event"

Apply(T, e) ==
  CASE e.op = "top"     -> SpecNewAtEx(S, <<>>, e.ex).S
    [] e.op = "mk"      -> SpecMk(S, e.path, MkSet(e)).S
    [] e.op = "new"     -> SpecNewEx(S, e.h, e.name, e.ex).S
    [] e.op = "random"  -> SpecRandom(S, e.h, e.names).S
    [] e.op = "nest"    -> SpecNestEx(S, e.h, e.name, e.ex).S
    [] e.op = "open"    -> SpecOpen(S, e.path).S
    [] e.op = "add"     -> SpecAdd(S, e.h, e.pid).S
    [] e.op = "destroy" -> DestroyRes(T, e).S
    [] e.op = "set"     -> (IF e.err THEN S ELSE SpecSet(S, e.h, e.kind, e.val).S)
    [] e.op = "cdone"   -> AddHandle([S EXCEPT !.dirs = ObsDirs(e)],
                                     Handle(e.path, e.ex, IF e.ex THEN {} ELSE S.ctls, S.ctls))
    [] e.op = "rdestroy" -> [S EXCEPT !.dirs = ObsDirs(e), !.hs[e.h].live = FALSE]
    [] OTHER -> S

Blank == [ctls |-> {}, dirs |-> <<>>, mem |-> <<>>, hs |-> <<>>, lim |-> {}]
TInit == t = 0 /\ l = 0 /\ S = Blank /\ npre = 0
TPick ==
  /\ t = 0 /\ t' \in 1..N /\ l' = 1 /\ npre' = 0
  /\ LET T == Traces[t'] IN
     S' = [ctls |-> ToSet(T.ctls), dirs |-> [c \in ToSet(T.ctls) |-> {}],
           mem |-> [c \in ToSet(T.ctls) |-> [k \in ToSet(T.pids) |-> Outside]], hs |-> <<>>, lim |-> {}]
TStep ==
  LET T == Traces[t] IN
  /\ t > 0 /\ l <= Len(T.ev)
  /\ t' = t /\ l' = l + 1
  /\ LET e == T.ev[l] IN
       /\ Check(T, e) = ""
       /\ S' = Apply(T, e)
       /\ npre' = IF e.op = "cdone" /\ npre = 0 THEN Len(S.hs) ELSE npre
TSpec == TInit /\ [][TPick \/ TStep]_tvars

Why == LET T == Traces[t] IN IF l <= Len(T.ev) THEN T.ev[l].op \o ":" \o Check(T, T.ev[l]) ELSE ""
Mark == t = 0 \/ TLCSet(t, IF TLCGet(t)[1] < l - 1 THEN <<l - 1, Why>> ELSE TLCGet(t))
ASSUME \A i \in 1..N : TLCSet(i, <<-1, "">>)
OneOwner == t = 0 \/ NoDoubleOwner(S)
Report ==
  ndJsonSerialize("bad.ndjson",
        SetToSeq({ [t |-> i, matched |-> TLCGet(i)[1], why |-> TLCGet(i)[2]] :
                     i \in { j \in 1..N : TLCGet(j)[1] < Len(Traces[j].ev) } }))
=============================================================================
