------------------------------ MODULE ProcTree ------------------------------
(***************************************************************************)
(* C12: what is left of a program's process tree when a run returns.       *)
(* A program builds a tree of processes (node 1 = the program itself);     *)
(* every node may leave the program's process group (setsid / setpgid) or  *)
(* daemonise (double fork: its parent becomes the namespace's init / the   *)
(* host's reaper).  SIGKILL cannot be ignored, so "ignores signals" is not *)
(* state.  The three runners end a run differently:                        *)
(*   ptrace   : kill(-pgid)+kill(pid); every process is a tracee, the      *)
(*              tracer reaps with wait4(-pgid, __WALL) until ECHILD.       *)
(*              Leaving the group is refused by the runner's policy, so    *)
(*              escape = "none" for every node.                            *)
(*   unshare  : the program is pid 1 of a new pid namespace; kill(-pgid)   *)
(*              kills pid 1 at least; the kernel then kills the whole      *)
(*              namespace; only pid 1 is a child of the host (reaped by    *)
(*              wait4), the others are reaped by the kernel.               *)
(*   container: init (pid 1 of the namespace) does kill(-1, SIGKILL) and   *)
(*              then wait4(-1) until ECHILD (waitAll); orphans re-parent   *)
(*              to init, so all of them are its children eventually.       *)
(***************************************************************************)
EXTENDS Naturals, FiniteSets, Sequences
CONSTANTS Runner,     \* "ptrace" | "unshare" | "container"
          N           \* max nodes
Nodes == 1..N
\* "untraced" (ptrace runner): the child is created with CLONE_UNTRACED, so the tracer never sees it; it is
\* still a member of the program's process group
Escapes == IF Runner = "ptrace" THEN {"none", "untraced"} ELSE {"none", "setsid", "setpgid", "daemon"}

VARIABLES par,       \* [Nodes -> 0..N] parent (0 = none / not created); par[1] = 0
          esc,       \* [Nodes -> Escapes]
          st,        \* [Nodes -> "absent" | "run" | "zombie" | "gone"]
          pc,        \* the runner: "running" | "killing" | "reaping" | "returned"
          reaper     \* ghost: [Nodes -> who must reap the corpse: "runner" | "kernel"]
vars == <<par, esc, st, pc, reaper>>

\* all trees over <= N nodes in which a parent has a smaller number than its child
Shapes == { p \in [Nodes -> 0..N] : p[1] = 0 /\ \A n \in 2..N : p[n] < n }

Init ==
  /\ par \in Shapes
  /\ esc \in [Nodes -> Escapes] /\ esc[1] = "none"
  /\ st = [n \in Nodes |-> IF n = 1 \/ par[n] > 0 THEN "run" ELSE "absent"]
  /\ pc = "running"
  /\ reaper = [n \in Nodes |-> "runner"]

InGroup(n) == esc[n] \in {"none", "untraced"}                 \* still in the program's process group

\* the program itself may end first (its children live on)
RootExits == pc = "running" /\ st[1] = "run" /\ st' = [st EXCEPT ![1] = "zombie"] /\ UNCHANGED <<par, esc, pc, reaper>>

\* the runner decides to end the run (result, cancel, limit ...)
Kill ==
  /\ pc = "running" /\ pc' = "killing"
  /\ st' = [n \in Nodes |->
       IF st[n] # "run" THEN st[n]
       ELSE CASE Runner = "ptrace"    -> IF InGroup(n) THEN "zombie" ELSE st[n]
              [] Runner = "unshare"   -> "zombie"      \* pid 1 dies => the kernel kills the namespace
              [] Runner = "container" -> "zombie"]     \* kill(-1) from init reaches every process of the namespace
  /\ UNCHANGED <<par, esc, reaper>>

\* reaping: wait4 loop of the runner / init; in the namespace runner the kernel reaps all but pid 1
Reap ==
  /\ pc = "killing" /\ pc' = "reaping"
  /\ st' = [n \in Nodes |-> IF st[n] = "zombie" THEN "gone" ELSE st[n]]
  /\ UNCHANGED <<par, esc, reaper>>
Return == pc = "reaping" /\ pc' = "returned" /\ UNCHANGED <<par, esc, st, reaper>>

Next == RootExits \/ Kill \/ Reap \/ Return
Spec == Init /\ [][Next]_vars /\ WF_vars(Kill \/ Reap \/ Return)

\* C12: when the run has returned nothing of the program is alive and nothing is a zombie
Clean == pc = "returned" => \A n \in Nodes : st[n] \in {"absent", "gone"}
Returns == <>(pc = "returned")
=============================================================================
