------------------------------ MODULE FileOps ------------------------------
(* C14, design level: the Open exchange as handleOpen (container) and Open     *)
(* (host) implement it.  The container walks the batch, collects one error     *)
(* string per item (full length, "" = success) and the descriptors of the      *)
(* successes only (compacted); the host walks the error list and takes the     *)
(* next descriptor for every empty string.  Checked for every file-system      *)
(* state over two paths and every batch up to MaxLen: the k-th result is the   *)
(* descriptor of the k-th item's path (with its mode) iff the reference        *)
(* semantics FileOpsDefs!OpenBatch opens that item, else an error.             *)
(* AdvanceFdIndex / CompactErrors select the two classic ways to get this      *)
(* wrong (TRUE / FALSE is the code as it is).                                  *)
EXTENDS FileOpsDefs, TLC
CONSTANTS MaxLen, AdvanceFdIndex, CompactErrors
VARIABLES fs0, batch, pc, i, fs, errs, fds, fdIndex, results, whole
fvars == <<fs0, batch, pc, i, fs, errs, fds, fdIndex, results, whole>>

MCKinds == {"absent", "regular", "fifo", "symreg"}
MCStates == { [a |-> x, b |-> y, sub |-> "absent", c |-> "absent", ns |-> {}, ld |-> 0, ls |-> {}, lk |-> {}, tl |-> "absent", tt |-> "absent", dl |-> FALSE, dt |-> FALSE, fl |-> {}, ft |-> {}, ct |-> [a |-> Planted(x), b |-> Planted(y), c |-> NoContent, target |-> Planted("regular")]] : x \in MCKinds, y \in MCKinds }
MCItems == { [p |-> p, mode |-> m, mk |-> FALSE, perm |-> 420] : p \in {"a", "b"}, m \in {"r", "w"} }

FInit == /\ fs0 \in MCStates /\ batch \in UNION { [1..n -> MCItems] : n \in 0..MaxLen }
         /\ pc = "c_start" /\ i = 1 /\ fs = fs0 /\ errs = <<>> /\ fds = <<>> /\ fdIndex = 1
         /\ results = <<>> /\ whole = "none"

(* container side: handleOpen *)
CEmpty == /\ pc = "c_start" /\ Len(batch) = 0 /\ whole' = "error" /\ pc' = "done"
          /\ UNCHANGED <<fs0, batch, i, fs, errs, fds, fdIndex, results>>
CBegin == /\ pc = "c_start" /\ Len(batch) > 0 /\ pc' = "c_loop"
          /\ UNCHANGED <<fs0, batch, i, fs, errs, fds, fdIndex, results, whole>>
CItem == /\ pc = "c_loop" /\ i <= Len(batch)
         /\ LET r == OpenItem(fs, batch[i]) IN
              /\ fs' = r.fs
              /\ IF r.r = "fd"
                   THEN /\ fds' = Append(fds, [t |-> "fd", item |-> i, p |-> batch[i].p, mode |-> batch[i].mode])
                        /\ errs' = IF CompactErrors THEN errs ELSE Append(errs, "")
                   ELSE /\ fds' = fds /\ errs' = Append(errs, "e")
         /\ i' = i + 1
         /\ UNCHANGED <<fs0, batch, pc, fdIndex, results, whole>>
CSend == /\ pc = "c_loop" /\ i > Len(batch) /\ pc' = "h_check" /\ i' = 1   \* one message: (errs, fds)
         /\ UNCHANGED <<fs0, batch, fs, errs, fds, fdIndex, results, whole>>
(* host side: Open *)
HCheck == /\ pc = "h_check"
          /\ IF Len(errs) # Len(batch) THEN whole' = "error" /\ pc' = "done"
             ELSE whole' = whole /\ pc' = "h_loop"
          /\ UNCHANGED <<fs0, batch, i, fs, errs, fds, fdIndex, results>>
HItem == /\ pc = "h_loop" /\ i <= Len(batch)
         /\ IF errs[i] # ""
              THEN results' = Append(results, [t |-> "err"]) /\ UNCHANGED <<fdIndex, whole, pc>>
              ELSE IF fdIndex > Len(fds)
                     THEN whole' = "error" /\ pc' = "done" /\ UNCHANGED <<results, fdIndex>>
                     ELSE /\ results' = Append(results, fds[fdIndex])
                          /\ fdIndex' = IF AdvanceFdIndex THEN fdIndex + 1 ELSE fdIndex
                          /\ UNCHANGED <<whole, pc>>
         /\ i' = i + 1
         /\ UNCHANGED <<fs0, batch, fs, errs, fds>>
HDone == /\ pc = "h_loop" /\ i > Len(batch) /\ whole' = "ok" /\ pc' = "done"
         /\ UNCHANGED <<fs0, batch, i, fs, errs, fds, fdIndex, results>>
FNext == CEmpty \/ CBegin \/ CItem \/ CSend \/ HCheck \/ HItem \/ HDone
FSpec == FInit /\ [][FNext]_fvars

(* ---- the property *)
Aligned ==
  pc = "done" =>
    IF Len(batch) = 0 THEN whole = "error"
    ELSE /\ whole = "ok" /\ Len(results) = Len(batch)
         /\ LET exp == OpenBatch(fs0, batch) IN
              /\ fs = exp.fs
              /\ \A k \in 1..Len(batch) :
                   IF exp.res[k] = "fd"
                     THEN results[k] = [t |-> "fd", item |-> k, p |-> batch[k].p, mode |-> batch[k].mode]
                     ELSE results[k] = [t |-> "err"]
(* every descriptor the container opened is handed to the caller (none is dropped) *)
NoneLost == (pc = "done" /\ whole = "ok") => fdIndex = Len(fds) + 1
=============================================================================
