\* C10 design-level check with Ping deadlines expiring (init stalled) in every state of a Ping
CONSTANTS MaxCalls = 3
  Ops = {"ping", "delete", "exec"}
  AllowDestroy = FALSE
  AllowCrash = FALSE
  FixEatKill = TRUE
  ReapOnRefusal = TRUE
  FixDonePrio = TRUE
  AllowDeadline = TRUE
  DeadlineBreaks = TRUE
SPECIFICATION SpecLive
INVARIANTS NoDesync InitAlive OneAnswer PingOk LostCallsFail ExecAnswers NoOrphan ReapedAtServe
PROPERTIES AllReturn CancelReturns
CHECK_DEADLOCK FALSE
