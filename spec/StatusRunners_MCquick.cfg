CONSTANTS ChildCodes = {0, 77}
  ChildSigs = {5, 9, 11, 24, 25}
  ExtSigs = {5, 9, 15}
  MCExits = {0, 1, 2, 99, 127, 128, 255}
  DeliverTrap = TRUE
  LowByteSignal = FALSE
  RelabelOnCancel = FALSE
  ContainerSigTable = 0
  WaitGroup = FALSE
SPECIFICATION Spec
INVARIANTS VerdictOK ErrorOK RunnerErrorOnlyForRunner BadExecIsRunnerError ChildLimitImpl FateOK ImplExitOK
PROPERTIES EveryRunReported
CHECK_DEADLOCK FALSE
