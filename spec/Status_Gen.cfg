INIT Init
NEXT Next
