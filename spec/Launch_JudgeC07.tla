-------------------------- MODULE Launch_JudgeC07 --------------------------
(* TLC as judge of the observation lines written by `launch c07`.            *)
(* One line per real launch whose failure (if any) was induced by a REAL     *)
(* input: the case names the step of Launch that fails (fail, idx) or asks   *)
(* the callback to refuse (cb = "err").  Judged, sentence by sentence of C07:*)
(*   callback-before-exec : whenever the callback ran, /proc/<pid>/exe was   *)
(*        still the launcher, the marker the target creates as its first act *)
(*        did not exist, it ran exactly once                                 *)
(*   pid : the pid handed to the callback is a live child of the caller in   *)
(*        the caller's pid namespace (NSpid first field, PPid), equal to the *)
(*        pid Start returns; in a new pid namespace it is pid 1 inside       *)
(*   never-runs : after an error return the marker does not exist            *)
(*   names-step : ChildError.Location / Index are LocOf(step) / idx          *)
(*   reaped : no child left when Start returns an error (wait4(-1) = ECHILD, *)
(*        /proc/self/task/*/children empty)                                  *)
(* For the early-return modes (stop / ptrace+seccomp) Start reports only     *)
(* what fails before the sync word (LaunchSteps!Reported); otherwise the     *)
(* clause checked is that the child ends without ever running the target.    *)
EXTENDS LaunchSteps, TLC, Json

Obs == ndJsonDeserialize("c07obs.ndjson")

F(o) == [step |-> o.fail, idx |-> o.idx]
AfterSync(o) == o.opt.sync /\ o.fail \notin {"none", "clone", "idmap"} /\ PosOf(o.fail) > PosOf(SyncWriteOf(o.opt))

CbClauses(o) ==
  LET c == o.cbobs IN
  IF c.called = 0 THEN {}
  ELSE (IF c.called # 1 THEN {"callback-not-once"} ELSE {})
  \cup (IF c.exe_is # "launcher" THEN {"callback-after-exec:exe=" \o c.exe_is} ELSE {})
  \cup (IF c.marker THEN {"callback-after-first-instruction"} ELSE {})
  \cup (IF c.nspidn = <<>> \/ c.ppid = "" THEN {"callback-pid-not-a-process"}
        ELSE (IF c.nspidn[1] # c.pid THEN {"callback-pid-other-namespace"} ELSE {})
        \cup (IF c.ppid # ToString(o.dpid) THEN {"callback-pid-not-our-child"} ELSE {})
        \cup (IF o.opt.pid /\ (Len(c.nspidn) # 2 \/ c.nspidn[Len(c.nspidn)] # 1) THEN {"callback-pid-not-the-namespace-init"} ELSE {})
        \cup (IF c.state = "Z" THEN {"callback-pid-dead"} ELSE {}))
  \cup (IF o.started /\ c.pid # o.hostpid THEN {"callback-pid-differs-from-returned"} ELSE {})

NoChildLeft(o) ==
     (IF o.wait # "echild" THEN {"child-left:" \o o.wait} ELSE {})
\cup (IF o.kids # "" THEN {"child-left:listed"} ELSE {})

\* property layer: set of violated clauses; impl layer: set of drift notes; setup: set of reasons
\* launcher death inside the callback: the socket closes without an ack; the target must never run
CrashViol(o) ==
  (IF o.marker THEN {"ran-after-launcher-death-without-ack"} ELSE {})
  \cup (IF o.cbobs.exe_is = "target" THEN {"execed-after-launcher-death-without-ack"} ELSE {})
Viol(o) ==
  IF o.crash # "" THEN CrashViol(o) ELSE
  CbClauses(o) \cup
  (CASE o.fail = "none" /\ o.cb = "ok" ->
          (IF o.opt.sync /\ o.started /\ o.cbobs.called = 0 THEN {"ran-without-callback"} ELSE {})
          \cup (IF ~o.started /\ o.marker THEN {"ran-although-start-returned-error"} ELSE {})
          \cup (IF ~o.started /\ o.marker THEN NoChildLeft(o) ELSE {})
     [] o.fail = "none" /\ o.cb = "err" ->
          (IF o.started THEN {"started-despite-callback-error"} ELSE {})
          \cup (IF o.marker THEN {"ran-despite-callback-error"} ELSE {})
          \cup (IF ~o.started /\ (o.err.is_child_err \/ o.err.msg # "verif-callback-refuses") THEN {"error-does-not-name-callback"} ELSE {})
          \cup (IF ~o.started THEN NoChildLeft(o) ELSE {})
     [] o.fail # "none" /\ Reported(o.opt, F(o)) ->
          (IF o.marker THEN {"ran-despite-failing-step"} ELSE {})
          \cup (IF o.started /\ ~o.marker THEN {"failure-not-reported"} ELSE {})
          \cup (IF ~o.started /\ (~o.err.is_child_err \/ o.err.loc # LocOf(o.fail)) THEN {"wrong-location:" \o o.err.loc} ELSE {})
          \cup (IF ~o.started /\ o.err.is_child_err /\ o.err.idx # (IF Indexed(o.fail) THEN o.idx ELSE 0) THEN {"wrong-index"} ELSE {})
          \cup (IF ~o.started /\ o.err.is_child_err /\ o.err.errno = 0 THEN {"no-errno"} ELSE {})
          \cup (IF ~o.started /\ o.fail # "clone" THEN NoChildLeft(o) ELSE {})
          \cup (IF ~o.started /\ AfterSync(o) /\ o.cbobs.called = 0 THEN {"failed-after-sync-without-callback"} ELSE {})
     [] OTHER ->   \* not reported by Start by design: the tracer's view
          (IF o.marker THEN {"ran-despite-failing-step"} ELSE {})
          \cup (IF o.started /\ o.exit \in {"none", "exit:0"} /\ ~o.marker THEN {"failed-child-not-ended:" \o o.exit} ELSE {}))

Drift(o) ==
  IF o.crash # "" THEN (IF o.orphan # "gone" THEN {"orphan-still-alive-after-launcher-death:" \o o.orphan} ELSE {}) ELSE
  (IF o.fail # "none" /\ Reported(o.opt, F(o)) /\ ~AfterSync(o) /\ o.cbobs.called # 0 THEN {"callback-ran-although-failure-precedes-sync"} ELSE {})
  \cup (IF o.fail # "none" /\ ~Reported(o.opt, F(o)) /\ ~o.started THEN {"early-return-mode-reported-an-error"} ELSE {})

Setup(o) ==
  IF o.crash # "" THEN (IF o.setup # "" THEN {o.setup} ELSE IF o.cbobs.called = 0 THEN {"helper launcher never reached its callback"} ELSE {}) ELSE
  (IF o.setup # "" THEN {o.setup} ELSE {})
  \cup (IF ~o.started /\ o.err.errno \in TransientErrno /\ o.err.loc # LocOf(o.fail) THEN {"resource shortage: " \o o.err.msg} ELSE {})
  \cup (IF o.fail = "none" /\ o.cb = "ok" /\ ((~o.started /\ ~o.marker) \/ (o.started /\ (~o.report \/ ~o.marker)))
        THEN {"plain launch of this configuration did not run the probe"} ELSE {})
  \cup (IF o.hang # "" THEN {"hang"} ELSE {})

Verdicts(o) ==
  IF Setup(o) # {} THEN {[j |-> "setup", what |-> w] : w \in Setup(o)}
  ELSE {[j |-> "viol", what |-> w] : w \in Viol(o)} \cup {[j |-> "drift", what |-> w] : w \in Drift(o)}

Lines == UNION { { [i |-> i, id |-> Obs[i].id, j |-> v.j, what |-> v.what, fail |-> Obs[i].fail, idx |-> Obs[i].idx,
                    sig |-> SiteSig(Obs[i].opt)] : v \in Verdicts(Obs[i]) } : i \in DOMAIN Obs }
ASSUME ndJsonSerialize("c07bad.ndjson", SetToSeq(Lines))

-----------------------------------------------------------------------------
\* Container path: container.Environment.Execve with SyncFunc, sync before / after exec.
\* The pid is relayed as SCM_CREDENTIALS (the kernel translates it): before exec it designates the
\* forked child of the container init in the HOST's numbering, after exec the container init itself.
CObs == ndJsonDeserialize("c07cobs.ndjson")
Has(seq, x) == \E i \in DOMAIN seq : seq[i] = x
CViol(o) ==
  LET c == o.cbobs IN
  (IF c.called > 1 THEN {"callback-not-once"} ELSE {})
  \cup (IF c.called >= 1 /\ o.mode = "before" THEN
          (IF c.exe_is # "launcher" THEN {"callback-after-exec:exe=" \o c.exe_is} ELSE {})
          \cup (IF Len(c.nspidn) # 2 \/ c.state = "Z" THEN {"callback-pid-not-a-container-process"}
                ELSE (IF c.nspidn[1] # c.pid THEN {"callback-pid-not-host-side"} ELSE {})
                     \cup (IF c.nspidn[2] = 1 THEN {"callback-pid-is-init-not-the-program"} ELSE {}))
          \cup (IF c.ppid # ToString(o.initpid) \/ o.cb_parent_nspid # <<o.initpid, 1>> THEN {"callback-pid-not-child-of-container-init"} ELSE {})
        ELSE {})
  \cup (IF c.called >= 1 /\ o.mode = "after" THEN
          (IF c.pid # o.initpid \/ c.nspidn # <<o.initpid, 1>> THEN {"callback-pid-not-container-init"} ELSE {})
        ELSE {})
  \cup (IF o.fail = "none" /\ c.called = 0 /\ o.normal THEN {"ran-without-callback"} ELSE {})
  \cup (IF o.fail = "none" /\ o.cb = "err" THEN
          (IF o.normal THEN {"normal-result-despite-callback-error"} ELSE {})
          \cup (IF o.mode = "before" /\ o.marker THEN {"ran-despite-callback-error"} ELSE {})
          \cup (IF o.initkids # "" THEN {"child-left-in-container"} ELSE {})
          \cup (IF ~Has(o.errparts, "syncfunc failed verif-callback-refuses") THEN {"error-does-not-name-callback"} ELSE {})
        ELSE {})
  \cup (IF o.fail = "rlimits" THEN
          (IF o.normal \/ o.marker THEN {"ran-despite-failing-step"} ELSE {})
          \cup (IF o.initkids # "" THEN {"child-left-in-container"} ELSE {})
          \cup (IF ~Has(o.errparts, LocOf("rlimits") \o (IF o.idx > 0 THEN "(" \o ToString(o.idx) \o ")" ELSE "")) THEN {"wrong-location-or-index"} ELSE {})
        ELSE {})
CSetup(o) ==
  (IF o.setup # "" THEN {o.setup} ELSE {})
  \cup (IF o.fail = "none" /\ o.cb = "ok" /\ (~o.normal \/ ~o.marker \/ ~o.report) THEN {"plain container run did not run the probe"} ELSE {})
  \cup (IF o.initpid = 0 THEN {"container init pid unknown"} ELSE {})
CDrift(o) == IF ~o.usable THEN {"container-unusable-afterwards"} ELSE {}
CVerdicts(o) ==
  IF CSetup(o) # {} THEN {[j |-> "setup", what |-> w] : w \in CSetup(o)}
  ELSE {[j |-> "viol", what |-> w] : w \in CViol(o)} \cup {[j |-> "drift", what |-> w] : w \in CDrift(o)}
CLines == UNION { { [i |-> i, id |-> CObs[i].id, j |-> v.j, what |-> v.what, mode |-> CObs[i].mode, cb |-> CObs[i].cb,
                     fail |-> CObs[i].fail] : v \in CVerdicts(CObs[i]) } : i \in DOMAIN CObs }
ASSUME ndJsonSerialize("c07cbad.ndjson", SetToSeq(CLines))
ASSUME PrintT(<<"judged", Len(Obs), Cardinality(Lines), Len(CObs), Cardinality(CLines)>>)
VARIABLE x
Init == x = 0
Next == UNCHANGED x
=============================================================================
