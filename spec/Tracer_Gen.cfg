CONSTANTS
  MainAlpha = {"T","U","S","K","W","F","V","C","X3"}
  ChildAlpha = {"T","U","S","K","C"}
  MaxMain = 3
  MaxChild = 2
  MaxSpawn = 2
  MaxT = 2
  MaxTotal = 4
INIT Init
NEXT Next
