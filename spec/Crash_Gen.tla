------------------------------ MODULE Crash_Gen ------------------------------
(* C16: crash points of the controlling process, enumerated by TLC.          *)
EXTENDS Naturals, Sequences, FiniteSets, TLC, Json, SequencesExt
CONSTANTS Afters      \* extra delays (ms) after the crash point is reached
Trees == {"", "il()", "il(il())dil()", "sil()gil()"}     \* descendants that ignore signals, daemonise, change session/group
ExecPoints == {"exec.send", "exec.recv", "exec.cb", "exec.oksend", "exec.wait"}
Cases ==
       { [kind |-> "container", point |-> p, sa |-> FALSE, tree |-> "", after |-> a] :
            p \in {"idle", "ping.send", "ping.recv", "open.recv"}, a \in Afters }
  \cup { [kind |-> "container", point |-> p, sa |-> sa, tree |-> tr, after |-> a] :
            p \in ExecPoints, sa \in BOOLEAN, tr \in Trees, a \in Afters }
  \cup { [kind |-> "ptrace", point |-> "run", sa |-> FALSE, tree |-> tr, after |-> a] :
            tr \in Trees, a \in Afters \cup {1, 3, 7, 20} }
ASSUME ndJsonSerialize("cases.ndjson", SetToSeq(Cases))
VARIABLE x
Init == x = 0
Next == UNCHANGED x
=============================================================================
