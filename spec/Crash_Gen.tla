------------------------------ MODULE Crash_Gen ------------------------------
(* C16: crash points of the controlling process, enumerated by TLC.          *)
EXTENDS Naturals, Sequences, FiniteSets, TLC, Json, SequencesExt
CONSTANTS Afters      \* extra delays (ms) after the crash point is reached
Trees == {"", "il()", "il(il())dil()", "sil()gil()"}     \* descendants that ignore signals, daemonise, change session/group
ExecPoints == {"exec.send", "exec.recv", "exec.cb", "exec.oksend", "exec.wait"}
Cases ==
       { [kind |-> "container", point |-> p, sa |-> FALSE, tree |-> "", after |-> a, drop |-> dr] :
            p \in {"idle", "ping.send", "ping.recv", "open.recv"}, a \in Afters, dr \in BOOLEAN }
  \cup { [kind |-> "container", point |-> p, sa |-> sa, tree |-> tr, after |-> a, drop |-> dr] :
            p \in ExecPoints, sa \in BOOLEAN, tr \in Trees, a \in Afters, dr \in BOOLEAN }
  \* the controller dies while Build is still configuring the container (init is inside the configuration
  \* handler, running the init command): only the parent-death signal can end that
  \cup { [kind |-> "container", point |-> "conf.init", sa |-> FALSE, tree |-> "il()", after |-> a, drop |-> FALSE] : a \in Afters }
  \cup { [kind |-> k, point |-> "run", sa |-> FALSE, tree |-> tr, after |-> a, drop |-> FALSE] :
            k \in {"ptrace"}, tr \in Trees, a \in Afters \cup {1, 3, 7, 20} }
  \* the controller dies inside the caller's sync callback: the launcher's child is parked before exec
  \cup { [kind |-> k, point |-> "cb", sa |-> FALSE, tree |-> "", after |-> a, drop |-> FALSE] : k \in {"ptrace", "unshare"}, a \in Afters \cup {10} }
\* (At the sync point both runners' child is still the launcher's own code, waiting on the sync socket: it
\*  ends on EOF.  Once the program runs, the namespace runner -- runner/unshare -- has no parent-death
\*  mechanism: its program survives the death of the process that started it.  Observed on the unchanged
\*  tree; C16 as stated speaks of the process that controls a container or traces a program, so "unshare
\*  while running" is recorded in DESIGN.md and not judged.)
\* drop = TRUE: the controller gives up its privileges after building the environment; the kernel then refuses
\* to deliver the parent-death signal to the root-owned init, so the end of the control stream alone must end
\* the container (ContainerProto!SpecNoPdeathsig |= HostDeathKillsAll)
ASSUME ndJsonSerialize("cases.ndjson", SetToSeq(Cases))
VARIABLE x
Init == x = 0
Next == UNCHANGED x
=============================================================================
