------------------------------ MODULE FdTable ------------------------------
(* C06, pure operators (no variables): descriptor tables and the property-   *)
(* layer post-condition "the program's table is exactly the caller's list".  *)
(* Shared by the state machine FdShuffle (MC, Trace) and by FdShuffle_Judge. *)
(*                                                                           *)
(* A table maps descriptor numbers 0..MaxFd to entries [f, cx]:              *)
(*   f  = identity of the open file ("closed" = no open file), a string      *)
(*   cx = close-on-exec flag                                                 *)
EXTENDS Integers, Sequences, FiniteSets, SequencesExt   \* Max, Min (FiniteSetsExt), Range (Functions)

NoFile == "closed"
Ent(f, cx) == [f |-> f, cx |-> cx]
Closed == Ent(NoFile, FALSE)


\* kernel rule (assumption, cross-checked by the strace line of socketpair): a new
\* descriptor gets the lowest free number
Free(tab) == { n \in DOMAIN tab : tab[n].f = NoFile }
Low2(tab) == LET a == Min(Free(tab)) IN <<a, Min(Free(tab) \ {a})>>

\* execve: close-on-exec entries vanish
AfterExec(tab) == [n \in DOMAIN tab |-> IF tab[n].cx THEN Closed ELSE tab[n]]

\* forkexec.prepareFds: scratch numbers start above max(len(files), every listed number)
FirstScratch(files) == Max({Len(files)} \cup Range(files)) + 1

-----------------------------------------------------------------------------
\* Property layer.
\* The caller lists descriptor numbers of ITS table `pre` (-1 = "close this slot").
Wanted(files, pre, k) == IF files[k] = -1 THEN NoFile ELSE pre[files[k]].f
WantedIds(files, pre) == [k \in 1..Len(files) |-> Wanted(files, pre, k)]

\* slot k-1 holds the k-th wanted file with close-on-exec clear; nothing else is open
TableExactIds(ids, tab) ==
  /\ \A k \in 1..Len(ids) : tab[k - 1] = Ent(ids[k], FALSE)
  /\ \A n \in DOMAIN tab : n >= Len(ids) => tab[n].f = NoFile
TableExactFor(files, pre, tab) == TableExactIds(WantedIds(files, pre), tab)

\* classification of a mismatch (for the key of a finding); "ok" when exact
TableVerdict(ids, tab) ==
  IF TableExactIds(ids, tab) THEN "ok"
  ELSE IF \E n \in DOMAIN tab : n >= Len(ids) /\ tab[n].f # NoFile THEN "extra"
  ELSE IF \E k \in 1..Len(ids) : ids[k] # NoFile /\ tab[k - 1].f = NoFile THEN "missing"
  ELSE IF \E k \in 1..Len(ids) : tab[k - 1].f # ids[k] THEN "wrong"
  ELSE "flags"
=============================================================================
