------------------------------ MODULE Seccomp ------------------------------
(***************************************************************************)
(* C01 -- the compiled seccomp filter implements the declared policy.      *)
(*                                                                         *)
(* Pure operator module (no variables):                                    *)
(*  (a) Accept(P, arch, nr): the property sentence -- which filter return  *)
(*      actions are acceptable for system call number nr issued under      *)
(*      architecture tag arch when the caller declared policy P.           *)
(*  (b) Run(prog, arch, nr): a classic-BPF machine over struct             *)
(*      seccomp_data restricted to what a syscall-number filter needs.     *)
(*  (c) the representative sets that make checking Run against Accept on   *)
(*      finitely many points a decision for all 2^32 x 2^32 inputs, and    *)
(*      the structural premise of that argument.                           *)
(*                                                                         *)
(* 32-bit words are <<hi16, lo16>> (TLC integers are 32-bit signed).       *)
(***************************************************************************)
EXTENDS Naturals, Integers, Sequences, FiniteSets, SequencesExt

\* ---------------------------------------------------------------- words
W(n)      == <<n \div 65536, n % 65536>>          \* n < 2^31
WZero     == <<0, 0>>
WMax      == <<65535, 65535>>
IsWord(a) == /\ a \in Seq(Int) /\ Len(a) = 2
             /\ a[1] \in 0..65535 /\ a[2] \in 0..65535
WGt(a, b) == a[1] > b[1] \/ (a[1] = b[1] /\ a[2] > b[2])
WGe(a, b) == a = b \/ WGt(a, b)
WSucc(a)  == IF a[2] < 65535 THEN <<a[1], a[2] + 1>> ELSE <<a[1] + 1, 0>>      \* a # WMax
WPred(a)  == IF a[2] > 0 THEN <<a[1], a[2] - 1>> ELSE <<a[1] - 1, 65535>>      \* a # WZero
Near(a)   == {a} \cup (IF a # WZero THEN {WPred(a)} ELSE {})
                 \cup (IF a # WMax THEN {WSucc(a)} ELSE {})

\* ------------------------------------------------- (a) the property sentence
X86_64  == <<49152, 62>>      \* AUDIT_ARCH_X86_64  0xC000003E
I386    == <<16384, 3>>       \* AUDIT_ARCH_I386    0x40000003
AARCH64 == <<49152, 183>>     \* AUDIT_ARCH_AARCH64 0xC00000B7
Native  == X86_64             \* the checks run on x86-64 only (the check refuses other hosts)

X32Bit(nr) == (nr[1] \div 16384) % 2 = 1          \* bit 30: __X32_SYSCALL_BIT

(* A policy P is [allow, trace : sets of words, def : word].  The caller's Action is a 32-bit  *)
(* value whose low 16 bits select the basic action (1 allow, 2 errno, 3 trace, 4 kill); unset  *)
(* (0) and anything unknown fail closed to KILL_PROCESS.                                       *)
DefClass(def) == CASE def[2] = 1 -> "ALLOW"
                   [] def[2] = 2 -> "ERRNO"
                   [] def[2] = 3 -> "TRACE"
                   [] OTHER      -> "KILL_PROCESS"

\* "refused outright": the call is not executed and not offered to a tracer
Refused == {"ERRNO", "KILL_PROCESS", "KILL_THREAD", "TRAP", "UNKNOWN"}

Zone(P, arch, nr) ==
  IF arch # Native THEN "foreign"
  ELSE IF X32Bit(nr) THEN "x32"
  ELSE IF nr[1] >= 32768 THEN "high"       \* >= 2^31 without bit 30: no ABI uses these numbers
  ELSE IF nr \in P.trace THEN "trace"      \* trace takes precedence where a caller lists both
  ELSE IF nr \in P.allow THEN "allow"
  ELSE "other"

Accept(P, arch, nr) ==
  LET z == Zone(P, arch, nr) IN
  CASE z = "foreign" -> {DefClass(P.def)}
    [] z = "x32"     -> Refused
    [] z = "high"    -> Refused \cup {DefClass(P.def)}   \* judged leniently, see design/C01.md
    [] z = "trace"   -> {"TRACE"}
    [] z = "allow"   -> {"ALLOW"}
    [] z = "other"   -> {DefClass(P.def)}

(* Action class of a filter return value as the kernel decodes it (SECCOMP_RET_ACTION_FULL).   *)
(* ERRNO with data 0 makes the call "succeed" without running: not an errno.                   *)
BAD(n)   == <<-1, n>>
BADOP    == BAD(1)      \* opcode outside the modelled subset
BADLOAD  == BAD(2)      \* load from an offset other than nr (0) / arch (4)
FELLOFF  == BAD(3)      \* ran past the last instruction / jump out of the program
RUNNING  == <<-2, 0>>

Class(ret) ==
  CASE ret[1] < 0       -> "BAD"
    [] ret[1] = 32768   -> "KILL_PROCESS"
    [] ret[1] = 0       -> "KILL_THREAD"
    [] ret[1] = 3       -> "TRAP"
    [] ret[1] = 5       -> IF ret[2] = 0 THEN "ERRNO0" ELSE "ERRNO"
    [] ret[1] = 32704   -> "USER_NOTIF"
    [] ret[1] = 32752   -> "TRACE"
    [] ret[1] = 32764   -> "LOG"
    [] ret[1] = 32767   -> "ALLOW"
    [] OTHER            -> "UNKNOWN"

Ok(P, arch, nr, ret) == Class(ret) \in Accept(P, arch, nr)

(* Implementation layer (drift only): the exact words the current code emits.                  *)
ImplRet(P, arch, nr) ==
  LET z == Zone(P, arch, nr)
      d == DefClass(P.def)
      dw == CASE d = "ALLOW" -> <<32767, 0>> [] d = "ERRNO" -> <<5, 1>>
              [] d = "TRACE" -> <<32752, 0>> [] OTHER -> <<32768, 0>>
  IN CASE z = "allow" -> <<32767, 0>>
       [] z = "trace" -> <<32752, 0>>
       [] z \in {"x32", "high"} -> <<5, 38>>
       [] OTHER -> dw

\* ------------------------------------------------- (b) the classic-BPF machine
LDWABS == 32   \* BPF_LD  | BPF_W   | BPF_ABS
JA     == 5    \* BPF_JMP | BPF_JA
JEQK   == 21   \* BPF_JMP | BPF_JEQ | BPF_K
JGTK   == 37   \* BPF_JMP | BPF_JGT | BPF_K
JGEK   == 53   \* BPF_JMP | BPF_JGE | BPF_K
RETK   == 6    \* BPF_RET | BPF_K
Modelled == {LDWABS, JA, JEQK, JGTK, JGEK, RETK}
CondJump == {JEQK, JGTK, JGEK}

\* opcodes seccomp_check_filter() accepts (kernel/seccomp.c); anything else: EINVAL at load
KernelOps == {32, 128, 129, 6, 22, 4, 20, 36, 52, 84, 68, 164, 100, 116,
              12, 28, 44, 60, 92, 76, 172, 108, 124, 132, 0, 1, 7, 135, 96, 97, 2, 3,
              5, 21, 29, 53, 61, 37, 45, 69, 77}

Cond(c, a, k) == CASE c = JEQK -> a = k [] c = JGTK -> WGt(a, k) [] c = JGEK -> WGe(a, k)

(* cBPF jumps are forward only, so a program of n instructions executes at most n of them.     *)
(* The machine state is st = [pc, a, r]; one step executes the instruction at pc.  Steps are   *)
(* folded (no recursion: TLC's stack) in blocks of 16 so that the many inputs that return      *)
(* after a handful of instructions cost a handful of steps.                                    *)
Exec(st, ins, arch, nr) ==
  LET nx == st.pc + 1 IN
  CASE ins.c = LDWABS ->
         IF ins.k = <<0, 0>> THEN [pc |-> nx, a |-> nr, r |-> RUNNING]
         ELSE IF ins.k = <<0, 4>> THEN [pc |-> nx, a |-> arch, r |-> RUNNING]
         ELSE [st EXCEPT !.r = BADLOAD]
    [] ins.c = JA ->
         IF ins.k[1] # 0 THEN [st EXCEPT !.r = FELLOFF] ELSE [st EXCEPT !.pc = nx + ins.k[2]]
    [] ins.c \in CondJump ->
         [st EXCEPT !.pc = nx + (IF Cond(ins.c, st.a, ins.k) THEN ins.jt ELSE ins.jf)]
    [] ins.c = RETK -> [st EXCEPT !.r = ins.k]
    [] OTHER -> [st EXCEPT !.r = BADOP]

Step(st, prog, arch, nr) ==
  IF st.r # RUNNING THEN st
  ELSE IF st.pc > Len(prog) THEN [st EXCEPT !.r = FELLOFF]
  ELSE Exec(st, prog[st.pc], arch, nr)

Sixteen == [i \in 1..16 |-> i]
Idx(prog) == [i \in 1..Len(prog) |-> i]
Blocks(prog) == [i \in 1..((Len(prog) + 16) \div 16) |-> i]    \* 16 * blocks >= Len + 1

RunI(prog, blocks, arch, nr) ==
  LET S(st) == Step(st, prog, arch, nr)
      inner(st, j) == S(st)
      outer(st, b) == IF st.r # RUNNING THEN st ELSE FoldLeft(inner, st, Sixteen)
      \* most inputs (foreign arch tag, x32 numbers) return within six instructions
      s6 == S(S(S(S(S(S([pc |-> 1, a |-> WZero, r |-> RUNNING]))))))
      f == IF s6.r # RUNNING THEN s6 ELSE FoldLeft(outer, s6, blocks)
  IN IF f.r = RUNNING THEN FELLOFF ELSE f.r

Run(prog, arch, nr) == RunI(prog, Blocks(prog), arch, nr)

\* ------------------------------------------------- (c) exhaustiveness
(***************************************************************************)
(* Premise (checked by TLC for every program, Struct = "ok"): every        *)
(* instruction is one of LD|W|ABS at offset 0 or 4, JEQ/JGT/JGE|K, JA,     *)
(* RET|K.  Then the accumulator only ever holds 0, the arch word or the nr *)
(* word, unmodified, and control flow depends on (arch, nr) only through   *)
(* tests  word = k, word > k, word >= k  against immediates k.  For fixed  *)
(* arch the result is therefore constant in nr on every open interval      *)
(* between two consecutive immediates that nr is compared with, and may    *)
(* change only at those immediates.  Accept() is constant on the open      *)
(* intervals between consecutive members of                                *)
(* allow \cup trace \cup {2^30, 2^31, 3*2^30}.  NrReps contains 0, 2^32-1  *)
(* and k-1, k, k+1 for every such boundary k, hence at least one point of  *)
(* every interval and every boundary itself: agreement on NrReps is        *)
(* agreement on all 2^32 numbers.  The same holds for arch with ArchReps   *)
(* (Accept changes only at Native).  Which immediates a word is compared   *)
(* with is computed by a forward data-flow pass (Reach) instead of assumed.*)
(* JSET, ALU, LDX, other loads would break the argument: Struct reports    *)
(* them and the check refuses to decide (it does not guess).               *)
(***************************************************************************)
Struct(prog) ==
  IF \E i \in DOMAIN prog : prog[i].c \notin KernelOps THEN "invalid"
  ELSE IF \E i \in DOMAIN prog :
            \/ prog[i].c \notin Modelled
            \/ prog[i].c = LDWABS /\ prog[i].k \notin {<<0, 0>>, <<0, 4>>}
       THEN "unmodelled"
  ELSE "ok"

\* bpf_check_classic(): length, jump targets inside the program, last instruction returns
Loadable(prog) ==
  LET n == Len(prog) IN
  /\ n \in 1..4096
  /\ prog[n].c \in {6, 22}
  /\ \A i \in 1..n :
       /\ prog[i].c \in KernelOps
       /\ prog[i].c = JA => prog[i].k[1] = 0 /\ i + 1 + prog[i].k[2] <= n
       /\ prog[i].c \in {21, 29, 53, 61, 37, 45, 69, 77} =>
             i + 1 + prog[i].jt <= n /\ i + 1 + prog[i].jf <= n
       /\ prog[i].c = LDWABS => prog[i].k[1] = 0 /\ prog[i].k[2] < 64 /\ prog[i].k[2] % 4 = 0

\* which word ("init" = 0, "arch", "nr") the accumulator may hold on arrival at each instruction
Reach(prog) ==
  LET n == Len(prog)
      add(R, j, S) == IF j <= n THEN [R EXCEPT ![j] = @ \cup S] ELSE R
      step(R, i) ==
        LET ins == prog[i] IN
        IF R[i] = {} THEN R
        ELSE CASE ins.c = LDWABS -> add(R, i + 1, IF ins.k = <<0, 4>> THEN {"arch"} ELSE {"nr"})
               [] ins.c = JA -> IF ins.k[1] = 0 THEN add(R, i + 1 + ins.k[2], R[i]) ELSE R
               [] ins.c \in CondJump -> add(add(R, i + 1 + ins.jt, R[i]), i + 1 + ins.jf, R[i])
               [] OTHER -> R
  IN FoldLeft(step, [i \in 1..n |-> IF i = 1 THEN {"init"} ELSE {}], Idx(prog))

Imms(prog, reach, kind) ==
  { prog[i].k : i \in { j \in DOMAIN prog : prog[j].c \in CondJump /\ kind \in reach[j] } }

NearAll(S) == UNION { Near(k) : k \in S }

ArchReps(prog, reach) ==
  {Native, I386, AARCH64, WZero, WMax, WPred(Native), WSucc(Native)}
    \cup NearAll(Imms(prog, reach, "arch"))

NrReps(P, prog, reach, extra) ==
  {WZero, WMax} \cup NearAll(Imms(prog, reach, "nr")) \cup NearAll(P.allow \cup P.trace)
    \cup NearAll({<<16384, 0>>, <<32768, 0>>, <<49152, 0>>}) \cup extra

\* ------------------------------------------------- policy lines written by the driver
Policy(l) == [allow |-> { W(n) : n \in ToSet(l.allow) },
              trace |-> { W(n) : n \in ToSet(l.trace) },
              def   |-> l.def]
=============================================================================
