CONSTANTS ControlsExisting = TRUE
  RandomFresh = TRUE
  OpenReturns = TRUE
  OwnsOnlyCreated = TRUE
  OpenKeepsLimits = TRUE
  MovesWholeProcess = TRUE
SPECIFICATION TSpec
INVARIANTS OneOwner
CONSTRAINT Mark
POSTCONDITION Report
CHECK_DEADLOCK FALSE
