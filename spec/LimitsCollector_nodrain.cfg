CONSTANTS MaxN = 2
  MaxVol = 6
  MaxCap = 2
  MaxChunk = 2
  Drain = FALSE
  CollectN = {0, 1, 2, 100, 4095, 4096, 65535, 65536, 65537, 1048576}
  SlowMax = 5000
  RecMaxDev = 2
SPECIFICATION CSpec
INVARIANTS NeverMoreThanCapPlusOne WriterNeverBroken ExactAtEnd
PROPERTIES WriterFinishes CollectorFinishes
CHECK_DEADLOCK FALSE
