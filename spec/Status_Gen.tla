----------------------------- MODULE Status_Gen -----------------------------
(* TLC as case generator for C09 (stand-alone; the check uses StatusRunners_MC, which model-checks *)
(* the transcriptions and writes the same case file in one TLC run).                               *)
EXTENDS Status_Cases, TLC, Json, SequencesExt

ASSUME ndJsonSerialize("cases.ndjson", SetToSeq(RealCases))
ASSUME PrintT(<<"generated", Cardinality(RealCases)>>)
VARIABLE x
Init == x = 0
Next == UNCHANGED x
=============================================================================
