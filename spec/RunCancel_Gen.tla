---------------------------- MODULE RunCancel_Gen ----------------------------
(* C11: cancellation / Destroy instants enumerated by TLC.                    *)
EXTENDS Integers, Sequences, FiniteSets, TLC, Json, SequencesExt
CONSTANTS Offs,        \* cancellation instants in ms after the call started
          Reps
Offsets == Offs \cup {-1}     \* -1 = the context is already cancelled when the run is started
\* "ptrace-ban": ptrace run whose traced calls are all soft-banned by a slow handler (the cancellation often
\* arrives while the tracee sits in a seccomp stop and the handler is still deciding)
\* "ptrace-trap": the same with a handler that answers at once (the tracee re-enters a seccomp stop every few
\* microseconds: the cancellation's SIGKILL lands in every phase of the tracer's wait / read-registers / resume loop)
Runners == {"ptrace", "ptrace-ban", "ptrace-trap", "unshare", "container", "container-sa"}
Cases ==
  \* a sleeping program: only the cancellation can end the run
       { [runner |-> r, prog |-> "sleep", at |-> a, nfiles |-> n, destroy |-> FALSE, frozen |-> FALSE, rep |-> k] :
            r \in Runners, a \in Offsets, n \in {3}, k \in 1..Reps }
  \cup { [runner |-> r, prog |-> "sleep", at |-> a, nfiles |-> 3000, destroy |-> FALSE, frozen |-> FALSE, rep |-> k] :
            r \in {"ptrace", "unshare"}, a \in Offsets, k \in 1..Reps }   \* (SCM_RIGHTS carries at most 253 descriptors)
  \* the launch window before the child's setsid (descriptor set-up of a long list comes first)
  \cup { [runner |-> "ptrace", prog |-> "sleep", at |-> a, nfiles |-> 3000, destroy |-> FALSE, frozen |-> FALSE, rep |-> 100 + k] :
            a \in {-1, 0, 1}, k \in 1..(6 * Reps) }
  \* a program that ends by itself at about the same time (genuine verdict or TLE)
  \cup { [runner |-> r, prog |-> "quick", at |-> a, nfiles |-> 3, destroy |-> FALSE, frozen |-> FALSE, rep |-> k] :
            r \in Runners, a \in Offsets \ {-1}, k \in 1..Reps }
  \* many cancellations spread over a run that is almost always inside a trap
  \cup { [runner |-> "ptrace-ban", prog |-> "sleep", at |-> a, nfiles |-> 3, destroy |-> FALSE, frozen |-> FALSE, rep |-> 200 + k] :
            a \in {5, 7, 11, 13, 17, 19, 23, 29, 45, 70, 110, 160}, k \in 1..(2 * Reps) }     \* (late instants: a loaded machine starts slowly)
  \cup { [runner |-> "ptrace-trap", prog |-> "sleep", at |-> a, nfiles |-> 3, destroy |-> FALSE, frozen |-> FALSE, rep |-> 400 + k] :
            a \in {5, 7, 9, 11, 13, 21, 34, 55, 89, 144}, k \in 1..(3 * Reps) }      \* (late instants: a loaded machine starts slowly)
  \* a program whose descendants ignore signals and leave its session / process group: all of them must be
  \* gone when the cancelled run returns, and the environment must serve the next (cancelled) run
  \cup { [runner |-> r, prog |-> "tree", at |-> a, nfiles |-> 3, destroy |-> FALSE, frozen |-> FALSE, rep |-> 500 + k] :
            r \in {"container", "container-sa", "unshare"}, a \in {120, 200}, k \in 1..Reps }
  \* Destroy while a call is in flight (container only)
  \cup { [runner |-> r, prog |-> p, at |-> a, nfiles |-> 3, destroy |-> TRUE, frozen |-> FALSE, rep |-> k] :
            r \in {"container", "container-sa"}, p \in {"sleep", "quick", "open", "ping"}, a \in Offsets \ {-1}, k \in 1..Reps }
  \* the same with the container init stopped (SIGSTOP) beforehand: the call is certainly still in flight
  \* when Destroy comes, so it must return an error -- it cannot have completed
  \cup { [runner |-> r, prog |-> p, at |-> a, nfiles |-> 3, destroy |-> TRUE, frozen |-> TRUE, rep |-> k] :
            r \in {"container", "container-sa"}, p \in {"sleep", "open", "ping", "reset", "delete"}, a \in {0, 20}, k \in 1..Reps }
\* the transport breaks between a cancellation and the container's answer to the kill (init stopped, so the
\* answer is certainly outstanding): cancel at `at`, Destroy 60 ms later -- the call must still return
CancelThenLoss ==
  { [runner |-> r, prog |-> "sleep", at |-> a, nfiles |-> 3, destroy |-> TRUE, frozen |-> TRUE, rep |-> 300 + k] :
      r \in {"container", "container-sa"}, a \in {30, 80}, k \in 1..Reps }
\* the cancellation and the program's own end are BOTH pending when the host looks (the API goroutine is held in
\* front of waitForDone's select for 120 ms): whichever the select takes, the kill handshake must be completed --
\* the next run on the same environment shows it
BothPending ==
  { [runner |-> r, prog |-> "quick", at |-> a, nfiles |-> 3, destroy |-> FALSE, frozen |-> FALSE, rep |-> 600 + k] :
      r \in {"container", "container-sa"}, a \in {5, 40}, k \in 1..(3 * Reps) }
ASSUME ndJsonSerialize("cases.ndjson", SetToSeq(Cases \cup CancelThenLoss \cup BothPending))
VARIABLE x
Init == x = 0
Next == UNCHANGED x
=============================================================================
