INIT Init
NEXT Next
