------------------------ MODULE PolicyAssembly_Judge ------------------------
(* Judges [rraw, rext, wraw, wext, q, class, base, got]: base = verdict of the default policy    *)
(* (no extras) observed on the real code, got = verdict of the policy assembled with the extras. *)
EXTENDS PolicyAssembly, TLC, Json
Obs == ndJsonDeserialize("asmobs.ndjson")
Judge(o) ==
  LET exp == Expected(o) IN
  IF o.got = exp THEN "ok"
  ELSE IF o.got = "allow" THEN "viol"          \* admitted although no declared entry covers it
  ELSE IF exp = "allow" THEN "drift"           \* declared but refused (over-restrictive)
  ELSE "viol"                                  \* the extras changed the kind of refusal
Bad == { i \in DOMAIN Obs : Judge(Obs[i]) # "ok" }
ASSUME ndJsonSerialize("asmbad.ndjson", SetToSeq({ [i |-> i, j |-> Judge(Obs[i]), exp |-> Expected(Obs[i])] : i \in Bad }))
ASSUME PrintT(<<"judged", Len(Obs), Cardinality(Bad)>>)
VARIABLE x
Init == x = 0
Next == UNCHANGED x
=============================================================================
