---------------------------- MODULE FileOps_Gen ----------------------------
(* TLC as case generator for C14: every file-system state over the three       *)
(* plantable paths, every Open item, every Symlink item, every Delete path,    *)
(* the shapes of operation sequences and the long-batch lengths.  The          *)
(* orchestrator composes cases (state x sequence of operations with batches of *)
(* length 0..4) from these: a covering family first (every kind x every mode   *)
(* x MkdirAll in the middle of a mixed batch), then a seeded sample.           *)
EXTENDS FileOpsDefs, TLC, Json

States == { fs \in FSStates : WellFormed(fs) }
OpenItems == { [p |-> p, mode |-> m, mk |-> k] : p \in OpenPaths, m \in Modes, k \in BOOLEAN }
LinkItems == { [link |-> l, to |-> t] : l \in LinkPaths, t \in LinkTargets }
Shapes == { <<"open">>, <<"open", "open">>, <<"symlink", "open">>, <<"open", "delete", "open">>,
            <<"delete", "symlink", "open">>, <<"open", "symlink", "delete">>, <<"symlink", "symlink">>,
            <<"delete", "delete", "open">> }
LongBatches == { 64, 253, 254, 300 }

ASSUME ndJsonSerialize("fsstates.ndjson", SetToSeq(States))
ASSUME ndJsonSerialize("openitems.ndjson", SetToSeq(OpenItems))
ASSUME ndJsonSerialize("linkitems.ndjson", SetToSeq(LinkItems))
ASSUME ndJsonSerialize("deletepaths.ndjson", SetToSeq({ [p |-> p] : p \in DeletePaths }))
ASSUME ndJsonSerialize("shapes.ndjson", SetToSeq({ [shape |-> s] : s \in Shapes }))
ASSUME ndJsonSerialize("long.ndjson", SetToSeq({ [n |-> n] : n \in LongBatches }))
ASSUME PrintT(<<"generated", Cardinality(States), Cardinality(OpenItems), Cardinality(LinkItems)>>)
VARIABLE x
Init == x = 0
Next == UNCHANGED x
=============================================================================
