---------------------------- MODULE FileOps_Gen ----------------------------
(* TLC as case generator for C14: every file-system state over the three       *)
(* plantable paths, every Open item, every Symlink item, every Delete path,    *)
(* the shapes of operation sequences and the long-batch lengths.  The          *)
(* orchestrator composes cases (state x sequence of operations with batches of *)
(* length 0..4) from these: a covering family first (every kind x every mode   *)
(* x MkdirAll in the middle of a mixed batch), then a seeded sample.           *)
EXTENDS FileOpsDefs, TLC, Json

States == { [a |-> fs.a, b |-> fs.b, sub |-> fs.sub, c |-> fs.c, n |-> 0, ld |-> 0, tl |-> "absent", tt |-> "absent"] : fs \in { f \in FSStates : WellFormed(f) } }
OpenItems == { [p |-> p, idx |-> 0, mode |-> m, mk |-> k, perm |-> q] : p \in OpenPaths, m \in Modes, k \in BOOLEAN, q \in Perms }
(* sustained large batches on one long-lived environment: `files` numbered files, `rounds`    *)
(* consecutive batches of `batch` items over them (plus a few absent indices), every round    *)
(* judged like any other Open                                                                *)
Sustained == { [files |-> 250, batch |-> 250, rounds |-> 100], [files |-> 253, batch |-> 253, rounds |-> 100],
               [files |-> 250, batch |-> 200, rounds |-> 300], [files |-> 253, batch |-> 253, rounds |-> 300],
               [files |-> 120, batch |-> 100, rounds |-> 300] }
NumberedItems == { [p |-> "n", idx |-> i, mode |-> m, mk |-> FALSE, perm |-> 420] : i \in 1..273, m \in {"r", "rw"} }
LinkItems == { [link |-> l, to |-> t, idx |-> 0, len |-> 0, what |-> ""] : l \in LinkPaths, t \in LinkTargets }
Shapes == { <<"open">>, <<"open", "open">>, <<"symlink", "open">>, <<"open", "delete", "open">>,
            <<"delete", "symlink", "open">>, <<"open", "symlink", "delete">>, <<"symlink", "symlink">>,
            <<"delete", "delete", "open">> }
LongBatches == { 64, 253, 254, 300 }

ASSUME ndJsonSerialize("fsstates.ndjson", SetToSeq(States))
ASSUME ndJsonSerialize("openitems.ndjson", SetToSeq(OpenItems))
ASSUME ndJsonSerialize("linkitems.ndjson", SetToSeq(LinkItems))
ASSUME ndJsonSerialize("deletepaths.ndjson", SetToSeq({ [p |-> p] : p \in DeletePaths }))
ASSUME ndJsonSerialize("shapes.ndjson", SetToSeq({ [shape |-> s] : s \in Shapes }))
ASSUME ndJsonSerialize("modes.ndjson", SetToSeq({ [mode |-> m, acc |-> Acc(m), flags |-> SetToSeq(Flags(m))] : m \in Modes }))
ASSUME ndJsonSerialize("long.ndjson", SetToSeq({ [n |-> n] : n \in LongBatches }))
(* long legal paths: failing (and a few succeeding) items whose error texts add up to a budget   *)
(* BELOW the 32 KiB frame: the reply must still be answered item by item                        *)
LongOpenItems == { [p |-> "L", idx |-> i, len |-> n, what |-> w, mode |-> m, mk |-> FALSE, perm |-> 420] :
                     i \in 1..40, n \in 1..3, w \in {"dir", "miss"}, m \in {"r", "w", "rw"} }
LongLinkItems == { [link |-> "L", to |-> "target", idx |-> i, len |-> n, what |-> w] :
                     i \in 1..40, n \in 1..3, w \in {"dir", "miss"} }
ErrBudgetsKiB == { 8, 16, 24, 30 }
ASSUME ndJsonSerialize("longopen.ndjson", SetToSeq(LongOpenItems))
ASSUME ndJsonSerialize("longlink.ndjson", SetToSeq(LongLinkItems))
ASSUME ndJsonSerialize("budgets.ndjson", SetToSeq({ [kib |-> b, op |-> o, len |-> n] : b \in ErrBudgetsKiB, o \in {"open", "symlink"}, n \in 1..3 }))
(* interacting directory chains: states of /w/l and /w/t, the items naming files below them, and  *)
(* the batch patterns in which the MkdirAll of one item and the parent of another interact        *)
TreeStates == { [tl |-> x, tt |-> y] : x \in {"absent", "dir", "file", "link"}, y \in {"absent", "dir"} }
TreeItems == { [p |-> p, idx |-> 0, mode |-> m, mk |-> k, perm |-> 420] : p \in {"ld", "td"}, m \in {"r", "w", "rw", "x", "ac"}, k \in BOOLEAN }
TreePatterns == { <<"ld+", "td+", "any">>,      \* earlier MkdirAll fails (dangling link), later item creates the link's target
                  <<"td+", "ld+", "any">>,      \* the other order: resolvable when its turn comes
                  <<"ld-", "ld+", "ld-">>,      \* a later item creates the parent of an earlier item without MkdirAll
                  <<"td-", "any", "td+", "td-">>,
                  <<"ld+", "ld+">>, <<"td+", "ld+", "td+">>,   \* the same directory requested twice
                  <<"c-", "c+", "c-">>,         \* the same with /w/sub/c
                  <<"any", "ld+", "any", "td+">> }
ASSUME ndJsonSerialize("treestates.ndjson", SetToSeq(TreeStates))
ASSUME ndJsonSerialize("treeitems.ndjson", SetToSeq(TreeItems))
ASSUME ndJsonSerialize("treepatterns.ndjson", SetToSeq({ [pat |-> q] : q \in TreePatterns }))
ASSUME ndJsonSerialize("sustained.ndjson", SetToSeq(Sustained))
ASSUME ndJsonSerialize("numbereditems.ndjson", SetToSeq(NumberedItems))
ASSUME PrintT(<<"generated", Cardinality(States), Cardinality(OpenItems), Cardinality(LinkItems)>>)
VARIABLE x
Init == x = 0
Next == UNCHANGED x
=============================================================================
