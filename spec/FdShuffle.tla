------------------------------ MODULE FdShuffle ------------------------------
(* C06 -- descriptor set-up of pkg/forkexec: Runner.Start (socketpair) and     *)
(* forkAndExecInChild (close parent's end, pass 1, pass 2, exec), shaped after *)
(* fork_linux.go:44-50, fork_util.go:29-41, fork_child_linux.go:27-31,139-194. *)
(* One action per system call the code issues on descriptors (socketpair,      *)
(* close, dup3, fcntl F_SETFD, execve/execveat); decisions that issue no call  *)
(* are silent steps (last.op = "none").                                        *)
(*                                                                             *)
(* Two consecutive starts of ONE caller-owned Runner value: a vfork child      *)
(* (CLONE_VM) shares the caller's memory, so what the child stores into the    *)
(* Runner is what the second start reads.                                      *)
(*                                                                             *)
(* FixSkipExec / FixLocalExec = TRUE describe the repaired code (fix: commits  *)
(* of DESIGN section 6 rows 11 and 6); FALSE describes the code as found, and  *)
(* TLC then refutes InternalAlive / NoClobber resp. CallerUnchanged.           *)
EXTENDS FdConfig, TLC

CONSTANTS MaxFd,     \* table size of the model
          FixSkipExec, FixLocalExec

VARIABLES cfg,       \* [files, exec, par, pipe, vfork] the configuration under test
          base,      \* the launching process's table when Start is called
          caller,    \* the caller's Runner value (parent memory): [files, exec]
          start,     \* 1 or 2
          tab,       \* table of the process being set up (parent's until clone, then the child's)
          par, pipe, \* p[0], p[1]
          fd, nextfd, execf, i,    \* the child's working variables
          pc, err,
          last       \* the system call issued by the last step
vars == <<cfg, base, caller, start, tab, par, pipe, fd, nextfd, execf, i, pc, err, last>>

Sys(op, a, b, c, r) == [op |-> op, a |-> a, b |-> b, c |-> c, r |-> r]
NoCall == Sys("none", 0, 0, 0, 0)
B2I(b) == IF b THEN 1 ELSE 0

-----------------------------------------------------------------------------
SrcId(n) == "s" \o ToString(n)
\* the caller's table: the executable at cfg.exec, a distinct file at every listed number,
\* close-on-exec /dev/null at every other number below p[1] except p[0]; all close-on-exec
InitTab(c) ==
  [n \in 0..MaxFd |->
     IF c.exec > 0 /\ n = c.exec THEN Ent("exe", TRUE)
     ELSE IF n \in Range(c.files) THEN Ent(SrcId(n), TRUE)
     ELSE IF n < c.pipe /\ n # c.par THEN Ent("null", TRUE)
     ELSE Closed]

Init ==
  /\ cfg \in ConfigSet
  /\ base = InitTab(cfg)
  /\ caller = [files |-> cfg.files, exec |-> cfg.exec]
  /\ start = 1 /\ tab = base /\ par = 0 /\ pipe = 0
  /\ fd = <<>> /\ nextfd = 0 /\ execf = 0 /\ i = 1
  /\ pc = "sock" /\ err = "none" /\ last = NoCall

-----------------------------------------------------------------------------
\* parent: socketpair(SOCK_CLOEXEC), prepareFds, clone (the child's table is a copy)
Sock ==
  /\ pc = "sock"
  /\ LET s == Low2(base) IN
       /\ par' = s[1] /\ pipe' = s[2]
       /\ tab' = [base EXCEPT ![s[1]] = Ent("syncp", TRUE), ![s[2]] = Ent("sync", TRUE)]
       /\ last' = Sys("socketpair", s[1], s[2], 1, 0)
  /\ fd' = caller.files /\ nextfd' = FirstScratch(caller.files)
  /\ execf' = caller.exec /\ i' = 1 /\ pc' = "closepar"
  /\ UNCHANGED <<cfg, base, caller, start, err>>

\* child: close(p[0])
ClosePar ==
  /\ pc = "closepar"
  /\ tab' = [tab EXCEPT ![par] = Closed]
  /\ last' = Sys("close", par, 0, 0, 0)
  /\ pc' = "p1_pipe"
  /\ UNCHANGED <<cfg, base, caller, start, par, pipe, fd, nextfd, execf, i, err>>

\* dup3(old, new, flags): conjunct for tab', err', last'; the caller of this operator
\* supplies pc' and the variable updates through Then / UNCHANGED
Dup3OK(old, new) == /\ old \in 0..MaxFd /\ new \in 0..MaxFd /\ old # new
                    /\ tab[old].f # NoFile
Dup3(old, new, cx) ==
  IF Dup3OK(old, new)
    THEN /\ tab' = [tab EXCEPT ![new] = Ent(tab[old].f, cx)]
         /\ last' = Sys("dup3", old, new, B2I(cx), new)
         /\ UNCHANGED err
    ELSE /\ err' = IF old > MaxFd \/ new > MaxFd THEN "MODEL_BOUND"
                   ELSE IF old = new THEN "EINVAL" ELSE "EBADF"
         /\ last' = Sys("dup3", old, new, B2I(cx), -1)
         /\ UNCHANGED tab

\* r.ExecFile = v in the child: with CLONE_VM this is the caller's struct unless the
\* child works on a local copy
SetExec(v) ==
  /\ execf' = v
  /\ caller' = IF cfg.vfork /\ ~FixLocalExec THEN [caller EXCEPT !.exec = v] ELSE caller

HasExec == execf > 0
SkipE(n) == IF HasExec /\ n = execf THEN n + 1 ELSE n         \* for nextfd == ExecFile { nextfd++ }
SkipP(n) == IF n = pipe THEN n + 1 ELSE n                     \* for nextfd == pipe { nextfd++ }
SkipPE(n) == LET S == {pipe} \cup (IF HasExec THEN {execf} ELSE {})
             IN Min({ m \in n..(n + 2) : m \notin S })        \* for nextfd == pipe || nextfd == ExecFile

\* pass 1a: move the sync socket above the scratch start
P1Pipe ==
  /\ pc = "p1_pipe"
  /\ IF pipe < nextfd
       THEN LET n == IF FixSkipExec THEN SkipE(nextfd) ELSE nextfd IN
            /\ Dup3(pipe, n, TRUE)
            /\ IF Dup3OK(pipe, n)
                 THEN pipe' = n /\ nextfd' = n + 1 /\ pc' = "p1_exec"
                 ELSE pc' = "failed" /\ UNCHANGED <<pipe, nextfd>>
       ELSE /\ pc' = "p1_exec" /\ last' = NoCall /\ UNCHANGED <<tab, err, pipe, nextfd>>
  /\ UNCHANGED <<cfg, base, caller, start, par, fd, execf, i>>

\* pass 1b: move the exec descriptor
P1Exec ==
  /\ pc = "p1_exec"
  /\ IF HasExec /\ execf < nextfd
       THEN LET n == SkipP(nextfd) IN
            /\ Dup3(execf, n, TRUE)
            /\ IF Dup3OK(execf, n)
                 THEN SetExec(n) /\ nextfd' = n + 1 /\ pc' = "p1_loop"
                 ELSE pc' = "failed" /\ UNCHANGED <<execf, caller, nextfd>>
       ELSE /\ pc' = "p1_loop" /\ last' = NoCall /\ UNCHANGED <<tab, err, execf, caller, nextfd>>
  /\ UNCHANGED <<cfg, base, start, par, pipe, fd, i>>

\* pass 1c: sources below their target slot move to scratch numbers (code: fd[i] < i, 0-based)
P1Loop ==
  /\ pc = "p1_loop"
  /\ IF i > Len(fd) THEN /\ pc' = "p2_loop" /\ i' = 1 /\ last' = NoCall
                         /\ UNCHANGED <<tab, err, fd, nextfd>>
     ELSE IF fd[i] >= 0 /\ fd[i] < i - 1
       THEN LET n == SkipPE(nextfd) IN
            /\ Dup3(fd[i], n, TRUE)
            /\ IF Dup3OK(fd[i], n)
                 THEN fd' = [fd EXCEPT ![i] = n] /\ nextfd' = n + 1 /\ i' = i + 1 /\ UNCHANGED pc
                 ELSE pc' = "failed" /\ UNCHANGED <<fd, nextfd, i>>
       ELSE /\ i' = i + 1 /\ last' = NoCall /\ UNCHANGED <<tab, err, fd, nextfd, pc>>
  /\ UNCHANGED <<cfg, base, caller, start, par, pipe, execf>>

\* pass 2: every slot gets its file
P2Loop ==
  /\ pc = "p2_loop"
  /\ IF i > Len(fd) THEN /\ pc' = "exec" /\ last' = NoCall /\ UNCHANGED <<tab, err, i>>
     ELSE IF fd[i] = -1
       THEN /\ tab' = [tab EXCEPT ![i - 1] = Closed]             \* close(i), result ignored
            /\ last' = Sys("close", i - 1, 0, 0, IF tab[i - 1].f = NoFile THEN -1 ELSE 0)
            /\ i' = i + 1 /\ UNCHANGED <<err, pc>>
     ELSE IF fd[i] = i - 1
       THEN IF tab[i - 1].f = NoFile                             \* fcntl(i, F_SETFD, 0)
              THEN /\ err' = "EBADF" /\ pc' = "failed" /\ last' = Sys("fcntl", i - 1, 0, 0, -1)
                   /\ UNCHANGED <<tab, i>>
              ELSE /\ tab' = [tab EXCEPT ![i - 1].cx = FALSE] /\ last' = Sys("fcntl", i - 1, 0, 0, 0)
                   /\ i' = i + 1 /\ UNCHANGED <<err, pc>>
     ELSE /\ Dup3(fd[i], i - 1, FALSE)                           \* dup3(fd[i], i, 0)
          /\ IF Dup3OK(fd[i], i - 1) THEN i' = i + 1 /\ UNCHANGED pc
                                     ELSE pc' = "failed" /\ UNCHANGED i
  /\ UNCHANGED <<cfg, base, caller, start, par, pipe, fd, nextfd, execf>>

\* execveat(r.ExecFile, "", AT_EMPTY_PATH) if r.ExecFile > 0, else execve(path)
Exec ==
  /\ pc = "exec"
  /\ IF HasExec /\ (execf > MaxFd \/ tab[execf].f # "exe")
       THEN /\ pc' = "failed" /\ err' = "EXEC" /\ last' = Sys("exec", execf, 0, 0, -1)
            /\ UNCHANGED tab
       ELSE /\ tab' = AfterExec(tab) /\ pc' = "done"
            /\ last' = Sys("exec", IF HasExec THEN execf ELSE -1, 0, 0, 0)
            /\ UNCHANGED err
  /\ UNCHANGED <<cfg, base, caller, start, par, pipe, fd, nextfd, execf, i>>

\* the caller starts the same Runner value again (its own table is unchanged:
\* Start closed both socket ends, the child's table was a copy)
Restart ==
  /\ pc = "done" /\ start = 1
  /\ start' = 2 /\ pc' = "sock" /\ tab' = base /\ last' = NoCall
  /\ UNCHANGED <<cfg, base, caller, par, pipe, fd, nextfd, execf, i, err>>

Next == Sock \/ ClosePar \/ P1Pipe \/ P1Exec \/ P1Loop \/ P2Loop \/ Exec \/ Restart
Spec == Init /\ [][Next]_vars

-----------------------------------------------------------------------------
\* Property layer
TableExact == pc = "done" => TableExactFor(cfg.files, base, tab)
\* every listed descriptor is open in the caller, so a valid configuration never fails
NoFailure == pc # "failed"
\* launching does not modify the caller's configuration
CallerUnchanged == caller = [files |-> cfg.files, exec |-> cfg.exec]

\* Implementation layer
NoModelBound == err # "MODEL_BOUND"
\* when execve is reached the internal descriptors are still what they were
InternalAlive ==
  pc = "exec" => /\ tab[pipe] = Ent("sync", TRUE)
                 /\ (cfg.exec > 0 => execf <= MaxFd /\ tab[execf] = Ent("exe", TRUE))
\* clobber freedom: no dup3 / close ever targets a number that still holds a source that
\* is not yet placed, the sync socket or the exec descriptor
Pending == IF pc \in {"closepar", "p1_pipe", "p1_exec", "p1_loop"} THEN Range(fd) \cap Nat
           ELSE IF pc = "p2_loop" THEN { fd[k] : k \in i..Len(fd) } \cap Nat
           ELSE {}
Live == IF pc \in {"closepar", "p1_pipe", "p1_exec", "p1_loop", "p2_loop"}
          THEN Pending \cup {pipe} \cup (IF HasExec THEN {execf} ELSE {})
          ELSE {}
NoClobberStep ==
  /\ (last'.op = "dup3" /\ last'.r >= 0) => last'.b \notin Live
  /\ (last'.op = "close" /\ pc = "p2_loop") => last'.a \notin Live
NoClobber == [][NoClobberStep]_vars
=============================================================================
