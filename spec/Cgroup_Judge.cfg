INIT Init
NEXT Next
