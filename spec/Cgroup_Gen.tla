----------------------------- MODULE Cgroup_Gen -----------------------------
(* TLC as case generator for C20 (the histories come from Cgroup_MC):          *)
(*   race    creator rounds: who asks for which name, what exists before, and  *)
(*           the order in which the driver releases the creators from the gates *)
(*           (every interleaving of their critical steps)                       *)
(*   units   burner workloads                                                   *)
(*   fix     contents of the kernel's statistics files                          *)
EXTENDS Integers, Sequences, FiniteSets, TLC, Json, SequencesExt
CONSTANT WithRace3

\* every order in which G creators can be released R times each
Scheds(G, R) == { s \in [1..(G * R) -> 1..G] : \A g \in 1..G : Cardinality({ i \in 1..(G * R) : s[i] = g }) = R }
New(n) == [kind |-> "new", name |-> n, names |-> <<>>]
Top(n) == [kind |-> "top", name |-> n, names |-> <<>>]
Rnd(ns) == [kind |-> "random", name |-> "", names |-> ns]
Race(ver, ctls, pre, cr, s, d) == [ver |-> ver, ctls |-> ctls, pre |-> pre, creators |-> cr, sched |-> s, destroy |-> d]
V1 == <<"cpu", "memory">>
V2 == <<"u">>
Names == {"x", "y"}
Pres == {<<>>, <<"x">>}

Race2 ==   \* two creators, every schedule
  { Race(1, V1, p, <<New(a), New(b)>>, s, d) : p \in Pres, a \in Names, b \in Names, s \in Scheds(2, 3), d \in {<<1, 2>>, <<2, 1>>} }
  \cup { Race(1, V1, p, <<Top(a), Top(b)>>, s, <<1, 2>>) : p \in Pres, a \in {"x"}, b \in Names, s \in Scheds(2, 3) }
  \cup { Race(1, V1, p, <<Rnd(<<"c", "r1">>), Rnd(<<"c", "r2">>)>>, s, <<2, 1>>) : p \in {<<>>, <<"c">>}, s \in Scheds(2, 3) }
  \cup { Race(1, V1, <<>>, <<Rnd(<<"c", "r1">>), New("c")>>, s, <<1, 2>>) : s \in Scheds(2, 3) }
  \cup { Race(2, V2, p, <<New(a), New(b)>>, s, d) : p \in Pres, a \in Names, b \in Names, s \in Scheds(2, 1), d \in {<<1, 2>>, <<2, 1>>} }
  \cup { Race(2, V2, p, <<Top(a), Top(b)>>, s, <<1, 2>>) : p \in Pres, a \in {"x"}, b \in Names, s \in Scheds(2, 4) }
  \cup { Race(2, V2, p, <<Rnd(<<"c", "r1">>), Rnd(<<"c", "r2">>)>>, s, <<2, 1>>) : p \in {<<>>, <<"c">>}, s \in Scheds(2, 1) }
Race3 ==   \* three creators over two names (a sample of the schedules is run)
  { Race(1, V1, p, <<New(a), New(b), New(c)>>, s, <<3, 1, 2>>) :
       p \in Pres, a \in {"x"}, b \in Names, c \in Names, s \in Scheds(3, 3) }

\* ---- groups that pre-exist in a subset of the v1 hierarchies (an administrator's mkdir), every
\* proper non-empty subset, for New / Nest / top-level New, followed by Destroy and by a re-creation
O(o, h, name, names, path, pid) == [op |-> o, h |-> h, name |-> name, names |-> names, path |-> path, pid |-> pid, kind |-> "", val |-> 0]
TopOp == O("top", 0, "", <<>>, <<>>, "")
MkOp(p, cs) == O("mk", 0, "", SetToSeq(cs), p, "")
NewOp(h, n) == O("new", h, n, <<>>, <<>>, "")
NestOp(h, n) == O("nest", h, n, <<>>, <<>>, "")
AddOp(h, k) == O("add", h, "", <<>>, <<>>, k)
DesOp(h) == O("destroy", h, "", <<>>, <<>>, "")
OpenOp(p) == O("open", 0, "", <<>>, p, "")
CtlSets == { {"cpu", "memory"}, {"cpuacct", "memory", "pids"}, {"cpu", "cpuacct", "memory"} }
MixedFor(C) == UNION { {
    <<TopOp, MkOp(<<"x">>, cs), NewOp(1, "x"), DesOp(2)>>,
    <<TopOp, MkOp(<<"x">>, cs), NewOp(1, "x"), AddOp(2, "p1"), DesOp(2), NewOp(1, "x"), AddOp(3, "p1"), DesOp(3)>>,
    <<TopOp, AddOp(1, "p1"), AddOp(1, "p2"), MkOp(<<"x">>, cs), NestOp(1, "x"), NewOp(1, "x"), DesOp(3), DesOp(2)>>,
    <<MkOp(<<>>, cs), TopOp, AddOp(1, "p2"), NewOp(1, "y"), DesOp(2), DesOp(1)>>,
    <<MkOp(<<>>, cs), TopOp, DesOp(1)>>,
    <<TopOp, NewOp(1, "x"), MkOp(<<"x", "y">>, cs), NewOp(2, "y"), OpenOp(<<"x", "y">>), DesOp(3), DesOp(2)>>,
    <<TopOp, MkOp(<<"x">>, cs), OpenOp(<<"x">>), NewOp(1, "x"), OpenOp(<<"x">>), DesOp(3), DesOp(2)>> } :
      cs \in (SUBSET C) \ {{}, C} }
Mixed == UNION { { [ctls |-> SetToSeq(C), ops |-> h] : h \in MixedFor(C) } : C \in CtlSets }

\* ---- limits written stay in force: a Set* followed by every way of obtaining another handle on the same
\* or a related group (New on the existing child, OpenExisting, top-level New of the existing base, child
\* creation, Nest, AddProc, creating and destroying a sibling), for every kind of limit of the controller set
SetOp(h, k, v) == [op |-> "set", h |-> h, name |-> "", names |-> <<>>, path |-> <<>>, pid |-> "", kind |-> k, val |-> v]
KV(C) == (IF "memory" \in C THEN {<<"mem", 8388608>>} ELSE {}) \cup (IF "cpu" \in C THEN {<<"cpu", 50000>>} ELSE {})
         \cup (IF "pids" \in C THEN {<<"pids", 7>>} ELSE {}) \cup (IF "cpuset" \in C THEN {<<"cpus", 2>>, <<"cpus", 3>>} ELSE {})
LimCtlSets == { {"cpuset", "memory"}, {"cpu", "cpuset"}, {"cpu", "memory"}, {"cpuacct", "memory", "pids"} }
LimFor(C) == UNION { {
    <<TopOp, NewOp(1, "x"), AddOp(2, "p1"), SetOp(2, kv[1], kv[2]), NewOp(1, "x"), AddOp(3, "p2"), DesOp(3)>>,
    <<TopOp, NewOp(1, "x"), AddOp(2, "p1"), SetOp(2, kv[1], kv[2]), OpenOp(<<"x">>), DesOp(3)>>,
    <<TopOp, AddOp(1, "p1"), SetOp(1, kv[1], kv[2]), TopOp, AddOp(2, "p2"), OpenOp(<<>>), DesOp(2)>>,
    <<TopOp, NewOp(1, "x"), AddOp(2, "p1"), SetOp(2, kv[1], kv[2]), NestOp(2, "y"), NewOp(2, "x"), NewOp(1, "y"), DesOp(5), DesOp(4)>>,
    <<TopOp, NewOp(1, "x"), SetOp(2, kv[1], kv[2]), NewOp(1, "x"), SetOp(3, kv[1], kv[2]), NewOp(1, "x"), DesOp(3)>> } : kv \in KV(C) }
Limits == UNION { { [ctls |-> SetToSeq(C), ops |-> h] : h \in LimFor(C) } : C \in LimCtlSets }

Units == { [ver |-> v, ms |-> ms, mib |-> mib] : v \in {1, 2}, ms \in {30, 120}, mib \in {8, 24} }

Vals == {"0", "1", "999", "2147483648", "9007199254740993"}
Others == << <<"user_usec", "5">>, <<"system_usec", "7">>, <<"core_sched.force_idle_usec", "0">>, <<"nr_throttled", "2">> >>
Fix(r, lines, missing, nl) == [reader |-> r, lines |-> lines, missing |-> missing, nl |-> nl]
FixCpu ==
  { Fix("v2cpu", SubSeq(Others, 1, k) \o << <<"usage_usec", v>> >> \o SubSeq(Others, k + 1, 4), FALSE, TRUE) : k \in 0..4, v \in Vals \cup {"max"} }
  \cup { Fix("v2cpu", Others, FALSE, TRUE), Fix("v2cpu", <<>>, FALSE, FALSE), Fix("v2cpu", <<>>, TRUE, FALSE) }
Uint == {"v2mem", "v2mempeak", "v2pidspeak", "v1cpu", "v1mem", "v1memmax"}
FixUint ==
  { Fix(r, << <<v>> >>, FALSE, nl) : r \in Uint, v \in Vals \cup {"max"}, nl \in BOOLEAN }
  \cup { Fix(r, <<>>, FALSE, FALSE) : r \in Uint } \cup { Fix(r, <<>>, TRUE, FALSE) : r \in Uint }

ASSUME ndJsonSerialize("race2.ndjson", SetToSeq(Race2))
ASSUME ndJsonSerialize("race3.ndjson", IF WithRace3 THEN SetToSeq(Race3) ELSE <<>>)
ASSUME ndJsonSerialize("mixed.ndjson", SetToSeq(Mixed \cup Limits))
ASSUME ndJsonSerialize("units.ndjson", SetToSeq(Units))
ASSUME ndJsonSerialize("fix.ndjson", SetToSeq(FixCpu \cup FixUint))
ASSUME PrintT(<<"generated", Cardinality(Race2), Cardinality(Units), Cardinality(FixCpu \cup FixUint)>>)
VARIABLE x
Init == x = 0
Next == UNCHANGED x
=============================================================================
