CONSTANTS Runner = "ptrace"
  N = 4
SPECIFICATION Spec
INVARIANT Clean
PROPERTY Returns
CHECK_DEADLOCK FALSE
