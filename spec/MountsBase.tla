----------------------------- MODULE MountsBase -----------------------------
(***************************************************************************)
(* C05 -- file-system confinement.  Pure operators (no variables):          *)
(*                                                                         *)
(*  1. the menu of mount-table entries and the configuration space          *)
(*  2. Prog(cfg, env): the syscall sequence the code emits for a table      *)
(*       "fork": pkg/forkexec/fork_child_linux.go (raw in-child sequence,   *)
(*               driven the way runner/unshare does)                        *)
(*       "cont": container/container_init_linux.go initFileSystem +         *)
(*               pkg/mount/mount_linux.go Mount.Mount + maskPath            *)
(*  3. a model of the kernel's mount namespace: Apply(st, op, env)          *)
(*  4. the property layer Reach: what a program can see / modify in a       *)
(*     namespace state, and what the configuration declares                 *)
(*                                                                         *)
(* Paths are sequences of components relative to the new root; <<>> is "/". *)
(* Mounts.tla wraps 2+3 into a state machine (one action per syscall),      *)
(* Mounts_Gen enumerates the configurations, Mounts_Judge judges the        *)
(* observations of real sandboxes, Mounts_Trace validates strace traces.    *)
(***************************************************************************)
EXTENDS Integers, Sequences, FiniteSets, SequencesExt

\* ------------------------------------------------------------------ errno
OK == 0   EPERM == 1   ENOENT == 2   EBUSY == 16   EEXIST == 17
ENOTDIR == 20   EINVAL == 22   EROFS == 30   ENOTEMPTY == 39

\* ------------------------------------------------------------------ 1. menu
\* entries produced by the mount.Builder helpers (WithBind / WithTmpfs / WithProc[RW]) ...
BuilderKinds == {"bdro", "bdrw", "bfro", "bfrw", "tmp", "procro", "procrw", "nest", "nestf", "noent", "bdrol", "bdros", "bdrof", "nestb", "nestt"}
\* ... and hand-written mount.Mount values (public struct, accepted by container.Builder.Mounts and, through
\* Builder.WithMount(...).Build(), by the namespace runner) with flag combinations the helpers never produce.
\* "Declared read-only" is the MS_RDONLY bit of the entry, whatever else is set.
HandKinds == {"hbro", "hbrox", "hfro", "hbrw", "htro"}
Kinds == BuilderKinds \cup HandKinds
\* the menu used where the cube of the menu size matters (3-entry tables in the model checker)
KindsCore == {"bdros", "bdro", "bdrw", "tmp", "procro", "nest", "nestf", "nestb", "nestt", "noent", "bdrol", "hbro", "hfro", "hbrw", "htro"}
\* (parent, child) kinds whose effect depends on the order of the table: the child is declared after its
\* parent and sits inside it; mounted in the other order the parent covers the child.  Gen always writes
\* these pairs with a missing-source bind (dropped by FilterNotExist) before and between them.
NestPairs == { <<"tmp", "nest">>, <<"tmp", "nestf">>, <<"bdrw", "nestb">>, <<"bdro", "nestb">>, <<"bdrw", "nestt">>, <<"hbrw", "nest">> }

BN == <<"b1", "b2", "b3">>      \* targets of directory binds
FN == <<"f1", "f2", "f3">>      \* targets of file binds
NN == <<"n1", "n2", "n3">>      \* nested directory targets under "w"
GN == <<"g1", "g2", "g3">>      \* nested file targets under "w"
XN == <<"x1", "x2", "x3">>      \* targets of binds whose source does not exist
KN == <<"k1", "k2", "k3">>      \* targets of binds from the nosuid,nodev,noexec file system
YN == <<"y1", "y2", "y3">>      \* targets of binds whose source file system changes between build and run
VN == <<"v1", "v2", "v3">>      \* targets of binds from the file system with shared propagation
HN == <<"h1", "h2", "h3">>      \* targets of hand-written directory binds
EN == <<"e1", "e2", "e3">>      \* targets of hand-written file binds
RN == <<"r1", "r2", "r3">>      \* targets of hand-written read-only tmpfs
DS == <<"d1", "d2", "d3">>      \* source directories
SS == <<"s1", "s2", "s3">>      \* source files
MS == <<"m1", "m2", "m3">>      \* missing sources
LS == <<"l1", "l2", "l3">>      \* source directories on the "locked" file system
QS == <<"q1", "q2", "q3">>      \* source directories on a file system that is READ-ONLY while the mount table is
                                \* built (FilterNotExist / Build) and writable when the sandbox runs: read-only-ness
                                \* must be enforced by the mount sequence of every run, not inferred from host state
PS == <<"p1", "p2", "p3">>      \* source directories on a host mount with SHARED propagation; the host mounts
                                \* a file system on <source>/dyn once the sandbox has been set up

DirSrc    == {"d1", "d2", "d3", "l1", "l2", "l3", "p1", "p2", "p3", "q1", "q2", "q3"}
FlipSrc   == {"q1", "q2", "q3"}
SharedSrc == {"p1", "p2", "p3"}
FileSrc   == {"s1", "s2", "s3"}
LockedSrc == {"l1", "l2", "l3"}
MissingSrc == {"m1", "m2", "m3"}

\* type of a host source: directory, regular file, character device, or missing
SrcType(id) == IF id \in DirSrc THEN "d" ELSE IF id \in FileSrc THEN "f"
               ELSE IF id = "devnull" THEN "c" ELSE "none"

\* what the driver plants in every source directory
SrcDirContent == { [p |-> <<"inside">>, t |-> "f"], [p |-> <<"secret">>, t |-> "f"],
                   [p |-> <<"secretd">>, t |-> "d"], [p |-> <<"secretd", "inner">>, t |-> "f"] }

\* api: "bind" | "tmpfs" | "proc" = the builder helper of that name (flags: BuilderFlags);
\*      "raw" = a mount.Mount literal with file-system type fst and exactly the flags fl
B(api, tgt, src, ro) == [api |-> api, tgt |-> tgt, src |-> src, ro |-> ro, fst |-> "", fl |-> {}]
H(tgt, src, fst, fl) == [api |-> "raw", tgt |-> tgt, src |-> src, ro |-> "RDONLY" \in fl, fst |-> fst, fl |-> fl]
SrcContent(id) == IF id \in SharedSrc THEN SrcDirContent \cup { [p |-> <<"dyn">>, t |-> "d"] } ELSE SrcDirContent

PrevPos(i) == IF i = 1 THEN 3 ELSE i - 1
Entry(i, k) ==
  CASE k = "bdro"   -> B("bind",  <<BN[i]>>,      DS[i],   TRUE)
    [] k = "bdrw"   -> B("bind",  <<BN[i]>>,      DS[i],   FALSE)
    [] k = "bfro"   -> B("bind",  <<FN[i]>>,      SS[i],   TRUE)
    [] k = "bfrw"   -> B("bind",  <<FN[i]>>,      SS[i],   FALSE)
    [] k = "tmp"    -> B("tmpfs", <<"w">>,        "tmpfs", FALSE)
    [] k = "procro" -> B("proc",  <<"proc">>,     "proc",  TRUE)
    [] k = "procrw" -> B("proc",  <<"proc">>,     "proc",  FALSE)
    [] k = "nest"   -> B("bind",  <<"w", NN[i]>>, DS[i],   TRUE)
    [] k = "nestf"  -> B("bind",  <<"w", GN[i]>>, SS[i],   TRUE)
    [] k = "noent"  -> B("bind",  <<XN[i]>>,      MS[i],   TRUE)
    [] k = "bdrol"  -> B("bind",  <<KN[i]>>,      LS[i],   TRUE)
    [] k = "bdros"  -> B("bind",  <<VN[i]>>,      PS[i],   TRUE)
    [] k = "bdrof"  -> B("bind",  <<YN[i]>>,      QS[i],   TRUE)
    \* nested inside the directory bind of the previous position (cyclic): a read-only bind over its
    \* "secretd" directory; a tmpfs over it (hides secretd/inner of the parent's source)
    [] k = "nestb"  -> B("bind",  <<BN[PrevPos(i)], "secretd">>, DS[i],   TRUE)
    [] k = "nestt"  -> B("tmpfs", <<BN[PrevPos(i)], "secretd">>, "tmpfs", FALSE)
    \* hand-written: plain read-only bind; read-only bind with extra restrictions but without
    \* NOSUID/PRIVATE; read-only file bind, non-recursive; writable bind with restrictions; read-only tmpfs
    [] k = "hbro"   -> H(<<HN[i]>>, DS[i],   "",      {"BIND", "RDONLY"})
    [] k = "hbrox"  -> H(<<HN[i]>>, DS[i],   "",      {"BIND", "RDONLY", "REC", "NODEV", "NOEXEC"})
    [] k = "hfro"   -> H(<<EN[i]>>, SS[i],   "",      {"BIND", "RDONLY", "PRIVATE", "NOSUID"})
    [] k = "hbrw"   -> H(<<HN[i]>>, DS[i],   "",      {"BIND", "NOSUID", "NODEV"})
    [] k = "htro"   -> H(<<RN[i]>>, "tmpfs", "tmpfs", {"RDONLY", "NOSUID", "NODEV"})

DevNullEntry == B("bind", <<"dev", "null">>, "devnull", FALSE)

\* a configuration: cfg = [impl, kinds, linkm, maskm, devnull]
\*   linkm/maskm: "none" (fork), "def" (builder defaults), "cus" (custom lists below)
Entries(cfg) == [i \in 1..Len(cfg.kinds) |-> Entry(i, cfg.kinds[i])]
                \o (IF cfg.devnull THEN <<DevNullEntry>> ELSE <<>>)
\* builder flag sets (pkg/mount/builder_linux.go); a hand-written entry carries its own
EntryFlags(e) ==
  CASE e.api = "bind"  -> {"BIND", "NOSUID", "PRIVATE", "REC"} \cup (IF e.ro THEN {"RDONLY"} ELSE {})
    [] e.api = "tmpfs" -> {"NOSUID", "NOATIME", "NODEV"}
    [] e.api = "proc"  -> {"NOSUID", "NODEV", "NOEXEC"} \cup (IF e.ro THEN {"RDONLY"} ELSE {})
    [] e.api = "raw"   -> e.fl
EntryFsType(e) == CASE e.api = "bind" -> "" [] e.api = "raw" -> e.fst [] OTHER -> e.api
IsBind(e) == "BIND" \in EntryFlags(e)          \* Mount.IsBindMount
Exists(e) == ~IsBind(e) \/ SrcType(e.src) # "none"
\* mount.Builder.FilterNotExist: binds whose source does not exist are dropped, order kept
Effective(cfg) == SelectSeq(Entries(cfg), Exists)

DefaultLinks == << [lp |-> <<"dev", "fd">>, to |-> "/proc/self/fd"],
                   [lp |-> <<"dev", "stdin">>, to |-> "/proc/self/fd/0"],
                   [lp |-> <<"dev", "stdout">>, to |-> "/proc/self/fd/1"],
                   [lp |-> <<"dev", "stderr">>, to |-> "/proc/self/fd/2"] >>
CustomLinks  == << [lp |-> <<"lnk", "a">>, to |-> "/w"], [lp |-> <<"top">>, to |-> "b1/inside"] >>
Links(cfg) == CASE cfg.linkm = "def" -> DefaultLinks [] cfg.linkm = "cus" -> CustomLinks [] OTHER -> <<>>

DefaultMasks == << <<"proc", "acpi">>, <<"proc", "asound">>, <<"proc", "kcore">>, <<"proc", "keys">>,
                   <<"proc", "latency_stats">>, <<"proc", "timer_list">>, <<"proc", "timer_stats">>,
                   <<"proc", "sched_debug">>, <<"sys", "firmware">>, <<"proc", "scsi">>,
                   <<"usr", "lib", "wsl">> >>
CustomMasks  == << <<"b1", "secret">>, <<"b1", "secretd">>, <<"b2", "secret">>, <<"b2", "secretd">>,
                   <<"b3", "secret">>, <<"b3", "secretd">>, <<"proc", "keys">>, <<"w", "n2", "secret">> >>
Masks(cfg) == CASE cfg.maskm = "def" -> DefaultMasks [] cfg.maskm = "cus" -> CustomMasks [] OTHER -> <<>>

\* the configuration space: every table of at most n entries, both implementations
TablesOver(K, n) == UNION { [1..k -> K] : k \in 0..n }
TablesUpTo(n) == TablesOver(Kinds, n)
ForkCfgsOver(K, n) == { [impl |-> "fork", kinds |-> t, linkm |-> "none", maskm |-> "none", devnull |-> FALSE]
                          : t \in TablesOver(K, n) }
ForkCfgsOf(n) == ForkCfgsOver(Kinds, n)
\* opts: set of <<linkm, maskm, devnull>>; an empty effective table would make the container
\* builder fall back to its default mounts, which is not a case of this property
ContCfgsOver(K, n, opts) ==
  { c \in { [impl |-> "cont", kinds |-> t, linkm |-> o[1], maskm |-> o[2], devnull |-> o[3]]
             : t \in TablesOver(K, n), o \in opts }
      : Len(Effective(c)) > 0 }
ContCfgsOf(n, opts) == ContCfgsOver(Kinds, n, opts)
ContOptsAll  == {"def", "cus"} \X {"def", "cus"} \X BOOLEAN
ContOptsTwo  == { <<"def", "def", FALSE>>, <<"cus", "cus", TRUE>> }
ContOptsMain == { <<"def", "def", TRUE>>, <<"def", "def", FALSE>>, <<"cus", "cus", TRUE>>, <<"cus", "cus", FALSE>> }

\* ------------------------------------------------------------------ environment facts
\* env = [proc   : set of [p, t]  entries of a procfs root that matter for masking (host fact),
\*        srcfl  : statfs flag names of the file system holding the ordinary sources,
\*        lockfl : statfs flag names of the "locked" file system,
\*        sharefl: statfs flag names of the file system holding the shared-propagation sources,
\*        shared : that file system really has shared propagation on the host side (all other host
\*                 mounts are private: the driver runs under unshare -m --propagation private)]
\*        flipfl : statfs flag names of the flip file system AT RUN TIME (it was read-only at build time)
HostFl(src, env) == IF src \in LockedSrc THEN env.lockfl ELSE IF src \in SharedSrc THEN env.sharefl
                    ELSE IF src \in FlipSrc THEN env.flipfl
                    ELSE IF src = "devnull" THEN {} ELSE env.srcfl
MntFlagNames == {"RDONLY", "NOSUID", "NODEV", "NOEXEC"}
\* statfs bits that have the same value as the MS_ flag: ST_RELATIME (4096) is not MS_RELATIME
StatfsKeep == {"NOSUID", "NODEV", "NOEXEC", "NOATIME", "NODIRATIME"}

\* ------------------------------------------------------------------ 2. the programs
Parent(p)   == SubSeq(p, 1, Len(p) - 1)

Op(k, src, tgt, fst, fl, ok) == [k |-> k, src |-> src, tgt |-> tgt, fst |-> fst, fl |-> fl, ok |-> ok]

\* mkdir for every proper prefix, mknod for the last one when the source is not a directory
MakeNod(e) == IsBind(e) /\ SrcType(e.src) \in {"f", "c"}
TargetOps(e) ==
  [j \in 1..Len(e.tgt) |->
     IF j = Len(e.tgt) /\ MakeNod(e)
     THEN Op("mknod", "", SubSeq(e.tgt, 1, j), "", {}, {OK, EEXIST})
     ELSE Op("mkdir", "", SubSeq(e.tgt, 1, j), "", {}, {OK, EEXIST})]
BindRo(e) == {"BIND", "RDONLY"} \subseteq EntryFlags(e)
RemountFlags(e, env) == EntryFlags(e) \cup {"REMOUNT"} \cup (HostFl(e.src, env) \cap StatfsKeep)
EntryOps(e, env) ==
     TargetOps(e)
  \o << Op("mount", e.src, e.tgt, EntryFsType(e), EntryFlags(e), {OK}) >>
  \o (IF BindRo(e)
      THEN << Op("statfs", e.src, <<>>, "", {}, {OK}),
              Op("remount", "", e.tgt, EntryFsType(e), RemountFlags(e, env), {OK}) >>
      ELSE <<>>)

Concat(ss) == FoldLeft(LAMBDA acc, s : acc \o s, <<>>, ss)

RootRemountFlags == {"BIND", "REMOUNT", "RDONLY", "NOATIME", "NOSUID"}
PivotOps == << Op("mkdir", "", <<"old_root">>, "", {}, {OK}),
               Op("pivot", "", <<"old_root">>, "", {}, {OK}),
               Op("umount", "", <<"old_root">>, "", {"DETACH"}, {OK}),
               Op("rmdir", "", <<"old_root">>, "", {}, {OK}) >>
RootRoOp == Op("remount", "tmpfs", <<>>, "tmpfs", RootRemountFlags, {OK})

LinkOps(l) ==
     [j \in 1..(Len(l.lp) - 1) |-> Op("mkdir", "", SubSeq(l.lp, 1, j), "", {}, {OK, EEXIST})]
  \o << Op("symlink", l.to, l.lp, "", {}, {OK}) >>
\* maskPath (container/container_init_linux.go), one op per syscall; which of them run is decided by
\* the register st.mk that the preceding steps set (Skipped):
\*   maskbind   mount("/dev/null", p, MS_BIND)      ok -> done; ENOTDIR -> "tmpfs"; ENOENT -> "stat"
\*   maskstat   stat(p)           [mk = "stat"]      absent -> done; directory -> "tmpfs"; else -> "empty"
\*   masktmp    mount("tmpfs", p, MS_RDONLY)   [mk = "tmpfs"]
\*   maskmk     create /.mask in the root tmpfs, maskbinde bind it over p, maskro remount it read-only,
\*   maskrm     unlink /.mask                  [mk = "empty"]
MaskTmp == <<".mask">>
MaskOps(p) == << Op("maskbind",  "/dev/null", p, "", {"BIND"}, {OK, ENOENT, ENOTDIR}),
                 Op("maskstat",  "", p, "", {}, {OK, ENOENT}),
                 Op("masktmp",   "tmpfs", p, "tmpfs", {"RDONLY"}, {OK}),
                 Op("maskmk",    "", MaskTmp, "", {}, {OK}),
                 Op("maskbinde", ".mask", p, "", {"BIND"}, {OK}),
                 Op("maskro",    "", p, "", {"BIND", "REMOUNT", "RDONLY"}, {OK}),
                 Op("maskrm",    "", MaskTmp, "", {}, {OK}) >>

Prog(cfg, env) ==
  LET E == Effective(cfg)
      ents == Concat([i \in 1..Len(E) |-> EntryOps(E[i], env)])
  IN IF cfg.impl = "fork"
     THEN << Op("private", "none", <<>>, "", {"REC", "PRIVATE"}, {OK}),
             Op("mountroot", "tmpfs", <<>>, "tmpfs", {}, {OK}),
             Op("chdir", "", <<>>, "", {}, {OK}) >>
          \o ents \o PivotOps \o << RootRoOp >>
     ELSE << Op("private", "", <<>>, "", {"REC", "PRIVATE"}, {OK}),
             Op("mountroot", "tmpfs", <<>>, "tmpfs", {}, {OK}),
             Op("chdir", "", <<>>, "", {}, {OK}) >>
          \o ents \o PivotOps
          \o Concat([i \in 1..Len(Links(cfg)) |-> LinkOps(Links(cfg)[i])])
          \o Concat([i \in 1..Len(Masks(cfg)) |-> MaskOps(Masks(cfg)[i])])
          \o << RootRoOp >>

\* ------------------------------------------------------------------ 3. kernel model
\* st = [mt    : sequence of mounts in creation order,
\*              [at, fs ("tmpfs"|"proc"|"bind"|"host"), id (file-system instance / source id),
\*               fl (subset of MntFlagNames), atime ("rel"|"no"), sbro, lock (flags a remount may not clear),
\*               prop ("private"|"slave": a slave receives every mount the host makes below its source)]
\*       files : set of [fs, p, t] objects created in tmpfs instances (t: d f l)
\*       host  : "under" (new root is a directory of the host tree) | "old" (host tree at /old_root) | "gone"
\*       cwd   : "host" | "new",
\*       priv  : the inherited tree was made MS_REC|MS_PRIVATE.  Cloning into a new user+mount namespace
\*               turns every shared host mount into a slave; a bind mount is a clone of its source mount
\*               and inherits that (the MS_PRIVATE bit in a bind's flags is ignored by mount(2))
\*       nfs   : number of file-system instances created,   last : errno of the last syscall
\*       fail  : a syscall ended with a result the code treats as fatal
\*       mk    : what maskPath still has to do for the current path: "done" | "stat" | "tmpfs" | "empty"
\*       seen  : kinds of the syscalls executed so far (vacuity check: every kind is executed somewhere) ]
FsIds == << "fs1", "fs2", "fs3", "fs4", "fs5", "fs6", "fs7", "fs8", "fs9", "fs10", "fs11", "fs12",
            "fs13", "fs14", "fs15", "fs16", "fs17", "fs18", "fs19", "fs20" >>

St0 == [mt |-> <<>>, files |-> {}, host |-> "under", cwd |-> "host", priv |-> FALSE,
        nfs |-> 0, last |-> OK, fail |-> FALSE, mk |-> "done", seen |-> {}]

Rel(p, at) == SubSeq(p, Len(at) + 1, Len(p))

\* Path resolution.  Mounts are only ever added (except the detach of the whole old root), never
\* moved, so the mount that serves path p is the LAST one whose mount point is a prefix of p:
\* a later mount on the same point is stacked on top, a later mount on an ancestor hides the
\* earlier one, a later mount further down the path sits inside it.
Cands(mt, p)  == { j \in DOMAIN mt : IsPrefix(mt[j].at, p) }
Owner(mt, p)  == LET C == Cands(mt, p) IN CHOOSE j \in C : \A k \in C : k <= j
\* a mount is hidden when a later mount sits on the same path or on an ancestor of it
Hidden(mt, j) == \E l \in (j + 1)..Len(mt) : IsPrefix(mt[l].at, mt[j].at)

MRootType(m) == IF m.fs = "bind" THEN (IF m.id = "empty" THEN "f" ELSE SrcType(m.id)) ELSE "d"
\* objects of the file system behind a mount; procfs content matters only for masking
FsContent(st, m, env) ==
  CASE m.fs = "bind"  -> IF m.id \in DirSrc THEN SrcContent(m.id) ELSE {}
    [] m.fs = "tmpfs" -> { [p |-> x.p, t |-> x.t] : x \in { y \in st.files : y.fs = m.id } }
    [] m.fs = "proc"  -> env.proc
    [] m.fs = "host"  -> { [p |-> <<"HOST">>, t |-> "d"] }
TypeIn(st, m, rel, env) ==
  IF rel = <<>> THEN MRootType(m)
  ELSE LET X == { x \in FsContent(st, m, env) : x.p = rel }
       IN IF X = {} THEN "none" ELSE (CHOOSE x \in X : TRUE).t

\* what is at namespace path p: the owning mount and the type of the object ("none": nothing)
Lookup(st, p, env) ==
  IF Cands(st.mt, p) = {} THEN [m |-> 0, t |-> "none"]
  ELSE LET j == Owner(st.mt, p)
       IN [m |-> j, t |-> TypeIn(st, st.mt[j], Rel(p, st.mt[j].at), env)]

WritableM(m) == "RDONLY" \notin m.fl /\ ~m.sbro

Res(st, e) == [st EXCEPT !.last = e]

\* mkdirat / mknodat / symlinkat: create an object of type ty at p
ApplyCreate(st, p, ty, env) ==
  LET par == Lookup(st, Parent(p), env)
      cur == Lookup(st, p, env)
  IN IF par.t = "none" THEN Res(st, ENOENT)
     ELSE IF par.t # "d" THEN Res(st, ENOTDIR)
     ELSE IF cur.t # "none" THEN Res(st, EEXIST)
     ELSE IF ~WritableM(st.mt[par.m]) THEN Res(st, EROFS)
     ELSE IF st.mt[par.m].fs # "tmpfs" THEN Res(st, EPERM)   \* outside the modelled domain
     ELSE [st EXCEPT !.files = @ \cup {[fs |-> st.mt[par.m].id, p |-> Rel(p, st.mt[par.m].at), t |-> ty]},
                     !.last = OK]

NewMount(at, fs, id, fl, atime, sbro, lock, prop) ==
  [at |-> at, fs |-> fs, id |-> id, fl |-> fl, atime |-> atime, sbro |-> sbro, lock |-> lock, prop |-> prop]

\* mount(2) of a new file system instance (tmpfs, proc)
ApplyMountNew(st, op, env) ==
  LET tg == Lookup(st, op.tgt, env)
  IN IF tg.t = "none" THEN Res(st, ENOENT)
     ELSE IF tg.t # "d" THEN Res(st, ENOTDIR)
     ELSE [st EXCEPT !.mt = Append(@, NewMount(op.tgt, op.fst, FsIds[st.nfs + 1], op.fl \cap MntFlagNames,
                                            IF "NOATIME" \in op.fl THEN "no" ELSE "rel",
                                            "RDONLY" \in op.fl, {}, "private")),
                     !.nfs = @ + 1, !.last = OK]

\* mount(2) MS_BIND of a host source: the new mount takes the flags of the source's mount (the flag
\* argument is ignored except MS_REC); across a user namespace those flags are locked
ApplyMountBind(st, op, env) ==
  LET tg == Lookup(st, op.tgt, env)
      sT == SrcType(op.src)
      inh == HostFl(op.src, env) \cap MntFlagNames
  IN IF sT = "none" \/ tg.t = "none" THEN Res(st, ENOENT)
     ELSE IF (sT = "d") # (tg.t = "d") THEN Res(st, ENOTDIR)
     ELSE [st EXCEPT !.mt = Append(@, NewMount(op.tgt, "bind", op.src, inh, "rel", FALSE, inh,
                                            IF op.src \in SharedSrc /\ env.shared /\ ~st.priv THEN "slave" ELSE "private")),
                     !.last = OK]

\* mount(src, p, "", MS_BIND) where the source is a path inside the container (/dev/null, /.mask):
\* the new mount takes the flags of the mount the source lives on
ApplyBindNs(st, op, sp, id, env) ==
  LET tg == Lookup(st, op.tgt, env)
      sr == Lookup(st, sp, env)
  IN IF sr.t = "none" \/ tg.t = "none" THEN Res(st, ENOENT)
     ELSE IF (sr.t = "d") # (tg.t = "d") THEN Res(st, ENOTDIR)
     ELSE LET sm == st.mt[sr.m]
          IN [st EXCEPT !.mt = Append(@, NewMount(op.tgt, "bind", id, sm.fl, sm.atime, FALSE, sm.lock, sm.prop)),
                        !.last = OK]
ApplyMaskBind(st, op, env) ==
  LET s2 == ApplyBindNs(st, op, <<"dev", "null">>, "devnull", env)
  IN [s2 EXCEPT !.mk = CASE s2.last = ENOENT -> "stat" [] s2.last = ENOTDIR -> "tmpfs" [] OTHER -> "done"]
ApplyMaskStat(st, op, env) ==
  LET tg == Lookup(st, op.tgt, env)
  IN IF tg.t = "none" THEN [st EXCEPT !.last = ENOENT, !.mk = "done"]
     ELSE [st EXCEPT !.last = OK, !.mk = IF tg.t = "d" THEN "tmpfs" ELSE "empty"]

ApplyUnlink(st, op, env) ==
  LET tg == Lookup(st, op.tgt, env)
  IN IF tg.t = "none" THEN Res(st, ENOENT)
     ELSE LET m == st.mt[tg.m]
              rel == Rel(op.tgt, m.at)
          IN IF rel = <<>> THEN Res(st, EBUSY)
             ELSE IF ~WritableM(m) THEN Res(st, EROFS)
             ELSE [st EXCEPT !.files = { x \in @ : ~(x.fs = m.id /\ x.p = rel) }, !.last = OK]

\* mount(2) MS_REMOUNT|MS_BIND: per-mount flags are replaced; locked flags may not be cleared;
\* without an atime flag the atime mode is preserved
ApplyRemount(st, op, env) ==
  LET tg == Lookup(st, op.tgt, env)
  IN IF st.host = "under" /\ op.tgt = <<>> THEN Res(st, EINVAL)      \* would be the host root
     ELSE IF tg.t = "none" THEN Res(st, ENOENT)
     ELSE LET m == st.mt[tg.m]
              nf == op.fl \cap MntFlagNames
          IN IF m.at # op.tgt THEN Res(st, EINVAL)
             ELSE IF ~(m.lock \subseteq nf) THEN Res(st, EPERM)
             ELSE [st EXCEPT !.mt[tg.m].fl = nf,
                             !.mt[tg.m].atime = IF "NOATIME" \in op.fl THEN "no" ELSE m.atime,
                             !.last = OK]

\* pivot_root(new_root, "old_root"): the host tree is re-attached at /old_root of the new root
ApplyPivot(st, op, env) ==
  LET tg == Lookup(st, op.tgt, env)
  IN IF st.host # "under" \/ st.cwd # "new" THEN Res(st, EINVAL)
     ELSE IF tg.t = "none" THEN Res(st, ENOENT)
     ELSE IF tg.t # "d" THEN Res(st, ENOTDIR)
     ELSE [st EXCEPT !.mt = Append(@, NewMount(op.tgt, "host", "host", {}, "rel", FALSE, {}, "private")),
                     !.host = "old", !.last = OK]

\* umount2(p, MNT_DETACH): the mount at p and everything mounted below it leave the namespace
ApplyUmount(st, op, env) ==
  LET tg == Lookup(st, op.tgt, env)
  IN IF tg.t = "none" THEN Res(st, ENOENT)
     ELSE IF st.mt[tg.m].at # op.tgt \/ op.tgt = <<>> THEN Res(st, EINVAL)
     ELSE LET keep == SelectSeq(st.mt, LAMBDA m : ~IsPrefix(op.tgt, m.at))
          IN [st EXCEPT !.mt = keep,
                        !.host = IF \E i \in DOMAIN keep : keep[i].fs = "host" THEN @
                                 ELSE IF @ = "old" THEN "gone" ELSE @,
                        !.last = OK]

ApplyRmdir(st, op, env) ==
  LET tg == Lookup(st, op.tgt, env)
  IN IF tg.t = "none" THEN Res(st, ENOENT)
     ELSE IF tg.t # "d" THEN Res(st, ENOTDIR)
     ELSE LET m == st.mt[tg.m]
              rel == Rel(op.tgt, m.at)
          IN IF rel = <<>> THEN Res(st, EBUSY)
             ELSE IF \E x \in FsContent(st, m, env) : IsPrefix(rel, x.p) /\ x.p # rel THEN Res(st, ENOTEMPTY)
             ELSE IF ~WritableM(m) THEN Res(st, EROFS)
             ELSE [st EXCEPT !.files = { x \in @ : ~(x.fs = m.id /\ x.p = rel) }, !.last = OK]

ApplyRaw(st, op, env) ==
  CASE op.k = "private"   -> [st EXCEPT !.priv = "PRIVATE" \in op.fl, !.last = OK]
    [] op.k = "mountroot" -> [st EXCEPT !.mt = << NewMount(<<>>, "tmpfs", "root", {}, "rel", FALSE, {}, "private") >>,
                                        !.last = OK]
    [] op.k = "chdir"     -> [st EXCEPT !.cwd = "new", !.last = OK]
    [] op.k = "mkdir"     -> ApplyCreate(st, op.tgt, "d", env)
    [] op.k = "mknod"     -> ApplyCreate(st, op.tgt, "f", env)
    [] op.k = "symlink"   -> ApplyCreate(st, op.tgt, "l", env)
    [] op.k = "mount"     -> IF "BIND" \in op.fl THEN ApplyMountBind(st, op, env) ELSE ApplyMountNew(st, op, env)
    [] op.k = "statfs"    -> Res(st, IF SrcType(op.src) = "none" THEN ENOENT ELSE OK)
    [] op.k = "remount"   -> ApplyRemount(st, op, env)
    [] op.k = "pivot"     -> ApplyPivot(st, op, env)
    [] op.k = "umount"    -> ApplyUmount(st, op, env)
    [] op.k = "rmdir"     -> ApplyRmdir(st, op, env)
    [] op.k = "maskbind"  -> ApplyMaskBind(st, op, env)
    [] op.k = "maskstat"  -> ApplyMaskStat(st, op, env)
    [] op.k = "masktmp"   -> [ApplyMountNew(st, op, env) EXCEPT !.mk = "done"]
    [] op.k = "maskmk"    -> ApplyCreate(st, op.tgt, "f", env)
    [] op.k = "maskbinde" -> ApplyBindNs(st, op, MaskTmp, "empty", env)
    [] op.k = "maskro"    -> ApplyRemount(st, op, env)
    [] op.k = "maskrm"    -> [ApplyUnlink(st, op, env) EXCEPT !.mk = "done"]

\* conditional steps are skipped (state unchanged) when their condition does not hold
Skipped(st, op) == \/ op.k = "maskstat" /\ st.mk # "stat"
                   \/ op.k = "masktmp" /\ st.mk # "tmpfs"
                   \/ op.k \in {"maskmk", "maskbinde", "maskro", "maskrm"} /\ st.mk # "empty"
\* one step of the code: the syscall and the code's reaction to its result
Apply(st, op, env) ==
  IF st.fail \/ Skipped(st, op) THEN st
  ELSE LET s2 == ApplyRaw(st, op, env)
       IN [s2 EXCEPT !.fail = s2.last \notin op.ok, !.seen = @ \cup {op.k}]

OpKinds == {"private", "mountroot", "chdir", "mkdir", "mknod", "mount", "statfs", "remount", "pivot", "umount",
            "rmdir", "symlink", "maskbind", "maskstat", "masktmp", "maskmk", "maskbinde", "maskro", "maskrm"}

Final(cfg, env) == FoldLeft(LAMBDA s, op : Apply(s, op, env), St0, Prog(cfg, env))

\* The environment, while the program runs: the host mounts a tmpfs with a marker file on <source>/dyn of
\* every shared-propagation source.  Every mount of the sandbox that is still a slave of that source's
\* mount receives a copy at <its mount point>/dyn (writable, whatever the bind says).
HostMounted(st, env) ==
  LET recv == SelectSeq([j \in DOMAIN st.mt |-> st.mt[j]],
                        LAMBDA m : m.fs = "bind" /\ m.id \in SharedSrc /\ m.prop # "private")
      news == [j \in DOMAIN recv |-> NewMount(recv[j].at \o <<"dyn">>, "tmpfs", "dynfs", {}, "rel", FALSE, {}, "slave")]
  IN IF ~env.shared \/ recv = <<>> THEN st
     ELSE [st EXCEPT !.mt = @ \o news,
                     !.files = @ \cup { [fs |-> "dynfs", p |-> <<"hostmarker">>, t |-> "f"] }]

\* ------------------------------------------------------------------ 4. property layer: Reach
\* every object a program can name below "/" (procfs is never descended into)
TreeContent(st, m, env) == IF m.fs = "proc" THEN {} ELSE FsContent(st, m, env)
\* the probe does not descend into procfs: nothing below a procfs directory is listed
BelowProc(st, q) == \E n \in 1..(Len(q) - 1) : st.mt[Owner(st.mt, SubSeq(q, 1, n))].fs = "proc"
Tree(st, env) ==
  LET cand == UNION { { st.mt[j].at \o x.p : x \in TreeContent(st, st.mt[j], env) } \cup { st.mt[j].at }
                      : j \in DOMAIN st.mt }
      all  == { [p |-> q, t |-> Lookup(st, q, env).t] : q \in { c \in cand : c # <<>> /\ ~BelowProc(st, c) } }
  IN { x \in all : x.t # "none" }
TopNames(tree) == { x.p[1] : x \in tree }

\* can the object at p be modified?  (mount flag or super-block flag read-only => no)
Writable(st, p, env) == LET r == Lookup(st, p, env) IN r.t # "none" /\ WritableM(st.mt[r.m])
HostReachable(st) == st.host # "gone" \/ \E j \in DOMAIN st.mt : st.mt[j].fs = "host"

\* state a program sees at a masked path: "absent" | "null" | "emptydir" | "emptyfile" | "exposed"
MaskState(st, p, env) ==
  LET r == Lookup(st, p, env)
  IN IF r.t = "none" THEN "absent"
     ELSE LET m == st.mt[r.m]
          IN IF m.at = p /\ m.fs = "bind" /\ m.id = "devnull" THEN "null"
             ELSE IF m.at = p /\ m.fs = "bind" /\ m.id = "empty" /\ ~WritableM(m) THEN "emptyfile"
             ELSE IF m.at = p /\ m.fs = "tmpfs" /\ FsContent(st, m, env) = {} /\ ~WritableM(m) THEN "emptydir"
             ELSE "exposed"
MaskedOK(s) == s \in {"absent", "null", "emptydir", "emptyfile"}

\* ---- what the configuration declares (independent of the step machine)
DeclNames(cfg) == { Effective(cfg)[i].tgt[1] : i \in DOMAIN Effective(cfg) }
                  \cup { Links(cfg)[i].lp[1] : i \in DOMAIN Links(cfg) }
\* entry i of the effective table is hidden by a later entry on the same target or on an ancestor
DeclHidden(E, i) == \E l \in (i + 1)..Len(E) : IsPrefix(E[l].tgt, E[i].tgt)
\* a visible object is accounted for by the configuration
DeclaredObject(cfg, x) ==
  LET E == Effective(cfg)
  IN \/ \E i \in DOMAIN E : IsPrefix(x.p, E[i].tgt)                             \* mount point or a directory leading to it
     \/ \E i \in DOMAIN E : /\ IsBind(E[i]) /\ E[i].src \in DirSrc         \* content of a declared bind source
                            /\ IsPrefix(E[i].tgt, x.p)
                            /\ \E c \in SrcContent(E[i].src) : c.p = Rel(x.p, E[i].tgt)
     \/ \E i \in DOMAIN Links(cfg) : IsPrefix(x.p, Links(cfg)[i].lp)            \* symlink or a directory leading to it

\* the confinement property of a final namespace state, as the property sentence states it
\* no mount of the sandbox may receive propagation from the host, at any time of the program's life
AllPrivate(st)          == \A j \in DOMAIN st.mt : st.mt[j].prop = "private"
RootReadOnly(st, env)   == ~Writable(st, <<>>, env)
OldRootGone(st, env)    == ~HostReachable(st) /\ Lookup(st, <<"old_root">>, env).t = "none"
OnlyConfigured(cfg, st, env) ==
  /\ TopNames(Tree(st, env)) = DeclNames(cfg)
  /\ \A x \in Tree(st, env) : DeclaredObject(cfg, x)
\* a configured mask path on or above an entry's target wins over the entry (masks are applied last)
MaskCovered(cfg, tgt) == \E i \in DOMAIN Masks(cfg) : IsPrefix(Masks(cfg)[i], tgt)
WritableIffDeclared(cfg, st, env) ==
  LET E == Effective(cfg)
  IN \A i \in DOMAIN E : (~DeclHidden(E, i) /\ ~MaskCovered(cfg, E[i].tgt)) =>
        LET r == Lookup(st, E[i].tgt, env)
        IN /\ r.t # "none" /\ st.mt[r.m].at = E[i].tgt                \* the entry is mounted there
           /\ Writable(st, E[i].tgt, env) <=> ~E[i].ro
MasksHold(cfg, st, env) ==
  \A i \in DOMAIN Masks(cfg) : MaskedOK(MaskState(st, Masks(cfg)[i], env))

=============================================================================
