CONSTANT WithRace3 = TRUE
INIT Init
NEXT Next
