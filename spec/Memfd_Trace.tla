---------------------------- MODULE Memfd_Trace ----------------------------
(* Trace validation for C13/memfd.  One line of memtraces.ndjson per case:       *)
(*   [size, pat, reader, exec, ev |-> << dup, handover, (exec)?, op* >>]         *)
(*   dup      : ok, src [size, pos, yields], size_in, sha_in   what was supplied  *)
(*   handover : obs [size, sha, seals, pos], samples <<[off, b]>>                *)
(*   exec     : status, ops <<[target, op, res]>> attempts of the program that   *)
(*              was executed FROM the memfd (against /proc/self/exe, an inherited *)
(*              descriptor and its /proc/self/fd path), obs afterwards           *)
(*   op       : target, op, res, obs        attempt by the harness               *)
(* An event is accepted only if the observed file is a possible successor state  *)
(* of the kernel model AND still Frozen (same bytes, same size, same seal set as *)
(* at hand-over).  Register N+t = 1 (implementation layer) when a result code    *)
(* differs from the kernel model although the file stayed frozen, or when the    *)
(* seal set at hand-over is not the documented one.                              *)
EXTENDS MemfdDefs, SequencesExt, TLC, Json
Traces == ndJsonDeserialize("memtraces.ndjson")
N == Len(Traces)
VARIABLES t, l, st, size0, sha0, seals0
tvars == <<t, l, st, size0, sha0, seals0>>

PatByte(p, off) == CASE p = "zero" -> 0 [] p = "ff" -> 255 [] p = "ramp" -> (off * 7 + 3) % 251

None == [size |-> -1, content |-> "none", seals |-> {}, pos |-> 0, exec |-> FALSE]
TInit == /\ t \in 1..N /\ l = 1 /\ st = None /\ size0 = -1 /\ sha0 = "" /\ seals0 = {}

Matches(obs, s) ==
  /\ obs.size = s.size /\ obs.pos = s.pos /\ ToSet(obs.seals) = s.seals
  /\ (obs.sha = sha0) = (s.content = "orig")

(* dup: src = [size, pos, yields] of the reader as the driver built it; the expected content is  *)
(* what the reader yields (size_in bytes with hash sha_in, taken independently of DupToMemfd)   *)
EDup(e) ==
  /\ e.ok
  /\ e.size_in = ExpectedSize(e.src)
  /\ (Traces[t].pat \notin {"probe", "kernel"} => e.size_in = Traces[t].size)
  /\ SourceOK(Traces[t].reader, e.src)
  /\ size0' = e.size_in /\ sha0' = e.sha_in /\ st' = None /\ UNCHANGED seals0

(* what DupToMemfd hands out: exactly the supplied bytes, positioned at the start; whether *)
(* it "cannot be written, truncated, grown or unsealed" is decided by the attempts below    *)
EHandover(e) ==
  /\ e.obs.size = size0 /\ e.obs.sha = sha0 /\ e.obs.pos = 0
  /\ (~(Required \subseteq ToSet(e.obs.seals)) => TLCSet(N + t, 1))
  /\ seals0' = ToSet(e.obs.seals)
  /\ \A i \in DOMAIN e.samples : e.samples[i].b = PatByte(Traces[t].pat, e.samples[i].off)   \* offsets within the supplied bytes
  /\ st' = [size |-> size0, content |-> "orig", seals |-> ToSet(e.obs.seals), pos |-> 0, exec |-> FALSE]
  /\ UNCHANGED <<size0, sha0>>

EOp(e) ==
  /\ e.op \in Ops
  /\ \E n \in Effect(e.op, e.res, st) : Matches(e.obs, n) /\ Frozen(n, size0, seals0) /\ st' = n
  /\ (e.res # KernelRes(e.op, st) => TLCSet(N + t, 1))
  /\ UNCHANGED <<size0, sha0, seals0>>

(* a program ran from the memfd: fold its attempts through the model with exec = TRUE.    *)
(* If it did not complete normally only the observed file is judged (it must be frozen)   *)
(* and the case is flagged as a set-up problem (register 2N+t).                           *)
ObsFrozen(obs) == obs.size = size0 /\ obs.sha = sha0 /\ ToSet(obs.seals) = seals0
EExec(e) ==
  /\ \A i \in DOMAIN e.ops : e.ops[i].op \in Ops
  /\ IF e.status # "Normal" \/ Len(e.ops) = 0
       THEN /\ ObsFrozen(e.obs) /\ TLCSet(2 * N + t, 1) /\ st' = [st EXCEPT !.pos = e.obs.pos]
       ELSE LET step(S, o) == UNION { Effect(o.op, o.res, s) : s \in S }
                final == FoldLeft(step, { [st EXCEPT !.exec = TRUE] }, e.ops)
                drift == FoldLeft(LAMBDA acc, o : acc \/ o.res # KernelRes(o.op, [st EXCEPT !.exec = TRUE]), FALSE, e.ops)
            IN /\ \E n \in { [s EXCEPT !.exec = FALSE, !.pos = 0] : s \in final } :
                    Matches(e.obs, n) /\ Frozen(n, size0, seals0) /\ st' = n
               /\ (drift => TLCSet(N + t, 1))
  /\ UNCHANGED <<size0, sha0, seals0>>

TStep ==
  /\ l <= Len(Traces[t].ev)
  /\ LET e == Traces[t].ev[l] IN
       CASE e.e = "dup"      -> l = 1 /\ EDup(e)
         [] e.e = "handover" -> l = 2 /\ EHandover(e)
         [] e.e = "exec"     -> l > 2 /\ EExec(e)
         [] e.e = "op"       -> l > 2 /\ EOp(e)
  /\ l' = l + 1 /\ t' = t
TSpec == TInit /\ [][TStep]_tvars

Mark == TLCSet(t, IF TLCGet(t) < l - 1 THEN l - 1 ELSE TLCGet(t))
ASSUME \A i \in 1..(3 * N) : TLCSet(i, 0)
Report ==
  ndJsonSerialize("bad.ndjson",
        SetToSeq({ [t |-> i, matched |-> TLCGet(i), j |-> "reject"] : i \in { j \in 1..N : TLCGet(j) < Len(Traces[j].ev) } })
     \o SetToSeq({ [t |-> i, matched |-> TLCGet(i), j |-> "drift"] : i \in { j \in 1..N : TLCGet(N + j) = 1 } })
     \o SetToSeq({ [t |-> i, matched |-> TLCGet(i), j |-> "setup"] : i \in { j \in 1..N : TLCGet(2 * N + j) = 1 } }))
=============================================================================
