---------------------------- MODULE Mounts_Judge ----------------------------
(***************************************************************************)
(* TLC as judge for C05: one line of obs.ndjson per sandbox that was built  *)
(* on the real code (harness/cmd/mounts), with what the probe inside saw    *)
(* and could do.  For every line the expected namespace is computed by the  *)
(* model (Final) from the configuration and the host facts of the line.     *)
(*                                                                         *)
(* Classes of findings (bad.ndjson: [i, c, w, k, p]):                       *)
(*   "viol"   the property sentence is breached on the real code            *)
(*   "drift"  the code deviates from the model without breaching the        *)
(*            property (missing mount, rw mount refusing writes, flags)     *)
(*   "model"  two independent kernel views contradict each other or the     *)
(*            model of the kernel (mountinfo vs statvfs vs behaviour):      *)
(*            my model is wrong -> the run is inconclusive                  *)
(*   "setup"  the sandbox could not be started for a reason outside the     *)
(*            mount sequence -> inconclusive                                *)
(***************************************************************************)
EXTENDS MountsBase, TLC, Json

Obs == ndJsonDeserialize("obs.ndjson")

CfgOf(o) == [impl |-> o.case.impl, kinds |-> o.case.kinds, linkm |-> o.case.linkm,
             maskm |-> o.case.maskm, devnull |-> o.case.devnull]
EnvOf(o) == [proc |-> ToSet(o.procfacts), srcfl |-> ToSet(o.srcfl), lockfl |-> ToSet(o.lockfl),
             sharefl |-> ToSet(o.sharefl), shared |-> o.srcshared, flipfl |-> ToSet(o.flipfl)]

\* error locations of the mount block (pkg/forkexec/errloc_linux.go) and of the container init
MountPhases == {"mount(root)", "mount(tmpfs)", "mount(chdir)", "mount", "mount(mkdir)", "pivot_root",
                "umount", "unlink", "mount(readonly)", "init_fs"}

F(c, w, k, p) == [c |-> c, w |-> w, k |-> k, p |-> p]

\* kind of the table entry (or "root" / "devnull" / "mask") that owns path p in the expected namespace
KindAt(cfg, st, p, env) ==
  LET r == Lookup(st, p, env)
  IN IF r.t = "none" THEN "none"
     ELSE LET at == st.mt[r.m].at
              I  == { i \in DOMAIN cfg.kinds : Entry(i, cfg.kinds[i]).tgt = at }
          IN IF at = <<>> THEN "root"
             ELSE IF I # {} THEN cfg.kinds[CHOOSE i \in I : \A j \in I : j <= i]
             ELSE IF at = <<"dev", "null">> THEN "devnull" ELSE "mask"

\* ---- mountinfo as a mount table: [at, fs, root, opts, sbro] in creation order
MiOwner(mi, p) == LET C == { j \in DOMAIN mi : IsPrefix(mi[j].at, p) } IN CHOOSE j \in C : \A k \in C : k <= j
MiRo(mi, p) == LET m == mi[MiOwner(mi, p)] IN m.sbro \/ "ro" \in ToSet(m.opts)
\* the model's table rendered the way the driver renders mountinfo lines
OptsOf(m) == (IF "RDONLY" \in m.fl THEN {"ro"} ELSE {}) \cup (IF "NOSUID" \in m.fl THEN {"nosuid"} ELSE {})
             \cup (IF "NODEV" \in m.fl THEN {"nodev"} ELSE {}) \cup (IF "NOEXEC" \in m.fl THEN {"noexec"} ELSE {})
             \cup (IF m.atime = "no" THEN {"noatime"} ELSE {"relatime"})
ExpMi(st) == [j \in DOMAIN st.mt |->
                [at |-> st.mt[j].at, fs |-> st.mt[j].fs,
                 root |-> IF st.mt[j].fs = "bind" THEN st.mt[j].id ELSE "/",
                 opts |-> OptsOf(st.mt[j]), sbro |-> st.mt[j].sbro, prop |-> st.mt[j].prop]]
\* a bind shows the file system type of its source: only compared for non-binds
SameMi(mi, st) ==
  /\ Len(mi) = Len(st.mt)
  /\ \A j \in DOMAIN mi :
       LET e == ExpMi(st)[j]
       IN /\ mi[j].at = e.at /\ ToSet(mi[j].opts) = e.opts /\ mi[j].sbro = e.sbro /\ mi[j].prop = e.prop
          /\ IF e.fs = "bind" THEN mi[j].root = e.root ELSE mi[j].fs = e.fs /\ mi[j].root = "/"

\* the two readings of the table (driver from outside before exec, probe from inside) must agree; the
\* root field is left out: cgroupfs renders it relative to the reader's cgroup namespace
MiKey(mi) == [j \in DOMAIN mi |-> <<mi[j].at, mi[j].fs, mi[j].opts, mi[j].sbro, mi[j].prop>>]

ModOps(t) == { r \in ToSet(t.ops) : r.e >= 0 }          \* attempted operations
AnyOK(t)  == \E r \in ModOps(t) : r.e = 0
Primary(k) == CASE k = "D" -> "create" [] k = "F" -> "open_w" [] k = "P" -> "open_comm_w" [] OTHER -> "none"
PrimOK(t) == \E r \in ModOps(t) : r.op = Primary(t.k) /\ r.e = 0
ExpKind(st, p, env) ==
  LET r == Lookup(st, p, env)
  IN IF r.t = "none" THEN "A"
     ELSE IF r.t = "d" THEN (IF st.mt[r.m].fs = "proc" THEN "P" ELSE "D") ELSE "F"

Judge(o) ==
  LET cfg == CfgOf(o)
      env == EnvOf(o)
      \* the namespace the program lives in: built by the sequence, then (when the driver did so) the
      \* host has mounted a file system below every shared-propagation source
      exp == IF o.dynmounted > 0 THEN HostMounted(Final(cfg, env), env) ELSE Final(cfg, env)
      et  == Tree(exp, env)
      ot  == { [p |-> x.p, t |-> x.t] : x \in ToSet(o.tree) }
  IN IF exp.fail THEN { F("model", "model-cannot-build", "", <<>>) }
     ELSE IF ~o.started
     THEN { F(IF o.phase \in MountPhases THEN "viol" ELSE "setup", "launch-failed", o.phase, <<>>) }
     ELSE
       \* the root contains only the configured mount points, symlinks and the content of the bind sources
          { F("viol", "extra-visible", x.t, x.p) : x \in ot \ et }
     \cup { F("drift", "missing", x.t, x.p) : x \in et \ ot }
     \cup (IF o.trunc THEN { F("viol", "tree-too-large", "", <<>>) } ELSE {})
       \* no mount of the sandbox may receive propagation from the host (mountinfo: shared:/master: tags)
     \cup { F("viol", "receives-propagation", o.mi[j].prop, o.mi[j].at) : j \in { k \in DOMAIN o.mi : o.mi[k].prop # "private" } }
       \* nothing of the host is reachable
     \cup (IF o.oldroot = 0 THEN { F("viol", "old-root-present", "", <<"old_root">>) } ELSE {})
     \cup (IF o.dotdot THEN { F("viol", "dotdot-escape", "", <<>>) } ELSE {})
     \cup (IF Len(o.canary) > 0 THEN { F("viol", "host-canary-reachable", o.canary[1], <<>>) } ELSE {})
     \cup (IF o.cwd # "/" THEN { F("drift", "cwd", o.cwd, <<>>) } ELSE {})
       \* read-only means read-only; only declared-writable mounts accept writes
     \cup UNION { LET W  == Writable(exp, t.p, env)
                      k  == KindAt(cfg, exp, t.p, env)
                      IsMaskPath == t.p \in ToSet(o.case.maskchk)
                  IN (IF t.k # ExpKind(exp, t.p, env) THEN { F("drift", "object-kind", t.k, t.p) } ELSE {})
                \cup (IF t.k # "A" /\ ~W /\ AnyOK(t)
                      THEN { F("viol", "ro-accepts-write", k, t.p) } ELSE {})
                  \* a declared read-only object that is not even there, at a place where the program can
                  \* create one of its own (k = "A": the probe tried mkdir / create at the path itself)
                \cup (IF t.k = "A" /\ Lookup(exp, t.p, env).t # "none" /\ ~W /\ AnyOK(t)
                      THEN { F("viol", "ro-path-absent-and-creatable", k, t.p) } ELSE {})
                \cup (IF t.k # "A" /\ W /\ ~PrimOK(t) /\ ~IsMaskPath THEN { F("drift", "rw-rejects-write", k, t.p) } ELSE {})
                  \* kernel truth: statvfs, mountinfo and behaviour must tell the same story
                  \* (what sits at a masked path when the mask is missing may refuse writes for its own reasons:
                  \*  procfs entries, file modes; "writable but refuses" is only meaningful for the table's own objects)
                \cup (IF t.k # "A" /\ ((t.ro = 1 /\ AnyOK(t)) \/ (t.ro = 0 /\ ~PrimOK(t) /\ ~IsMaskPath))
                      THEN { F("model", "statvfs-vs-behaviour", k, t.p) } ELSE {})
                \cup (IF t.k # "A" /\ Len(o.mi) > 0 /\ (t.ro = 1) # MiRo(o.mi, t.p)
                      THEN { F("model", "statvfs-vs-mountinfo", k, t.p) } ELSE {})
                : t \in ToSet(o.tests) }
       \* masked paths reveal nothing
     \cup UNION { (IF ~MaskedOK(m.s)
                   THEN { F("viol", "mask-exposed", m.s, m.p) } ELSE {})
                \cup (IF MaskedOK(m.s) /\ m.s # MaskState(exp, m.p, env)
                         /\ ~(m.s = "emptydir" /\ MaskState(exp, m.p, env) = "exposed")   \* naturally empty directory
                      THEN { F("drift", "mask-state", m.s, m.p) } ELSE {})
                : m \in ToSet(o.masks) }
       \* ... also to the next program in the same container, after the first one tried to write there
     \cup UNION { (IF ~MaskedOK(m.s) THEN { F("viol", "mask-exposed-to-next-program", m.s, m.p) } ELSE {})
                : m \in ToSet(o.masks2) }
     \cup (IF o.second /\ [i \in DOMAIN o.masks2 |-> <<o.masks2[i].p, o.masks2[i].s>>]
                          # [i \in DOMAIN o.masks |-> <<o.masks[i].p, o.masks[i].s>>]
           THEN { F("drift", "mask-state-changed", "", <<>>) } ELSE {})
       \* implementation layer: the kernel's mount table is the model's
     \cup (IF ~SameMi(o.mi, exp) THEN { F("drift", "mountinfo", "", <<>>) } ELSE {})
     \cup (IF o.hasmiin /\ MiKey(o.miin) # MiKey(o.mi) THEN { F("model", "mountinfo-inside-vs-outside", "", <<>>) } ELSE {})

Flat == UNION { { [i |-> i, c |-> f.c, w |-> f.w, k |-> f.k, p |-> f.p] : f \in Judge(Obs[i]) } : i \in DOMAIN Obs }

ASSUME ndJsonSerialize("bad.ndjson", SetToSeq(Flat))
ASSUME PrintT(<<"judged", Len(Obs), Cardinality(Flat)>>)
VARIABLE x
Init == x = 0
Next == UNCHANGED x
=============================================================================
