CONSTANTS Seals0 = {"SEAL", "SHRINK", "GROW", "WRITE"}
  Sizes = {0, 1, 4096, 5000}
SPECIFICATION MSpec
INVARIANT Immutable
CONSTRAINT Bound
CHECK_DEADLOCK FALSE
