CONSTANTS ControlsExisting = TRUE
  RandomFresh = TRUE
  OpenReturns = TRUE
  OwnsOnlyCreated = TRUE
  OpenKeepsLimits = TRUE
  MovesWholeProcess = TRUE
  CtlSets = {{"cpu", "memory"}, {"u"}, {"cpuset", "memory"}}
  Names = {"x", "y"}
  RNames = {"r"}
  PidSet = {"p1", "p2"}
  MaxOps = 5
  MaxDepth = 2
  MaxHandles = 5
  WithSet = TRUE
  Rich = FALSE
  Emit = FALSE
SPECIFICATION Spec
INVARIANTS ImplRefines OneOwner Housed
PROPERTY OnlyOwnersRemove
VIEW View
CHECK_DEADLOCK FALSE
