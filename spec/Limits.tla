------------------------------- MODULE Limits -------------------------------
(***************************************************************************)
(* C08 -- POSIX limits placed on the program, the limit verdicts of the    *)
(* runners, and the capped output collector, as pure operators.            *)
(*                                                                         *)
(* 64-bit quantities are four 16-bit limbs, most significant first         *)
(* (TLC integers are 32-bit).                                              *)
(*                                                                         *)
(*   Prepare(rec)            pkg/rlimit RLimits.PrepareRLimit              *)
(*   InForce(rec, inh, res)  what getrlimit(res) must say in the program   *)
(*   Settable(rec, inh)      the kernel accepts the record (no             *)
(*                           CAP_SYS_RESOURCE in the initial user ns)      *)
(*   ExpectedStatus(...)     usage > bound -> MLE / TLE, else the table    *)
(*   StartDispositionsOK     SIGXCPU / SIGXFSZ not ignored on entry        *)
(*   Retained(w, N)          pkg/pipe Buffer: min(written, N+1)            *)
(***************************************************************************)
EXTENDS Status

Limb  == 0..65535
Zero  == <<0, 0, 0, 0>>
Inf   == <<65535, 65535, 65535, 65535>>      \* RLIM_INFINITY
Less(a, b) ==
  \E i \in 1..4 : a[i] < b[i] /\ \A j \in 1..(i-1) : a[j] = b[j]
MaxL(a, b) == IF Less(a, b) THEN b ELSE a
Small(n) == <<0, 0, n \div 65536, n % 65536>>      \* n < 2^31

\* resource numbers (asm-generic/resource.h)
RCPU == 0   RFSIZE == 1   RDATA == 2   RSTACK == 3   RCORE == 4   RNOFILE == 7   RAS == 9
Resources == 0..15
Lim(c, m) == [cur |-> c, max |-> m]

(* rec = [cpu, cpuHard, data, fsize, stack, as, nofile : limbs, nocore : BOOLEAN]             *)
(* zero means "do not set"; CPU hard limit is raised to the soft one; one value for soft and  *)
(* hard otherwise; core is set to 0/0 iff disabled.                                            *)
Prepare(rec) ==
  LET E(res, c, m) == IF c = Zero THEN <<>> ELSE <<[res |-> res, lim |-> Lim(c, m)]>>
      L == E(RCPU, rec.cpu, MaxL(rec.cpuHard, rec.cpu))
        \o E(RDATA, rec.data, rec.data)
        \o E(RFSIZE, rec.fsize, rec.fsize)
        \o E(RSTACK, rec.stack, rec.stack)
        \o E(RAS, rec.as, rec.as)
        \o E(RNOFILE, rec.nofile, rec.nofile)
        \o (IF rec.nocore THEN <<[res |-> RCORE, lim |-> Lim(Zero, Zero)]>> ELSE <<>>)
  IN L                                   \* the slice handed to the launcher, in order

Configured(rec) == { Prepare(rec)[i].res : i \in DOMAIN Prepare(rec) }
ConfiguredLim(rec, res) ==
  LET i == CHOOSE i \in DOMAIN Prepare(rec) : Prepare(rec)[i].res = res IN Prepare(rec)[i].lim

\* inh: sequence of 16 [cur, max], index res+1: the limits of the process the program is forked from
InForce(rec, inh, res) ==
  IF res \in Configured(rec) THEN ConfiguredLim(rec, res) ELSE inh[res + 1]

\* prlimit64 by a process without CAP_SYS_RESOURCE (in the initial user namespace):
\* cur <= max, and max may not be raised
Settable(rec, inh) ==
  \A res \in Configured(rec) :
     LET l == ConfiguredLim(rec, res) IN
       /\ ~Less(l.max, l.cur)
       /\ ~Less(inh[res + 1].max, l.max)

(* ------------------- start state: signal dispositions ----------------- *)
(* A limit is only in force if crossing it has the documented effect: RLIMIT_FSIZE ends the       *)
(* program with SIGXFSZ, the soft RLIMIT_CPU with SIGXCPU.  An ignored disposition survives fork  *)
(* and execve, so the dispositions the program is started with are part of the start state the    *)
(* runner is responsible for: the limit signals must not be ignored on entry unless the caller    *)
(* itself ignores them (then it is the caller's doing, inherited unchanged).                       *)
LimitSignals == {SIGXCPU, SIGXFSZ}
IgnoredLimitSignals(ign, callerIgn) == (ign \cap LimitSignals) \ callerIgn
StartDispositionsOK(ign, callerIgn) == IgnoredLimitSignals(ign, callerIgn) = {}

(* ------------------------------ verdicts ------------------------------- *)
(* runner.Limit is compared by the ptrace and namespace runners at every wait event of the   *)
(* main process; memory wins over time; otherwise the status table decides (Status!Classify). *)
(* time in us, memory in KiB (both fit 31 bits for the bounds used).                           *)
ExpectedStatus(limited, timeUs, memKib, tlUs, mlKib, end) ==
  IF limited /\ memKib > mlKib THEN StMLE
  ELSE IF limited /\ timeUs > tlUs THEN StTLE
  ELSE Classify(end).status

(* ------------------------------ collector ------------------------------ *)
Min(a, b) == IF a < b THEN a ELSE b
Retained(written, N) == Min(written, N + 1)
=============================================================================
