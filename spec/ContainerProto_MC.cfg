\* C10 design-level check: no transport loss; every interleaving of <= MaxCalls calls
CONSTANTS MaxCalls = 3
  Ops = {"ping", "open", "delete", "exec"}
  AllowDestroy = FALSE
  AllowCrash = FALSE
  FixEatKill = TRUE
  ReapOnRefusal = TRUE
  FixDonePrio = TRUE
SPECIFICATION SpecLive
INVARIANTS NoDesync InitAlive OneAnswer PingOk LostCallsFail ExecAnswers NoOrphan ReapedAtServe
PROPERTIES AllReturn CancelReturns
CHECK_DEADLOCK FALSE
