----------------------------- MODULE Socket_Gen -----------------------------
(* TLC as case generator for C19.  Operations are absolute (sizes in bytes,    *)
(* descriptor counts, credential kind, receive buffer) so that the generator   *)
(* needs no model state; what each size means in its history (first use of a   *)
(* type, pending descriptors, short/exact/large buffer) is decided by          *)
(* Socket.tla when the recorded trace is validated.                            *)
(*   pairs : every send class x every receive class, both layers               *)
(*   hist  : every valid sequence of <= HLen operations over reduced classes,  *)
(*           closed by "recvall" (receive whatever the sender had accepted)    *)
EXTENDS Integers, Sequences, FiniteSets, TLC, Json, SequencesExt
CONSTANTS Buf, Cap, DescA, DescB, MaxFds, HLen

Desc(t) == IF t = "A" THEN DescA ELSE DescB
Big == 65536
S(l, v, k, c, t) == [op |-> "send", len |-> l, val |-> v, nfds |-> k, cred |-> c, typ |-> t, rbuf |-> 0, want |-> "", free |-> -1, kind |-> ""]
\* a packet that is not a message of the framed protocol (kind: dup | trunc | garbage) with k descriptors
J(kind, k)       == [op |-> "inject", len |-> 0, val |-> 0, nfds |-> k, cred |-> "none", typ |-> "C", rbuf |-> 0, want |-> "", free |-> -1, kind |-> kind]
\* free = free slots in the receiver's descriptor table during the call (-1: no pressure)
RF(b, w, f)      == [op |-> "recv", len |-> 0, val |-> 0, nfds |-> 0, cred |-> "", typ |-> "", rbuf |-> b, want |-> w, free |-> f, kind |-> ""]
RAF(b, w, f)     == [op |-> "recvall", len |-> 0, val |-> 0, nfds |-> 0, cred |-> "", typ |-> "", rbuf |-> b, want |-> w, free |-> f, kind |-> ""]
R(b, w)          == RF(b, w, -1)
RA(b, w)         == RAF(b, w, -1)

FdsFull  == {0, 1, 2, MaxFds, MaxFds + 1}
CredFull == {"none", "own", "forged"}
\* ---- raw layer
RawSendFull == { S(l, 0, k, c, "") : l \in {0, 1, Buf - 1, Buf, Buf + 1, Cap, Cap + 1, Big}, k \in FdsFull, c \in CredFull }
RawRecvFull == { R(b, "") : b \in {1, Buf, Cap, Big + 64} }
RawSendRed  == { S(l, 0, k, c, "") : l \in {1, Big}, k \in {0, 2, MaxFds + 1}, c \in {"none", "forged"} }
RawRecvRed  == { R(b, "") : b \in {Buf, Big + 64} }
\* ---- gob layer: sizes of the value message around the cap, with and without descriptors
ValsFull(t) == {64, Cap - DescA - DescB, Cap - Desc(t), Cap - Desc(t) + 1, Cap, Cap + 1, Big}
GobSendFull == { S(0, v, k, c, t) : t \in {"A", "B"}, v \in ValsFull("A") \cup ValsFull("B"), k \in FdsFull, c \in CredFull }
GobRecvFull == { R(0, w) : w \in {"M", "X"} }
GobSendRed  == UNION { { S(0, v, 0, "none", t) : v \in {64, Cap - Desc(t), Cap - Desc(t) + 1, Cap, Cap + 1} }
                       \cup { S(0, 64, MaxFds + 1, "none", t) } : t \in {"A", "B"} }
GobRecvRed  == { R(0, w) : w \in {"M", "X"} }

\* a receive may be issued only when a message is certainly queued
Sure(layer, o) == \/ o.op = "inject"
                  \/ o.op = "send" /\ o.nfds <= MaxFds /\ (layer = "gob" => o.val + DescA + DescB <= Cap)
Valid(layer, s) ==
  /\ \A i \in DOMAIN s : s[i].op = "recv" =>
        Cardinality({ j \in 1..(i - 1) : Sure(layer, s[j]) }) > Cardinality({ j \in 1..(i - 1) : s[j].op = "recv" })
  /\ Cardinality({ i \in DOMAIN s : s[i].len = Big }) <= 2     \* stay below the socket send buffer
Seqs(Ops, n) == UNION { [1..k -> Ops] : k \in 1..n }

Pairs(layer, Sends, Recvs, pcs) ==
  { [layer |-> layer, passcred |-> pc, part |-> "pair", inspect |-> "now", ops |-> <<s, r>>] : s \in Sends, r \in Recvs, pc \in pcs }
\* when the receiving caller looks at the messages it was handed: "now" = right after each receive,
\* "lag" = after the following receive (the previous message is still held), "end" = all after the sequence
Hist(layer, Ops, n, fin) ==
  { [layer |-> layer, passcred |-> TRUE, part |-> "hist", inspect |-> i, ops |-> Append(s, fin)] :
      s \in { x \in Seqs(Ops, n) : Valid(layer, x) }, i \in {"lag", "end"} }
\* the receive of a pair is replaced by recvall so that a pair whose send is refused does not block
Fix(c) == [c EXCEPT !.ops = <<c.ops[1], [c.ops[2] EXCEPT !.op = "recvall"]>>]

\* ---- receiver short of descriptor slots (RLIMIT_NOFILE): free slots around the number attached
Frees == {0, 1, 2, MaxFds - 1}
PressPairs ==
  \* free slots x SO_PASSCRED on/off (with it the control data is never empty) x descriptors sent
  { [layer |-> "raw", passcred |-> pc, part |-> "press", inspect |-> "now", ops |-> <<S(l, 0, k, c, ""), RAF(Big + 64, "", f)>>] :
      l \in {1, Buf}, k \in FdsFull \cup {3, 5}, c \in {"none", "forged"}, f \in Frees, pc \in BOOLEAN }
  \cup UNION { { [layer |-> "gob", passcred |-> pc, part |-> "press", inspect |-> "now", ops |-> <<S(0, v, k, "none", t), RAF(0, w, f)>>] :
      v \in {64, Cap - Desc(t)}, k \in FdsFull \cup {5}, w \in {"M", "X"}, f \in Frees, pc \in BOOLEAN } : t \in {"A", "B"} }
\* histories: a message refused for lack of slots must not disturb what follows (ledger, gob stream)
PressOps(layer) == IF layer = "raw"
                   THEN { S(1, 0, k, "none", "") : k \in {0, 1, 2} } \cup { RF(Big + 64, "", f) : f \in {-1, 0, 1} }
                   ELSE { S(0, 64, k, "none", t) : k \in {0, 2}, t \in {"A", "B"} } \cup { RF(0, "M", f) : f \in {-1, 0, 1} }
PressHist(layer) ==
  { [layer |-> layer, passcred |-> pc, part |-> "presshist", inspect |-> "end", ops |-> Append(s, RAF(IF layer = "raw" THEN Big + 64 ELSE 0, IF layer = "raw" THEN "" ELSE "M", f))] :
      s \in { x \in Seqs(PressOps(layer), HLen) : Valid(layer, x) }, f \in {0, 2}, pc \in BOOLEAN }

\* ---- rejected packets anywhere in a sequence of framed messages: the receiver keeps reading on the same
\* socket; every later message must come out exactly as sent, with its own descriptors
BadOps == { S(0, 64, k, "none", t) : k \in {0, 1}, t \in {"A", "B"} }
          \cup { J(kd, k) : kd \in {"dup", "trunc", "garbage"}, k \in {0, 2} } \cup { RF(0, "M", -1) }
BadHist ==
  { [layer |-> "gob", passcred |-> TRUE, part |-> "badhist", inspect |-> i, ops |-> Append(s, RA(0, "M"))] :
      s \in { x \in Seqs(BadOps, HLen) : Valid("gob", x) /\ \E j \in DOMAIN x : x[j].op = "inject" }, i \in {"now", "end"} }

Cases ==
  BadHist \cup PressPairs \cup PressHist("raw") \cup PressHist("gob") \cup
  { Fix(c) : c \in Pairs("raw", RawSendFull, RawRecvFull, BOOLEAN) \cup Pairs("gob", GobSendFull, GobRecvFull, {TRUE}) }
  \cup Hist("raw", RawSendRed \cup RawRecvRed, HLen, RA(Big + 64, ""))
  \cup Hist("gob", GobSendRed \cup GobRecvRed, HLen - 1, RA(0, "M"))
  \cup Hist("gob", GobSendRed, HLen, RA(0, "M"))

ASSUME ndJsonSerialize("cases.ndjson", SetToSeq(Cases))
ASSUME PrintT(<<"generated", Cardinality(Cases)>>)
VARIABLE x
Init == x = 0
Next == UNCHANGED x
=============================================================================
