------------------------------- MODULE Status -------------------------------
(***************************************************************************)
(* C09 (and the verdict half of C08) -- the documented result-status table *)
(* of go-sandbox (README.md "Result Status"), as pure operators.           *)
(*                                                                         *)
(*   Classify(end)   what the table demands for a way a program ended     *)
(*   KernelFatal     which attempts to die really end a process in the    *)
(*                   situation the runner puts it in (kernel semantics,   *)
(*                   an assumption that every real run cross-checks)      *)
(*                                                                         *)
(* Property layer only.  The three implementations are transcribed in     *)
(* StatusRunners.tla and checked against this module by TLC.              *)
(***************************************************************************)
EXTENDS Integers, Sequences, FiniteSets

\* runner.Status (runner/status.go)
StInvalid     == 0
StNormal      == 1
StTLE         == 2
StMLE         == 3
StOLE         == 4
StBanned      == 5   \* Disallowed Syscall
StSignalled   == 6
StNonzero     == 7
StRunnerError == 8

SIGILL  == 4
SIGTRAP == 5
SIGBUS  == 7
SIGFPE  == 8
SIGKILL == 9
SIGSEGV == 11
SIGTERM == 15
SIGXCPU == 24
SIGXFSZ == 25
SIGSYS  == 31

\* default action is not "terminate": CHLD CONT STOP TSTP TTIN TTOU URG WINCH
NonTerminating == {17, 18, 19, 20, 21, 22, 23, 28}
TermSignals    == (1..64) \ NonTerminating
ExitCodes      == 0..255
\* default action "core": the wait status of a process ended by one of these carries the
\* core-dump flag 0x80 when a dump was produced.  The flag is not part of the signal number.
SIGQUIT == 3
SIGABRT == 6
CoreSigs == {SIGQUIT, SIGILL, SIGTRAP, SIGABRT, SIGBUS, SIGFPE, SIGSEGV, SIGXCPU, SIGXFSZ, SIGSYS}

ExitEnd(n) == [k |-> "exit",   n |-> n]
SigEnd(s)  == [k |-> "signal", n |-> s]
Ends       == { ExitEnd(n) : n \in ExitCodes } \cup { SigEnd(s) : s \in TermSignals }

(* ------------------------- the documented table ------------------------ *)
ClassifySignal(s) ==
  CASE s \in {SIGXCPU, SIGKILL} -> StTLE
    [] s = SIGXFSZ              -> StOLE
    [] s = SIGSYS               -> StBanned
    [] OTHER                    -> StSignalled

Classify(e) ==
  IF e.k = "exit"
  THEN [status |-> IF e.n = 0 THEN StNormal ELSE StNonzero, exit |-> e.n]
  ELSE [status |-> ClassifySignal(e.n), exit |-> e.n]

\* the table pins the exit value for these classes ("that code", "the signal number"); for
\* the limit / syscall classes the sentence only names the class
ExitPinned(st) == st \in {StNormal, StNonzero, StSignalled}

\* r = [status, exit, errlen]
Conforms(r, e) ==
  LET c == Classify(e) IN r.status = c.status /\ (ExitPinned(c.status) => r.exit = c.exit)
ErrorRule(r) == r.status = StRunnerError => r.errlen > 0

(* --------------------- how a program tries to end ---------------------- *)
(* kind: exit n | raise s (kill(getpid(), s), default disposition)         *)
(*     | fault s (hardware fault) | sys (seccomp RET_KILL -> SIGSYS)       *)
(*     | ext s (signal sent by the caller from outside)                    *)
Runners   == {"ptrace", "unshare", "cbefore", "cafter"}
FaultSigs == {SIGSEGV, SIGILL, SIGFPE, SIGTRAP, SIGBUS}
Pid1(r)   == r = "unshare"      \* the program is pid 1 of a new pid namespace
SurvivorExit == 99              \* the probe's exit code when its attempt did not end it

\* kernel/signal.c sig_task_ignored(): for a SIGNAL_UNKILLABLE task with the default
\* disposition only forced signals act: hardware faults and seccomp (force_sig*), and
\* SIGKILL coming from an ancestor namespace.
KernelFatal(r, kind, s) ==
  CASE kind \in {"fault", "sys"} -> TRUE
    [] kind = "raise"            -> ~Pid1(r)
    [] kind = "ext"              -> ~Pid1(r) \/ s = SIGKILL

SignalOf(kind, n) == IF kind = "sys" THEN SIGSYS ELSE n

IntendedEnd(r, kind, n) ==
  IF kind = "exit" THEN ExitEnd(n)
  ELSE IF KernelFatal(r, kind, SignalOf(kind, n)) THEN SigEnd(SignalOf(kind, n))
  ELSE ExitEnd(SurvivorExit)

\* under ptrace a signal is first reported to the tracer as a signal-delivery-stop
\* (not SIGKILL, not the seccomp kill)
StopsFirst(kind, s) == kind \in {"raise", "fault", "ext"} /\ s # SIGKILL
=============================================================================
