------------------------- MODULE ContainerProto_Trace -------------------------
(* Trace validation of real container sessions against ContainerProto.          *)
(* Each line of ptraces.ndjson is one session:                                  *)
(*   [id, host |-> <<events of the host process>>, init |-> <<events of init>>] *)
(* The two logs are NOT merged: one cursor per process; TLC finds the           *)
(* interleavings the specification allows.  Unlogged steps (channel hand-offs,  *)
(* internal pcs) are silent disjuncts.  Host events are                         *)
(*   api call/ret (logged by the harness around the API call), harness cancel / *)
(*   cb / killinit, host sent / senderr / recvd / recverr / branch / destroy    *)
(* init events are recvd / recverr / sent / senderr / handle / syncgot / start  *)
(*   / branch / eatkill / exit.                                                 *)
(* Registers (workers 1):  t        high-water mark lh+lc-2                     *)
(*                         N+t      an accepting state with bad # {} was seen   *)
(*                         2N+t     an accepting state with bad = {} was seen   *)
EXTENDS ContainerProto, Json, SequencesExt
Traces == ndJsonDeserialize("ptraces.ndjson")
N == Len(Traces)
VARIABLES t, lh, lc,
          dz, kz     \* Destroy has been entered / SIGKILL has been sent to init (the effect follows later)
tvars == <<vars, t, lh, lc, dz, kz>>
H == Traces[t].host
C == Traces[t].init

HEv(side, e) == lh <= Len(H) /\ H[lh].side = side /\ H[lh].ev = e /\ lh' = lh + 1 /\ UNCHANGED <<t, lc>>
CEv(e)       == lc <= Len(C) /\ C[lc].ev = e /\ lc' = lc + 1 /\ UNCHANGED <<t, lh>>
Sil          == UNCHANGED <<t, lh, lc, dz, kz>>

\* the sync reply of Execve ("pid" in the model) and an acknowledgement are the same wire message
Wire(k) == IF k = "pid" THEN "ack" ELSE k

TInit == Init /\ t \in 1..N /\ lh = 1 /\ lc = 1 /\ dz = FALSE /\ kz = FALSE

HostEvents2 ==
  \/ HEv("api", "call") /\ \E big \in BOOLEAN : HostBegin(H[lh].k, H[lh].sa, H[lh].cb, big)   \* size not logged: inferred
  \/ HEv("api", "ret") /\ HostReturn /\ hret = H[lh].r
  \/ HEv("harness", "cancel") /\ CtxCancel
  \/ HEv("harness", "cancel") /\ ~ENABLED CtxCancel /\ UNCHANGED vars      \* cancel after the call ended / twice
  \/ HEv("harness", "cb") /\ HostCallback /\ hop.cb = H[lh].res
  \/ HEv("host", "sent") /\ HostSLSend /\ hSL[2].k = H[lh].k
  \/ HEv("host", "senderr") /\ HostSLErr
  \/ HEv("host", "sendbig") /\ HostSLTooBig /\ hSL[2].k = H[lh].k
  \/ HEv("host", "recvd") /\ HostRLRecv /\ Wire(Head(c2h).k) = H[lh].k
  \/ HEv("host", "recverr") /\ (HostRLErr \/ HostRLDeadline)
  \/ HEv("harness", "crashpoint") /\ UNCHANGED vars                         \* C16: the controller parks here
  \/ HEv("harness", "crash") /\ HostDies                                    \* C16: SIGKILL of the controller
  \/ HEv("harness", "allgone") /\ spc = "dead" /\ child \in {"none", "dead"} /\ UNCHANGED vars   \* observed: nothing left
  \/ HEv("host", "branch") /\ CASE H[lh].b = "done"   -> HostWaitDone
                                [] H[lh].b = "ctx"    -> HostWaitCtx
                                [] H[lh].b = "result" -> HostWaitResult
                                [] OTHER -> FALSE
HostEvents ==
  \/ HEv("host", "destroy") /\ dz' = TRUE /\ UNCHANGED <<vars, kz>>       \* logged on entry, before socket.Close()
  \/ HEv("harness", "killinit") /\ kz' = TRUE /\ UNCHANGED <<vars, dz>>   \* logged before kill(2)
  \/ UNCHANGED <<dz, kz>> /\ HostEvents2
HostSilent ==
  Sil /\ (\/ HostSendFirst \/ (HostRecvFirst /\ hpc' # "ret") \/ (HostRecvFirst /\ hpc' = "ret")
          \/ HostK1Send \/ HostK1Recv \/ HostNoPid1S \/ HostNoPid1R \/ HostNoPid2S \/ HostNoPid2R
          \/ HostOkSend \/ HostK2Send \/ HostK2Recv \/ HostK3Send
          \/ HostSLTake \/ HostSLExit \/ HostRLPush)

InitEvents2 ==
  \/ CEv("recvd") /\ ContRLRecv /\ Head(h2c).k = C[lc].k
  \/ CEv("recverr") /\ ContRLErr
  \/ CEv("sent") /\ ContSLSend /\ Wire(cSL[2].k) = C[lc].k
  \/ CEv("senderr") /\ ContSLErr
  \/ CEv("handle") /\ Len(cRecvCh) = 1 /\ cRecvCh[1].k = C[lc].k
        /\ ((\E r \in {"ack", "err", "batch", "die"} : ContServeSimple(r)) \/ ContServeExec \/ ContServeBad)
  \/ CEv("syncgot") /\ ContSyncGot /\ cRecvCh[1].k = C[lc].k
  \/ CEv("start") /\ IF C[lc].ok THEN (ContExecOk \/ ContStartAfter)
                                 ELSE (ContStartErrEarly \/ ContExecErr \/ ContStartFailed)
  \/ CEv("branch") /\ CASE C[lc].b = "kill"  -> ContStartedKill
                        [] C[lc].b = "child" -> ContStartedChild
                        [] C[lc].b = "done"  -> (ContRecvFail /\ spc = "x_started")
                        [] OTHER -> FALSE
  \/ CEv("eatkill") /\ ContEatKill
  \/ CEv("exit") /\ InitExit
  \* the exit event is written at the start of Init's deferred function, os.Exit follows: a socket loop of
  \* the dying process can still report its error in between
  \/ (CEv("recverr") \/ CEv("senderr")) /\ spc = "dead" /\ UNCHANGED vars
InitEvents == UNCHANGED <<dz, kz>> /\ InitEvents2
InitSilent ==
  Sil /\ (\/ ContRLPush \/ ContSLTake \/ ContSendDone \/ ContSendFail
          \/ (ContRecvFail /\ spc # "x_started") \/ ContSyncFail
          \/ ContPreforkErr \/ ContFork \/ ContStartSync
          \/ InitKilled)
\* init logs an event just after the operation; when it is killed (Destroy, killinit) the last events
\* of steps that did happen can be missing: once its log is exhausted its steps are unlogged
InitTail == lc > Len(C) /\ Sil /\ (ContLoopNext \/ ContSrvNext)
\* the same for the host when it is SIGKILLed (C16): steps it took just before the crash may have lost
\* their event, so in front of the `crash` event its loop steps may be unlogged
HostTail == lh <= Len(H) /\ H[lh].side = "harness" /\ H[lh].ev = "crash" /\ Sil /\ HostLoopNext
\* the program's own exit is not logged
EnvSilent == Sil /\ (ChildExit \/ ChildForks \/ (dz /\ DestroyClose) \/ (kz /\ InitDies) \/ Pdeathsig)

TNext == HostEvents \/ HostSilent \/ HostTail \/ InitEvents \/ InitSilent \/ InitTail \/ EnvSilent
TSpec == TInit /\ [][TNext]_tvars

AtEnd == lh > Len(H) /\ lc > Len(C)
Mark ==
  /\ TLCSet(t, IF TLCGet(t) < lh + lc - 2 THEN lh + lc - 2 ELSE TLCGet(t))
  /\ (AtEnd /\ bad # {} => TLCSet(N + t, 1))
  /\ (AtEnd /\ bad = {} => TLCSet(2 * N + t, 1))
ASSUME \A i \in 1..(3 * N) : TLCSet(i, 0)
Report ==
  ndJsonSerialize("presult.ndjson",
     [i \in 1..N |-> [t |-> i, id |-> Traces[i].id, mark |-> TLCGet(i), total |-> Len(Traces[i].host) + Len(Traces[i].init),
                      desync |-> TLCGet(N + i), clean |-> TLCGet(2 * N + i)]])
=============================================================================
