----------------------------- MODULE MemfdDefs -----------------------------
(* C13, second half: a sealed in-memory file as the kernel treats it.  Pure      *)
(* operators over a state record                                                 *)
(*    [size, content ("orig" | "mod"), seals, pos, exec]                         *)
(* exec = a process is currently executing the file (opening it for writing then *)
(* fails with ETXTBSY whatever the seals are).                                   *)
(* Kernel semantics are an assumption of the model (mm/shmem.c, mm/memfd.c);     *)
(* they were observed on the target kernel for the fully sealed case and the     *)
(* trace validator reports every disagreement as a model/kernel mismatch.        *)
EXTENDS Integers, Sequences, FiniteSets

(* ---- what is supplied.  DupToMemfd takes an io.Reader; "the supplied bytes" are exactly   *)
(* the bytes that reader yields from its CURRENT position until EOF -- not what a stat of   *)
(* an underlying file reports.  A source is [size (st_size or -1), pos (offset the reader   *)
(* starts at), yields (bytes it delivers)]; for an honest regular file yields = size - pos, *)
(* for a limited / section reader it is less, for kernel files (/sys, /proc attributes)     *)
(* st_size and yield are unrelated.  Only `yields` determines the expected content.         *)
ReaderKinds == { "bytes",    \* bytes.Reader
                 "file",     \* *os.File at offset 0, yields the whole file
                 "fileoff",  \* *os.File positioned past a header: yields less than st_size
                 "limited",  \* io.LimitReader over an *os.File that has a trailer after the data
                 "section",  \* io.SectionReader in the middle of a file
                 "pipe",     \* pipe written in odd chunks
                 "short" }   \* reader returning odd chunk sizes and (n, EOF) together
KernelFiles == { "sysattr",  \* *os.File of a /sys attribute: st_size 4096, yields fewer bytes
                 "procattr" }\* *os.File of a /proc file: st_size 0, yields more
ExpectedSize(src) == src.yields
SourceOK(kind, src) ==         \* the driver really built the source the case asks for
  CASE kind = "file"     -> src.pos = 0 /\ src.size = src.yields
    [] kind = "fileoff"  -> src.pos > 0 /\ src.size = src.pos + src.yields
    [] kind = "limited"  -> src.pos = 0 /\ src.size > src.yields
    [] kind = "section"  -> src.pos > 0 /\ src.size > src.pos + src.yields
    [] kind = "sysattr"  -> src.size > src.yields
    [] kind = "procattr" -> src.size < src.yields
    [] OTHER -> TRUE

Required == {"SEAL", "SHRINK", "GROW", "WRITE"}       \* what makes the file immutable
AllSeals == Required \cup {"FUTURE_WRITE", "EXEC"}

(* mutation attempts; same names in probes/contfs.c and harness/cmd/contfs/memfd.go *)
FdOps   == {"write", "pwrite0", "pwriteend", "shrink", "grow", "fallocgrow", "punch",
            "addseals0", "addfuture", "mmapw", "mprotectw"}
PathOps == {"openrdwr", "reopen-pwrite", "reopen-shrink", "reopen-grow", "opentrunc",
            "openappend", "append-write", "truncate0", "truncategrow"}
Ops == FdOps \cup PathOps

NoWrite(st) == st.seals \cap {"WRITE", "FUTURE_WRITE"} # {}
Grows(op, st) == CASE op = "write" -> st.pos >= st.size
                   [] op \in {"pwrite0", "reopen-pwrite"} -> st.size = 0
                   [] OTHER -> TRUE           \* pwriteend, append-write

(* the result the kernel gives *)
KernelRes(op, st) ==
  CASE op \in {"write", "pwrite0", "pwriteend"} ->
         IF NoWrite(st) THEN "EPERM" ELSE IF Grows(op, st) /\ "GROW" \in st.seals THEN "EPERM" ELSE "OK"
    [] op \in {"reopen-pwrite", "append-write"} ->
         IF st.exec THEN "NOFD" ELSE
         IF NoWrite(st) THEN "EPERM" ELSE IF Grows(op, st) /\ "GROW" \in st.seals THEN "EPERM" ELSE "OK"
    [] op = "shrink" -> IF st.size = 0 THEN "EINVAL" ELSE IF "SHRINK" \in st.seals THEN "EPERM" ELSE "OK"
    [] op = "reopen-shrink" -> IF st.exec THEN "NOFD" ELSE
         IF st.size = 0 THEN "EINVAL" ELSE IF "SHRINK" \in st.seals THEN "EPERM" ELSE "OK"
    [] op = "truncate0" -> IF st.size = 0 THEN "EINVAL" ELSE IF st.exec THEN "ETXTBSY"
                           ELSE IF "SHRINK" \in st.seals THEN "EPERM" ELSE "OK"
    [] op \in {"grow", "fallocgrow"} -> IF "GROW" \in st.seals THEN "EPERM" ELSE "OK"
    [] op = "reopen-grow" -> IF st.exec THEN "NOFD" ELSE IF "GROW" \in st.seals THEN "EPERM" ELSE "OK"
    [] op = "truncategrow" -> IF st.exec THEN "ETXTBSY" ELSE IF "GROW" \in st.seals THEN "EPERM" ELSE "OK"
    [] op = "punch" -> IF NoWrite(st) THEN "EPERM" ELSE "OK"
    [] op \in {"addseals0", "addfuture"} -> IF "SEAL" \in st.seals THEN "EPERM" ELSE "OK"
    [] op = "mmapw" -> IF NoWrite(st) THEN "EPERM" ELSE "OK"
    [] op = "mprotectw" -> IF NoWrite(st) THEN "EACCES" ELSE "OK"
    [] op \in {"openrdwr", "openappend"} -> IF st.exec THEN "ETXTBSY" ELSE "OK"
    [] op = "opentrunc" -> IF st.exec THEN "ETXTBSY"
                           ELSE IF st.size > 0 /\ "SHRINK" \in st.seals THEN "EPERM" ELSE "OK"

MaxI(a, b) == IF a > b THEN a ELSE b
Touched(st) == { st, [st EXCEPT !.content = "mod"] }   \* the written byte may equal the old one

(* the states an attempt that returned res may lead to *)
Effect(op, res, st) ==
  IF res # "OK" THEN {st} ELSE
  CASE op = "write" -> Touched([st EXCEPT !.size = MaxI(@, st.pos + 1), !.pos = st.pos + 1])
    [] op \in {"pwrite0", "reopen-pwrite"} -> Touched([st EXCEPT !.size = MaxI(@, 1)])
    [] op \in {"pwriteend", "append-write"} -> Touched([st EXCEPT !.size = @ + 1])
    [] op \in {"shrink", "reopen-shrink"} -> { [st EXCEPT !.size = @ \div 2, !.content = "mod"] }
    [] op \in {"grow", "fallocgrow", "truncategrow"} -> { [st EXCEPT !.size = @ + 4096, !.content = "mod"] }
    [] op = "reopen-grow" -> { [st EXCEPT !.size = @ + 1, !.content = "mod"] }
    [] op \in {"opentrunc", "truncate0"} ->
         { [st EXCEPT !.size = 0, !.content = IF st.size = 0 THEN @ ELSE "mod"] }
    [] op \in {"punch", "mmapw", "mprotectw"} -> IF st.size = 0 THEN {st} ELSE Touched(st)
    [] op = "addseals0" -> {st}
    [] op = "addfuture" -> { [st EXCEPT !.seals = @ \cup {"FUTURE_WRITE"}] }
    [] op \in {"openrdwr", "openappend"} -> {st}

(* the property: exactly the supplied bytes, and nobody can change that -- neither the  *)
(* bytes, nor the size, nor the seal set (seals0 = the seals at hand-over)              *)
Frozen(st, size0, seals0) == st.content = "orig" /\ st.size = size0 /\ st.seals = seals0

(* every seal DupToMemfd applies is needed: without it some attempt succeeds and changes *)
(* the size, the content or the seal set                                                 *)
Needed(s) == \E op \in Ops, sz \in {0, 5000}, ex \in BOOLEAN :
               LET st == [size |-> sz, content |-> "orig", seals |-> Required \ {s}, pos |-> 0, exec |-> ex]
               IN KernelRes(op, st) = "OK" /\
                  \E n \in Effect(op, "OK", st) : <<n.size, n.content, n.seals>> # <<st.size, st.content, st.seals>>
=============================================================================
