----------------------------- MODULE Launch_Gen -----------------------------
(* TLC as case generator for C04 and C07.                                    *)
(*  C04Pairs : set of site*512+row (0..511 each) chosen by the orchestrator *)
(*             (full factorial of the site flags x covering rows / seed);    *)
(*             TLC decodes them into option records and adds the model's     *)
(*             hang prediction (used only to keep such cases out of strace). *)
(*  C07Bases : set of site*512+row base configurations; TLC crosses them    *)
(*             with every failure point the drivers can induce by a real     *)
(*             input and keeps the applicable pairs.                         *)
EXTENDS LaunchSteps, TLC, Json
CONSTANTS C04Pairs, C07Bases, C04Seq

SiteOf(p) == p \div 512
RowOf(p) == p % 512

\* strace makes the child a tracee: ptrace combinations can not run under it, and the self-SIGSTOP of
\* a pid-namespace init is then NOT ignored, so every stop-before-sync combination hangs there
NoStrace(o) == o.ptrace \/ (o.stop /\ o.sync /\ ~PS(o))
\* C04 indices are ((y*8 + x)*512 + site)*512 + row: x = credential / gid-mapping dimension, y = UTS name
\* dimension (LaunchSteps!MkOptXY).
\* Credential gate, generated and run in every tier: {cred, cred+dropcaps} x {no user namespace, user namespace}
\* x all eight x: every way of asking for supplementary groups meets every way setgroups may be (dis)allowed.
XOf(p) == (p \div 262144) % 8
YOf(p) == p \div 2097152
CredGate == { ((YDefault * 8 + xx) * 512 + s) * 512 + r : xx \in 0..7, s \in {1, 3}, r \in {0, 1} }
\* UTS gate, generated and run in every tier: all nine (host name, domain name) requests in a UTS namespace,
\* plain and with credential + capability drop in a user namespace
UtsGate == { ((yy * 8) * 512 + s) * 512 + r : yy \in 0..8, s \in {0, 3}, r \in {8, 9} }
C04Cases == { [s |-> SiteOf(p) % 512, r |-> RowOf(p), xd |-> XOf(p), yd |-> YOf(p), opt |-> MkOptXY(SiteOf(p) % 512, RowOf(p), XOf(p), YOf(p)),
               hang |-> HangCombo(MkOpt(SiteOf(p) % 512, RowOf(p))),
               nostrace |-> NoStrace(MkOpt(SiteOf(p) % 512, RowOf(p))), gate |-> p \in CredGate \cup UtsGate,
               fail |-> "none", idx |-> 0, cb |-> "ok"] : p \in (IF C04Pairs = {} THEN {} ELSE C04Pairs \cup CredGate \cup UtsGate) }

\* failure points with a real-input recipe (harness/cmd/launch/c07.go) and what the recipe needs
Recipes ==
  { [step |-> "clone", idx |-> 0], [step |-> "idmap", idx |-> 0], [step |-> "keepcaps", idx |-> 0],
    [step |-> "setgroups", idx |-> 0], [step |-> "setgid", idx |-> 0], [step |-> "setuid", idx |-> 0],
    [step |-> "fds", idx |-> 0], [step |-> "pivot_tmpfs", idx |-> 0], [step |-> "pivot_root", idx |-> 0],
    [step |-> "chdir", idx |-> 0], [step |-> "dropA_secbits", idx |-> 0],
    [step |-> "seccompA", idx |-> 0], [step |-> "seccompB", idx |-> 0],
    [step |-> "exec", idx |-> 0], [step |-> "exec", idx |-> 1], [step |-> "exec", idx |-> 2] }
  \cup { [step |-> n, idx |-> i] : n \in {"mounts", "mounts_mkdir", "rlimits"}, i \in 0..2 }

\* P = the set of steps on the child's path of o (computed once per base configuration)
Applicable(o, P, f) ==
  CASE f.step = "clone"     -> o.cgfd                      \* CgroupFd that is not a cgroup directory
    [] f.step = "idmap"     -> o.user                      \* overlapping id map
    [] f.step = "keepcaps"  -> "keepcaps" \in P /\ ~o.user      \* launcher thread has NO_SETUID_FIXUP locked off
    [] f.step = "dropA_secbits" -> "dropA_secbits" \in P /\ "keepcaps" \notin P /\ ~o.user  \* NOROOT locked off
    [] f.step = "setgroups" -> o.cred /\ o.user            \* no gid map given: setgroups denied
    [] f.step \in {"setgid", "setuid"} -> o.cred /\ o.user \* requested id not mapped
    [] f.step \in {"mounts", "mounts_mkdir", "pivot_tmpfs", "pivot_root"} -> o.pivot
    [] OTHER -> f.step \in P                               \* invalid BPF program, missing paths, limits, ...

\* Gate family, generated and run in EVERY tier whatever the orchestrator samples: every combination of
\* the flags that select a branch of syncWithChild (early return or wait for the exec result) and a sync
\* site of the child -- seccomp, ptrace, stop, sync, ucg -- with everything else off, crossed with one
\* failure point before the sync point (chdir), the failure points after it (seccomp load sites, execve
\* missing / not executable / malformed) and the callback results.  Each flag combination thus meets a
\* failure on either side of the point where Start may stop listening.
GateSites == { a + b + c + d + e : a \in {0, 8}, b \in {0, 16}, c \in {0, 32}, d \in {0, 64}, e \in {0, 128} }
GateBases == { s * 512 : s \in GateSites }
GateSteps == {"none", "chdir", "seccompA", "seccompB", "exec"}
\* Launcher death inside the callback (Launch!PCrash), also run in every tier: a helper launcher process
\* exits / is SIGKILLed while its SyncFunc runs, for every gate combination that has a callback, without and
\* with a user namespace (+ pid namespace), and with credential + capability drop on top.
CrashBases == LET S == { g \in GateSites : Bit(g, 6) } IN { s * 512 + r : s \in S, r \in {0, 1, 3} } \cup { (s + 3) * 512 : s \in S }

CasesOf(b) ==
  LET o == MkOpt(SiteOf(b), RowOf(b))
      P == ToSet(ChildPath(o))
      gate(step) == b \in GateBases /\ step \in GateSteps
  IN IF HangCombo(o) THEN {}
     ELSE { [s |-> SiteOf(b), r |-> RowOf(b), opt |-> o, fail |-> f.step, idx |-> f.idx, cb |-> "ok", hang |-> FALSE, gate |-> gate(f.step), crash |-> "", tbl |-> ""]
            : f \in { ff \in Recipes : Applicable(o, P, ff) } }
          \cup (IF o.sync THEN { [s |-> SiteOf(b), r |-> RowOf(b), opt |-> o, fail |-> "none", idx |-> 0, cb |-> x, hang |-> FALSE, gate |-> gate("none"), crash |-> "", tbl |-> ""] : x \in {"ok", "err"} }
                ELSE {})
          \cup (IF o.sync /\ b \in CrashBases
                THEN { [s |-> SiteOf(b), r |-> RowOf(b), opt |-> o, fail |-> "none", idx |-> 0, cb |-> "ok", hang |-> FALSE, gate |-> TRUE, crash |-> m, tbl |-> ""] : m \in {"exit", "kill"} }
                ELSE {})
\* Descriptor-table dimension of the gate family (run in every tier): the same launches that must NOT run the
\* program -- a failure before the sync point (chdir), after it (execve of a missing file), a refusing callback --
\* with tbl = "low": a Files table whose later slots hold numbers lower than their index (so that pass 1 of the
\* child's descriptor set-up makes several temporary copies) while the status socketpair sits right above the
\* table.  The report channel of the child (error record, sync word) must survive the descriptor passes.
LowTable(c) == c.gate /\ c.crash = "" /\ ~c.opt.ucg
               /\ ((c.fail \in {"chdir", "exec"} /\ c.idx = 0) \/ (c.fail = "none" /\ c.cb = "err"))
C07Plain == UNION { CasesOf(b) : b \in C07Bases \cup GateBases \cup CrashBases }
C07Cases == C07Plain \cup { [c EXCEPT !.tbl = "low"] : c \in { d \in C07Plain : LowTable(d) } }

\* Container-sequence family (C04 through container.Environment.Execve): Execve calls with DIFFERENT option
\* records run back to back on ONE pre-forked environment; every program must start in the state of ITS OWN
\* record whatever ran before.  Record index 0..23: seccomp filter none / f1 (six instructions) / f2 (four
\* instructions with zero-valued fields), RLimits given, Env given, SyncAfterExec.
\* C04Seq = set of pos*32 + index chosen by the orchestrator (consecutive positions = the pairs it wants);
\* SeqGate is the fixed prefix run in every tier: everything set -> nothing set -> f2 -> f1 -> f2 with limits ->
\* nothing -> f1 -> nothing.
MkCOpt(k) == [sec |-> (CASE k % 3 = 0 -> "none" [] k % 3 = 1 -> "f1" [] OTHER -> "f2"),
              rl |-> Bit(k \div 3, 0), env |-> Bit(k \div 3, 1), after |-> Bit(k \div 3, 2)]
SeqGate == <<22, 0, 2, 1, 5, 0, 1, 0>>
SeqCases == IF C04Pairs = {} THEN {}
            ELSE { [pos |-> i, copt |-> MkCOpt(SeqGate[i])] : i \in DOMAIN SeqGate }
                 \cup { [pos |-> Len(SeqGate) + (q \div 32), copt |-> MkCOpt(q % 32)] : q \in C04Seq }
ASSUME ndJsonSerialize("c04seq.ndjson", SetToSeq(SeqCases))
\* Runner-level family (run in every tier): the runners as their user sees them, called as root and as an
\* unprivileged user (uid 65534), with and without a callback.
RunnerCases == IF C04Pairs = {} THEN {}
  ELSE { [level |-> "unshare", caller |-> u, opt |-> UnshareRunnerOpt(y)] : u \in {0, 65534}, y \in BOOLEAN }
       \cup { [level |-> "ptrace", caller |-> u, opt |-> PtraceRunnerOpt(y, u = 0)] : u \in {0, 65534}, y \in BOOLEAN }
ASSUME ndJsonSerialize("c04run.ndjson", SetToSeq(RunnerCases))
ASSUME ndJsonSerialize("c04cases.ndjson", SetToSeq(C04Cases))
ASSUME ndJsonSerialize("c07cases.ndjson", SetToSeq(C07Cases))
ASSUME PrintT(<<"generated", Cardinality(C04Cases), Cardinality(C07Cases)>>)
VARIABLE x
Init == x = 0
Next == UNCHANGED x
=============================================================================
