---------------------------- MODULE Socket_Trace ----------------------------
(* Trace validation for C19.  Each line of traces.ndjson is one sequence of    *)
(* operations performed on the real sockets by `socket run`:                   *)
(*   [layer, passcred, own, forged, nfiles, endleak, ev |-> << event, ... >>]   *)
(* TLC starts one behaviour per trace (variable t) and replays the events       *)
(* through Socket!Send / Socket!Recv with the logged outcome bound; an event    *)
(* is enabled only if every observation equals what Socket.tla demands.         *)
(* Register t  : <<high-water mark of matched events, why the next one failed>> *)
(* Register N+t: 1 when an outcome differs from the implementation layer        *)
(* (SendImpl / RecvImpl) although the property layer admits it (drift).         *)
(* -workers 1.                                                                  *)
EXTENDS Socket, TLC, Json, SequencesExt
Traces == ndJsonDeserialize("traces.ndjson")
N == Len(Traces)
VARIABLES t, l
tvars == <<svars, t, l>>

Out(e) == IF e.err = "" THEN "ok" ELSE "rej"
\* the attached descriptors are files f0, f0+1, ... (mod nfiles) of the driver
MsgOf(T, e) == [id |-> e.id, len |-> e.len, val |-> e.val, nfds |-> e.nfds, fds |-> e.f0,
                cred |-> e.cred, typ |-> e.typ]
FileSeq(T, m) == [j \in 1..m.nfds |-> (m.fds + j - 1) % T.nfiles]
ReqOf(e) == [rbuf |-> e.rbuf, want |-> e.want, free |-> e.free]

\* "" when the event is what the specification demands in the current state, else the reason
CheckSend(T, e) ==
  LET m == MsgOf(T, e) IN
  IF ~SendOK(m, Out(e)) THEN (IF Out(e) = "ok" THEN "send:accepted-although-it-cannot-fit" ELSE "send:refused-although-it-fits")
  ELSE IF e.fdd # 0 THEN "send:descriptor-count-changed"
  ELSE ""

CheckRecv(T, e) ==
  IF q = <<>> THEN "recv:nothing-queued"
  ELSE LET p == Head(q)  fits == RecvFits(p, ReqOf(e))  k == p.m.nfds IN
    IF Out(e) = "rej" /\ fits THEN "recv:refused-although-it-fits"
    ELSE IF Out(e) = "ok" /\ p.bad THEN "recv:rejected-packet-was-delivered"
    ELSE IF Out(e) = "ok" /\ ~fits THEN "recv:delivered-although-it-does-not-fit"
    ELSE IF Out(e) = "rej" THEN (IF e.handed # 0 \/ e.fdd # 0 THEN "recv:rejected-message-leaks-descriptors" ELSE "")
    ELSE IF layer = "raw" /\ p.m.len = 0 /\ ~(e.n = 1 /\ e.zero1) THEN "recv:wrong-bytes"
    ELSE IF ~(layer = "raw" /\ p.m.len = 0) /\ ~(e.n = p.m.len /\ p.m.id \in ToSet(e.mids)) THEN "recv:wrong-bytes"
    ELSE IF layer = "gob" /\ e.tag # (IF p.m.typ = "B" THEN "b" ELSE "") THEN "recv:wrong-bytes"
    ELSE IF e.handed # k \/ e.fdd # k THEN "recv:descriptor-ledger"
    ELSE ""

\* the caller looks at the j-th delivered message -- right away, after later receives, or after the whole
\* sequence: it must still carry the files (identity, order, close-on-exec) and credentials it came with
CheckInspect(T, e) ==
  IF e.j \notin DOMAIN held \/ held[e.j].seen THEN "inspect:harness-order"
  ELSE LET m == held[e.j].orig IN
    IF e.rfidx # FileSeq(T, m) THEN "inspect:descriptors-differ"
    ELSE IF e.nce # m.nfds THEN "inspect:cloexec-lost"
    ELSE IF e.nsame # m.nfds THEN "inspect:not-the-same-open-file"
    ELSE IF e.cred # ExpCred([m |-> m], T.own) THEN "inspect:credentials-differ"
    ELSE ""

CheckProbe(T, e) ==
  IF e.empty /\ q # <<>> THEN "probe:accepted-message-vanished"
  ELSE IF ~e.empty /\ q = <<>> THEN "probe:refused-message-was-delivered"
  ELSE ""

\* a packet that is not a protocol message was put on the connection by the driver (must have worked)
BadOf(T, e) == [id |-> e.id, len |-> 0, val |-> 1, nfds |-> e.nfds, fds |-> e.f0, cred |-> <<>>, typ |-> "C"]
CheckInject(T, e) == IF e.err # "" \/ layer # "gob" THEN "inject:harness" ELSE IF e.fdd # 0 THEN "inject:descriptor-count-changed" ELSE ""

Check(T, e) == CASE e.op = "send"  -> CheckSend(T, e)
                 [] e.op = "inject" -> CheckInject(T, e)
                 [] e.op = "recv"  -> CheckRecv(T, e)
                 [] e.op = "probe" -> CheckProbe(T, e)
                 [] e.op = "inspect" -> CheckInspect(T, e)
                 [] OTHER -> "unknown-event"

\* one initial state; the first step picks the trace (TLC is much faster on successor states
\* than on initial states)
TInit ==
  /\ t = 0 /\ l = 0
  /\ layer = "raw" /\ passcred = FALSE
  /\ q = <<>> /\ acc = <<>> /\ dlv = <<>> /\ lost = {}
  /\ arrived = 0 /\ handed = 0 /\ closed = 0
  /\ encKnown = {} /\ decKnown = {} /\ pend = {} /\ held = <<>>
TPick ==
  /\ t = 0 /\ t' \in 1..N /\ l' = 1
  /\ layer' = Traces[t'].layer /\ passcred' = Traces[t'].passcred
  /\ UNCHANGED <<q, acc, dlv, lost, arrived, handed, closed, encKnown, decKnown, pend, held>>

TStep ==
  LET T == Traces[t] IN
  /\ t > 0
  /\ t' = t /\ l' = l + 1
  /\ \/ /\ l <= Len(T.ev)
        /\ LET e == T.ev[l] IN
           /\ Check(T, e) = ""
           /\ CASE e.op = "send" -> /\ Send(MsgOf(T, e), Out(e))
                                    /\ (Out(e) # SendImpl(MsgOf(T, e)) => TLCSet(N + t, 1))
                [] e.op = "recv" -> /\ Recv(ReqOf(e), Out(e))
                                    /\ (Out(e) # RecvImpl(Head(q), ReqOf(e)) => TLCSet(N + t, 1))
                [] e.op = "inspect" -> Inspect(e.j)
                [] e.op = "inject" -> Inject(BadOf(T, e))
                [] OTHER -> UNCHANGED svars
     \/ /\ l = Len(T.ev) + 1          \* after the last event: both ends closed, nothing may be left open
        /\ T.endleak = 0
        /\ \A j \in DOMAIN held : held[j].seen
        /\ UNCHANGED svars
TSpec == TInit /\ [][TPick \/ TStep]_tvars

Why == LET T == Traces[t] IN
       IF l <= Len(T.ev) THEN Check(T, T.ev[l])
       ELSE IF l = Len(T.ev) + 1 /\ T.endleak # 0 THEN "end:descriptors-leaked"
       ELSE IF l = Len(T.ev) + 1 /\ \E j \in DOMAIN held : ~held[j].seen THEN "end:harness-message-not-inspected" ELSE ""
Mark == t = 0 \/ TLCSet(t, IF TLCGet(t)[1] < l - 1 THEN <<l - 1, Why>> ELSE TLCGet(t))
ASSUME \A i \in 1..N : TLCSet(i, <<-1, "">>) /\ TLCSet(N + i, 0)
\* the properties of Socket.tla hold along every replayed trace
Report ==
  ndJsonSerialize("bad.ndjson",
        SetToSeq({ [t |-> i, matched |-> TLCGet(i)[1], why |-> TLCGet(i)[2], j |-> "viol"] :
                     i \in { j \in 1..N : TLCGet(j)[1] < Len(Traces[j].ev) + 1 } })
     \o SetToSeq({ [t |-> i, matched |-> TLCGet(i)[1], why |-> "", j |-> "drift"] : i \in { j \in 1..N : TLCGet(N + j) = 1 } }))
=============================================================================
