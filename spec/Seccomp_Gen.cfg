CONSTANTS Names = {"read","write","open","execve","getpid","exit_group"}
  Defs = {0,1,2,3,4,5}
  CNames = {"read","open","execve"}
  CLen = 3
INIT Init
NEXT Next
