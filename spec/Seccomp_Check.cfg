INIT Init
NEXT Next
INVARIANT Decided
CHECK_DEADLOCK FALSE
