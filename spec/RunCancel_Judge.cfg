INIT Init
NEXT Next
