CONSTANTS
  Sites = {0}
  Rows = {0}
  FailMode = "none"
  Lsbs = {{}}
SPECIFICATION TSpec
CONSTRAINT Mark
INVARIANT TInvPost
POSTCONDITION Report
CHECK_DEADLOCK FALSE
