----------------------------- MODULE Memfd_Gen -----------------------------
(* TLC as case generator for C13/memfd: size x pattern x reader kind (incl. file *)
(* readers whose st_size differs from what they yield) x order of               *)
(* the mutation attempts (every rotation of the attempt list), plus the cases   *)
(* in which the memfd holds an executable that is run from it in a container.   *)
EXTENDS MemfdDefs, SequencesExt, TLC, Json

Sizes   == {0, 1, 4095, 4096, 4097, 1048576, 16777216}
Pats    == {"zero", "ff", "ramp"}
Readers == ReaderKinds
OpList  == SetToSeq(Ops)
Rot(k)  == [i \in 1..Len(OpList) |-> OpList[((i + k - 1) % Len(OpList)) + 1]]

Cases == { [size |-> s, pat |-> p, reader |-> r, ops |-> Rot(k), exec |-> FALSE] :
             s \in Sizes, p \in Pats, r \in Readers, k \in 0..(Len(OpList) - 1) }
   \cup  { [size |-> -1, pat |-> "probe", reader |-> r, ops |-> Rot(k), exec |-> TRUE] :
             r \in Readers, k \in 0..(Len(OpList) - 1) }
   \cup  { [size |-> -1, pat |-> "kernel", reader |-> r, ops |-> Rot(k), exec |-> FALSE] :
             r \in KernelFiles, k \in 0..(Len(OpList) - 1) }
ASSUME ndJsonSerialize("memcases.ndjson", SetToSeq(Cases))
ASSUME PrintT(<<"generated", Cardinality(Cases)>>)
VARIABLE x
Init == x = 0
Next == UNCHANGED x
=============================================================================
