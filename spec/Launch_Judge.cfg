INIT Init
NEXT Next
