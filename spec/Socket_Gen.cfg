CONSTANTS Buf = 4096
  Cap = 32768
  DescA = 34
  DescB = 43
  MaxFds = 253
  HLen = 3
INIT Init
NEXT Next
