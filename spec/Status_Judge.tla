---------------------------- MODULE Status_Judge ----------------------------
(* TLC as judge for C09.  One line of obs.ndjson per real run (driver `status run`):             *)
(*   [runner, kind, n, child, cn, core,       the case (Status_Gen)                              *)
(*    status, exit, errlen, err,              runner.Result as reported by the runner            *)
(*    report: << [t, v], ... >>, eof, ext,    what the probe itself wrote before / after its     *)
(*                                            attempt: the kernel truth about what ended it      *)
(*    cancel, cancelled, endedfirst,          the caller's context was cancelled around the end; *)
(*                                            endedfirst: the program was a zombie before it    *)
(*    setup]                                  non-empty: the driver could not set the case up    *)
(* Verdicts: ok | viol (property breached on real code) | drift (implementation layer)           *)
(*         | model (kernel truth differs from Status!KernelFatal) | setup | nolaunch             *)
EXTENDS Status, TLC, Json, SequencesExt

Obs == ndJsonDeserialize("obs.ndjson")

LastLine(o) == o.report[Len(o.report)]
HasTag(o, tag) == \E i \in DOMAIN o.report : o.report[i].t = tag

\* what really ended the main process, from its own report
ActualEnd(o) ==
  IF Len(o.report) = 0 THEN [k |-> "none", n |-> 0]
  ELSE LET l == LastLine(o) IN
    CASE l.t = "exiting"          -> ExitEnd(l.v)
      [] l.t = "raising"          -> SigEnd(l.v)
      [] l.t = "ready" /\ o.ext   -> SigEnd(l.v)   \* the signal was sent and read() never returned
      [] OTHER                    -> [k |-> "unknown", n |-> 0]

R(o) == [status |-> o.status, exit |-> o.exit, errlen |-> o.errlen]
ChildLimit(o) == o.runner = "ptrace" /\ o.child \in {"killed", "orphankilled"} /\ o.cn \in {SIGXCPU, SIGXFSZ}
ImplExit(o) ==
  LET s == SignalOf(o.kind, o.n) IN
  IF o.runner = "ptrace" /\ StopsFirst(o.kind, s) /\ s \in {SIGXCPU, SIGXFSZ} THEN 0 ELSE s

V(j, why, e) == [j |-> j, why |-> why, exp |-> Classify(e)]
NoEnd == ExitEnd(0)

Judge(o) ==
  IF o.setup # "" THEN V("setup", "setup", NoEnd)
  ELSE IF ~ErrorRule(R(o)) THEN V("viol", "runner-error-without-text", NoEnd)
  ELSE IF o.kind = "badexec" THEN
       IF o.status = StRunnerError THEN V("ok", "", NoEnd) ELSE V("viol", "failed-launch-not-runner-error", NoEnd)
  ELSE LET a == ActualEnd(o)
           p == IntendedEnd(o.runner, o.kind, o.n) IN
       IF ChildLimit(o) /\ a.k \notin {"exit", "signal"} THEN
            \* implementation layer: the child's limit signal ended the run before the main process ended
            IF o.status = (IF o.cn = SIGXCPU THEN StTLE ELSE StOLE) THEN V("ok", "", NoEnd)
            ELSE V("drift", "child-limit-stop", NoEnd)
       ELSE IF a.k \notin {"exit", "signal"} THEN
            IF ~HasTag(o, "start") THEN
                 \* the program never ran: a Runner Error (with text, checked above) is the documented answer
                 IF o.status = StRunnerError THEN V("nolaunch", "launch-failed", NoEnd) ELSE V("model", "no-report", NoEnd)
            ELSE IF o.status = StRunnerError THEN V("viol", "runner-error-for-a-program-that-ran", NoEnd)
            ELSE V("viol", "verdict-before-the-program-ended", NoEnd)
       ELSE IF o.status = StRunnerError THEN V("viol", "runner-error-for-a-program-that-ran", a)
       ELSE IF a # p THEN
            IF o.runner = "ptrace" /\ p.k = "signal" /\ a = ExitEnd(SurvivorExit) /\ HasTag(o, "survived")
            THEN V("viol", "fatal-signal-discarded-by-the-tracer", p)
            ELSE V("model", "kernel-truth-differs", p)
       \* the caller cancelled around the end and it is not known that the program was gone before: it
       \* ended as announced, or the cancellation's SIGKILL got there first -- nothing else is admissible
       ELSE IF o.cancel # "none" /\ ~o.endedfirst THEN
            IF Conforms(R(o), a) \/ (o.status = StTLE /\ o.exit = SIGKILL) THEN V("ok", "", a)
            ELSE V("viol", "cancelled-run-neither-own-end-nor-kill", a)
       ELSE IF ~Conforms(R(o), a) THEN
            V("viol", IF o.status # Classify(a).status THEN "wrong-status" ELSE "wrong-exit-value", a)
       ELSE IF a.k = "signal" /\ o.exit # ImplExit(o) THEN V("drift", "exit-value", a)
       ELSE V("ok", "", a)

\* core = 1 and the main process was ended by a core-dumping signal: was a dump produced here at all?
\* (the probe's witness child; WCOREDUMP as seen by its parent).  No dump -> the case says nothing
\* about the core flag: counted as vacuous (still judged as an ordinary case).
TagV(o, tag) == LET i == CHOOSE i \in DOMAIN o.report : o.report[i].t = tag IN o.report[i].v
CoreVacuous(o) ==
  /\ o.core = 1 /\ o.setup = ""
  /\ LET a == ActualEnd(o) IN a.k = "signal" /\ a.n \in CoreSigs
  /\ ~(HasTag(o, "corewit") /\ TagV(o, "corewit") = 1)
JudgeC(o) == LET v == Judge(o) IN IF v.j = "ok" /\ CoreVacuous(o) THEN [v EXCEPT !.j = "vacuous", !.why = "no-core-dump-produced"] ELSE v
Bad == { i \in DOMAIN Obs : JudgeC(Obs[i]).j # "ok" }
ASSUME ndJsonSerialize("bad.ndjson", SetToSeq({ [i |-> i] @@ JudgeC(Obs[i]) : i \in Bad }))
ASSUME PrintT(<<"judged", Len(Obs), Cardinality(Bad)>>)
VARIABLE x
Init == x = 0
Next == UNCHANGED x
=============================================================================
