------------------------------- MODULE Reset -------------------------------
(* C13, first half.  Writable (tmpfs) mounts of a pooled container as sets of  *)
(* planted entries; programs add entries to any mount; Reset must leave every  *)
(* mount without any program-created entry, so that the listing a later        *)
(* program (or the host) obtains shows nothing of an earlier one.              *)
(*                                                                             *)
(* Property layer: after Reset has returned -- with or without an error --     *)
(*   every mount is empty (CleanAfterReset).                                   *)
(* Implementation layer: handleReset walks the tmpfs mounts in configuration   *)
(*   order; removeContents(m) removes every entry of m recursively, which also *)
(*   empties a tmpfs mounted below m but cannot remove that mount point        *)
(*   (EBUSY), so the walk reports an error for m.  StopAtFirstError selects    *)
(*   the loop as it was before the fix (return on the first failing mount).    *)
EXTENDS ResetDefs, TLC
CONSTANTS NM,               \* number of tmpfs mounts (configuration order 1..NM)
          Parent,           \* <<p1..pNM>>, see ResetDefs!Configs
          Kinds,            \* kinds planted in this model run
          MaxRuns,
          StopAtFirstError  \* TRUE: the pre-fix loop
VARIABLES content,   \* [1..NM -> SUBSET (Kinds \X 1..MaxRuns)]   program-created entries per mount
          nruns,
          phase,     \* "idle" | "resetting"
          cur,       \* mount the reset loop is at
          failed,    \* an error was seen by the running reset
          snap,      \* content when the running / last Reset began (history variable)
          clean      \* "fresh" | "no": a program ran since the last Reset | "ok"/"err": Reset returned that, nothing ran since
rvars == <<content, nruns, phase, cur, failed, snap, clean>>

Mts == 1..NM
Empty == [m \in Mts |-> {}]

Below(i) == BelowP(Parent, i)

RInit == /\ content = Empty /\ nruns = 0 /\ phase = "idle" /\ cur = 0 /\ failed = FALSE /\ clean = "fresh" /\ snap = Empty

(* a program plants the kinds K(m) in mount m *)
Plant(c, P, r) == PlantP(c, P, r)
Run(P) ==
  /\ phase = "idle" /\ nruns < MaxRuns
  /\ nruns' = nruns + 1
  /\ content' = Plant(content, P, nruns + 1)
  /\ clean' = "no"
  /\ UNCHANGED <<phase, cur, failed, snap>>

(* one iteration of the loop in handleReset: removeContents(mount i) *)
MountStep(c, i) == MountStepP(Parent, c, i)
MountErr(i) == MountErrP(Parent, i)

ResetBegin == /\ phase = "idle" /\ phase' = "resetting" /\ cur' = 1 /\ failed' = FALSE
              /\ snap' = content /\ UNCHANGED <<content, nruns, clean>>
ResetMount ==
  /\ phase = "resetting" /\ cur <= NM
  /\ content' = MountStep(content, cur)
  /\ IF MountErr(cur) /\ StopAtFirstError
       THEN /\ phase' = "idle" /\ clean' = "err" /\ cur' = 0 /\ failed' = TRUE   \* error reply, loop left
       ELSE /\ cur' = cur + 1 /\ failed' = (failed \/ MountErr(cur)) /\ UNCHANGED <<phase, clean>>
  /\ UNCHANGED <<nruns, snap>>
ResetEnd ==
  /\ phase = "resetting" /\ cur = NM + 1
  /\ phase' = "idle" /\ cur' = 0 /\ clean' = IF failed THEN "err" ELSE "ok"
  /\ UNCHANGED <<content, nruns, failed, snap>>

Plants == { P \in SUBSET (Kinds \X Mts) : P # {} /\ Cardinality(P) <= 2 }
RNext == \/ \E P \in Plants : Run(P)
         \/ ResetBegin \/ ResetMount \/ ResetEnd
RSpec == RInit /\ [][RNext]_rvars

(* ---- the whole Reset call as one function (what a trace shows: only call and return) *)
ResetWhole(c) == ResetWholeP(Parent, StopAtFirstError, c)

(* constants for the model-checking configurations (a cfg file cannot write a tuple) *)
MCParentNested == <<0, 1, 0, 0>>     \* w, w/inner, tmp, var/x/y
MCParentChain  == <<0, 0, 2, 3>>     \* tmp, w, w/inner, w/inner/deeper

(* ---- properties *)
TypeOK == /\ content \in [Mts -> SUBSET (Kinds \X (1..MaxRuns))] /\ phase \in {"idle", "resetting"}
          /\ clean \in {"fresh", "no", "ok", "err"}
CleanAfterReset == (phase = "idle" /\ clean \in {"ok", "err"}) => content = Empty
(* the step machine and the one-shot function (used by the trace validator) agree *)
WholeAgrees == (phase = "idle" /\ clean \in {"ok", "err"}) =>
                 /\ content = ResetWhole(snap).c
                 /\ (clean = "err") = ResetWhole(snap).err
(* an error is reported exactly for configurations with a tmpfs inside a tmpfs *)
ErrIffNested == (phase = "idle" /\ clean = "err") => \E i \in Mts : MountErr(i)
=============================================================================
