\* C07 design-level check (small default; checks/C07.py passes the tier's Sites/Rows):
\* every fallible step may fail, the callback may refuse
CONSTANTS
  Sites = {0,1,2,3,8,9,10,24,27,64,72,88,128,129,136,137,200,201,256,457,511}
  Rows = {0,1,2,3}
  FailMode = "all"
  Lsbs = {{}}
SPECIFICATION Spec
INVARIANTS InvPost CallbackOnce ExecNeedsApproval FailedNeverRuns ReapedAtReturn ErrorNamesStep FailureReported ReportedAgrees
PROPERTIES CallbackBeforeExec FailedStaysDead Returns
CHECK_DEADLOCK FALSE
