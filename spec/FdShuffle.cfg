\* C06 design-level model check: lists <= 3, all positions (= thorough run A: 95 656 configurations, 2 609 152 states);
\* checks/C06.py supplies the constants per tier and seed
CONSTANTS Vals = {0, 1, 2, 3, 4, 7}
          WithClose = TRUE
          MaxLen = 3
          PipePos = {1, 2, 3, 4, 5, 6, 8, 9, 10}
          ExecPos = {0, 1, 2, 3, 4, 5, 6, 8, 9, 10}
          MaxFd = 18
          FixSkipExec = TRUE
          FixLocalExec = TRUE
SPECIFICATION Spec
INVARIANTS TableExact NoFailure CallerUnchanged NoModelBound InternalAlive
PROPERTIES NoClobber
CHECK_DEADLOCK FALSE
