CONSTANTS MaxN = 4
  MaxVol = 12
  MaxCap = 4
  MaxChunk = 4
  Drain = TRUE
SPECIFICATION CSpec
INVARIANTS NeverMoreThanCapPlusOne WriterNeverBroken ExactAtEnd
PROPERTIES WriterFinishes CollectorFinishes
CHECK_DEADLOCK FALSE
