CONSTANTS MaxN = 4
  MaxVol = 12
  MaxCap = 4
  MaxChunk = 4
  Drain = TRUE
  CollectN = {0, 1, 2, 100, 4095, 4096, 65535, 65536, 65537, 1048576}
  SlowMax = 5000
  RecMaxDev = 8
SPECIFICATION CSpec
INVARIANTS NeverMoreThanCapPlusOne WriterNeverBroken ExactAtEnd
PROPERTIES WriterFinishes CollectorFinishes
CHECK_DEADLOCK FALSE
