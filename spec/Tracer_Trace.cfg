CONSTANTS
  MainAlpha = {}
  ChildAlpha = {}
  MaxMain = 8
  MaxChild = 8
  MaxSpawn = 2
  MaxT = 8
  MaxTotal = 24
  EsrchFatal = FALSE
  ChildSigsysIgnored = FALSE
  AnyDecision = FALSE
  ClenPanics = FALSE
  Noise = TRUE
SPECIFICATION TSpec
CONSTRAINT Mark
POSTCONDITION Report
CHECK_DEADLOCK FALSE
