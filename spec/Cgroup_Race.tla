---------------------------- MODULE Cgroup_Race ----------------------------
(* C20, concurrent creators: G goroutines call New(name) on one parent, on a   *)
(* v1 hierarchy with the controllers Ctl[1..K] (v2: K = 1).  The code visits    *)
(* the controllers in order; per controller it runs EnsureDirExists:            *)
(*   AtomicMkdir = FALSE : Stat, then MkdirAll (two steps; MkdirAll succeeds    *)
(*                         when the directory appeared in between)              *)
(*   AtomicMkdir = TRUE  : one Mkdir whose result decides (the repaired design) *)
(* After creating, every creator may Destroy its handle.  All interleavings.    *)
EXTENDS Integers, Sequences, FiniteSets
CONSTANTS G, K, Names, AtomicMkdir
VARIABLES nm,    \* [1..G -> Names]  the name each creator asks for
          pre,   \* names that existed before the round (created by somebody else)
          dirs,  \* [1..K -> SUBSET Names]
          pc,    \* [1..G -> 1..(2K+2)]: controller c = (pc+1) \div 2, odd = before Stat, even = before Mkdir
          saw,   \* [1..G -> BOOLEAN] result of the last Stat (directory was absent)
          own,   \* [1..G -> SUBSET 1..K] controllers whose directory the handle believes it created ("all")
          ex,    \* [1..G -> BOOLEAN] Existing()
          dead   \* creators that destroyed their handle
vars == <<nm, pre, dirs, pc, saw, own, ex, dead>>
Cre == 1..G

Init == /\ nm \in [Cre -> Names] /\ pre \in SUBSET Names
        /\ dirs = [c \in 1..K |-> pre]
        /\ pc = [g \in Cre |-> 1] /\ saw = [g \in Cre |-> FALSE]
        /\ own = [g \in Cre |-> {}] /\ ex = [g \in Cre |-> FALSE] /\ dead = {}

Ctl(g) == (pc[g] + 1) \div 2
Created(g) == pc[g] = 2 * K + 1
\* the directory existed: first controller decides Existing(), the controller is skipped
Exist(g) == ex' = [ex EXCEPT ![g] = @ \/ own[g] = {}] /\ UNCHANGED <<own, dirs>>
Make(g)  == /\ dirs' = [dirs EXCEPT ![Ctl(g)] = @ \cup {nm[g]}]
            /\ own' = [own EXCEPT ![g] = @ \cup {Ctl(g)}] /\ UNCHANGED ex

Stat(g) == /\ ~AtomicMkdir /\ pc[g] <= 2 * K /\ pc[g] % 2 = 1
           /\ IF nm[g] \in dirs[Ctl(g)]
                THEN Exist(g) /\ pc' = [pc EXCEPT ![g] = @ + 2] /\ UNCHANGED saw
                ELSE saw' = [saw EXCEPT ![g] = TRUE] /\ pc' = [pc EXCEPT ![g] = @ + 1] /\ UNCHANGED <<own, ex, dirs>>
           /\ UNCHANGED <<nm, pre, dead>>
MkdirAll(g) == /\ ~AtomicMkdir /\ pc[g] <= 2 * K /\ pc[g] % 2 = 0
               /\ Make(g)                    \* succeeds whether or not somebody created it meanwhile
               /\ pc' = [pc EXCEPT ![g] = @ + 1] /\ UNCHANGED <<nm, pre, saw, dead>>
Mkdir(g) == /\ AtomicMkdir /\ pc[g] <= 2 * K
            /\ IF nm[g] \in dirs[Ctl(g)] THEN Exist(g) ELSE Make(g)
            /\ pc' = [pc EXCEPT ![g] = @ + 2] /\ UNCHANGED <<nm, pre, saw, dead>>
\* Destroy: rmdir of every controller in "all" unless the handle is an existing one
Destroy(g) == /\ Created(g) /\ g \notin dead
              /\ dead' = dead \cup {g}
              /\ dirs' = [c \in 1..K |-> IF c \in own[g] /\ ~ex[g] THEN dirs[c] \ {nm[g]} ELSE dirs[c]]
              /\ UNCHANGED <<nm, pre, pc, saw, own, ex>>
Next == \E g \in Cre : Stat(g) \/ MkdirAll(g) \/ Mkdir(g) \/ Destroy(g)
Spec == Init /\ [][Next]_vars

\* two successful creates never yield two owning handles of one directory
Live(g) == g \notin dead
OneOwner == \A g, h \in Cre : (g # h /\ nm[g] = nm[h] /\ Live(g) /\ Live(h)) => own[g] \cap own[h] = {}
\* ... in the terms a caller can see: never two finished creators with Existing() = FALSE on one name
OneCreator == \A g, h \in Cre : (g # h /\ nm[g] = nm[h] /\ Created(g) /\ Created(h) /\ Live(g) /\ Live(h)) => ex[g] \/ ex[h]
\* a group that existed before is never removed, and is reported as existing
PreSafe == /\ \A c \in 1..K : pre \subseteq dirs[c]
           /\ \A g \in Cre : (Created(g) /\ nm[g] \in pre) => ex[g]
\* Destroy never removes a directory from under a live handle that created it
OwnerKeeps == \A g \in Cre : (Created(g) /\ g \notin dead /\ ~ex[g]) => \A c \in own[g] : nm[g] \in dirs[c]
=============================================================================
