--------------------------- MODULE FdShuffle_Gen ---------------------------
(* TLC as case generator for C06: every configuration of the model's initial  *)
(* state space (FdConfig!ConfigSet, the same set FdShuffle!Init ranges over)  *)
(* is written as one JSON line; `fdshuffle run` executes them on the real     *)
(* forkexec.Runner.Start.                                                     *)
(* Container path (container.Environment.Execve): the caller's list is a list   *)
(* of indices of CtSrc distinct host files (any order, repeats), with / without *)
(* ExecFile, CgroupFD, SyncAfterExec; the numbers inside the container init are *)
(* chosen by the kernel when the descriptors arrive.                            *)
EXTENDS FdConfig, TLC, Json
CONSTANTS CtSrc, CtLen
CtLists == UNION { [1..n -> 1..CtSrc] : n \in 0..CtLen }
CtCases == { [files |-> f, fdexec |-> x, cg |-> g, after |-> a] :
               f \in CtLists, x \in BOOLEAN, g \in BOOLEAN, a \in BOOLEAN }
ASSUME ndJsonSerialize("cases.ndjson", SetToSeq(ConfigSet))
ASSUME ndJsonSerialize("ctcases.ndjson", SetToSeq(CtCases))
ASSUME PrintT(<<"generated", Cardinality(ConfigSet), Cardinality(CtCases)>>)
VARIABLE x
Init == x = 0
Next == UNCHANGED x
=============================================================================
