----------------------------- MODULE Tracer_Gen -----------------------------
(* C03: TLC writes every program x decision function of the bounded space     *)
(* (TracerCases) as one JSON line; the driver runs each under the real ptrace  *)
(* runner.                                                                     *)
EXTENDS TracerCases, Json, SequencesExt
VARIABLE x
ToRec(d) == [m \in DOMAIN d |-> d[m]]
CaseSeq == SetToSeq(Cases)
ASSUME PrintT(<<"scripts", Cardinality(Scripts), "cases", Len(CaseSeq)>>)
ASSUME ndJsonSerialize("cases.ndjson",
          [i \in DOMAIN CaseSeq |-> [id |-> i, script |-> CaseSeq[i].script, dec |-> CaseSeq[i].dec]])
Init == x = 0
Next == UNCHANGED x
=============================================================================
