----------------------------- MODULE Tracer_Gen -----------------------------
(* C03: TLC writes every program x decision function of the bounded space     *)
(* (TracerCases) as one JSON line; the driver runs each under the real ptrace  *)
(* runner.                                                                     *)
EXTENDS TracerCases, Json, SequencesExt
VARIABLE x
ASSUME PrintT(<<"scripts", Cardinality(Scripts), "cases", Cardinality(Cases)>>)
ASSUME ndJsonSerialize("cases.ndjson", SetToSeq(Cases))
Init == x = 0
Next == UNCHANGED x
=============================================================================
