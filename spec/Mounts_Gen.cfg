CONSTANTS
  MaxLen = 3
  ContOpts <- ContOptsMain
INIT Init
NEXT Next
