CONSTANTS
  MaxLen = 3
  ContOpts <- ContOptsMain
  FullLen = 2
  NShort = 0
  NLong = 420
INIT Init
NEXT Next
