CONSTANTS
  Menu <- Kinds
  MaxLen = 2
  ContOpts <- ContOptsMain
  Envs <- EnvsTwo
SPECIFICATION Spec
INVARIANTS
  NoFailure
  FoldAgrees
  HostOnlyDuringSetup
  NoPropagation
  RootIsReadOnly
  OldRootUnreachable
  OnlyConfiguredNames
  DeclaredRoEndsRo
  WritableIffDecl
  MaskedRevealNothing
  OnlyDeclaredWritable
ALIAS Alias
CHECK_DEADLOCK FALSE
