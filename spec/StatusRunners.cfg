CONSTANTS ChildCodes = {0, 1, 77}
  ChildSigs = {5, 9, 11, 15, 24, 25}
  ExtSigs = {2, 5, 9, 15, 24, 25, 31}
  MCExits = {0, 1, 2, 3, 4, 5, 6, 7, 8, 9, 10, 11, 12, 13, 14, 15, 16, 17, 18, 19, 20, 21, 22, 23, 24, 25, 26, 27, 28, 29, 30, 31, 32, 33, 34, 35, 36, 37, 38, 39, 40, 41, 42, 43, 44, 45, 46, 47, 48, 49, 50, 51, 52, 53, 54, 55, 56, 57, 58, 59, 60, 61, 62, 63, 64, 65, 66, 67, 68, 69, 70, 71, 72, 73, 74, 75, 76, 77, 78, 79, 80, 81, 82, 83, 84, 85, 86, 87, 88, 89, 90, 91, 92, 93, 94, 95, 96, 97, 98, 99, 100, 101, 102, 103, 104, 105, 106, 107, 108, 109, 110, 111, 112, 113, 114, 115, 116, 117, 118, 119, 120, 121, 122, 123, 124, 125, 126, 127, 128, 129, 130, 131, 132, 133, 134, 135, 136, 137, 138, 139, 140, 141, 142, 143, 144, 145, 146, 147, 148, 149, 150, 151, 152, 153, 154, 155, 156, 157, 158, 159, 160, 161, 162, 163, 164, 165, 166, 167, 168, 169, 170, 171, 172, 173, 174, 175, 176, 177, 178, 179, 180, 181, 182, 183, 184, 185, 186, 187, 188, 189, 190, 191, 192, 193, 194, 195, 196, 197, 198, 199, 200, 201, 202, 203, 204, 205, 206, 207, 208, 209, 210, 211, 212, 213, 214, 215, 216, 217, 218, 219, 220, 221, 222, 223, 224, 225, 226, 227, 228, 229, 230, 231, 232, 233, 234, 235, 236, 237, 238, 239, 240, 241, 242, 243, 244, 245, 246, 247, 248, 249, 250, 251, 252, 253, 254, 255}
  DeliverTrap = TRUE
  LowByteSignal = FALSE
  RelabelOnCancel = FALSE
  ContainerSigTable = 0
  WaitGroup = FALSE
SPECIFICATION Spec
INVARIANTS VerdictOK ErrorOK RunnerErrorOnlyForRunner BadExecIsRunnerError ChildLimitImpl FateOK ImplExitOK
PROPERTIES EveryRunReported
CHECK_DEADLOCK FALSE
