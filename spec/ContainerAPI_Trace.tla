------------------------- MODULE ContainerAPI_Trace -------------------------
(* Judges API-level histories of real container sessions (atraces.ndjson):     *)
(*   [id, calls |-> << [op |-> ..., a |-> ...], ... >>]                        *)
EXTENDS ContainerAPI, TLC, Json, SequencesExt
Traces == ndJsonDeserialize("atraces.ndjson")
N == Len(Traces)
VARIABLES t, l
TInit == AInit /\ t \in 1..N /\ l = 1
TStep ==
  /\ l <= Len(Traces[t].calls)
  /\ Call(Traces[t].calls[l].op, Traces[t].calls[l].a)
  /\ l' = l + 1 /\ t' = t
TSpec == TInit /\ [][TStep]_<<env, t, l>>
Mark == TLCSet(t, IF TLCGet(t) < l - 1 THEN l - 1 ELSE TLCGet(t))
ASSUME \A i \in 1..N : TLCSet(i, 0)
Report == ndJsonSerialize("aresult.ndjson",
            [i \in 1..N |-> [t |-> i, id |-> Traces[i].id, mark |-> TLCGet(i), total |-> Len(Traces[i].calls)]])
=============================================================================
