--------------------------- MODULE PathWalk_Judge ---------------------------
(***************************************************************************)
(* C02 -- TLC as judge of the observation lines written by                 *)
(* `pathwalk run` (one line per scripted call executed by the probe under  *)
(* the real ptrace runner):                                                *)
(*   case   the generated case (PathWalk_Gen); case.swap: the exchange of   *)
(*          two nodes in force while this call was made (dynamic forest)   *)
(*   seen   consultations the policy handler received while the call was   *)
(*          trapped: [c (read|write|stat|syscall), in, p, raw]             *)
(*   truth  per path argument what the kernel itself answered for the same *)
(*          (descriptor register, string): f = following, n = not          *)
(*          following the final symlink: [k (ok|create|err|out), p, e, ce] *)
(* Verdict per line:                                                       *)
(*   "model"  the reference walk disagrees with the kernel -> inconclusive *)
(*   "count" | "class" | "path"  breach of the property on the real code   *)
(*   "drift"  property holds, code differs from ClassImpl                  *)
(* Output: verdicts.ndjson, one line per observation line.                 *)
(***************************************************************************)
EXTENDS PathWalk, Json

PathArg(o, i) == IF i = 1 THEN [d |-> o.case.d1, ps |-> o.case.p1] ELSE [d |-> o.case.d2, ps |-> o.case.p2]
FlSet(o) == ToSet(o.case.fl)

\* does the kernel's answer t agree with the model's result m ?
Agree(m, t) ==
  CASE m.k = "err" /\ m.e = "OUT" -> TRUE                      \* outside the model
    [] m.k = "ok"     -> t.k = "ok" /\ t.p = m.p
    [] m.k = "create" -> \/ t.k = "create" /\ t.p = m.p
                         \/ t.k = "err" /\ t.e = "ENOENT" /\ t.ce # "ENOENT"  \* nothing can be created here
    [] m.k = "err"    -> t.k = "err" /\ t.e = m.e                 \* (t.k = "err": the creation failed too)

\* everything the reference says about path argument i of the call of line o
Ref(Cat, o, i) ==
  LET F    == At(Cat[o.case.f], o.case.swap)      \* the forest as it is at this call
      a    == PathArg(o, i)
      base == BaseOf(F, o.case.cwd, a.d, a.ps)
      \* the kernel first copies the string from the caller's memory
      mf   == IF Unreadable(a.ps) THEN ErrR("EFAULT") ELSE Resolve(F, base, Rel(a.ps), FALSE)
      mn   == IF Unreadable(a.ps) THEN ErrR("EFAULT") ELSE Resolve(F, base, Rel(a.ps), TRUE)
      fl   == FlSet(o)
  IN [mf |-> mf, mn |-> mn,
      exp |-> ExpectedOf(mf, mn, NoFollow(o.case.sc, i, o.case.acc, fl)),
      classes |-> ClassSet(o.case.sc, i, o.case.acc, fl),
      impl |-> ClassImpl(o.case.sc, i, o.case.acc, fl)]

ModelOK(rf, t) == Agree(rf.mf, t.f) /\ Agree(rf.mn, t.n)
\* c = "syscall": the runner applied its procfs-alias policy (CheckSyscall("procfs-path")) instead of a
\* path check.  Acceptable only where nothing is demanded of the path (the kernel touches no object of
\* the forest); where the kernel resolves the name into the forest the canonical path must be presented.
ClassOK(rf, s) == IF s.c = "syscall" THEN ~rf.exp.judged ELSE s.c \in rf.classes
PathOK(rf, s)  == ~rf.exp.judged \/ (s.c # "syscall" /\ s.in /\ s.p \in rf.exp.paths)

JudgeRec(Cat, o) ==
  LET np  == NPaths(o.case.sc)
      rf  == IF np = 1 THEN <<Ref(Cat, o, 1)>> ELSE <<Ref(Cat, o, 1), Ref(Cat, o, 2)>>     \* (a tuple: evaluated once)
      full == Len(o.truth) = np /\ Len(o.seen) = np
      B   == IF full THEN { i \in 1..np : ~ClassOK(rf[i], o.seen[i]) \/ ~PathOK(rf[i], o.seen[i]) } ELSE {}
      v   == IF Len(o.truth) # np \/ \E i \in 1..np : ~ModelOK(rf[i], o.truth[i]) THEN "model"
             ELSE IF Len(o.seen) # np THEN "count"
             ELSE IF \E i \in 1..np : ~ClassOK(rf[i], o.seen[i]) THEN "class"
             ELSE IF \E i \in 1..np : ~PathOK(rf[i], o.seen[i]) THEN "path"
             ELSE IF \E i \in 1..np : o.seen[i].c \notin {rf[i].impl, "syscall"} THEN "drift"
             ELSE "ok"
  IN [id |-> o.id, j |-> v,
      judged |-> \E i \in 1..np : rf[i].exp.judged,
      arg |-> IF B = {} THEN 0 ELSE CHOOSE i \in B : \A k \in B : i <= k,
      exp |-> IF v = "ok" THEN <<>>
              ELSE [i \in 1..np |-> [judged |-> rf[i].exp.judged, paths |-> SetToSeq(rf[i].exp.paths),
                                     classes |-> SetToSeq(rf[i].classes), mf |-> rf[i].mf, mn |-> rf[i].mn]]]

\* one verdict line per observation line, in order (each JudgeRec is evaluated exactly once)
\* (the observation file and the catalogue are bound once: LET-bound names are memoised by TLC)
ASSUME LET Cat == Catalogue
           Obs == ndJsonDeserialize("obs.ndjson")
       IN /\ NForests = Len(Cat)
          /\ ndJsonSerialize("verdicts.ndjson", [ i \in DOMAIN Obs |-> JudgeRec(Cat, Obs[i]) ])
          /\ PrintT(<<"judged", Len(Obs)>>)
VARIABLE x
Init == x = 0
Next == UNCHANGED x
=============================================================================
