--------------------------- MODULE ContainerProto ---------------------------
(***************************************************************************)
(* Host <-> container-init RPC of criyle/go-sandbox (package container),   *)
(* implementation layer: one action per critical section / select branch   *)
(* / socket operation of                                                    *)
(*   host: environment_linux.go (sendLoop, recvLoop, sendCmd, recvReply,    *)
(*         Destroy), host_cmd_linux.go (Ping/conf/Open/Delete/Reset/        *)
(*         Symlink), host_exec_linux.go (Execve, execveSyncKill,            *)
(*         waitForDone)                                                     *)
(*   init: container_init_linux.go (recvLoop, sendLoop, serve, sendReply),  *)
(*         container_cmd_linux.go (simple handlers),                        *)
(*         container_exec_linux.go (handleExecve, syncPid,                  *)
(*         handleExecveStarted).                                            *)
(* Every message carries a ghost call id so that "the answer belongs to    *)
(* that call" and "no command is interpreted in the wrong state" can be    *)
(* stated (C10).  Cancel, Destroy, init crash and host crash are            *)
(* environment actions (C11, C12, C16).                                     *)
(*                                                                         *)
(* Used for: exhaustive MC (ContainerProto_MC*.cfg), trace validation of    *)
(* hook-recorded real executions (ContainerProto_Trace).                    *)
(***************************************************************************)
EXTENDS Naturals, Sequences, FiniteSets, TLC

CONSTANTS MaxCalls,      \* number of API calls issued by the host in MC
          Ops,           \* op kinds the host may issue in MC (subset of AllOps)
          AllowDestroy,  \* environment may Destroy (close host socket + kill init) at any time
          AllowCrash,    \* environment may kill init / the host process at any time
          FixEatKill,    \* TRUE: init consumes the host's kill after an exec error that follows the ack
          ReapOnRefusal, \* TRUE: the sync-after-exec refusal path also runs the wait-all pass (as the code does)
          FixDonePrio,   \* TRUE: sendCmd / recvReply look at c.done before the two-way select
          AllowDeadline, \* environment may let Ping's 3 s bound expire (init stalled: SIGSTOP, freezer, load)
          DeadlineBreaks \* TRUE (as the code does): the bound is a socket deadline, its expiry fails the receive
                         \* loop and marks the transport lost.  FALSE: Ping just returns an error on a timer --
                         \* TLC then shows the late pong being consumed by the next call (NoDesync)
                         \* (FALSE/FALSE is the code as found; both were repaired with fix: commits)

SimpleOps == {"ping", "conf", "open", "delete", "reset", "symlink"}
AllOps    == SimpleOps \cup {"exec"}

VARIABLES
  \* ---- host API goroutine
  hpc,        \* program counter
  call,       \* number of calls begun (ghost call id of the current call)
  hop,        \* current op: [kind, sa (SyncAfterExec), cb ("none"|"ok"|"fail"), big (request exceeds one packet),
              \*              lost (ghost: done was closed at begin)]
  hret,       \* result class pending at "ret"
  hres,       \* ghost: sequence of [call, op, r, lost]
  ctx,        \* "live" | "cancelled"
  \* ---- host plumbing
  hSendCh, hRecvCh,   \* channels of capacity 1 (sequences of length <= 1)
  hSL, hRL,           \* sendLoop / recvLoop: <<"idle">> | <<"hold", msg>> | <<"exit">>
  hDone,              \* c.done closed
  hostAlive,          \* FALSE after HostCrash
  \* ---- the socket pair
  h2c, c2h,           \* SEQPACKET queues
  sockH, sockC,       \* "open" | "closed"
  \* ---- init
  cSendCh, cRecvCh, cSL, cRL, cDone,
  spc, scont,         \* server pc and continuation after a reply has been written
  scall,              \* ghost: call id the server believes it is serving
  sSyncAfter, sSynced,
  child,              \* "none" | "atsync" | "acked" | "running" | "dead"   (the sandboxed program)
  desc,               \* its descendants inside the namespace: "none" | "alive" | "zombie" (killed, not yet reaped by init)
  bad                 \* ghost: set of protocol violations observed

hostV == <<hpc, call, hop, hret, hres, ctx, hSendCh, hRecvCh, hSL, hRL, hDone, hostAlive>>
netV  == <<h2c, c2h, sockH, sockC>>
contV == <<cSendCh, cRecvCh, cSL, cRL, cDone, spc, scont, scall, sSyncAfter, sSynced, child, desc>>
vars  == <<hostV, netV, contV, bad>>

Cmd(k, c, sa) == [t |-> "cmd", k |-> k, call |-> c, sa |-> sa, big |-> FALSE]
Reply(k, c)   == [t |-> "rep", k |-> k, call |-> c]
NoOp == [kind |-> "none", sa |-> FALSE, cb |-> "none", big |-> FALSE, lost |-> FALSE]

Init ==
  /\ hpc = "idle" /\ call = 0 /\ hop = NoOp /\ hret = "none" /\ hres = <<>> /\ ctx = "live"
  /\ hSendCh = <<>> /\ hRecvCh = <<>> /\ hSL = <<"idle">> /\ hRL = <<"idle">> /\ hDone = FALSE
  /\ hostAlive = TRUE
  /\ h2c = <<>> /\ c2h = <<>> /\ sockH = "open" /\ sockC = "open"
  /\ cSendCh = <<>> /\ cRecvCh = <<>> /\ cSL = <<"idle">> /\ cRL = <<"idle">> /\ cDone = FALSE
  /\ spc = "serve" /\ scont = "" /\ scall = 0 /\ sSyncAfter = FALSE /\ sSynced = FALSE
  /\ child = "none" /\ desc = "none" /\ bad = {}

-----------------------------------------------------------------------------
(* Host API goroutine.  Every API function holds c.mu, so calls are sequential. *)

\* the call has computed its result class r; the return itself is a separate step (HostReturn)
Ret(r) == hpc' = "ret" /\ hret' = r

HostBegin(k, sa, cb, big) ==
  /\ hostAlive /\ hpc = "idle"
  /\ call' = call + 1
  /\ hop' = [kind |-> k, sa |-> sa, cb |-> cb, big |-> big, lost |-> hDone]
  /\ hpc' = "send" /\ ctx' = "live"
  /\ UNCHANGED <<hret, hres, hSendCh, hRecvCh, hSL, hRL, hDone, hostAlive, netV, contV, bad>>

HostReturn ==
  /\ hostAlive /\ hpc = "ret"
  /\ hres' = Append(hres, [call |-> call, op |-> hop.kind, r |-> hret, lost |-> hop.lost])
  /\ hpc' = "idle" /\ hret' = "none"
  /\ UNCHANGED <<call, hop, ctx, hSendCh, hRecvCh, hSL, hRL, hDone, hostAlive, netV, contV, bad>>

\* Go's select picks any ready case: without the priority check a closed done does not disable
\* the channel cases
Live == FixDonePrio => ~hDone
\* sendCmd: done is checked first (priority), then select { <-done ; sendCh <- cmd }
\* onDone / onPut: the pc effects of the two branches
Put(k, sa, onPutPc, onDoneR) ==
  \/ /\ hDone /\ Ret(onDoneR) /\ UNCHANGED hSendCh
  \/ /\ Live /\ Len(hSendCh) = 0
     /\ hSendCh' = <<Cmd(k, call, sa)>>
     /\ hpc' = onPutPc /\ UNCHANGED hret

\* recvReply: done is checked first, then select { <-done ; <-recvCh }; ghost check of the call id
Stale(m) == IF m.call # call THEN {"stale_reply"} ELSE {}

HostSendFirst ==
  /\ hostAlive /\ hpc = "send"
  /\ \/ /\ hDone /\ Ret("err") /\ UNCHANGED hSendCh
     \/ /\ Live /\ Len(hSendCh) = 0
        /\ hSendCh' = <<[Cmd(hop.kind, call, hop.sa) EXCEPT !.big = hop.big]>>
        /\ hpc' = "recv1" /\ UNCHANGED hret
  /\ UNCHANGED <<call, hop, hres, ctx, hRecvCh, hSL, hRL, hDone, hostAlive, netV, contV, bad>>

HostRecvFirst ==
  /\ hostAlive /\ hpc = "recv1"
  /\ \/ /\ hDone /\ Ret("err") /\ UNCHANGED <<hRecvCh, bad>>
     \/ /\ Live /\ Len(hRecvCh) = 1
        /\ LET m == hRecvCh[1] IN
           /\ hRecvCh' = <<>>
           /\ bad' = bad \cup Stale(m)
           /\ IF hop.kind # "exec"
                THEN Ret(IF m.k \in {"ack", "batch"} THEN "ok" ELSE "err")
                ELSE IF m.k = "err" THEN Ret("err")
                     ELSE IF m.k = "pid" THEN (IF hop.cb = "none" THEN hpc' = "ok_send" ELSE hpc' = "cb") /\ UNCHANGED hret
                     ELSE hpc' = "nopid1" /\ UNCHANGED hret      \* msg.Cred == nil: two execveSyncKill
  /\ UNCHANGED <<call, hop, hres, ctx, hSendCh, hSL, hRL, hDone, hostAlive, netV, contV>>

\* SyncFunc supplied by the caller
HostCallback ==
  /\ hostAlive /\ hpc = "cb"
  /\ hpc' = IF hop.cb = "ok" THEN "ok_send" ELSE "k1_send"
  /\ UNCHANGED <<call, hop, hret, hres, ctx, hSendCh, hRecvCh, hSL, hRL, hDone, hostAlive, netV, contV, bad>>

\* execveSyncKill: sendCmd(kill) [error ignored]; recvReply [result ignored]
SyncKillSend(frompc, topc) ==
  /\ hostAlive /\ hpc = frompc
  /\ \/ /\ hDone /\ hpc' = topc /\ UNCHANGED hSendCh
     \/ /\ Live /\ Len(hSendCh) = 0 /\ hSendCh' = <<Cmd("kill", call, FALSE)>> /\ hpc' = topc
  /\ UNCHANGED <<call, hop, hret, hres, ctx, hRecvCh, hSL, hRL, hDone, hostAlive, netV, contV, bad>>
SyncKillRecv(frompc, topc, r) ==
  /\ hostAlive /\ hpc = frompc
  /\ \/ /\ hDone /\ UNCHANGED <<hRecvCh, bad>>
     \/ /\ Live /\ Len(hRecvCh) = 1 /\ bad' = bad \cup Stale(hRecvCh[1]) /\ hRecvCh' = <<>>
  /\ IF r = "-" THEN hpc' = topc /\ UNCHANGED hret ELSE Ret(r)
  /\ UNCHANGED <<call, hop, hres, ctx, hSendCh, hSL, hRL, hDone, hostAlive, netV, contV>>

HostK1Send == SyncKillSend("k1_send", "k1_recv")
HostK1Recv == SyncKillRecv("k1_recv", "ret", "err")          \* "syncfunc failed"
HostNoPid1S == SyncKillSend("nopid1", "nopid1r")
HostNoPid1R == SyncKillRecv("nopid1r", "nopid2", "-")
HostNoPid2S == SyncKillSend("nopid2", "nopid2r")
HostNoPid2R == SyncKillRecv("nopid2r", "ret", "err")         \* "no pid received"

HostOkSend ==
  /\ hostAlive /\ hpc = "ok_send"
  /\ Put("ok", FALSE, "wait", "err")
  /\ UNCHANGED <<call, hop, hres, ctx, hRecvCh, hSL, hRL, hDone, hostAlive, netV, contV, bad>>

CtxCancel ==
  /\ hostAlive /\ hop.kind = "exec" /\ ctx = "live" /\ hpc # "idle"
  /\ ctx' = "cancelled"
  /\ UNCHANGED <<hpc, call, hop, hret, hres, hSendCh, hRecvCh, hSL, hRL, hDone, hostAlive, netV, contV, bad>>

\* waitForDone: select { <-done ; <-ctx.Done ; <-recvCh } -- all ready cases may be chosen
HostWaitDone ==
  /\ hostAlive /\ hpc = "wait" /\ hDone /\ Ret("err")
  /\ UNCHANGED <<call, hop, hres, ctx, hSendCh, hRecvCh, hSL, hRL, hDone, hostAlive, netV, contV, bad>>
HostWaitCtx ==
  /\ hostAlive /\ hpc = "wait" /\ ctx = "cancelled" /\ hpc' = "k2_send"
  /\ UNCHANGED <<call, hop, hret, hres, ctx, hSendCh, hRecvCh, hSL, hRL, hDone, hostAlive, netV, contV, bad>>
HostK2Send == SyncKillSend("k2_send", "k2_recv")
HostK2Recv ==
  /\ hostAlive /\ hpc = "k2_recv"
  /\ \/ /\ hDone /\ Ret("err") /\ UNCHANGED <<hRecvCh, bad>>
     \/ /\ Live /\ Len(hRecvCh) = 1
        /\ LET m == hRecvCh[1] IN
           /\ bad' = bad \cup Stale(m)
           /\ hRecvCh' = <<>>
           /\ Ret(IF m.k = "result" THEN "verdict" ELSE "err")
  /\ UNCHANGED <<call, hop, hres, ctx, hSendCh, hSL, hRL, hDone, hostAlive, netV, contV>>
HostWaitResult ==
  /\ hostAlive /\ hpc = "wait" /\ Len(hRecvCh) = 1
  /\ LET m == hRecvCh[1] IN
     /\ bad' = bad \cup Stale(m)
     /\ hRecvCh' = <<>>
     /\ hpc' = IF m.k = "result" THEN "k3_send_v" ELSE "k3_send_e"
  /\ UNCHANGED <<call, hop, hret, hres, ctx, hSendCh, hSL, hRL, hDone, hostAlive, netV, contV>>
HostK3Send ==
  /\ hostAlive /\ hpc \in {"k3_send_v", "k3_send_e"}
  /\ \/ /\ hDone /\ Ret("err") /\ UNCHANGED hSendCh
     \/ /\ Live /\ Len(hSendCh) = 0
        /\ hSendCh' = <<Cmd("kill", call, FALSE)>>
        /\ Ret(IF hpc = "k3_send_v" THEN "verdict" ELSE "err")
  /\ UNCHANGED <<call, hop, hres, ctx, hRecvCh, hSL, hRL, hDone, hostAlive, netV, contV, bad>>

-----------------------------------------------------------------------------
(* Host socket goroutines *)
HostSLTake ==
  /\ hostAlive /\ hSL = <<"idle">> /\ Len(hSendCh) = 1
  /\ hSL' = <<"hold", hSendCh[1]>> /\ hSendCh' = <<>>
  /\ UNCHANGED <<hpc, call, hop, hret, hres, ctx, hRecvCh, hRL, hDone, hostAlive, netV, contV, bad>>
HostSLExit ==
  /\ hostAlive /\ hSL = <<"idle">> /\ hDone /\ hSL' = <<"exit">>
  /\ UNCHANGED <<hpc, call, hop, hret, hres, ctx, hSendCh, hRecvCh, hRL, hDone, hostAlive, netV, contV, bad>>
HostSLTooBig ==                                  \* SendMsg refuses an oversize command before writing anything:
  /\ hostAlive /\ hSL[1] = "hold" /\ hSL[2].big   \* the caller gets an error reply, the container is not involved
  /\ \/ /\ Len(hRecvCh) = 0 /\ hRecvCh' = <<Reply("err", hSL[2].call)>> /\ hSL' = <<"idle">>
     \/ /\ hDone /\ hSL' = <<"exit">> /\ UNCHANGED hRecvCh
  /\ UNCHANGED <<hpc, call, hop, hret, hres, ctx, hSendCh, hRL, hDone, hostAlive, netV, contV, bad>>
HostSLSend ==
  /\ hostAlive /\ hSL[1] = "hold" /\ ~hSL[2].big /\ sockH = "open" /\ sockC = "open"
  /\ h2c' = Append(h2c, hSL[2]) /\ hSL' = <<"idle">>
  /\ UNCHANGED <<hpc, call, hop, hret, hres, ctx, hSendCh, hRecvCh, hRL, hDone, hostAlive, c2h, sockH, sockC, contV, bad>>
HostSLErr ==
  /\ hostAlive /\ hSL[1] = "hold" /\ ~hSL[2].big /\ (sockH = "closed" \/ sockC = "closed")
  /\ hDone' = TRUE /\ hSL' = <<"exit">>
  /\ UNCHANGED <<hpc, call, hop, hret, hres, ctx, hSendCh, hRecvCh, hRL, hostAlive, netV, contV, bad>>

HostRLRecv ==
  /\ hostAlive /\ hRL = <<"idle">> /\ sockH = "open" /\ Len(c2h) > 0
  /\ hRL' = <<"hold", Head(c2h)>> /\ c2h' = Tail(c2h)
  /\ UNCHANGED <<hpc, call, hop, hret, hres, ctx, hSendCh, hRecvCh, hSL, hDone, hostAlive, h2c, sockH, sockC, contV, bad>>
HostRLErr ==
  /\ hostAlive /\ hRL = <<"idle">> /\ (sockH = "closed" \/ (sockC = "closed" /\ Len(c2h) = 0))
  /\ hDone' = TRUE /\ hRL' = <<"exit">>
  /\ UNCHANGED <<hpc, call, hop, hret, hres, ctx, hSendCh, hRecvCh, hSL, hostAlive, netV, contV, bad>>
HostRLPush ==                                   \* c.recvCh <- reply  (blocks while the channel is full)
  /\ hostAlive /\ hRL[1] = "hold" /\ Len(hRecvCh) = 0
  /\ hRecvCh' = <<hRL[2]>> /\ hRL' = <<"idle">>
  /\ UNCHANGED <<hpc, call, hop, hret, hres, ctx, hSendCh, hSL, hDone, hostAlive, netV, contV, bad>>

-----------------------------------------------------------------------------
(* Init socket goroutines *)
Alive == spc # "dead"          \* the init process exists ("exiting": serve has returned, os.Exit not yet reached)

ContRLRecv ==
  /\ Alive /\ cRL = <<"idle">> /\ sockC = "open" /\ Len(h2c) > 0
  /\ cRL' = <<"hold", Head(h2c)>> /\ h2c' = Tail(h2c)
  /\ UNCHANGED <<hostV, c2h, sockH, sockC, cSendCh, cRecvCh, cSL, cDone, spc, scont, scall, sSyncAfter, sSynced, child, desc, bad>>
ContRLErr ==
  /\ Alive /\ cRL = <<"idle">> /\ sockH = "closed" /\ Len(h2c) = 0
  /\ cDone' = TRUE /\ cRL' = <<"exit">>
  /\ UNCHANGED <<hostV, netV, cSendCh, cRecvCh, cSL, spc, scont, scall, sSyncAfter, sSynced, child, desc, bad>>
ContRLPush ==
  /\ Alive /\ cRL[1] = "hold" /\ Len(cRecvCh) = 0
  /\ cRecvCh' = <<cRL[2]>> /\ cRL' = <<"idle">>
  /\ UNCHANGED <<hostV, netV, cSendCh, cSL, cDone, spc, scont, scall, sSyncAfter, sSynced, child, desc, bad>>

ContSLTake ==
  /\ Alive /\ cSL = <<"idle">> /\ Len(cSendCh) = 1
  /\ cSL' = <<"hold", cSendCh[1]>> /\ cSendCh' = <<>>
  /\ UNCHANGED <<hostV, netV, cRecvCh, cRL, cDone, spc, scont, scall, sSyncAfter, sSynced, child, desc, bad>>
ContSLSend ==                                   \* SendMsg ok; rep.Done is closed afterwards (cSL = "sent")
  /\ Alive /\ cSL[1] = "hold" /\ sockH = "open"
  /\ c2h' = Append(c2h, cSL[2]) /\ cSL' = <<"sent">>
  /\ UNCHANGED <<hostV, h2c, sockH, sockC, cSendCh, cRecvCh, cRL, cDone, spc, scont, scall, sSyncAfter, sSynced, child, desc, bad>>
ContSLErr ==
  /\ Alive /\ cSL[1] = "hold" /\ sockH = "closed"
  /\ cDone' = TRUE /\ cSL' = <<"exit">>
  /\ UNCHANGED <<hostV, netV, cSendCh, cRecvCh, cRL, spc, scont, scall, sSyncAfter, sSynced, child, desc, bad>>

-----------------------------------------------------------------------------
(* Init server goroutine: serve / handleCmd / handleExecve / handleExecveStarted *)

\* sendReply(rep): put on sendCh then wait for Done; pc "S" + continuation
SSend(k, cont) == Len(cSendCh) = 0 /\ cSendCh' = <<Reply(k, scall)>> /\ spc' = "S" /\ scont' = cont
SSendC(k, c, cont) == Len(cSendCh) = 0 /\ cSendCh' = <<Reply(k, c)>> /\ spc' = "S" /\ scont' = cont
Goto(p) == spc' = p /\ UNCHANGED <<scont, cSendCh>>
\* init exits: the whole pid namespace (the sandboxed program included) dies with it
Die == /\ spc' = "dead" /\ sockC' = "closed" /\ child' = (IF child = "none" THEN "none" ELSE "dead") /\ desc' = "none"
       /\ UNCHANGED <<scont, cSendCh>>
\* serve() returns an error: Init's deferred function will call os.Exit (InitExit)
Quit == spc' = "exiting" /\ UNCHANGED <<scont, cSendCh, sockC, child, desc>>
InitExit ==
  /\ spc = "exiting" /\ Die
  /\ UNCHANGED <<hostV, h2c, c2h, sockH, cRecvCh, cSL, cRL, cDone, scall, sSyncAfter, sSynced, bad>>

ContSendDone ==                                 \* <-done (reply written)
  /\ spc = "S" /\ cSL = <<"sent">>
  /\ cSL' = <<"idle">> /\ Goto(scont)
  /\ UNCHANGED <<hostV, netV, cRecvCh, cRL, cDone, scall, sSyncAfter, sSynced, child, desc, bad>>
ContSendFail ==                                 \* <-c.done while sending
  /\ spc = "S" /\ scont # "x_syncwait" /\ cDone /\ Quit
  /\ UNCHANGED <<hostV, netV, cRecvCh, cSL, cRL, cDone, scall, sSyncAfter, sSynced, bad>>

\* recvCmd fails (c.done): the handler returns an error, serve returns, init exits
ContRecvFail ==
  /\ spc \in {"serve", "x_eatkill", "x_started"} /\ cDone /\ Quit
  /\ UNCHANGED <<hostV, netV, cRecvCh, cSL, cRL, cDone, scall, sSyncAfter, sSynced, bad>>
\* the same inside syncPid: the sync function fails.  Sync-before: Start kills the parked child and returns
\* the error, handleExecve tries to send an error reply; sync-after: kill(-1), reap, result reply.  Whether
\* that reply still gets onto the channel or the send itself sees c.done is Go's choice -- both end in Quit.
ContSyncFail ==
  /\ (spc = "x_syncwait" \/ (spc = "S" /\ scont = "x_syncwait")) /\ cDone /\ child' = "none"
  /\ IF sSyncAfter THEN /\ desc' = "none"
                        /\ IF Len(cSendCh) = 0 THEN SSend("result", "serve")
                                               ELSE spc' = "exiting" /\ UNCHANGED <<scont, cSendCh>>
                   ELSE UNCHANGED desc /\ Goto("x_startfail")
  /\ UNCHANGED <<hostV, netV, cRecvCh, cSL, cRL, cDone, scall, sSyncAfter, sSynced, bad>>

\* serve: recvCmd + dispatch.  r is the reply kind the handler produces for a simple op
ContServeSimple(r) ==
  /\ spc = "serve" /\ Len(cRecvCh) = 1 /\ cRecvCh[1].k \in SimpleOps
  /\ LET m == cRecvCh[1] IN
     /\ cRecvCh' = <<>> /\ scall' = m.call
     /\ r \in (CASE m.k \in {"open", "symlink"} -> {"batch", "err"}
                 [] m.k \in {"ping"}            -> {"ack"}
                 [] m.k = "conf"                -> {"ack", "die"}
                 [] OTHER                       -> {"ack", "err"})
     /\ IF r = "die" THEN Quit
        ELSE SSendC(r, m.call, "serve") /\ UNCHANGED <<sockC, child, desc>>
  /\ UNCHANGED <<hostV, h2c, c2h, sockH, cSL, cRL, cDone, sSyncAfter, sSynced, bad>>
ContServeExec ==
  /\ spc = "serve" /\ Len(cRecvCh) = 1 /\ cRecvCh[1].k = "exec"
  /\ cRecvCh' = <<>> /\ scall' = cRecvCh[1].call
  /\ sSyncAfter' = cRecvCh[1].sa /\ sSynced' = FALSE
  /\ Goto("x_prefork")
  /\ UNCHANGED <<hostV, netV, cSL, cRL, cDone, child, desc, bad>>
ContServeBad ==                                 \* ok / kill arriving in serve: "unknown command" -> init exits
  /\ spc = "serve" /\ Len(cRecvCh) = 1 /\ cRecvCh[1].k \notin AllOps
  /\ cRecvCh' = <<>> /\ scall' = cRecvCh[1].call
  \* (with c.done already closed the server is on its way out whatever it reads: a leftover `ok` picked by
  \*  Go's select instead of <-c.done changes nothing)
  /\ bad' = (IF cDone THEN bad ELSE bad \cup {"cmd_in_wrong_state"})
  /\ Quit
  /\ UNCHANGED <<hostV, netV, cSL, cRL, cDone, sSyncAfter, sSynced>>

ContPreforkErr ==                               \* nil cmd / missing fd / lookPath error: error reply, back to serve
  /\ spc = "x_prefork" /\ SSend("err", "serve")
  /\ UNCHANGED <<hostV, netV, cRecvCh, cSL, cRL, cDone, scall, sSyncAfter, sSynced, child, desc, bad>>
ContFork ==
  /\ spc = "x_prefork" /\ child' = "atsync" /\ UNCHANGED desc /\ Goto("x_start")
  /\ UNCHANGED <<hostV, netV, cRecvCh, cSL, cRL, cDone, scall, sSyncAfter, sSynced, bad>>
ContStartErrEarly ==                            \* Start fails before the sync point (or anywhere when SyncAfter)
  /\ spc = "x_start" /\ child' = "none" /\ UNCHANGED desc /\ SSend("err", "serve")
  /\ UNCHANGED <<hostV, netV, cRecvCh, cSL, cRL, cDone, scall, sSyncAfter, sSynced, bad>>
ContStartSync ==                                \* sync-before: child parked at the sync point, pid reply
  /\ spc = "x_start" /\ ~sSyncAfter /\ SSend("pid", "x_syncwait") /\ UNCHANGED <<child, desc>>
  /\ UNCHANGED <<hostV, netV, cRecvCh, cSL, cRL, cDone, scall, sSyncAfter, sSynced, bad>>
ContStartAfter ==                               \* sync-after: program already runs, then syncPid(1)
  /\ spc = "x_start" /\ sSyncAfter /\ child' = "running" /\ UNCHANGED desc /\ SSend("pid", "x_syncwait")
  /\ UNCHANGED <<hostV, netV, cRecvCh, cSL, cRL, cDone, scall, sSyncAfter, sSynced, bad>>

WrongState(m, ks) == IF m.call # scall \/ m.k \notin ks THEN {"cmd_in_wrong_state"} ELSE {}

ContSyncGot ==                                  \* syncPid: recvCmd; kill => error; anything else => proceed
  /\ spc = "x_syncwait" /\ Len(cRecvCh) = 1
  /\ LET m == cRecvCh[1] IN
     /\ cRecvCh' = <<>>
     /\ bad' = bad \cup WrongState(m, {"ok", "kill"})
     /\ IF m.k = "kill"
          THEN /\ child' = "none" /\ UNCHANGED sSynced
               /\ IF sSyncAfter                                   \* kill(-1), wait main, result reply, wait-all
                    THEN /\ SSend("result", "serve")
                         /\ desc' = (IF desc = "none" THEN "none" ELSE IF ReapOnRefusal THEN "none" ELSE "zombie")
                    ELSE Goto("x_startfail") /\ UNCHANGED desc     \* syncFunc error: Start kills the child and fails
          ELSE /\ sSynced' = TRUE
               /\ IF sSyncAfter THEN UNCHANGED <<child, desc>> /\ Goto("x_started")
                                ELSE child' = "acked" /\ UNCHANGED desc /\ Goto("x_exec")
  /\ UNCHANGED <<hostV, netV, cSL, cRL, cDone, scall, sSyncAfter>>

ContStartFailed ==                              \* Start returned the sync error: error reply, back to serve
  /\ spc = "x_startfail"
  /\ IF Len(cSendCh) = 0 THEN SSend("err", "serve") /\ UNCHANGED <<child, desc>>
                         ELSE cDone /\ spc' = "exiting" /\ UNCHANGED <<scont, cSendCh, child, desc>>
  /\ UNCHANGED <<hostV, netV, cRecvCh, cSL, cRL, cDone, scall, sSyncAfter, sSynced, bad>>
ContExecOk ==
  /\ spc = "x_exec" /\ child' = "running" /\ UNCHANGED desc /\ Goto("x_started")
  /\ UNCHANGED <<hostV, netV, cRecvCh, cSL, cRL, cDone, scall, sSyncAfter, sSynced, bad>>
ContExecErr ==                                  \* execve fails after the ack (ENOEXEC, ...): error reply, then eat the kill
  /\ spc = "x_exec" /\ child' = "none" /\ UNCHANGED desc /\ SSend("err", IF FixEatKill THEN "x_eatkill" ELSE "serve")
  /\ UNCHANGED <<hostV, netV, cRecvCh, cSL, cRL, cDone, scall, sSyncAfter, sSynced, bad>>
ContEatKill ==
  /\ spc = "x_eatkill" /\ Len(cRecvCh) = 1
  /\ bad' = bad \cup WrongState(cRecvCh[1], {"kill"})
  /\ cRecvCh' = <<>> /\ Goto("serve")
  /\ UNCHANGED <<hostV, netV, cSL, cRL, cDone, scall, sSyncAfter, sSynced, child, desc>>

ChildExit ==                                    \* environment: the program ends on its own
  /\ child = "running" /\ child' = "dead" /\ UNCHANGED desc
  /\ UNCHANGED <<hostV, netV, cSendCh, cRecvCh, cSL, cRL, cDone, spc, scont, scall, sSyncAfter, sSynced, bad>>

ChildForks ==                                   \* environment: the running program creates descendants
  /\ child = "running" /\ desc = "none" /\ desc' = "alive"
  /\ UNCHANGED <<hostV, netV, cSendCh, cRecvCh, cSL, cRL, cDone, spc, scont, scall, sSyncAfter, sSynced, child, bad>>

\* handleExecveStarted: select { <-done ; <-recvCh (kill) ; <-waitPidResult }
ContStartedKill ==
  /\ spc = "x_started" /\ Len(cRecvCh) = 1
  /\ bad' = bad \cup WrongState(cRecvCh[1], {"kill"})
  /\ cRecvCh' = <<>> /\ child' = "none" /\ desc' = "none" /\ SSend("result", "serve")       \* kill(-1), wait-all
  /\ UNCHANGED <<hostV, netV, cSL, cRL, cDone, scall, sSyncAfter, sSynced>>
ContStartedChild ==
  /\ spc = "x_started" /\ child = "dead"
  /\ child' = "none" /\ desc' = "none" /\ SSend("result", "x_eatkill")                     \* kill(-1), wait-all
  /\ UNCHANGED <<hostV, netV, cRecvCh, cSL, cRL, cDone, scall, sSyncAfter, sSynced, bad>>

-----------------------------------------------------------------------------
(* Environment: transport loss *)
DestroyClose ==                                 \* Destroy(): socket.Close() first, at any time, from any goroutine
  /\ AllowDestroy /\ hostAlive /\ sockH = "open" /\ sockH' = "closed"
  /\ UNCHANGED <<hostV, h2c, c2h, sockC, contV, bad>>
InitDies ==
  /\ Alive /\ Die
  /\ UNCHANGED <<hostV, h2c, c2h, sockH, cRecvCh, cSL, cRL, cDone, scall, sSyncAfter, sSynced, bad>>
InitKilled ==                                   \* process.Kill() of Destroy, or an external crash of init
  /\ (AllowCrash \/ (AllowDestroy /\ sockH = "closed")) /\ InitDies
\* Ping bounds its wait (3 s).  As found: socket.SetDeadline -> the receive loop's RecvMsg fails -> c.done.
\* The container is alive and will still answer: its pong stays on the wire, nobody reads it any more.
HostRLDeadline ==
  /\ AllowDeadline /\ DeadlineBreaks
  /\ hostAlive /\ hop.kind = "ping" /\ hpc \in {"send", "recv1"} /\ hRL = <<"idle">> /\ sockH = "open"
  /\ hDone' = TRUE /\ hRL' = <<"exit">>
  /\ UNCHANGED <<hpc, call, hop, hret, hres, ctx, hSendCh, hRecvCh, hSL, hostAlive, netV, contV, bad>>
HostPingTimer ==                                \* the alternative design: a timer in Ping, transport untouched
  /\ AllowDeadline /\ ~DeadlineBreaks
  /\ hostAlive /\ hop.kind = "ping" /\ hpc = "recv1" /\ Ret("err")
  /\ UNCHANGED <<call, hop, hres, ctx, hSendCh, hRecvCh, hSL, hRL, hDone, hostAlive, netV, contV, bad>>
HostDies ==                                     \* the controlling process is killed: its socket closes
  /\ hostAlive
  /\ hostAlive' = FALSE /\ sockH' = "closed"
  /\ UNCHANGED <<hpc, call, hop, hret, hres, ctx, hSendCh, hRecvCh, hSL, hRL, hDone, h2c, c2h, sockC, contV, bad>>
HostCrash == AllowCrash /\ HostDies
Pdeathsig ==                                    \* SIGKILL to init on parent death
  /\ ~hostAlive /\ Alive /\ Die
  /\ UNCHANGED <<hostV, h2c, c2h, sockH, cRecvCh, cSL, cRL, cDone, scall, sSyncAfter, sSynced, bad>>

-----------------------------------------------------------------------------
HostApiNext ==
  \/ \E k \in Ops : \E sa \in BOOLEAN : \E cb \in {"none", "ok", "fail"} : \E big \in BOOLEAN :
        /\ call < MaxCalls
        /\ (k # "exec" => sa = FALSE /\ cb = "none")
        /\ (big => k \in {"exec", "open"})         \* requests that can be made arbitrarily large
        /\ HostBegin(k, sa, cb, big)
  \/ HostReturn \/ HostSendFirst \/ HostRecvFirst \/ HostCallback
  \/ HostK1Send \/ HostK1Recv \/ HostNoPid1S \/ HostNoPid1R \/ HostNoPid2S \/ HostNoPid2R
  \/ HostOkSend \/ HostWaitDone \/ HostWaitCtx \/ HostK2Send \/ HostK2Recv \/ HostWaitResult \/ HostK3Send
HostLoopNext == HostSLTake \/ HostSLExit \/ HostSLTooBig \/ HostSLSend \/ HostSLErr \/ HostRLRecv \/ HostRLErr \/ HostRLPush
ContLoopNext == ContRLRecv \/ ContRLErr \/ ContRLPush \/ ContSLTake \/ ContSLSend \/ ContSLErr
ContSrvNext ==
  \/ ContSendDone \/ ContSendFail \/ ContRecvFail \/ ContSyncFail
  \/ (\E r \in {"ack", "err", "batch", "die"} : ContServeSimple(r)) \/ ContServeExec \/ ContServeBad
  \/ ContPreforkErr \/ ContFork \/ ContStartErrEarly \/ ContStartSync \/ ContStartAfter
  \/ InitExit \/ ContStartFailed
  \/ ContSyncGot \/ ContExecOk \/ ContExecErr \/ ContEatKill \/ ContStartedKill \/ ContStartedChild
EnvNext == ChildExit \/ ChildForks \/ CtxCancel \/ DestroyClose \/ InitKilled \/ HostCrash \/ Pdeathsig \/ HostRLDeadline \/ HostPingTimer

SysNext == HostApiNext \/ HostLoopNext \/ ContLoopNext \/ ContSrvNext
Next == SysNext \/ EnvNext

\* fairness on the system's own steps (and on the kernel delivering Pdeathsig), none on the environment
Spec == Init /\ [][Next]_vars /\ WF_vars(SysNext) /\ WF_vars(Pdeathsig)
\* the parent-death signal may never be delivered (e.g. the controller dropped privileges: the kernel checks
\* the permission to signal with the dying parent's credentials): the end-of-stream path alone must suffice
SpecNoPdeathsig == Init /\ [][Next]_vars /\ WF_vars(SysNext)
\* "every call returns" presupposes that a running program ends or is cancelled
SpecLive == Spec /\ WF_vars(ChildExit)

-----------------------------------------------------------------------------
(* Properties (C10) *)
TransportLost == sockH = "closed" \/ spc \in {"dead", "exiting"} \/ ~hostAlive

\* no reply consumed by another call, no command interpreted in the wrong state -- as long as the
\* transport is up (after loss nothing is consumed any more, see LostCallsFail)
NoDesync == bad = {}
\* init only exits when the transport is lost (or it is killed / its configuration failed)
InitAlive == (sockH = "open" /\ hostAlive) => spc \notin {"dead", "exiting"}     \* for cfgs without crash and without conf
\* every call returns exactly one answer, in order
OneAnswer == \A i \in 1..Len(hres) : hres[i].call = i
\* program- or request-caused failures never make the environment unusable: while the transport is
\* up a ping always succeeds
PingOk == \A i \in 1..Len(hres) :
            (hres[i].op = "ping" /\ hres[i].r # "ok") => (TransportLost \/ hDone)
\* once the transport is known to be lost, every later call fails (never succeeds on stale data)
LostCallsFail == \A i \in 1..Len(hres) : hres[i].lost => hres[i].r = "err"
\* an Execve answer is a verdict or an error of that call
ExecAnswers == \A i \in 1..Len(hres) : hres[i].op = "exec" => hres[i].r \in {"verdict", "err"}

\* liveness: every call returns (no hang), also after transport loss
AllReturn == [](hpc # "idle" => <>(hpc = "idle" \/ ~hostAlive))
\* C11: a cancelled Execve returns
CancelReturns == [](ctx = "cancelled" => <>(hpc = "idle" \/ ~hostAlive))
\* C16: after the host dies, init and the program die
HostDeathKillsAll == [](~hostAlive => <>(spc = "dead" /\ child \in {"none", "dead"}))
\* C11/C12: after Destroy closed the socket and init was killed nothing is left
\* (child is dead whenever init is dead -- by construction of Die: kernel pid-namespace semantics)
NoOrphan == spc = "dead" => child \in {"none", "dead"}
\* C12: whenever init is ready for the next command nothing of the previous program is left in the
\* namespace -- no live descendant, no zombie child of init
ReapedAtServe == spc = "serve" => desc = "none" /\ child = "none"
=============================================================================
