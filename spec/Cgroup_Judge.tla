---------------------------- MODULE Cgroup_Judge ----------------------------
(* TLC as judge for the readings of C20.                                       *)
(*  fixobs  : a reader of pkg/cgroup applied to a statistics file with known   *)
(*            contents  [reader, lines, missing, nl, got, err]                 *)
(*  unitobs : readings of a real group in which a burner with known rusage and *)
(*            allocation ran                                                    *)
(* Readers as functions of file contents, in the documented units:             *)
(*   CPUUsage ns (v2: cpu.stat usage_usec * 1000; v1: cpuacct.usage),          *)
(*   memory readings bytes, pids.peak a count; a missing file or key or a      *)
(*   non-numeric value is an error, never a made-up number.                    *)
EXTENDS Integers, Sequences, FiniteSets, TLC, Json, SequencesExt
FixObs  == ndJsonDeserialize("fixobs.ndjson")
UnitObs == ndJsonDeserialize("unitobs.ndjson")

Numerals == {"0", "1", "999", "2147483648", "9007199254740993"}
Times1000(v) == IF v = "0" THEN "0" ELSE v \o "000"
\* expected answer: <<"err">> or <<"val", decimal string>>
Keyed(lines, key) == SelectSeq(lines, LAMBDA ln : Len(ln) = 2 /\ ln[1] = key)
ExpFix(o) ==
  IF o.missing THEN <<"err">>
  ELSE IF o.reader = "v2cpu" THEN
         LET ks == Keyed(o.lines, "usage_usec") IN
         IF ks = <<>> THEN <<"err">>
         ELSE IF ks[1][2] \in Numerals THEN <<"val", Times1000(ks[1][2])>> ELSE <<"err">>
  ELSE IF Len(o.lines) = 1 /\ Len(o.lines[1]) = 1 /\ o.lines[1][1] \in Numerals THEN <<"val", o.lines[1][1]>>
  ELSE <<"err">>
GotFix(o) == IF o.err THEN <<"err">> ELSE <<"val", o.got>>
\* a wrong number is a breach; an error where a value was due is a breach too (the reading is lost)
JudgeFix(o) == IF GotFix(o) = ExpFix(o) THEN "ok"
               ELSE IF ExpFix(o) = <<"err">> THEN "value-made-up" ELSE IF o.err THEN "reading-refused" ELSE "wrong-value"

\* real burner: the group's CPU time is the burner's CPU time (wait4 rusage), within a factor 2
\* and 50 ms; in ns (logged divided by 1000).  kernel_us = the kernel's own file, same tolerance.
Near(a, b) == 2 * a >= b /\ a <= 2 * b + 50000
JudgeUnit(o) ==
  IF o.split THEN "membership"                                    \* AddProc: every thread of the burner is in the group
  ELSE IF ~o["in"] \/ o.procs # 1 THEN "processes"                \* Processes: exactly the burner
  ELSE IF ~Near(o.kernel_us, o.rusage_us) THEN "kernel-truth"     \* my tolerance is wrong, not the code
  ELSE IF o.cpu_err THEN "cpu-error"
  ELSE IF ~Near(o.cpu_us, o.rusage_us) THEN "cpu-unit"
  ELSE IF o.ver = 1 /\ o.mem_err THEN "mem-error"
  ELSE IF o.ver = 1 /\ ~(o.mem_kib >= o.mib * 1024 /\ o.mem_kib <= (o.mib + 64) * 1024) THEN "mem-unit"
  ELSE "ok"

BadFix  == { i \in DOMAIN FixObs  : JudgeFix(FixObs[i]) # "ok" }
BadUnit == { i \in DOMAIN UnitObs : JudgeUnit(UnitObs[i]) # "ok" }
ASSUME ndJsonSerialize("bad.ndjson",
         SetToSeq({ [kind |-> "fix", i |-> i, j |-> JudgeFix(FixObs[i]), exp |-> ExpFix(FixObs[i])] : i \in BadFix })
      \o SetToSeq({ [kind |-> "unit", i |-> i, j |-> JudgeUnit(UnitObs[i]), exp |-> <<>>] : i \in BadUnit }))
ASSUME PrintT(<<"judged", Len(FixObs), Len(UnitObs), Cardinality(BadFix), Cardinality(BadUnit)>>)
VARIABLE x
Init == x = 0
Next == UNCHANGED x
=============================================================================
