INIT Init
NEXT Next
