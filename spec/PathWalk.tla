------------------------------ MODULE PathWalk ------------------------------
(***************************************************************************)
(* C02 -- reference semantics of the kernel's path resolution and of the   *)
(* access class of a path-taking system call.  Pure operators only (the    *)
(* walk as a state machine with variables is PathWalkMC.tla).              *)
(*                                                                         *)
(* A path is a sequence of components relative to the TOP of a forest      *)
(* (<<>> = TOP).  TOP stands for the real "/": the driver materialises a   *)
(* forest in a fresh directory and prefixes absolute names and absolute    *)
(* link targets with that directory, all of whose ancestors are plain      *)
(* directories.  Leaving TOP through ".." is outside the model (OUT): such *)
(* a walk is neither judged nor compared with the kernel.                  *)
(***************************************************************************)
EXTENDS Integers, Sequences, FiniteSets, SequencesExt, TLC

-----------------------------------------------------------------------------
(* Forests: function  node path -> [t, abs, tgt]                           *)

Dir(p)      == p :> [t |-> "dir",  abs |-> FALSE, tgt |-> <<>>]
File(p)     == p :> [t |-> "file", abs |-> FALSE, tgt |-> <<>>]
Lnk(p, tg)  == p :> [t |-> "link", abs |-> FALSE, tgt |-> tg]    \* relative target
LnkA(p, tg) == p :> [t |-> "link", abs |-> TRUE,  tgt |-> tg]    \* absolute target (from TOP)

R == <<"u1", "u2">>          \* the forests proper live two plain directories below TOP
r(x) == R \o x

XD == "a (deleted)"

\* directories and files every forest has: names a, b on three levels so that random strings
\* over {a, b, l1, l2, ., .., ""} usually lead somewhere
Skeleton ==
     Dir(<<"u1">>) @@ Dir(R)
  @@ Dir(r(<<"a">>)) @@ Dir(r(<<"a","a">>)) @@ File(r(<<"a","b">>))
  @@ File(r(<<"a","a","a">>)) @@ Dir(r(<<"a","a","b">>))
  @@ Dir(r(<<"b">>)) @@ File(r(<<"b","a">>)) @@ Dir(r(<<"b","b">>)) @@ File(r(<<"b","b","a">>))
  \* name classes: a name is any byte string without "/" and NUL.  Live objects whose names look like
  \* something else: the suffix procfs appends to the link text of an UNLINKED object, and a leading "..".
  \* Each has a sibling with the plain name, so a mangled answer names another existing object.
  @@ Dir(r(<<XD>>)) @@ File(r(<<XD, "a">>)) @@ Dir(r(<<XD, "b">>)) @@ File(r(<<XD, "b (deleted)">>))
  @@ Dir(r(<<"a","a","b (deleted)">>)) @@ File(r(<<"a","a","b (deleted)","a">>))
  @@ Dir(r(<<"b","..b">>)) @@ File(r(<<"b","..b","a">>))

\* 1: relative links, in last / middle / first position
F1 == Skeleton
  @@ Lnk(r(<<"l1">>), <<"a","a">>) @@ Lnk(r(<<"l2">>), <<"a","b">>)
  @@ Lnk(r(<<"a","l1">>), <<"b">>) @@ Lnk(r(<<"a","l2">>), <<"a">>)
  @@ Lnk(r(<<"b","l1">>), <<"b">>) @@ Lnk(r(<<"a","a","l1">>), <<"b">>)
\* 2: relative targets with ".."
F2 == Skeleton
  @@ Lnk(r(<<"l1">>), <<"a","a","..">>) @@ Lnk(r(<<"l2">>), <<"a","..","b","a">>)
  @@ Lnk(r(<<"a","l1">>), <<"..","b">>) @@ Lnk(r(<<"a","a","l1">>), <<"..","..","b","b">>)
  @@ Lnk(r(<<"b","l2">>), <<"..","a","b">>) @@ Lnk(r(<<"a","l2">>), <<".","a",".","b">>)
\* 3: absolute targets
F3 == Skeleton
  @@ LnkA(r(<<"l1">>), r(<<"a","a">>)) @@ LnkA(r(<<"l2">>), r(<<"b","a">>))
  @@ LnkA(r(<<"a","l1">>), R) @@ LnkA(r(<<"b","l1">>), <<"u1">>)
  @@ LnkA(r(<<"a","l2">>), r(<<"b","..","a","l1">>)) @@ LnkA(r(<<"a","a","l1">>), <<>>)
\* 4: chains
F4 == Skeleton
  @@ Lnk(r(<<"l1">>), <<"l2">>) @@ Lnk(r(<<"l2">>), <<"a","l1">>)
  @@ Lnk(r(<<"a","l1">>), <<"a">>) @@ Lnk(r(<<"a","l2">>), <<"..","l1">>)
  @@ Lnk(r(<<"b","l1">>), <<"..","l2">>) @@ Lnk(r(<<"b","l2">>), <<"l1","b">>)
\* 5: loops
F5 == Skeleton
  @@ Lnk(r(<<"l1">>), <<"l2">>) @@ Lnk(r(<<"l2">>), <<"l1">>)
  @@ Lnk(r(<<"a","l1">>), <<"l1">>) @@ Lnk(r(<<"a","l2">>), <<"..","b">>)
  @@ Lnk(r(<<"b","l1">>), <<"..","a","l1">>) @@ Lnk(r(<<"b","l2">>), <<"..","a","l2","l2">>)
  @@ Lnk(r(<<"a","a","l1">>), <<"l2">>) @@ Lnk(r(<<"a","a","l2">>), <<"..","a","l1","..","l2">>)
\* 6: dangling
F6 == Skeleton
  @@ Lnk(r(<<"l1">>), <<"nx">>) @@ Lnk(r(<<"l2">>), <<"nx","y">>)
  @@ Lnk(r(<<"a","l1">>), <<"..","nx">>) @@ Lnk(r(<<"b","l1">>), <<"a","nx">>)
  @@ LnkA(r(<<"a","l2">>), r(<<"zz">>)) @@ Lnk(r(<<"b","l2">>), <<"..","l1">>)
\* 7: ".." behind a component that is itself a link (lexical collapse goes wrong here)
F7 == Skeleton
  @@ Lnk(r(<<"l1">>), <<"a","a">>) @@ Lnk(r(<<"l2">>), <<"l1","..">>)
  @@ Lnk(r(<<"a","l1">>), <<"..","l1","b">>) @@ Lnk(r(<<"a","l2">>), <<"..","l2","b">>)
  @@ Lnk(r(<<"b","l1">>), <<"..","l1","..","a">>) @@ Lnk(r(<<"b","l2">>), <<"l1","..","..","b","a">>)
\* 8: directories of the skeleton reached only through links; links to "." and ".."
F8 == Skeleton
  @@ Lnk(r(<<"b","b","b">>), <<"..","..","a","a">>) @@ Lnk(r(<<"l1">>), <<"b","b","b","a">>)
  @@ Lnk(r(<<"l2">>), <<".">>) @@ Lnk(r(<<"a","l1">>), <<"..">>)
  @@ Lnk(r(<<"a","l2">>), <<"..","b","b","b","..","b">>) @@ Lnk(r(<<"a","a","b","a">>), <<"..","..","..","l2","b">>)

\* (TLC re-evaluates a definition at every reference; only LET-bound names and operator arguments are
\*  memoised.  Judge and MC therefore bind Catalogue / Forest(i) once and pass the value down.)
Catalogue == <<F1, F2, F3, F4, F5, F6, F7, F8>>
NForests  == 8
Forest(i) == CASE i = 1 -> F1 [] i = 2 -> F2 [] i = 3 -> F3 [] i = 4 -> F4
               [] i = 5 -> F5 [] i = 6 -> F6 [] i = 7 -> F7 [] i = 8 -> F8

\* working directories and directories used for descriptors (all exist as real directories in
\* every forest; DirPaths are *opened by name*, possibly through links, see Base)
Cwds     == << R, r(<<"a">>), r(<<"a","a">>), r(<<XD>>) >>
DirPaths == << r(<<"b">>), r(<<"a","a">>), r(<<"l1">>), r(<<"a","l2">>), r(<<"b","l1">>),
               r(<<XD>>), r(<<"a","a","b (deleted)">>), r(<<"b","..b">>) >>

(* The tree is not static: between two calls of one run it may change.  One mutation step is the atomic *)
(* exchange of two nodes with everything below them (renameat2 RENAME_EXCHANGE): with a link and a      *)
(* directory it turns a directory into a link and a link into a directory, with a link and a file a     *)
(* file into a link, with two links it retargets both (a relative target is read from the new place).   *)
(* Every call is resolved in the forest AS IT IS AT THAT CALL; nothing learnt at an earlier call holds.  *)
Unrelated(p, q) == ~IsPrefix(p, q) /\ ~IsPrefix(q, p)
Move(p, q, x) == IF IsPrefix(p, x) THEN q \o SubSeq(x, Len(p) + 1, Len(x))
                 ELSE IF IsPrefix(q, x) THEN p \o SubSeq(x, Len(q) + 1, Len(x))
                 ELSE x
Swap(F, p, q) == [ y \in { Move(p, q, x) : x \in DOMAIN F } |-> F[Move(p, q, y)] ]
\* sw = [p, q]; p = <<>>: no mutation
At(F, sw) == IF sw.p = <<>> THEN F ELSE Swap(F, sw.p, sw.q)

NodeT(F, p) == IF p = <<>> THEN "dir" ELSE IF p \in DOMAIN F THEN F[p].t ELSE "none"

-----------------------------------------------------------------------------
(* Path strings.  [abs, comps, trail] is the string                        *)
(*     (abs ? "/" : "") . join(comps, "/") . (trail ? "/" : "")            *)
(* an empty component gives a repeated slash.                              *)
(* Generated strings carry two more fields the walk never looks at, because *)
(* the kernel does not either:                                             *)
(*   pad  n extra slashes at the first separator (long names; a run of     *)
(*        slashes is one separator)                                        *)
(*   mem  [b, gap, prot] where the NUL-terminated string lies in the       *)
(*        caller's memory relative to a page boundary B: b = "static" (an  *)
(*        ordinary buffer), "in" (inside a page), "end" (the NUL is the    *)
(*        last byte before B), "one"/"mid"/"last" (B falls after the first *)
(*        byte / in the middle / before the last byte), "nul" (only the    *)
(*        NUL lies behind B); gap: the page after the one holding the NUL  *)
(*        is not mapped; prot: protection of the page holding the NUL (for *)
(*        a straddling string: of its tail page; the head page stays       *)
(*        read-write): "rw", "w" (PROT_WRITE only: the kernel's own copy   *)
(*        reads it, a foreign process_vm_readv does not) or "none".        *)
(*        The kernel reads the whole string wherever it lies, so must      *)
(*        whoever presents it to the policy; if the kernel cannot read it  *)
(*        ("none") the call fails with EFAULT before anything is resolved. *)
(*        (A name is at most PATH_MAX - 1 = 4095 bytes: it can cross at    *)
(*        most one 4 KiB boundary.)                                        *)
Unreadable(ps) == ps.mem.b # "static" /\ ps.mem.prot = "none"

WellFormed(ps) ==
  /\ ~(~ps.abs /\ ps.comps # <<>> /\ ps.comps[1] = "")   \* would be absolute
  /\ ~(~ps.abs /\ ps.comps = <<>> /\ ps.trail)           \* the same string as abs, <<>>
IsEmptyString(ps) == ~ps.abs /\ ps.comps = <<>> /\ ~ps.trail
Comps(ps)  == SelectSeq(ps.comps, LAMBDA c : c # "")
Trail(ps)  == ps.trail \/ (ps.comps # <<>> /\ Last(ps.comps) = "")
AbsOf(p)   == [abs |-> TRUE, comps |-> p, trail |-> FALSE]

-----------------------------------------------------------------------------
(* The walk.  State [cur, rest, depth, k, e]; k = "run" while walking,     *)
(* then "ok" (object exists, cur is its canonical path), "create" (all but *)
(* the last component exist: cur is where the name would be created) or    *)
(* "err".  ff = follow a symlink in the final component.                   *)

MaxLinks == 40
Fail(s, e) == [s EXCEPT !.k = "err", !.e = e]

Step(F, s, tr, ff) ==
  IF s.k # "run" THEN s
  ELSE IF s.rest = <<>> THEN [s EXCEPT !.k = "ok"]
  ELSE
    LET c    == Head(s.rest)
        tl   == Tail(s.rest)
        last == tl = <<>>
    IN
    IF c = "." THEN [s EXCEPT !.rest = tl]
    ELSE IF c = ".." THEN
      IF s.cur = <<>> THEN Fail(s, "OUT")
      ELSE [s EXCEPT !.cur = Front(s.cur), !.rest = tl]      \* parent of the RESOLVED directory
    ELSE
      LET n == Append(s.cur, c)
          t == NodeT(F, n)
      IN
      CASE t = "none" -> IF last THEN [s EXCEPT !.k = "create", !.cur = n, !.rest = <<>>]
                         ELSE Fail(s, "ENOENT")
        [] t = "dir"  -> [s EXCEPT !.cur = n, !.rest = tl]
        [] t = "file" -> IF last /\ ~tr THEN [s EXCEPT !.k = "ok", !.cur = n, !.rest = <<>>]
                         ELSE Fail(s, "ENOTDIR")
        [] t = "link" -> IF last /\ ~ff THEN [s EXCEPT !.k = "ok", !.cur = n, !.rest = <<>>]
                         ELSE IF s.depth = MaxLinks THEN Fail(s, "ELOOP")
                         ELSE [s EXCEPT !.depth = @ + 1,
                                        !.cur   = IF F[n].abs THEN <<>> ELSE s.cur,
                                        !.rest  = F[n].tgt \o tl]       \* splice the target

RECURSIVE Walk(_, _, _, _)
Walk(F, s, tr, ff) == IF s.k # "run" THEN s ELSE Walk(F, Step(F, s, tr, ff), tr, ff)

Res(s)  == [k |-> s.k, p |-> IF s.k = "err" THEN <<>> ELSE s.cur, e |-> s.e]
OkR(p)  == [k |-> "ok",  p |-> p,    e |-> ""]
ErrR(e) == [k |-> "err", p |-> <<>>, e |-> e]

Start(base, ps) == [cur |-> IF ps.abs THEN <<>> ELSE base, rest |-> Comps(ps), depth |-> 0,
                    k |-> "run", e |-> ""]

\* base: a result record (the directory a relative name starts from, or an error)
\* nf:   the call does not follow a symlink in the final component (a trailing slash overrides)
Resolve(F, base, ps, nf) ==
  IF IsEmptyString(ps) THEN ErrR("ENOENT")
  ELSE IF ~ps.abs /\ base.k = "err" THEN base
  ELSE Res(Walk(F, Start(base.p, ps), Trail(ps), ~nf \/ Trail(ps)))

-----------------------------------------------------------------------------
(* Base directory of a call.  A directory-descriptor register is 64 bits   *)
(* wide, the kernel's parameter is an int: only the LOW 32 bits count.     *)
(*   dk = [lo, hi, dirp]  lo in {"cwd", "fd", "bad", "none"}               *)
(*                        hi in {"zero", "ones", "junk"} -- never consulted *)
(* "cwd": low half = AT_FDCWD (hi = "ones": sign-extended -100; "zero":    *)
(* what `mov $-100, %edi` leaves); "fd": a descriptor obtained by opening  *)
(* the directory named dirp (possibly through links); "none": the call has *)
(* no descriptor argument.                                                 *)
Base(F, cwd, dk) ==
  CASE dk.lo \in {"cwd", "none"} -> OkR(cwd)
    [] dk.lo = "fd" -> LET d == Resolve(F, OkR(<<>>), AbsOf(dk.dirp), FALSE)
                       IN IF d.k = "ok" /\ NodeT(F, d.p) = "dir" THEN d ELSE ErrR("EBADF")
    [] OTHER -> ErrR("EBADF")

(* procfs aliases.  A name can also reach its base directory through a magic link written in *)
(* the string itself (ps.pre); such a string is absolute, so the descriptor is ignored:      *)
(*   "pcwd"  /proc/self/cwd/<comps>        "ptcwd" /proc/thread-self/cwd/<comps>             *)
(*   "proot" /proc/self/root<cwd>/<comps>  "pfd"   /proc/self/fd/<N>/<comps>, N open on pdir  *)
(* The kernel continues the walk in the directory the link refers to.                        *)
BaseOf(F, cwd, dk, ps) ==
  CASE ps.pre = ""                 -> Base(F, cwd, dk)
    [] ps.pre \in {"pcwd", "ptcwd", "proot"} -> OkR(cwd)
    [] ps.pre = "pfd"              -> LET d == Base(F, cwd, [lo |-> "fd", hi |-> "zero", dirp |-> ps.pdir])
                                      IN IF d.k = "ok" THEN d ELSE ErrR("ENOENT")   \* no such entry in fd/

\* the walk proper sees a relative name below that base
Rel(ps) == [abs |-> ps.abs /\ ps.pre = "", comps |-> ps.comps, trail |-> ps.trail]
WellFormedP(ps) == WellFormed(ps) /\ (ps.pre # "" => ~ps.abs /\ ps.comps # <<>>)

-----------------------------------------------------------------------------
(* System calls: register layout (kernel ABI), which path arguments they   *)
(* have, whether the final symlink is followed, and the access class.      *)
(* Argument kinds: d1/p1, d2/p2 descriptor and name of the 1st/2nd path,   *)
(* fl = open flags, how = struct open_how*, at = AT_* flags, str = a       *)
(* string that is not a path to check, others are plain values/buffers.    *)

Sig == [
  open       |-> <<"p1", "fl", "mode">>,
  openat     |-> <<"d1", "p1", "fl", "mode">>,
  openat2    |-> <<"d1", "p1", "how", "howsz">>,
  readlink   |-> <<"p1", "buf", "bufsz">>,
  readlinkat |-> <<"d1", "p1", "buf", "bufsz">>,
  unlink     |-> <<"p1">>,
  unlinkat   |-> <<"d1", "p1", "at">>,
  mkdirat    |-> <<"d1", "p1", "mode">>,
  mknodat    |-> <<"d1", "p1", "mode", "zero">>,
  symlinkat  |-> <<"str", "d1", "p1">>,
  fchmodat   |-> <<"d1", "p1", "mode", "at">>,
  fchmodat2  |-> <<"d1", "p1", "mode", "at">>,
  linkat     |-> <<"d1", "p1", "d2", "p2", "at">>,
  renameat   |-> <<"d1", "p1", "d2", "p2">>,
  renameat2  |-> <<"d1", "p1", "d2", "p2", "zero">>,
  access     |-> <<"p1", "amode">>,
  faccessat  |-> <<"d1", "p1", "amode">>,
  faccessat2 |-> <<"d1", "p1", "amode", "at">>,
  stat       |-> <<"p1", "buf">>,
  lstat      |-> <<"p1", "buf">>,
  newfstatat |-> <<"d1", "p1", "buf", "at">>,
  statx      |-> <<"d1", "p1", "at", "mask", "buf">>,
  execve     |-> <<"p1", "argv", "zero">>,
  execveat   |-> <<"d1", "p1", "argv", "zero", "at">>,
  chmod      |-> <<"p1", "mode">>,
  rename     |-> <<"p1", "p2">> ]

Syscalls == << "open", "openat", "openat2", "readlink", "readlinkat", "unlink", "unlinkat",
               "mkdirat", "mknodat", "symlinkat", "fchmodat", "fchmodat2", "linkat", "renameat",
               "renameat2", "access", "faccessat", "faccessat2", "stat", "lstat", "newfstatat",
               "statx", "execve", "execveat", "chmod", "rename" >>

HasArg(sc, a) == \E i \in DOMAIN Sig[sc] : Sig[sc][i] = a
NPaths(sc)    == IF HasArg(sc, "p2") THEN 2 ELSE 1
OpenFamily    == {"open", "openat", "openat2"}

\* AT_* flag words offered for the "at" argument of each call (names; the probe maps names to
\* numbers with the C headers).  AT_EMPTY_PATH is not generated (with a non-empty name it has no
\* effect; with an empty name the object is the descriptor itself: outside this model).
AtChoices(sc) ==
  CASE sc = "unlinkat" -> << {}, {"AT_REMOVEDIR"} >>
    [] sc = "linkat"   -> << {}, {"AT_SYMLINK_FOLLOW"} >>
    [] sc \in {"newfstatat", "statx", "faccessat2", "fchmodat2", "execveat"}
                       -> << {}, {"AT_SYMLINK_NOFOLLOW"} >>
    [] sc = "fchmodat" -> << {} >>
    [] OTHER           -> << {} >>

\* TRUE: the kernel does not follow a symlink in the final component of path argument i.
\* For these the property text ("the path the kernel's resolution leads to") and its stated
\* witness (an O_PATH open) pull in different directions: the judge accepts the link's own
\* canonical path or its target's.  When in doubt an entry belongs here (more latitude).
NoFollow(sc, i, acc, fl) ==
  CASE sc \in {"lstat", "readlink", "readlinkat", "unlink", "unlinkat", "rename", "renameat",
               "renameat2", "mkdirat", "mknodat", "symlinkat"} -> TRUE
    [] sc = "linkat" -> i = 2 \/ "AT_SYMLINK_FOLLOW" \notin fl
    [] sc \in OpenFamily -> "O_NOFOLLOW" \in fl \/ ({"O_CREAT", "O_EXCL"} \subseteq fl)
    [] sc \in {"newfstatat", "statx", "faccessat2", "fchmodat2", "execveat", "fchmodat"}
                     -> "AT_SYMLINK_NOFOLLOW" \in fl
    [] OTHER -> FALSE

\* Open flags: acc = flags & O_ACCMODE (0 RDONLY, 1 WRONLY, 2 RDWR, 3), fl = set of flag names.
\* "any open that can create, truncate or write is a write"
CanWrite(acc, fl) == acc \in {1, 2, 3} \/ "O_CREAT" \in fl \/ "O_TRUNC" \in fl

\* Property layer: the set of classes the policy may be asked for.
ClassSet(sc, i, acc, fl) ==
  CASE sc \in OpenFamily ->
         IF CanWrite(acc, fl) THEN {"write"}
         ELSE IF "O_EXCL" \in fl THEN {"read", "write"}   \* O_EXCL without O_CREAT: property silent
         ELSE {"read"}
    [] sc \in {"stat", "lstat", "newfstatat", "statx", "access", "faccessat", "faccessat2"} -> {"stat"}
    [] sc \in {"readlink", "readlinkat"} -> {"read", "stat"}      \* reads the link's content
    [] sc \in {"execve", "execveat"} -> {"read"}
    [] sc = "linkat" /\ i = 1 -> {"read", "write"}               \* link count of the old inode changes
    [] OTHER -> {"write"}     \* unlink* mk*at symlinkat fchmodat* chmod rename* linkat(new)

\* Implementation layer: the class the code is known to ask for (difference = DRIFT, not a violation)
ClassImpl(sc, i, acc, fl) ==
  CASE sc \in OpenFamily -> IF CanWrite(acc, fl) \/ "O_EXCL" \in fl THEN "write" ELSE "read"
    [] sc \in {"readlink", "readlinkat"} -> "read"
    [] sc = "linkat" -> "write"
    [] OTHER -> CHOOSE c \in ClassSet(sc, i, acc, fl) : TRUE

-----------------------------------------------------------------------------
(* What the handler may present for path argument i of a call.             *)
(*   [judged |-> FALSE]                  nothing is demanded                *)
(*   [judged |-> TRUE, paths |-> S]      the presented path must be in S    *)
ExpectedOf(f, n, nf) ==      \* f, n: results of the following / non-following walk
  IF f.k = "err" THEN [judged |-> FALSE, paths |-> {}]     \* the kernel will touch nothing / OUT
  ELSE IF ~nf THEN [judged |-> TRUE, paths |-> {f.p}]
  ELSE [judged |-> TRUE, paths |-> {f.p} \cup (IF n.k = "err" THEN {} ELSE {n.p})]
Expected(F, base, ps, nf) == ExpectedOf(Resolve(F, base, ps, FALSE), Resolve(F, base, ps, TRUE), nf)

=============================================================================
