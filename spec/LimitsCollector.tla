-------------------------- MODULE LimitsCollector --------------------------
(***************************************************************************)
(* C08, the capped output collector of pkg/pipe/buffer.go as a state       *)
(* machine: a writer process, a kernel pipe of bounded capacity and the    *)
(* copier goroutine of NewPipe:                                            *)
(*      io.CopyN(buffer, r, N+1); close(done); io.Copy(io.Discard, r);     *)
(*      r.Close()                                                          *)
(* Checked for every cap, volume, pipe capacity and chunk size within the  *)
(* bounds and every interleaving of writer and copier:                     *)
(*   never more than N+1 bytes retained, the writer never gets EPIPE, the  *)
(*   writer always finishes (it is never blocked for good), and at the end *)
(*   exactly min(volume, N+1) bytes are retained.                          *)
(* Drain = FALSE is the collector without the discard loop: TLC then finds *)
(* the blocked writer (liveness) or the broken one (EPIPE).                *)
(***************************************************************************)
EXTENDS Limits, TLC
CONSTANTS MaxN, MaxVol, MaxCap, MaxChunk, Drain

VARIABLES n, vol, cap, chunk,      \* configuration (chosen in Init)
          towrite,                 \* bytes the writer still has to write
          inpipe,                  \* bytes in the kernel pipe
          retained,                \* bytes in the Buffer
          rd,                      \* copier: "copy" | "drain" | "closed"
          wr                       \* writer: "writing" | "done" | "epipe"
cvars == <<n, vol, cap, chunk, towrite, inpipe, retained, rd, wr>>

CInit ==
  /\ n \in 0..MaxN /\ vol \in 0..MaxVol /\ cap \in 1..MaxCap /\ chunk \in 1..MaxChunk
  /\ towrite = vol /\ inpipe = 0 /\ retained = 0 /\ rd = "copy" /\ wr = "writing"

\* write(2) on a blocking pipe: moves what fits, sleeps while the pipe is full
Write ==
  /\ wr = "writing" /\ towrite > 0 /\ rd # "closed" /\ inpipe < cap
  /\ LET k == Min(Min(chunk, towrite), cap - inpipe) IN
       inpipe' = inpipe + k /\ towrite' = towrite - k
  /\ UNCHANGED <<n, vol, cap, chunk, retained, rd, wr>>
WriteBroken ==     \* the read end is gone: EPIPE / SIGPIPE
  /\ wr = "writing" /\ towrite > 0 /\ rd = "closed"
  /\ wr' = "epipe"
  /\ UNCHANGED <<n, vol, cap, chunk, towrite, inpipe, retained, rd>>
WriterExit ==
  /\ wr = "writing" /\ towrite = 0
  /\ wr' = "done"
  /\ UNCHANGED <<n, vol, cap, chunk, towrite, inpipe, retained, rd>>

\* io.CopyN(buffer, r, n+1): reads until n+1 bytes were copied or EOF
CopyRead ==
  /\ rd = "copy" /\ inpipe > 0 /\ retained < n + 1
  /\ \E k \in 1..Min(inpipe, n + 1 - retained) :
        retained' = retained + k /\ inpipe' = inpipe - k
  /\ UNCHANGED <<n, vol, cap, chunk, towrite, rd, wr>>
CopyEnd ==         \* limit reached or EOF (all writers gone, pipe empty): close(done)
  /\ rd = "copy" /\ (retained = n + 1 \/ (inpipe = 0 /\ wr = "done"))
  /\ rd' = IF Drain THEN "drain" ELSE "closed"
  /\ UNCHANGED <<n, vol, cap, chunk, towrite, inpipe, retained, wr>>
\* io.Copy(io.Discard, r)
DrainRead ==
  /\ rd = "drain" /\ inpipe > 0
  /\ inpipe' = 0
  /\ UNCHANGED <<n, vol, cap, chunk, towrite, retained, rd, wr>>
DrainEnd ==        \* EOF: r.Close()
  /\ rd = "drain" /\ inpipe = 0 /\ wr = "done"
  /\ rd' = "closed"
  /\ UNCHANGED <<n, vol, cap, chunk, towrite, inpipe, retained, wr>>

CNext == Write \/ WriteBroken \/ WriterExit \/ CopyRead \/ CopyEnd \/ DrainRead \/ DrainEnd
CSpec == CInit /\ [][CNext]_cvars /\ WF_cvars(CNext)

NeverMoreThanCapPlusOne == retained <= n + 1
WriterNeverBroken == wr # "epipe"
ExactAtEnd == wr = "done" /\ rd = "closed" => retained = Retained(vol, n)
WriterFinishes == <>(wr = "done")
CollectorFinishes == <>(rd = "closed")
=============================================================================
