----------------------------- MODULE TracerProp -----------------------------
(* C03, PROPERTY LAYER: what a user of the ptrace runner may observe of a       *)
(* scripted program (TracerCases) under a handler decision function -- nothing  *)
(* about wait4, stops or PtraceCont.                                             *)
(*                                                                               *)
(*   Trap(k, m, d)   the handler is consulted about a traced call of task k; it   *)
(*                   sees the key m (the path of a marker call, the syscall name *)
(*                   of a name-decided call) and answers d = the entry of the    *)
(*                   decision function for THIS occurrence of m (dec[m][n] for   *)
(*                   the n-th consultation, the last entry persisting); a kill   *)
(*                   answer ends the run (Disallowed)                            *)
(*   Ret(k, r)       the call returns to the program: allow -> it ran, r = 0;    *)
(*                   ban -> it did not run, r = -BanRet; kill -> never returns   *)
(*   Step(k, r)      any other op completes with its real result                 *)
(*   the run ends when the main process ends (Normal / Nonzero with its code),   *)
(*   by a kill answer, or by a call the filter kills (Disallowed Syscall); every *)
(*   task still alive then is killed wherever it is.                             *)
(*                                                                               *)
(* The actions take the observed values as parameters and are enabled only for   *)
(* values the property admits; TracerProp_Trace replays the program's own log    *)
(* (one cursor per task) and the handler's log against them.                     *)
EXTENDS Integers, Sequences, FiniteSets

BanRet == 13
Spawns == {"F", "V", "C"}

VARIABLES
  pscript, pdec,   \* the case; pdec[key] = sequence of answers by occurrence
  pcnt,    \* [key -> consultations so far]
  st,      \* [task -> "unborn","run","trapped","dead"]
  ppc,     \* [task -> index of the next op]
  pd,      \* [task -> decision pending for the trapped call]
  exe,     \* names (markers and untraced calls) that took effect
  res,     \* [k |-> "none"|"exit"|"ds"|"fk"|"killed", x |-> code]  why the run ended
  fkc      \* child processes (leaders) killed by the filter
pvars == <<pscript, pdec, pcnt, st, ppc, pd, exe, res, fkc>>

PTasks == DOMAIN pscript
POp(k) == IF ppc[k] \in DOMAIN pscript[k] THEN pscript[k][ppc[k]]
          ELSE [k |-> "END", a |-> "", n |-> 0]
\* spawn site, kind and thread group of a task
PSite(j) == CHOOSE ti \in PTasks \X (1..8) : /\ ti[2] \in DOMAIN pscript[ti[1]]
                                             /\ pscript[ti[1]][ti[2]].k \in Spawns
                                             /\ pscript[ti[1]][ti[2]].n = j
PPar(j) == IF j = 1 THEN 0 ELSE PSite(j)[1]
PKind(j) == IF j = 1 THEN "main" ELSE pscript[PSite(j)[1]][PSite(j)[2]].k
RECURSIVE PLeader(_)
PLeader(j) == IF PKind(j) = "C" THEN PLeader(PPar(j)) ELSE j
PGroup(j) == { i \in PTasks : PLeader(i) = PLeader(j) }
\* the task has exec'ed a new image (which runs the rest of its script)
PExecd(j) == \E i \in 1..(ppc[j] - 1) : i \in DOMAIN pscript[j] /\ pscript[j][i].k = "Z"
PCreated(k) == { j \in PTasks : j # 1 /\ PPar(j) = k /\ PSite(j)[2] < ppc[k] }

PInit(s, d) ==
  /\ pscript = s /\ pdec = d /\ pcnt = [key \in DOMAIN d |-> 0]
  /\ st = [k \in DOMAIN s |-> IF k = 1 THEN "run" ELSE "unborn"]
  /\ ppc = [k \in DOMAIN s |-> 1]
  /\ pd = [k \in DOMAIN s |-> "none"]
  /\ exe = {} /\ res = [k |-> "none", x |-> 0] /\ fkc = {}

\* the whole thread group of k ends; if it is the main process the run has its verdict
EndGroup(k, why, x) ==
  /\ st' = [j \in PTasks |-> IF j \in PGroup(k) /\ st[j] # "unborn" THEN "dead" ELSE st[j]]
  /\ res' = IF PLeader(k) = 1 /\ res.k = "none" THEN [k |-> why, x |-> x] ELSE res

\* the handler is consulted (only while the tracer is still looking: not after a kill answer)
PKey(o) == IF o.k = "N" THEN "symlink" ELSE o.a
PAt(p, i) == p[IF i > Len(p) THEN Len(p) ELSE i]
Trap(k, m, d) ==
  /\ st[k] = "run" /\ POp(k).k \in {"T", "N"} /\ PKey(POp(k)) = m
  /\ res.k # "ds"
  /\ m \in DOMAIN pdec /\ d = PAt(pdec[m], pcnt[m] + 1)
  /\ pcnt' = [pcnt EXCEPT ![m] = @ + 1]
  /\ st' = [st EXCEPT ![k] = "trapped"] /\ pd' = [pd EXCEPT ![k] = d]
  /\ res' = IF d = "kill" THEN [k |-> "ds", x |-> 0] ELSE res
  /\ UNCHANGED <<pscript, pdec, ppc, exe, fkc>>

\* the trapped call returns r to the program
Ret(k, r) ==
  /\ st[k] = "trapped"
  \* the real result of an allowed call: a repeated mkdirat of the same name fails with EEXIST (-17)
  /\ \/ pd[k] = "allow" /\ r = (IF POp(k).k = "T" /\ POp(k).a \in exe THEN -17 ELSE 0) /\ exe' = exe \cup {POp(k).a}
     \/ pd[k] = "ban" /\ r = -BanRet /\ exe' = exe
  /\ st' = [st EXCEPT ![k] = "run"] /\ ppc' = [ppc EXCEPT ![k] = @ + 1]
  /\ pd' = [pd EXCEPT ![k] = "none"]
  /\ UNCHANGED <<pscript, pdec, pcnt, res, fkc>>

\* an allowed call ran but its task was killed (run over) before it could tell
RetUnseen(k) ==
  /\ st[k] = "trapped" /\ pd[k] = "allow"
  /\ exe' = exe \cup {POp(k).a}
  /\ st' = [st EXCEPT ![k] = "dead"]
  /\ UNCHANGED <<pscript, pdec, pcnt, ppc, pd, res, fkc>>

\* a new task exists as soon as its creator is at the spawn op (it may run before the creator
\* sees the return value)
Birth(j) ==
  /\ j # 1 /\ st[j] = "unborn"
  /\ st[PPar(j)] = "run" /\ ppc[PPar(j)] = PSite(j)[2]
  /\ st' = [st EXCEPT ![j] = "run"]
  /\ UNCHANGED <<pscript, pdec, pcnt, ppc, pd, exe, res, fkc>>

\* a child is gone for its creator when it ended; a child process the filter killed is gone only
\* once the tracer has seen that, which ends the run as Disallowed Syscall (see Step W)
PGone(j) == st[j] = "dead"

\* every op other than a marker call: completes with result r
Step(k, op, r) ==
  /\ st[k] = "run" /\ POp(k).k = op
  /\ CASE op = "U" -> r = 0 /\ exe' = exe \cup {POp(k).a} /\ UNCHANGED <<st, res>>
       [] op = "S" -> r = 1 /\ UNCHANGED <<exe, st, res>>
       [] op \in {"F", "C"} -> r = 1 /\ st[POp(k).n] # "unborn" /\ UNCHANGED <<exe, st, res>>
       [] op = "V" -> r = 1 /\ (st[POp(k).n] = "dead" \/ PExecd(POp(k).n)) /\ UNCHANGED <<exe, st, res>>
       \* an execve the filter allows takes effect: the new image runs (it reports that itself); when a
       \* thread execs, the other threads of its process are gone
       [] op = "Z" -> /\ r = 0 /\ UNCHANGED <<exe, res>>
                      /\ st' = [j \in PTasks |-> IF j # k /\ j \in PGroup(k) /\ st[j] # "unborn" THEN "dead" ELSE st[j]]
       [] op = "W" -> /\ r = 0 /\ UNCHANGED <<exe, st, res>>
                      /\ \A j \in PCreated(k) : PGone(j) /\ (PLeader(j) \in fkc => res.k # "none")
       [] op \in {"Y", "P"} -> UNCHANGED <<exe, st, res>>
       [] op = "J" -> \/ r = 0 /\ EndGroup(POp(k).n, "killed", 9) /\ UNCHANGED exe
                      \/ r = -3 /\ st[POp(k).n] = "dead" /\ UNCHANGED <<exe, st, res>>   \* ESRCH: already reaped
       [] op = "X" -> r = POp(k).n /\ EndGroup(k, "exit", r) /\ UNCHANGED exe
       [] op = "E" -> r = 0 /\ st' = [st EXCEPT ![k] = "dead"] /\ UNCHANGED <<exe, res>>
       [] OTHER -> FALSE
  /\ ppc' = [ppc EXCEPT ![k] = @ + 1]
  /\ UNCHANGED <<pscript, pdec, pcnt, pd, fkc>>

\* the implicit end of a script
EndStep(k, op, r) ==
  /\ st[k] = "run" /\ POp(k).k = "END" /\ r = 0
  /\ IF PKind(k) = "C" /\ ~PExecd(k) THEN op = "E" /\ st' = [st EXCEPT ![k] = "dead"] /\ UNCHANGED res
                       ELSE op = "X" /\ EndGroup(k, "exit", 0)
  /\ ppc' = [ppc EXCEPT ![k] = @ + 1]
  /\ UNCHANGED <<pscript, pdec, pcnt, pd, exe, fkc>>

\* a call the filter itself kills: the process dies at once, nothing is returned
FilterKill(k) ==
  /\ st[k] = "run" /\ POp(k).k = "K"
  /\ EndGroup(k, "fk", 0)
  /\ fkc' = IF PLeader(k) # 1 THEN fkc \cup {PLeader(k)} ELSE fkc
  /\ UNCHANGED <<pscript, pdec, pcnt, ppc, pd, exe>>
\* ... and the tracer learns of a filter-killed child: Disallowed Syscall
FilterKillSeen ==
  /\ fkc # {} /\ res.k = "none"
  /\ res' = [k |-> "ds", x |-> 0]
  /\ UNCHANGED <<pscript, pdec, pcnt, st, ppc, pd, exe, fkc>>

\* an untraced op ran but its task was killed before it could tell
StepUnseen(k) ==
  /\ st[k] = "run" /\ POp(k).k = "U"
  /\ exe' = exe \cup {POp(k).a}
  /\ st' = [st EXCEPT ![k] = "dead"]
  /\ UNCHANGED <<pscript, pdec, pcnt, ppc, pd, res, fkc>>

\* an exec took effect (a vfork parent is released, sibling threads are gone) but the new image was
\* killed -- the run was over -- before it could tell
ExecUnseen(k) ==
  /\ st[k] = "run" /\ POp(k).k = "Z"
  /\ st' = [j \in PTasks |-> IF j \in PGroup(k) /\ st[j] # "unborn" THEN "dead" ELSE st[j]]
  /\ UNCHANGED <<pscript, pdec, pcnt, ppc, pd, exe, res, fkc>>

\* the verdict the property demands for the way the run ended
Verdict(status, exit) ==
  CASE res.k = "ds" -> status = "Disallowed"
    [] res.k = "fk" -> status = "Disallowed"
    [] res.k = "exit" -> IF res.x = 0 THEN status = "Normal" ELSE status = "Nonzero" /\ exit = res.x
    [] res.k = "killed" -> status \in {"TLE", "Signalled"}     \* the program SIGKILLed its own main process
    [] OTHER -> FALSE      \* the program neither ended nor was it refused: no verdict is justified
=============================================================================
