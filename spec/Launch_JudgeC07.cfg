INIT Init
NEXT Next
