---------------------------- MODULE Seccomp_Gen ----------------------------
(***************************************************************************)
(* TLC as case generator for C01.                                          *)
(*  struct.ndjson : the structured policy family -- every assignment of    *)
(*     {allow, trace, neither} to the names in Names x every default       *)
(*     action in Defs (caller-side Action values, incl. unset 0 and        *)
(*     out-of-range ones).                                                 *)
(*  clean.ndjson  : every pair of name lists (duplicates, overlaps, any    *)
(*     order) over CNames up to length CLen, for runprog's list clean-up.  *)
(***************************************************************************)
EXTENDS Naturals, Sequences, FiniteSets, SequencesExt, TLC, Json
CONSTANTS Names, Defs, CNames, CLen

StructCases ==
  { [allow |-> SetToSeq({ n \in Names : f[n] = "a" }),
     trace |-> SetToSeq({ n \in Names : f[n] = "t" }),
     def   |-> d] : f \in [Names -> {"a", "t", "n"}], d \in Defs }

Lists == UNION { [1..k -> CNames] : k \in 0..CLen }
CleanCases == { [a |-> x, t |-> y] : x \in Lists, y \in Lists }

ASSUME ndJsonSerialize("struct.ndjson", SetToSeq(StructCases))
ASSUME ndJsonSerialize("clean.ndjson", SetToSeq(CleanCases))
ASSUME PrintT(<<"generated", Cardinality(StructCases), Cardinality(CleanCases)>>)
VARIABLE x
Init == x = 0
Next == UNCHANGED x
=============================================================================
