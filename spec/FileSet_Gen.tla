---------------------------- MODULE FileSet_Gen ----------------------------
(* TLC as case generator for C18: writes the exhaustive case spaces as ndjson. *)
EXTENDS FileSet, TLC, Json, FiniteSetsExt
CONSTANTS EntryDepth, QueryDepth, SetSize, CompDepth, CompQuery,
          Names, MaxBudget, HistLen

Queries(d) == Paths(d) \cup {EMPTYQ}
Sets == UNION { kSubset(k, Entries(EntryDepth)) : k \in 0..SetSize }     \* (not SUBSET: 2^44 candidates at depth 3)

\* single FileSet: every (set, query)
SetCases == { [set |-> SetToSeq(S), q |-> q] : S \in Sets, q \in Queries(QueryDepth) }

\* composite: one entry-or-none in one of w/r/s, entry-or-none in softban, built with Add or
\* AddFilePermission, every class
Opt(d) == { {e} : e \in Entries(d) } \cup { {} }
CompCases ==
  { [where |-> x, via |-> v, e |-> SetToSeq(E), b |-> SetToSeq(B), q |-> q, class |-> c] :
      x \in {"write", "read", "stat"}, v \in {"add", "perm"}, E \in Opt(CompDepth), B \in Opt(CompDepth),
      q \in Queries(CompQuery), c \in {"write", "read", "stat"} }

\* counter histories: every budget table over Names (each name uncounted or 0..MaxBudget) and
\* every call sequence up to HistLen
Budgets == UNION { [D -> 0..MaxBudget] : D \in SUBSET Names }
Hists == { [budget |-> [n \in Names |-> IF n \in DOMAIN b THEN b[n] ELSE -1], calls |-> s] :
             b \in Budgets, s \in UNION { [1..k -> Names] : k \in 0..HistLen } }
ASSUME ndJsonSerialize("hists.ndjson", SetToSeq(Hists))
ASSUME ndJsonSerialize("setcases.ndjson", SetToSeq(SetCases))
ASSUME ndJsonSerialize("compcases.ndjson", SetToSeq(CompCases))
ASSUME PrintT(<<"generated", Cardinality(SetCases), Cardinality(CompCases)>>)
VARIABLE x
Init == x = 0
Next == UNCHANGED x
=============================================================================
