---------------------------- MODULE Mounts_Trace ----------------------------
(***************************************************************************)
(* Trace validation for the raw in-child mount sequence (implementation     *)
(* layer).  Each line of traces.ndjson is the strace record of one real     *)
(* launch through runner/unshare -> forkexec:                               *)
(*   [case, srcfl, lockfl, done, ev |-> << [k, src, abs, tgt, fst, fl, r], ... >>]  *)
(* k: mount mkdir mknod statfs pivot umount rmdir chdir; abs says how the    *)
(* path argument was written: "rel" (relative to the new root), "root" (the  *)
(* absolute path of the new root), "slash" ("/"), "abs" (other absolute).    *)
(* TLC starts one behaviour per trace (t) and replays the events: event l    *)
(* must be the syscall Prog(cfg)[pc] with the same arguments, and its        *)
(* result must be the result the kernel model computes (Apply).  Register t  *)
(* keeps the high-water mark of matched events.  -workers 1.                 *)
(***************************************************************************)
EXTENDS MountsBase, TLC, Json

Traces == ndJsonDeserialize("traces.ndjson")
N == Len(Traces)

CfgOf(tr) == [impl |-> tr.case.impl, kinds |-> tr.case.kinds, linkm |-> tr.case.linkm,
              maskm |-> tr.case.maskm, devnull |-> tr.case.devnull]
EnvOf(tr) == [proc |-> {}, srcfl |-> ToSet(tr.srcfl), lockfl |-> ToSet(tr.lockfl),
              sharefl |-> ToSet(tr.sharefl), shared |-> tr.srcshared, flipfl |-> ToSet(tr.flipfl)]
Envs  == TLCEval([i \in 1..N |-> EnvOf(Traces[i])])
Progs == TLCEval([i \in 1..N |-> TLCEval(Prog(CfgOf(Traces[i]), EnvOf(Traces[i])))])

VARIABLES t, l, pc, st
tvars == <<t, l, pc, st>>

StatfsNames == {"RDONLY", "NOSUID", "NODEV", "NOEXEC", "NOATIME", "NODIRATIME", "RELATIME"}

\* is event e the syscall op, argument for argument?
Match(op, e, env) ==
  CASE op.k = "private"   -> e.k = "mount" /\ e.abs = "slash" /\ e.src = "none" /\ ToSet(e.fl) = op.fl
    [] op.k = "mountroot" -> e.k = "mount" /\ e.abs = "root" /\ e.src = "tmpfs" /\ e.fst = "tmpfs" /\ ToSet(e.fl) = {}
    [] op.k = "chdir"     -> e.k = "chdir" /\ e.abs = "root"
    [] op.k = "mkdir"     -> e.k = "mkdir" /\ e.abs = "rel" /\ e.tgt = op.tgt
    [] op.k = "mknod"     -> e.k = "mknod" /\ e.abs = "rel" /\ e.tgt = op.tgt
    [] op.k = "mount"     -> e.k = "mount" /\ e.abs = "rel" /\ e.tgt = op.tgt /\ e.src = op.src
                             /\ ToSet(e.fl) = op.fl /\ ("BIND" \in op.fl \/ e.fst = op.fst)
    [] op.k = "statfs"    -> e.k = "statfs" /\ e.src = op.src
                             /\ ToSet(e.fl) \cap StatfsNames = HostFl(op.src, env) \cap StatfsNames
    [] op.k = "remount"   -> e.k = "mount" /\ e.tgt = op.tgt /\ e.src = op.src /\ ToSet(e.fl) = op.fl
                             /\ e.abs = (IF op.tgt = <<>> THEN "slash" ELSE "rel")
    [] op.k = "pivot"     -> e.k = "pivot" /\ e.abs = "root" /\ e.tgt = op.tgt
    [] op.k = "umount"    -> e.k = "umount" /\ e.abs = "rel" /\ e.tgt = op.tgt /\ ToSet(e.fl) = op.fl
    [] op.k = "rmdir"     -> e.k = "rmdir" /\ e.abs = "rel" /\ e.tgt = op.tgt
    [] OTHER -> FALSE

TInit == /\ t \in 1..N /\ l = 1 /\ pc = 1 /\ st = St0

TStep ==
  /\ l <= Len(Traces[t].ev) /\ pc <= Len(Progs[t]) /\ ~st.fail
  /\ LET op == Progs[t][pc]
         e  == Traces[t].ev[l]
         s2 == Apply(st, op, Envs[t])
     IN /\ Match(op, e, Envs[t])
        /\ s2.last = e.r                   \* the kernel answered what the model answers
        /\ st' = s2
  /\ pc' = pc + 1 /\ l' = l + 1 /\ t' = t
TSpec == TInit /\ [][TStep]_tvars

Mark == TLCSet(t, IF TLCGet(t) < l - 1 THEN l - 1 ELSE TLCGet(t))
ASSUME \A i \in 1..N : TLCSet(i, 0)
\* a trace is accepted when every event was matched and, for a launch that reached execve,
\* the whole program was consumed
Rejected(i) == \/ TLCGet(i) < Len(Traces[i].ev)
               \/ Traces[i].done /\ TLCGet(i) < Len(Progs[i])
Report ==
  ndJsonSerialize("bad.ndjson",
     SetToSeq({ [t |-> i, matched |-> TLCGet(i), len |-> Len(Traces[i].ev), plen |-> Len(Progs[i])]
                  : i \in { j \in 1..N : Rejected(j) } }))
=============================================================================
