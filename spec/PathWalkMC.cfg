CONSTANTS MaxLen = 3
  Alphabet = {"a","b","l1","l2",".","..",""}
  StepBound = 200
SPECIFICATION Spec
INVARIANTS Terminates Deterministic Agrees Idempotent Canonical
PROPERTIES StepIsNext
CHECK_DEADLOCK FALSE
