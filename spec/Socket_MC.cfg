CONSTANTS MaxFds = 2
  Cap = 6
  DescA = 2
  DescB = 1
  CarryDesc = TRUE
  CloseOnReject = TRUE
  RejectCtrunc = TRUE
  AbsorbDesc = TRUE
  ValueHandover = TRUE
  FreshReader = TRUE
  MaxOps = 4
  Lens = {0, 1, 2, 3}
  Vals = {1, 3, 4, 5, 6, 7}
  Rbufs = {1, 2, 4}
SPECIFICATION MSpec
INVARIANTS ImplRefines InOrder Whole LedgerBalanced StreamInSync DeliveredImmutable
CHECK_DEADLOCK FALSE
