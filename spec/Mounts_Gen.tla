----------------------------- MODULE Mounts_Gen -----------------------------
(* TLC as case generator for C05.  The configuration space is the one the     *)
(* model checker explores (MountsBase: ForkCfgsOf / ContCfgsOf).  Every table *)
(* of at most FullLen entries is written in every variant (namespace runner + *)
(* container under every option set of ContOpts); of the longer tables TLC    *)
(* draws NLong at random (and NShort of the short ones when FullLen = 0),     *)
(* each with the namespace runner and one randomly drawn container variant.   *)
(* The draw is TLC's (Randomization, -seed = VERIF_SEED).  One JSON line per  *)
(* sandbox: the table as a client would write it (entries before              *)
(* FilterNotExist) plus the paths the probe has to look at; no expectation.   *)
EXTENDS MountsBase, TLC, Json, Randomization
CONSTANTS MaxLen, ContOpts, FullLen, NShort, NLong

Tup(s) == s \o <<>>        \* a function over 1..0 is written as [] only when it is a tuple
CaseOf(c) ==
  [ impl |-> c.impl, kinds |-> Tup(c.kinds), linkm |-> c.linkm, maskm |-> c.maskm, devnull |-> c.devnull,
    ents    |-> [i \in DOMAIN Tup(Entries(c)) |->              \* fl: the literal flags of a hand-written entry
                   [Entries(c)[i] EXCEPT !.fl = SetToSeq(@)]] \o <<>>,
    links   |-> IF c.linkm = "cus" THEN CustomLinks ELSE <<>>,      \* empty: builder default
    maskcfg |-> IF c.maskm = "cus" THEN CustomMasks ELSE <<>>,      \* empty: builder default
    maskchk |-> Masks(c),
    \* below every shared-propagation source the host mounts a file system at run time: the probe tries there too
    dyn     |-> SelectSeq([i \in DOMAIN Tup(Entries(c)) |-> Entries(c)[i].tgt \o <<"dyn">>] \o <<>>,
                          LAMBDA q : \E i \in DOMAIN Entries(c) : Entries(c)[i].src \in SharedSrc
                                                                  /\ q = Entries(c)[i].tgt \o <<"dyn">>) ]

ForkOf(t) == [impl |-> "fork", kinds |-> t, linkm |-> "none", maskm |-> "none", devnull |-> FALSE]
ContOf(t, o) == [impl |-> "cont", kinds |-> t, linkm |-> o[1], maskm |-> o[2], devnull |-> o[3]]
Buildable(c) == Len(Effective(c)) > 0

Full    == TablesUpTo(FullLen)
Short   == { t \in TablesUpTo(2) \ Full : Len(t) >= 1 }
Long    == TablesUpTo(MaxLen) \ TablesUpTo(2)
\* order family (always written): a missing-source bind -- dropped by FilterNotExist, which must keep the order
\* of the rest -- before / between / after a parent and the child nested in it
OrderFam == UNION { { <<"noent", pc[1], pc[2]>>, <<pc[1], "noent", pc[2]>>, <<pc[1], pc[2], "noent">> } : pc \in NestPairs }
Drawn   == RandomSubset(NShort, Short) \cup RandomSubset(NLong, Long) \cup OrderFam

Cfgs ==      { ForkOf(t) : t \in Full \cup Drawn }
        \cup { c \in { ContOf(t, o) : t \in Full, o \in ContOpts } : Buildable(c) }
        \cup { c \in { ContOf(t, RandomElement(ContOpts)) : t \in Drawn } : Buildable(c) }
Cases == { CaseOf(c) : c \in Cfgs }
Space == Cardinality(ForkCfgsOf(MaxLen)) + Cardinality(ContCfgsOf(MaxLen, ContOpts))

ASSUME ndJsonSerialize("cases.ndjson", SetToSeq(Cases))
ASSUME PrintT(<<"generated", Cardinality(Cases), "of", Space>>)
VARIABLE x
Init == x = 0
Next == UNCHANGED x
=============================================================================
