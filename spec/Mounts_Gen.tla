----------------------------- MODULE Mounts_Gen -----------------------------
(* TLC as case generator for C05: every configuration of the menu, written as *)
(* one JSON line per sandbox to build.  The driver receives the table exactly *)
(* as a client would write it (entries before FilterNotExist) plus the paths  *)
(* the probe has to look at; it receives no expectation.                      *)
EXTENDS MountsBase, TLC, Json
CONSTANTS MaxLen, ContOpts

Tup(s) == s \o <<>>        \* a function over 1..0 is written as [] only when it is a tuple
CaseOf(c) ==
  [ impl |-> c.impl, kinds |-> Tup(c.kinds), linkm |-> c.linkm, maskm |-> c.maskm, devnull |-> c.devnull,
    ents    |-> Tup(Entries(c)),
    links   |-> IF c.linkm = "cus" THEN CustomLinks ELSE <<>>,      \* empty: builder default
    maskcfg |-> IF c.maskm = "cus" THEN CustomMasks ELSE <<>>,      \* empty: builder default
    maskchk |-> Masks(c) ]
Cases == { CaseOf(c) : c \in ForkCfgsOf(MaxLen) \cup ContCfgsOf(MaxLen, ContOpts) }
ASSUME ndJsonSerialize("cases.ndjson", SetToSeq(Cases))
ASSUME PrintT(<<"generated", Cardinality(Cases)>>)
VARIABLE x
Init == x = 0
Next == UNCHANGED x
=============================================================================
