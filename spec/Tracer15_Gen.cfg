INIT Init
NEXT Next
