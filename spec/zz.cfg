CONSTANTS
  MainAlpha = {"T","U","S","K","W","F","V","C","X3"}
  ChildAlpha = {"T","U","S","K","C"}
  MaxMain = 2
  MaxChild = 1
  MaxSpawn = 2
  MaxT = 2
  MaxTotal = 3
INIT Init
NEXT Next
