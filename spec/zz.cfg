CONSTANTS
  MainAlpha = {"T","S","K","W","F","V","C","X3"}
  ChildAlpha = {"T","S","K","C"}
  MaxMain = 2
  MaxChild = 1
  MaxSpawn = 2
  MaxT = 2
  MaxTotal = 3
  EsrchFatal = FALSE
  ChildSigsysIgnored = FALSE
  AnyDecision = FALSE
SPECIFICATION Spec
VIEW MCView
INVARIANTS TypeOK Enforced TruthfulResult FinishedAllDead NeverRunnerError EnforcedFilterKill
CHECK_DEADLOCK TRUE
