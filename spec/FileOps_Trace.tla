--------------------------- MODULE FileOps_Trace ---------------------------
(* Trace validation for C14.  One line of fotraces.ndjson per case:             *)
(*   [fs (the state a program was asked to plant; n = numbered files), ev |-> << state, (op, ping)* >>] *)
(*   state   : obs      what the host sees through /proc/<init>/root            *)
(*   open    : items <<[p, mode, mk, perm]>>, err (whole call), res <<[fd, err,  *)
(*             ident, pident, kind, acc, st, cloexec, pmode, osize, wrote, wsize,*)
(*             worig]>>, blocked, post                                          *)
(*   symlink : links <<[link, to]>>, err, errs << "" | text >>, blocked, post   *)
(*   delete  : p, err, blocked, post                                            *)
(*   ping    : ok                                                               *)
(* Each event is enabled only if it is what FileOpsDefs prescribes in the       *)
(* current state.  Register N+t = 1: implementation-layer difference (exit 0).  *)
EXTENDS FileOpsDefs, TLC, Json
Traces == ndJsonDeserialize("fotraces.ndjson")
N == Len(Traces)
VARIABLES t, l, fs
tvars == <<t, l, fs>>

TInit == /\ t \in 1..N /\ l = 1 /\ fs = Internal(Traces[t].fs)

EState(e) == Shows(e.obs, fs) /\ ShowsT(e.obs, fs) /\ ShowsN(e.nobs, fs) /\ ShowsL(e.obs.ldeep, e.lobs, fs) /\ UNCHANGED fs

(* result i of the call against item i *)
ItemOK(r, it, exp, k) ==
  /\ ((k # "unreadable" \/ exp = "err") => r.fd = (exp = "fd"))   \* descriptor iff regular file or newly created (EEXIST for O_EXCL)
  /\ (r.fd => /\ r.kind = "regular"                 \* only ever a regular file
              /\ r.ident # "" /\ r.ident = r.pident \* it IS the file at the requested path (no link followed)
              /\ r.acc = Acc(it.mode) /\ r.cloexec  \* with the requested access mode ...
              /\ ToSet(r.st) = Flags(it.mode) \cap StatusFlags   \* ... and status flags (O_APPEND, O_SYNC; nothing added)
              /\ (k = "absent" => r.pmode = it.perm)) \* a created file has the requested permission bits
  /\ (~r.fd => r.err # "")
(* second pass, after the call returned: size of every tracked file as the batch left it (O_TRUNC, *)
(* creation), then the driver's write through each writable descriptor in item order               *)
WalkWrite(e, f0) ==
  FoldLeft(LAMBDA acc, i :
             LET r == e.res[i]  it == e.items[i] IN
             IF ~r.fd \/ it.p \notin Tracked THEN acc
             ELSE IF Acc(it.mode) = "r" THEN [acc EXCEPT !.ok = @ /\ r.osize = f0.ct[it.p].size /\ ~r.wrote]
             ELSE LET g == WriteThrough(acc.fs, it.p, it.mode) IN
                  [ok |-> acc.ok /\ r.osize = f0.ct[it.p].size /\ r.wrote
                                 /\ r.wsize = g.ct[it.p].size /\ r.worig = g.ct[it.p].og,
                   fs |-> g],
           [ok |-> TRUE, fs |-> f0], [i \in 1..Len(e.items) |-> i])
(* one pass over the batch: item i is judged in the state the items before it left behind *)
WalkOpen(e) ==
  FoldLeft(LAMBDA acc, i : LET r == OpenItem(acc.fs, e.items[i])
                           IN [ok    |-> acc.ok /\ ItemOK(e.res[i], e.items[i], r.r, r.k),
                               drift |-> acc.drift \/ (r.k = "unreadable" /\ r.r = "fd" /\ ~e.res[i].fd),
                               fs    |-> r.fs],
           [ok |-> TRUE, drift |-> FALSE, fs |-> fs], [i \in 1..Len(e.items) |-> i])
NormalOpen(e) ==
  /\ e.err = "" /\ Len(e.res) = Len(e.items)
  /\ \E x \in {WalkOpen(e)} : \E y \in {WalkWrite(e, x.fs)} :    \* bound once: each walk is evaluated a single time
       /\ x.ok /\ y.ok
       /\ Shows(e.post, x.fs) /\ ShowsT(e.post, x.fs) /\ ShowsN(e.npost, x.fs) /\ ShowsL(e.post.ldeep, e.lpost, x.fs) /\ fs' = y.fs
       /\ (x.drift => TLCSet(N + t, 1))
EOpen(e) ==
  /\ ~e.blocked                                     \* never blocks (FIFO, socket, device)
  /\ IF Len(e.items) = 0
       THEN /\ Len(e.res) = 0 /\ Shows(e.post, fs) /\ UNCHANGED fs
            /\ (e.err = "" => TLCSet(N + t, 1))     \* implementation layer: one error
       ELSE IF Len(e.items) > MaxBatch /\ e.err # ""
              THEN Len(e.res) = 0 /\ Shows(e.post, fs) /\ UNCHANGED fs   \* refused as a whole, nothing done
              ELSE NormalOpen(e)

ESymlink(e) ==
  /\ ~e.blocked
  /\ IF Len(e.links) = 0
       THEN /\ Len(e.errs) = 0 /\ Shows(e.post, fs) /\ UNCHANGED fs
            /\ (e.err = "" => TLCSet(N + t, 1))
       ELSE LET x == LinkBatch(fs, e.links) IN
            /\ e.err = "" /\ Len(e.errs) = Len(e.links)
            /\ \A i \in DOMAIN e.links : (e.errs[i] = "") = (x.res[i] = "ok")
            /\ Shows(e.post, x.fs) /\ ShowsL(e.post.ldeep, e.lpost, x.fs) /\ fs' = x.fs   \* a link exists iff its result is nil

EDelete(e) ==
  LET x == DeleteOne(fs, e.p) IN
  /\ ~e.blocked /\ (e.err = "") = (x.r = "ok") /\ Shows(e.post, x.fs) /\ fs' = x.fs

EPing(e) == e.ok /\ UNCHANGED fs                    \* the protocol survived the previous operation

TStep ==
  /\ l <= Len(Traces[t].ev)
  /\ LET e == Traces[t].ev[l] IN
       CASE e.e = "state"   -> l = 1 /\ EState(e)
         [] e.e = "open"    -> l > 1 /\ EOpen(e)
         [] e.e = "symlink" -> l > 1 /\ ESymlink(e)
         [] e.e = "delete"  -> l > 1 /\ EDelete(e)
         [] e.e = "ping"    -> l > 1 /\ EPing(e)
  /\ l' = l + 1 /\ t' = t
TSpec == TInit /\ [][TStep]_tvars

Mark == TLCSet(t, IF TLCGet(t) < l - 1 THEN l - 1 ELSE TLCGet(t))
ASSUME \A i \in 1..(2 * N) : TLCSet(i, 0)
Report ==
  ndJsonSerialize("bad.ndjson",
        SetToSeq({ [t |-> i, matched |-> TLCGet(i), j |-> "reject"] : i \in { j \in 1..N : TLCGet(j) < Len(Traces[j].ev) } })
     \o SetToSeq({ [t |-> i, matched |-> TLCGet(i), j |-> "drift"] : i \in { j \in 1..N : TLCGet(N + j) = 1 } }))
=============================================================================
