------------------------------- MODULE Socket -------------------------------
(* C19: the control socket of go-sandbox.                                    *)
(*   raw layer  : pkg/unixsocket.Socket  (SEQPACKET + SCM_RIGHTS/CREDENTIALS) *)
(*   gob layer  : container.socket       (one gob value per packet, 32 KiB)  *)
(* One connection, one direction: a sender end and a receiver end.           *)
(*                                                                           *)
(* Property layer (what a caller may rely on):                               *)
(*   SendOK / RecvOK   which outcomes ("ok" | "rej") are admissible          *)
(*   a delivered message is the oldest accepted one, whole (Deliver)         *)
(*   ledger: every descriptor that arrived is handed over or closed          *)
(* Implementation layer (what the code does):                                *)
(*   SendImpl / RecvImpl, gob encoder/decoder type knowledge, descriptors    *)
(*   of a rejected Encode carried with the next packet (CarryDesc)           *)
(* MC (Socket.cfg) explores the implementation layer and checks that it      *)
(* refines the property layer; Socket_Trace replays logs of the real code.   *)
EXTENDS Integers, Sequences, FiniteSets

CONSTANTS MaxFds,        \* kernel SCM_MAX_FD (253)
          Cap,           \* payload cap of the framed layer (32 KiB)
          DescA, DescB,  \* bytes of gob type descriptors of the two message types
          CarryDesc,     \* design switch: descriptors of an Encode that was not sent are kept for the next packet
          CloseOnReject, \* design switch: receiver closes descriptors of a message it rejects
          RejectCtrunc,  \* design switch: a message whose control data was cut (MSG_CTRUNC) is rejected
          AbsorbDesc,    \* design switch: gob descriptors of a packet dropped for MSG_CTRUNC still reach the decoder
          ValueHandover  \* design switch: a delivered message is a value of its own (FALSE: its descriptor list and
                         \* credentials alias per-socket storage that the next receive overwrites)

Types == {"A", "B"}
Desc(t) == IF t = "A" THEN DescA ELSE DescB
RECURSIVE SumDesc(_)
SumDesc(S) == IF S = {} THEN 0 ELSE LET t == CHOOSE x \in S : TRUE IN Desc(t) + SumDesc(S \ {t})

VARIABLES layer,     \* "raw" | "gob"
          passcred,  \* SO_PASSCRED on the receiving end
          q,         \* packets in flight, oldest first: [m, wire, descs]
          acc,       \* ids accepted by Send, in order
          dlv,       \* ids delivered to the receiving caller, in order
          lost,      \* ids the receiver consumed and rejected
          arrived, handed, closed,  \* descriptor ledger of the receiving process
          encKnown,  \* gob: types the encoder has described
          decKnown,  \* gob: types the decoder knows
          pend,      \* gob: types described by the encoder whose descriptors are not yet on the wire
          held       \* messages in the hands of the receiving caller: [orig, cur, seen]; orig = the message as it
                     \* was delivered, cur = what the caller finds in it now, seen = the caller has looked
svars == <<layer, passcred, q, acc, dlv, lost, arrived, handed, closed, encKnown, decKnown, pend, held>>

\* a message: [id, len, val, nfds, fds, cred, typ]; len = payload bytes (gob: of the Data field),
\* val = bytes of the gob value message, nfds = number of attached descriptors, fds = their
\* identities in order (any value; only compared), cred = <<>> or <<pid,uid,gid>>
HasOob(m) == m.nfds > 0 \/ m.cred # <<>>

Init ==
  /\ layer \in {"raw", "gob"} /\ passcred \in BOOLEAN
  /\ q = <<>> /\ acc = <<>> /\ dlv = <<>> /\ lost = {}
  /\ arrived = 0 /\ handed = 0 /\ closed = 0
  /\ encKnown = {} /\ decKnown = {} /\ pend = {} /\ held = <<>>

\* ------------------------------------------------------------------ sending
NewDesc(m)  == IF m.typ \in encKnown THEN {} ELSE {m.typ}
Carried(m)  == pend \cup NewDesc(m)
\* bytes on the wire.  raw: Go's syscall package sends one dummy byte when the payload is empty
\* and control data is attached (platform latitude, see design/C19.md)
Wire(m) == IF layer = "raw" THEN (IF m.len = 0 /\ HasOob(m) THEN 1 ELSE m.len)
           ELSE SumDesc(Carried(m)) + m.val

\* property layer: admissible outcomes of a send
SendOK(m, out) ==
  IF m.nfds > MaxFds THEN out = "rej"
  ELSE IF layer = "raw" THEN out = "ok"
  ELSE /\ (m.val > Cap => out = "rej")        \* cannot fit
       /\ (Wire(m) <= Cap => out = "ok")      \* fits together with every descriptor still owed to the decoder
       \* in between (fits only without the descriptors of earlier refused messages): either
\* implementation layer: size check on the encoded packet, then the kernel's check
SendImpl(m) ==
  IF layer = "gob" /\ Wire(m) > Cap THEN "rej"
  ELSE IF m.nfds > MaxFds THEN "rej" ELSE "ok"

Send(m, out) ==
  /\ SendOK(m, out)
  /\ IF out = "ok"
       THEN /\ q' = Append(q, [m |-> m, wire |-> Wire(m), descs |-> IF layer = "gob" THEN Carried(m) ELSE {}, bad |-> FALSE])
            /\ acc' = Append(acc, m.id)
            /\ pend' = {}
       ELSE /\ UNCHANGED <<q, acc>>
            /\ pend' = IF layer = "gob" /\ CarryDesc THEN Carried(m) ELSE {}
  /\ encKnown' = IF layer = "gob" THEN encKnown \cup {m.typ} ELSE encKnown
  /\ UNCHANGED <<layer, passcred, dlv, lost, arrived, handed, closed, decKnown, held>>

\* a packet on the connection that is not a message of the framed protocol (garbage, a cut gob stream, a
\* type described twice ...), possibly with descriptors attached: the receiving framed socket must reject
\* it as a whole -- nothing of it is ever delivered, its descriptors are closed, and every later message is
\* still delivered exactly as sent.  m.id identifies the packet, it is never in acc.
Inject(m) ==
  /\ layer = "gob" /\ m.nfds <= MaxFds
  /\ q' = Append(q, [m |-> m, wire |-> m.val, descs |-> {}, bad |-> TRUE])
  /\ UNCHANGED <<layer, passcred, acc, dlv, lost, arrived, handed, closed, encKnown, decKnown, pend, held>>

\* ------------------------------------------------------------------ receiving
\* a receive request: [rbuf, want, free]; want = "M" (a type the message decodes into) | "X" (none does);
\* free = number of free slots in the receiver's descriptor table (RLIMIT_NOFILE), -1 = plenty.
\* The kernel installs the first `free` descriptors of a message and flags the rest as cut (MSG_CTRUNC).
Room(p, r) == r.free < 0 \/ p.m.nfds <= r.free
Installed(p, r) == IF Room(p, r) THEN p.m.nfds ELSE r.free
RecvFits(p, r) == /\ ~p.bad
                  /\ Room(p, r)
                  /\ IF layer = "raw" THEN p.wire >= 1 /\ p.wire <= r.rbuf ELSE r.want # "X"
RecvOK(p, r, out) == out = IF RecvFits(p, r) THEN "ok" ELSE "rej"
Decodable(p) == p.m.typ \in decKnown \cup p.descs
RecvImpl(p, r) ==
  IF RejectCtrunc /\ ~Room(p, r) THEN "rej"                                       \* MSG_CTRUNC
  ELSE IF layer = "raw" THEN (IF p.wire = 0 \/ p.wire > r.rbuf THEN "rej" ELSE "ok")  \* EOF | MSG_TRUNC
  ELSE IF p.bad \/ ~Decodable(p) \/ r.want = "X" THEN "rej" ELSE "ok"

\* aliasing: the descriptor list / credentials of an earlier message show those of the newest one
Alias(h, m) == LET c == h.cur IN
               [h EXCEPT !.cur = [c EXCEPT !.fds  = IF c.nfds > 0 /\ m.nfds > 0 THEN m.fds ELSE c.fds,
                                           !.cred = IF c.cred # <<>> /\ m.cred # <<>> THEN m.cred ELSE c.cred]]
\* the caller looks at the j-th message it was handed (at any later time, in any order)
Inspect(j) ==
  /\ j \in DOMAIN held /\ ~held[j].seen
  /\ held' = [held EXCEPT ![j].seen = TRUE]
  /\ UNCHANGED <<layer, passcred, q, acc, dlv, lost, arrived, handed, closed, encKnown, decKnown, pend>>

Recv(r, out) ==
  /\ q # <<>>
  /\ LET p == Head(q) n == Installed(p, r) IN
       /\ RecvOK(p, r, out)
       /\ q' = Tail(q)
       /\ arrived' = arrived + n
       /\ IF out = "ok"
            THEN /\ dlv' = Append(dlv, p.m.id) /\ handed' = handed + n /\ UNCHANGED <<lost, closed>>
                 /\ held' = Append(IF ValueHandover THEN held ELSE [i \in DOMAIN held |-> Alias(held[i], p.m)],
                                   [orig |-> p.m, cur |-> p.m, seen |-> FALSE])
            ELSE /\ lost' = (IF p.bad THEN lost ELSE lost \cup {p.m.id}) /\ closed' = closed + (IF CloseOnReject THEN n ELSE 0)
                 /\ UNCHANGED <<dlv, handed, held>>
       \* the decoder sees the packet's bytes unless the socket layer dropped the packet
       /\ decKnown' = IF Room(p, r) \/ AbsorbDesc THEN decKnown \cup p.descs ELSE decKnown
  /\ UNCHANGED <<layer, passcred, acc, encKnown, pend>>

\* what the receiving caller must see when packet p is delivered
ExpCred(p, own) == IF ~passcred THEN <<>> ELSE IF p.m.cred = <<>> THEN own ELSE p.m.cred

\* ------------------------------------------------------------------ properties
InFlight == { q[i].m.id : i \in { j \in DOMAIN q : ~q[j].bad } }
Range(s) == { s[i] : i \in DOMAIN s }
\* in order: what was delivered is, in order, what was accepted minus what the receiver refused
InOrder == dlv = SelectSeq(acc, LAMBDA i : i \notin lost /\ i \notin InFlight)
\* whole or not at all: every accepted message is in flight, delivered or refused -- exactly one of them
Whole == /\ Range(acc) = InFlight \cup Range(dlv) \cup lost
         /\ Len(acc) = Cardinality(InFlight) + Len(dlv) + Cardinality(lost)
LedgerBalanced == arrived = handed + closed
\* a delivered message is immutable: whatever happens on the socket afterwards, the caller finds in it the
\* descriptors (same files, same order) and the credentials it was delivered with
DeliveredImmutable == \A j \in DOMAIN held : held[j].cur = held[j].orig
\* every packet in flight and every future packet can be decoded
StreamInSync ==
  layer = "gob" =>
    /\ encKnown \subseteq decKnown \cup pend \cup UNION { q[i].descs : i \in DOMAIN q }
    /\ \A i \in DOMAIN q : ~q[i].bad => q[i].m.typ \in decKnown \cup UNION { q[j].descs : j \in 1..i }
=============================================================================
