------------------------------- MODULE Memfd -------------------------------
(* C13, second half: state machine of a memfd handed out by DupToMemfd and       *)
(* attacked by anybody holding the descriptor or a path to it.                   *)
(* Checked: with the four seals DupToMemfd applies no sequence of attempts ever  *)
(* changes size, content or seals (Immutable); each of the four is needed.       *)
EXTENDS MemfdDefs, TLC
CONSTANTS Seals0, Sizes
VARIABLES st, size0
mvars == <<st, size0>>

MInit == /\ size0 \in Sizes
         /\ st \in { [size |-> size0, content |-> "orig", seals |-> Seals0, pos |-> 0, exec |-> ex] : ex \in BOOLEAN }
Attempt(op) == /\ st' \in Effect(op, KernelRes(op, st), st) /\ UNCHANGED size0
ExecToggle == /\ st' = [st EXCEPT !.exec = ~@] /\ UNCHANGED size0      \* a program starts / ends
MNext == (\E op \in Ops : Attempt(op)) \/ ExecToggle
MSpec == MInit /\ [][MNext]_mvars

Immutable == Frozen(st, size0, Seals0)
Bound == st.size <= 20000
ASSUME \A s \in Required : Needed(s)
=============================================================================
