----------------------------- MODULE OpenLedger -----------------------------
(***************************************************************************)
(* C12 (descriptor ledger of container.Open): every descriptor that        *)
(* arrives in the host with an Open reply is either handed to the caller   *)
(* or closed -- also when the transport is lost (init killed, Destroy)     *)
(* while the reply is on its way.  Shaped after host_cmd_linux.go Open,    *)
(* environment_linux.go recvLoop / recvReply / Destroy and                 *)
(* container_cmd_linux.go handleOpen / sendReplyFiles.                     *)
(*   where a reply with descriptors can be:                                 *)
(*     "init"   files opened by init, reply not yet written                 *)
(*     "wire"   in the socket queue (the kernel holds the references)       *)
(*     "held"   received by the host recvLoop (descriptors installed in the *)
(*              host's table), not yet pushed to recvCh                     *)
(*     "queued" in recvCh                                                   *)
(*     "caller" taken by Open and wrapped into *os.File (or closed by it)   *)
(*     "closed" closed by someone                                           *)
(* DrainOnDestroy: Destroy closes the descriptors of a reply that nobody    *)
(* will take any more (fix).                                                *)
(***************************************************************************)
EXTENDS Naturals
CONSTANTS DrainOnDestroy
VARIABLES apc,      \* API goroutine: "recv" (waiting in recvReply) | "returned"
          where,    \* see above
          done,     \* c.done closed
          sockOpen, \* host socket open
          rl,       \* recvLoop: "run" | "exit"
          destroyed
vars == <<apc, where, done, sockOpen, rl, destroyed>>
Init == apc = "recv" /\ where = "init" /\ done = FALSE /\ sockOpen = TRUE /\ rl = "run" /\ destroyed = FALSE

InitSends == where = "init" /\ where' = "wire" /\ UNCHANGED <<apc, done, sockOpen, rl, destroyed>>
\* init dies before sending: its files die with it
InitDiesEarly == where = "init" /\ where' = "closed" /\ UNCHANGED <<apc, done, sockOpen, rl, destroyed>>
RecvLoopGets == rl = "run" /\ sockOpen /\ where = "wire" /\ where' = "held" /\ UNCHANGED <<apc, done, sockOpen, rl, destroyed>>
RecvLoopPush == rl = "run" /\ where = "held" /\ where' = "queued" /\ UNCHANGED <<apc, done, sockOpen, rl, destroyed>>
\* end of stream / closed socket seen by the receive loop (init died after sending, or Destroy)
RecvLoopErr == rl = "run" /\ where \notin {"held"} /\ (~sockOpen \/ where # "init")
               /\ rl' = "exit" /\ done' = TRUE
               /\ where' = (IF where = "wire" /\ ~sockOpen THEN "closed" ELSE where)   \* never received: kernel drops it
               /\ UNCHANGED <<apc, sockOpen, destroyed>>
\* recvReply: done has priority; otherwise the reply
ApiTakes == apc = "recv" /\ ~done /\ where = "queued" /\ where' = "caller" /\ apc' = "returned" /\ UNCHANGED <<done, sockOpen, rl, destroyed>>
ApiFails == apc = "recv" /\ done /\ apc' = "returned" /\ UNCHANGED <<where, done, sockOpen, rl, destroyed>>
Destroy == ~destroyed /\ destroyed' = TRUE /\ sockOpen' = FALSE /\ UNCHANGED <<apc, where, done, rl>>
\* Destroy, after the call has returned (it holds c.mu) and the loops are gone: release what is left
Drain == DrainOnDestroy /\ destroyed /\ apc = "returned" /\ rl = "exit" /\ where = "queued"
         /\ where' = "closed" /\ UNCHANGED <<apc, done, sockOpen, rl, destroyed>>
\* Destroy kills init; whatever never reached the host is released by the kernel
Teardown == destroyed /\ rl = "exit" /\ where \in {"init", "wire"} /\ where' = "closed" /\ UNCHANGED <<apc, done, sockOpen, rl, destroyed>>
Next == Teardown \/ InitSends \/ InitDiesEarly \/ RecvLoopGets \/ RecvLoopPush \/ RecvLoopErr \/ ApiTakes \/ ApiFails \/ Destroy \/ Drain
Spec == Init /\ [][Next]_vars /\ WF_vars(Next)
\* once the environment has been destroyed and everything has come to rest, no descriptor is left in limbo
Quiescent == destroyed /\ apc = "returned" /\ rl = "exit" /\ ~ENABLED Drain /\ ~ENABLED Teardown
NoLimbo == Quiescent => where \in {"caller", "closed"}
=============================================================================
