INIT Init
NEXT Next
