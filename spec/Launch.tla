------------------------------- MODULE Launch -------------------------------
(* C04 / C07: pkg/forkexec Runner.Start as a state machine.                  *)
(*                                                                           *)
(*   parent  = fork_linux.go  Start / syncWithChild / handleChildFailed      *)
(*   child   = fork_child_linux.go forkAndExecInChild, one action per step of *)
(*             LaunchSteps!ChildPath(opt) (the code's guards), program        *)
(*             counter ci                                                     *)
(*   socket  = the SOCK_STREAM socketpair: two FIFO queues + "end is open"    *)
(*                                                                           *)
(* Every initial state is one configuration: option record x launcher         *)
(* securebits.  With FailMode = "all" every fallible step may fail            *)
(* nondeterministically (at most one failure per behaviour; fail records      *)
(* which one), and the callback may return an error (cbres).  Kernel refusals *)
(* that follow from the state (LaunchSteps!Refused) happen on their own.      *)
EXTENDS LaunchSteps, TLC

CONSTANTS Sites,      \* subset of 0..511 : site-flag combinations explored
          Rows,       \* subset of 0..511 : namespace / environment rows explored
          FailMode,   \* "none" | "all"
          Lsbs        \* set of launcher securebit sets

VARIABLES opt, lsb, fail, cbres, path,   \* path = ChildPath(opt), fixed at Init (cheap lookup)
          ci, cx, cstat,             \* child: index into the path, kernel state, none|alive|stopped|run|zombie|gone
          ppc, err2, perr, mapped,   \* parent: pc, id-map result word, pending error, maps written
          c2p, p2c, pend, cend,      \* socket queues; parent end open; child end open
          cbn, execed, reaped, ret   \* observables
vars == <<opt, lsb, fail, cbres, path, ci, cx, cstat, ppc, err2, perr, mapped, c2p, p2c, pend, cend, cbn, execed, reaped, ret>>

NoFail == [step |-> "none", idx |-> 0]
Word(e) == [k |-> "word", loc |-> "", idx |-> 0, e |-> e]
CErr(loc, idx, e) == [k |-> "cerr", loc |-> loc, idx |-> idx, e |-> e]
NoRet == [kind |-> "none", loc |-> "", idx |-> 0, e |-> ""]
OkRet == [kind |-> "ok", loc |-> "", idx |-> 0, e |-> ""]
ErrRet(loc, idx, e) == [kind |-> "err", loc |-> loc, idx |-> idx, e |-> e]

Path == path
Cur  == IF ci \in 1..Len(Path) THEN Path[ci] ELSE "-"

\* failure injection: at most one, only with FailMode = "all"
MayFail == FailMode = "all" /\ fail = NoFail
\* the ways step n can fail: [step, idx]
FailChoices(n) ==
  IF n \in {"mounts", "rlimits"}
  THEN { [step |-> m, idx |-> i] : m \in (IF n = "mounts" THEN {"mounts", "mounts_mkdir"} ELSE {"rlimits"}), i \in {0, 1} }
  ELSE { [step |-> n, idx |-> 0] }
FailLoc(f) == IF f.step = "mounts_mkdir" THEN "mount(mkdir)" ELSE CodeLoc(f.step)

\* the credential / gid-mapping dimension (LaunchSteps!MkOptX) only touches the setgroups step, whose
\* place does not depend on ptrace, stop or pivot: it is multiplied into the credential sites without those
XOk(s, x) == x = 0 \/ (Bit(s, 0) /\ ~Bit(s, 4) /\ ~Bit(s, 5) /\ ~Bit(s, 8))

\* the UTS dimension (LaunchSteps!MkOptXY) only touches the two name steps: multiplied into the UTS rows of
\* the sites without ptrace, stop, pivot, sync
YOk(s, r, y) == y = YDefault \/ (Bit(r, 3) /\ ~Bit(s, 4) /\ ~Bit(s, 5) /\ ~Bit(s, 6) /\ ~Bit(s, 8))

Init ==
  /\ opt \in UNION { { MkOptXY(s, r, y, w) : y \in { z \in 0..7 : XOk(s, z) }, w \in { z \in 0..8 : YOk(s, r, z) } } : s \in Sites, r \in Rows }
  /\ lsb \in Lsbs
  /\ path = ChildPath(opt)
  /\ fail = NoFail
  /\ cbres = "none"
  /\ ci = 0 /\ cx = Born(opt, lsb) /\ cstat = "none"
  /\ ppc = "clone" /\ err2 = "0" /\ perr = NoRet /\ mapped = FALSE
  /\ c2p = <<>> /\ p2c = <<>> /\ pend = TRUE /\ cend = TRUE
  /\ cbn = 0 /\ execed = FALSE /\ reaped = FALSE /\ ret = NoRet

-----------------------------------------------------------------------------
\* child
CUnch == UNCHANGED <<opt, lsb, cbres, path, ppc, err2, perr, mapped, pend, cbn, reaped, ret>>
CanRun == cstat = "alive" /\ ci \in 1..Len(Path)

\* childExitError: error record on the socket, then exit (fork_child_linux.go:523)
ChildDie(loc, idx, e) ==
  /\ c2p' = IF pend THEN Append(c2p, CErr(loc, idx, e)) ELSE c2p
  /\ cstat' = "zombie" /\ cend' = FALSE
  /\ UNCHANGED <<ci, cx, p2c, execed>>

\* the injected failure of the current step
Inject ==
  /\ MayFail /\ Fallible(Cur)
  /\ \E f \in FailChoices(Cur) : fail' = f /\ ChildDie(FailLoc(f), f.idx, "E")

Comm == {"userns_read", "syncA_write", "syncA_read", "syncB_write", "syncB_read", "stop", "exec"}

\* a step that talks to nobody
CLocal ==
  /\ CanRun /\ Cur \notin Comm
  /\ \/ Inject
     \/ /\ UNCHANGED fail
        /\ IF Refused(Cur, opt, cx) /\ Fallible(Cur) THEN ChildDie(CodeLoc(Cur), 0, "EPERM")
           ELSE /\ cx' = Effect(Cur, opt, cx) /\ ci' = ci + 1
                /\ UNCHANGED <<cstat, c2p, p2c, cend, execed>>
  /\ CUnch

\* fork_child_linux.go:86 wait for the parent's id-map word
CUsernsRead ==
  /\ CanRun /\ Cur = "userns_read"
  /\ \/ /\ p2c # <<>>
        /\ UNCHANGED fail
        /\ IF Head(p2c).e = "0"
           THEN ci' = ci + 1 /\ p2c' = Tail(p2c) /\ UNCHANGED <<cx, cstat, c2p, cend, execed>>
           ELSE /\ c2p' = IF pend THEN Append(c2p, CErr("unshare_user_read", 0, Head(p2c).e)) ELSE c2p
                /\ p2c' = Tail(p2c) /\ cstat' = "zombie" /\ cend' = FALSE /\ UNCHANGED <<ci, cx, execed>>
     \/ /\ p2c = <<>> /\ ~pend /\ UNCHANGED fail
        /\ ChildDie("unshare_user_read", 0, "EINVAL")
  /\ CUnch

CSyncWrite ==
  /\ CanRun /\ Cur \in {"syncA_write", "syncB_write"}
  /\ \/ Inject
     \/ /\ c2p' = IF pend THEN Append(c2p, Word("0")) ELSE c2p
        /\ ci' = ci + 1 /\ UNCHANGED <<fail, cx, cstat, p2c, cend, execed>>
  /\ CUnch

\* blocks until the ack arrives or the parent's end is closed (r1 = 0: exits, location sync_read)
CSyncRead ==
  /\ CanRun /\ Cur \in {"syncA_read", "syncB_read"}
  /\ \/ /\ p2c # <<>>
        /\ p2c' = Tail(p2c) /\ ci' = ci + 1 /\ UNCHANGED <<fail, cx, cstat, c2p, cend, execed>>
     \/ /\ p2c = <<>> /\ ~pend /\ UNCHANGED fail
        /\ ChildDie("sync_read", 0, "0")
  /\ CUnch

\* kill(getpid(), SIGSTOP).  Kernel rule: the init of a pid namespace ignores a SIGSTOP it sends to
\* itself unless it is traced.
CStop ==
  /\ CanRun /\ Cur = "stop"
  /\ \/ Inject
     \/ /\ ci' = ci + 1
        /\ cstat' = IF opt.pid /\ ~cx.traced THEN "alive" ELSE "stopped"
        /\ UNCHANGED <<fail, cx, c2p, p2c, cend, execed>>
  /\ CUnch

\* the caller (tracer / job-control parent) continues the stopped child; it knows the pid only
\* once Start has returned
Resume ==
  /\ cstat = "stopped" /\ ret.kind = "ok"
  /\ cstat' = "alive"
  /\ UNCHANGED <<fail, ci, cx, c2p, p2c, cend, execed>> /\ CUnch

\* execve: the close-on-exec socket end vanishes
CExec ==
  /\ CanRun /\ Cur = "exec"
  /\ \/ Inject
     \/ /\ cx' = ExecRule(cx) /\ cstat' = "run" /\ execed' = TRUE /\ cend' = FALSE /\ ci' = ci + 1
        /\ UNCHANGED <<fail, c2p, p2c>>
  /\ CUnch

Child == CLocal \/ CUsernsRead \/ CSyncWrite \/ CSyncRead \/ CStop \/ CExec

-----------------------------------------------------------------------------
\* parent.  With CLONE_VFORK it is suspended until the child has exec'd or died.
PFree == ~(Vfork(opt) /\ cstat \in {"alive", "stopped"})
PUnch == UNCHANGED <<opt, lsb, path>>
PUnchF == UNCHANGED <<fail, cbres>> /\ PUnch
AfterMap == IF opt.sync THEN "sync_read" ELSE "post_sync"

PClone ==
  /\ ppc = "clone"
  /\ \/ /\ MayFail /\ fail' = [step |-> "clone", idx |-> 0]
        /\ ret' = ErrRet("clone", 0, "E") /\ ppc' = "done" /\ pend' = FALSE /\ cend' = FALSE
        /\ UNCHANGED <<ci, cx, cstat>>
     \/ /\ ci' = 1 /\ cx' = Born(opt, lsb) /\ cstat' = "alive" /\ ppc' = "close_p1"
        /\ UNCHANGED <<fail, ret, pend, cend>>
  /\ UNCHANGED <<cbres, err2, perr, mapped, c2p, p2c, cbn, execed, reaped>> /\ PUnch

PCloseP1 ==
  /\ ppc = "close_p1" /\ PFree
  /\ ppc' = IF opt.user THEN "idmap" ELSE AfterMap
  /\ UNCHANGED <<ci, cx, cstat, err2, perr, mapped, c2p, p2c, pend, cend, cbn, execed, reaped, ret>> /\ PUnchF

\* fork_linux.go:83 writeIDMaps, then the result word
PIdmap ==
  /\ ppc = "idmap"
  /\ \/ MayFail /\ fail' = [step |-> "idmap", idx |-> 0] /\ err2' = "EINVAL" /\ mapped' = FALSE
     \/ err2' = "0" /\ mapped' = TRUE /\ UNCHANGED fail
  /\ ppc' = "idmap_word"
  /\ UNCHANGED <<cbres, ci, cx, cstat, perr, c2p, p2c, pend, cend, cbn, execed, reaped, ret>> /\ PUnch

PIdmapWord ==
  /\ ppc = "idmap_word"
  /\ p2c' = IF cend THEN Append(p2c, Word(err2)) ELSE p2c
  /\ ppc' = AfterMap
  /\ UNCHANGED <<ci, cx, cstat, err2, perr, mapped, c2p, pend, cend, cbn, execed, reaped, ret>> /\ PUnchF

\* fork_linux.go:93 wait for the child's sync word
PSyncRead ==
  /\ ppc = "sync_read"
  /\ \/ /\ c2p # <<>>
        /\ c2p' = Tail(c2p)
        /\ IF Head(c2p).e = "0" THEN ppc' = "callback" /\ UNCHANGED perr
           ELSE perr' = ErrRet(Head(c2p).loc, Head(c2p).idx, Head(c2p).e) /\ ppc' = "fail"
     \/ /\ c2p = <<>> /\ ~cend            \* n = 0: handlePipeError -> EPIPE, location 0
        /\ perr' = ErrRet("unknown", 0, "EPIPE") /\ ppc' = "fail" /\ UNCHANGED c2p
  /\ UNCHANGED <<ci, cx, cstat, err2, mapped, p2c, pend, cend, cbn, execed, reaped, ret>> /\ PUnchF

PCallback ==
  /\ ppc = "callback"
  /\ cbn' = cbn + 1
  /\ \/ FailMode = "all" /\ cbres' = "err" /\ perr' = ErrRet("callback", 0, "cb") /\ ppc' = "fail"
     \/ cbres' = "ok" /\ ppc' = "ack" /\ UNCHANGED perr
  /\ UNCHANGED <<fail, ci, cx, cstat, err2, mapped, c2p, p2c, pend, cend, execed, reaped, ret>> /\ PUnch

PAck ==
  /\ ppc = "ack"
  /\ p2c' = IF cend THEN Append(p2c, Word("0")) ELSE p2c
  /\ ppc' = "post_sync"
  /\ UNCHANGED <<ci, cx, cstat, err2, perr, mapped, c2p, pend, cend, cbn, execed, reaped, ret>> /\ PUnchF

\* fork_linux.go:107 early return when the child is going to stop before exec
PPostSync ==
  /\ ppc = "post_sync" /\ PFree
  /\ IF Early(opt) THEN ret' = OkRet /\ ppc' = "done" ELSE ppc' = "exec_read" /\ UNCHANGED ret
  /\ UNCHANGED <<ci, cx, cstat, err2, perr, mapped, c2p, p2c, pend, cend, cbn, execed, reaped>> /\ PUnchF

\* fork_linux.go:117 EOF = exec succeeded, anything else = a step failed
PExecRead ==
  /\ ppc = "exec_read" /\ PFree
  /\ \/ /\ c2p # <<>>
        /\ perr' = ErrRet(Head(c2p).loc, Head(c2p).idx, IF Head(c2p).e = "0" THEN "E0" ELSE Head(c2p).e)
        /\ c2p' = Tail(c2p) /\ pend' = FALSE /\ ppc' = "kill" /\ UNCHANGED ret
     \/ /\ c2p = <<>> /\ ~cend
        /\ pend' = FALSE /\ ret' = OkRet /\ ppc' = "done" /\ UNCHANGED <<perr, c2p>>
  /\ UNCHANGED <<ci, cx, cstat, err2, mapped, p2c, cend, cbn, execed, reaped>> /\ PUnchF

PFail ==
  /\ ppc = "fail"
  /\ pend' = FALSE /\ ppc' = "kill"
  /\ UNCHANGED <<ci, cx, cstat, err2, perr, mapped, c2p, p2c, cend, cbn, execed, reaped, ret>> /\ PUnchF

\* handleChildFailed: SIGKILL, then wait4
PKill ==
  /\ ppc = "kill"
  /\ IF cstat \in {"alive", "stopped", "run"} THEN cstat' = "zombie" /\ cend' = FALSE ELSE UNCHANGED <<cstat, cend>>
  /\ ppc' = "wait"
  /\ UNCHANGED <<ci, cx, err2, perr, mapped, c2p, p2c, pend, cbn, execed, reaped, ret>> /\ PUnchF

PWait ==
  /\ ppc = "wait" /\ cstat = "zombie"
  /\ cstat' = "gone" /\ reaped' = TRUE /\ ppc' = "ret"
  /\ UNCHANGED <<ci, cx, err2, perr, mapped, c2p, p2c, pend, cend, cbn, execed, ret>> /\ PUnchF

PRet ==
  /\ ppc = "ret"
  /\ ret' = perr /\ ppc' = "done"
  /\ UNCHANGED <<ci, cx, cstat, err2, perr, mapped, c2p, p2c, pend, cend, cbn, execed, reaped>> /\ PUnchF

\* The launching process dies (os.Exit / fatal in the callback, SIGKILL, ...): its socket end closes with
\* NO ack and nobody kills the child.  The parent's side of a sync site thus has three outcomes: ack
\* written (PAck), error -> close + kill (PFail/PKill), socket closed without ack (PCrash).
\* cbres = "ok" afterwards iff the approval had already been given.
PCrash ==
  /\ FailMode = "all" /\ ppc \notin {"clone", "done", "dead"}
  /\ ppc' = "dead" /\ pend' = FALSE
  /\ cbres' = IF ppc \in {"post_sync", "exec_read"} \/ cbres = "err" THEN cbres ELSE "crash"
  /\ UNCHANGED <<fail, ci, cx, cstat, err2, perr, mapped, c2p, p2c, cend, cbn, execed, reaped, ret>> /\ PUnch

Parent == PClone \/ PCloseP1 \/ PIdmap \/ PIdmapWord \/ PSyncRead \/ PCallback \/ PAck \/ PPostSync
          \/ PExecRead \/ PFail \/ PKill \/ PWait \/ PRet

Next == Child \/ Parent \/ Resume \/ PCrash
Spec == Init /\ [][Next]_vars /\ WF_vars(Next)

-----------------------------------------------------------------------------
\* C04
\* the program's first instruction is reached only in the requested security state
InvPost == cstat = "run" => Post(opt, cx)
\* the pure fold used by the judge agrees with the machine
InvFinal == (cstat = "run" /\ lsb = {}) => cx = Final(opt)
\* every option set is startable: the kernel refuses nothing the code does (launcher = root with default securebits)
InvAccepted == (fail = NoFail /\ cbres \notin {"err", "crash"} /\ lsb = {}) => cstat \notin {"zombie", "gone"}
InvRefusalFold == (ci = 0 /\ fail = NoFail /\ lsb = {}) => FirstRefusal(opt, lsb) = "none"
Starts == (FailMode = "none" /\ lsb = {} /\ ~HangCombo(opt)) => <>(cstat = "run")

\* C07
\* the callback runs while the child is blocked in its sync read, not yet exec'd, and only once
CallbackBeforeExec == [][cbn' # cbn => (~execed' /\ cstat' = "alive" /\ Cur' \in {"syncA_read", "syncB_read"})]_vars
CallbackOnce == cbn <= 1
\* execed => approved: with a callback configured the target's first instruction is reached only after the
\* callback ran once and returned nil and the launcher lived to send the ack
ExecNeedsApproval == (execed /\ opt.sync) => (cbn = 1 /\ cbres = "ok")
\* an error return means the program never ran and never will, and the child is reaped
FailedNeverRuns == ret.kind = "err" => ~execed
FailedStaysDead == [][ret.kind = "err" => ~execed']_vars
ReapedAtReturn == (ret.kind = "err" /\ ret.loc # "clone") => (reaped /\ cstat = "gone")
\* the returned error names the step that failed
Mislabelled == {"dropB_secbits", "dropC_secbits"}
ErrorNamesStep ==
  ret.kind = "err" =>
     \/ cbres = "err" /\ ret.loc = "callback"
     \/ fail.step \notin ({"none"} \cup Mislabelled) /\ ret.loc = LocOf(fail.step) /\ ret.idx = fail.idx
     \/ fail.step \in Mislabelled /\ ret.loc = CodeLoc(fail.step)
     \/ lsb # {} /\ fail = NoFail /\ cbres # "err" /\ ret.loc = CodeLoc(FirstRefusal(opt, lsb))
\* a failing step is reported whenever Start waits for the exec (not the early-return modes)
FailureReported ==
  (ppc = "done" /\ fail.step # "none" /\ ~Early(opt) /\ cbres # "err") => ret.kind = "err"
\* the pure predicate the C07 judge uses agrees with the machine
ReportedAgrees == (ppc = "done" /\ fail # NoFail /\ cbres # "err") => ((ret.kind = "err") <=> Reported(opt, fail))
\* Start returns (except in the known hang)
Returns == HangCombo(opt) \/ <>(ppc \in {"done", "dead"})
\* ... and the known hang is a real one: Start never returns
HangIsReal == (HangCombo(opt) /\ FailMode = "none" /\ lsb = {}) => [](ppc # "done")
=============================================================================
