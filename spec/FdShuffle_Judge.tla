-------------------------- MODULE FdShuffle_Judge --------------------------
(* TLC as judge for C06 observation lines written by `fdshuffle run` and        *)
(* `fdshuffle container` (property layer only; the step traces are validated by  *)
(* FdShuffle_Trace).                                                             *)
(*                                                                               *)
(* obs.ndjson (direct forkexec.Runner.Start, two starts of one Runner value):    *)
(*   [id, cfg |-> [files, exec, par, pipe, vfork], cg, setup,                    *)
(*    pre  |-> << [fd, id, cx] >>   the launching process's table before Start   *)
(*    sock |-> <<a, b>>             its two lowest free numbers                  *)
(*    st   |-> << [rbx, rbf, rbc, rax, raf, rac, err, ran, got, pid, sta] >> ]   *)
(*   rb* / ra* = Runner.ExecFile, Files, CgroupFd before / after the call,       *)
(*   got = the descriptor table the started program reported.                    *)
(* ctobs.ndjson (container.Environment.Execve, two calls with one parameter):    *)
(*   [id, ct |-> [files (indices of distinct host files), fdexec, cg, after],    *)
(*    setup, st]                                                                 *)
(*                                                                               *)
(* Verdicts per start: "ok", or                                                  *)
(*   startfail  a valid configuration was not started                            *)
(*   extra / missing / wrong / flags   FdTable!TableVerdict of the program table *)
(*   norun      start reported success but the program did not report (set-up)   *)
(* and per start "callermod" when the caller's configuration differs after the   *)
(* call.                                                                         *)
EXTENDS FdTable, TLC, Json

Obs   == ndJsonDeserialize("obs.ndjson")
CtObs == ndJsonDeserialize("ctobs.ndjson")

Fds(ents) == { e.fd : e \in Range(ents) }
TabOf(ents, top) ==
  [n \in 0..top |-> IF \E e \in Range(ents) : e.fd = n
                      THEN LET e == CHOOSE x \in Range(ents) : x.fd = n IN Ent(e.id, e.cx = 1)
                      ELSE Closed]
SrcId(n) == "s" \o ToString(n)

StartVerdict(ids, s, top) ==
  IF s.err # "" THEN "startfail"
  ELSE IF s.ran = 0 THEN "norun"
  ELSE TableVerdict(ids, TabOf(s.got, top))
CallerVerdict(s) ==
  IF s.raf = s.rbf /\ s.rax = s.rbx /\ s.rac = s.rbc THEN "ok" ELSE "callermod"

\* ---- direct cases
Top(o) == Max({Len(o.cfg.files), o.cfg.pipe + 1} \cup Fds(o.pre)
              \cup UNION { Fds(s.got) : s \in Range(o.st) })
KnownPre(e) == e.id \in {"null", "exe", "out", "cg"} \/ e.id = SrcId(e.fd)
\* the case was arranged as the configuration says (kernel's word: fstat of every number)
SetupOK(o, pre) ==
  /\ o.setup = "ok" /\ Len(o.st) = 2
  /\ \A e \in Range(o.pre) : e.cx = 1 /\ KnownPre(e)          \* every descriptor of the caller is close-on-exec
  /\ Low2(pre) = <<o.cfg.par, o.cfg.pipe>> /\ o.sock = <<o.cfg.par, o.cfg.pipe>>
  /\ \A k \in 1..Len(o.cfg.files) :                           \* every listed number holds its own distinct file
       LET n == o.cfg.files[k] IN
       n >= 0 => pre[n].f = (IF o.cfg.exec > 0 /\ n = o.cfg.exec THEN "exe" ELSE SrcId(n))
  /\ (o.cfg.exec > 0 => pre[o.cfg.exec].f = "exe")
  /\ (o.cg > 0 => pre[o.cg].f = "cg")
  /\ o.st[1].rbf = o.cfg.files /\ o.st[1].rbx = o.cfg.exec /\ o.st[1].rbc = o.cg
  /\ \A k \in 1..2 : o.st[k].err = "" => o.st[k].ran = 1
JudgeDirect(o) ==
  LET top == Top(o)
      pre == TabOf(o.pre, top)
  IN IF ~SetupOK(o, pre) THEN [setup |-> "bad", v |-> <<"-", "-">>, c |-> <<"-", "-">>]
     ELSE LET ids == WantedIds(o.cfg.files, pre) IN
          [setup |-> "ok",
           v |-> [k \in 1..2 |-> StartVerdict(ids, o.st[k], top)],
           c |-> [k \in 1..2 |-> CallerVerdict(o.st[k])]]

\* ---- container cases
CtTop(o) == Max({Len(o.ct.files)} \cup UNION { Fds(s.got) : s \in Range(o.st) })
CtIds(o) == [k \in 1..Len(o.ct.files) |-> SrcId(o.ct.files[k])]
CtSetupOK(o) == /\ o.setup = "ok" /\ Len(o.st) = 2
                /\ \A k \in 1..2 : o.st[k].err = "" => o.st[k].ran = 1
JudgeCt(o) ==
  IF ~CtSetupOK(o) THEN [setup |-> "bad", v |-> <<"-", "-">>, c |-> <<"-", "-">>]
  ELSE [setup |-> "ok",
        v |-> [k \in 1..2 |-> StartVerdict(CtIds(o), o.st[k], CtTop(o))],
        c |-> [k \in 1..2 |-> CallerVerdict(o.st[k])]]

Line(kind, i, j) == [kind |-> kind, i |-> i, setup |-> j.setup,
                     v1 |-> j.v[1], v2 |-> j.v[2], c1 |-> j.c[1], c2 |-> j.c[2]]
LinesD == { Line("direct", i, JudgeDirect(Obs[i])) : i \in DOMAIN Obs }
LinesC == { Line("ct", i, JudgeCt(CtObs[i])) : i \in DOMAIN CtObs }
IsBad(ln) == ~(ln.setup = "ok" /\ ln.v1 = "ok" /\ ln.v2 = "ok" /\ ln.c1 = "ok" /\ ln.c2 = "ok")
BadLines == SetToSeq({ ln \in LinesD : IsBad(ln) }) \o SetToSeq({ ln \in LinesC : IsBad(ln) })
ASSUME ndJsonSerialize("bad.ndjson", BadLines)
ASSUME PrintT(<<"judged", Len(Obs), Len(CtObs), Len(BadLines)>>)
VARIABLE x
Init == x = 0
Next == UNCHANGED x
=============================================================================
