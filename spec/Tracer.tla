------------------------------- MODULE Tracer -------------------------------
(* C03 / C15 (later C09 C11 C16): the ptrace event loop of go-sandbox            *)
(* (ptracer/tracer_track_linux.go: trace(), handle(), handleTrap()) together     *)
(* with the tracee tree it supervises and the kernel as an event source.         *)
(*                                                                               *)
(* IMPLEMENTATION LAYER.  Tracer actions T_* are one per critical step of the    *)
(* code (wait4, PTRACE_SETOPTIONS on a first stop, handleTrap = GETREGSET +       *)
(* Handler.Handle + SETREGS for a ban, PtraceCont, return + killAll).  Kernel     *)
(* actions K_* move the tasks: every ptrace stop is one pending event per task   *)
(* that the tracer has to collect with wait4 and answer with PtraceCont.         *)
(*                                                                               *)
(* PROPERTY LAYER = the invariants at the end (Enforced.., C15..) over the          *)
(* observable variables executed / rets / trapped / result.                      *)
(*                                                                               *)
(* Kernel behaviour is an ASSUMPTION of this module (cross-checked by validating *)
(* hook-recorded traces of real runs against it, Tracer_Trace):                   *)
(*  - an auto-attached child starts with a SIGSTOP signal-delivery-stop and       *)
(*    inherits the ptrace options of its creator;                                 *)
(*  - re-injecting SIGSTOP at a signal-delivery-stop produces a group-stop which  *)
(*    is reported as a second stop (and stops the sibling threads once);          *)
(*  - the signal argument of PtraceCont is honoured only at signal-delivery-stops;*)
(*  - SECCOMP_RET_TRACE stops the task before the syscall runs; on resume the     *)
(*    syscall is skipped iff the tracer wrote orig_rax = -1, and then returns the *)
(*    rax the tracer wrote;                                                       *)
(*  - a task killed while it sits in a ptrace stop makes every later ptrace       *)
(*    request on it fail with ESRCH; its death is reported by wait4;              *)
(*  - a zombie thread-group leader is reported only after its other threads;      *)
(*  - the real parent's wait4 for a traced child returns after the tracer reaped. *)
EXTENDS TracerCases

CONSTANTS EsrchFatal,   \* TRUE = tree before the fix: ESRCH from a ptrace request ends the run
          ChildSigsysIgnored,  \* TRUE = tree before the fix: a filter-killed child process does not end the run
          ClenPanics,   \* TRUE = tree before the fix: a full path buffer without NUL panics the tracer
          Noise,        \* TRUE = model SIGCHLD to parents and group-stop participation of sibling threads
          AnyDecision   \* TRUE = C15: the handler's answer is arbitrary (tracee memory unreadable / garbage)

BanRet == 13
EEXIST == 17
SIGTRAP == 5   SIGKILL == 9   SIGUSR1 == 10   SIGCHLD == 17   SIGSTOP == 19   SIGSYS == 31

VARIABLES
  script, dec, par, knd, ldr, \* the case (constant during a behaviour); ldr = thread-group leader of each task
  ts,       \* [task -> "unborn","run","stop" (stopped, not yet reported),"held" (reported, waiting for the tracer),"zombie","dead"]
  ev,       \* [task -> [t, x]] the pending / reported event of a stop or the exit status of a zombie
  pc,       \* [task -> index of the current op]
  sub,      \* [task -> "" | "in" (inside a traced call) | "sp" (spawn issued) | "sq" (signal queued)]
  pend,     \* [task -> set of pending signals (other than SIGCHLD)]
  nchld,    \* [leader -> pending SIGCHLD notifications of that process, 0..2] (a stop and an exit of a child may be taken separately)
  gtok,     \* [task -> group-stop participations still owed]
  regs,     \* [task -> [skip, ret, d]] what the tracer wrote into the registers during the current seccomp
            \*   stop, and the handler's answer for this call ("none" = the handler was not asked)
  opts,     \* [task -> BOOLEAN] PTRACE_O_TRACE{FORK,VFORK,CLONE,SECCOMP,EXEC} in force
  scnt,     \* [task -> number of SIGUSR1 handler runs during the current S op]
  lph,      \* launcher phase of task 1: "raise","stopped","prog"
  esc,      \* [task -> BOOLEAN] left the process group (setsid)
  \* tracer
  tpc,      \* "wait","setopt","trap","cont","fin","done"
  cur,      \* task whose wait status is being handled
  csig,     \* signal the pending PtraceCont will pass
  traced,   \* set of tasks whose first stop was seen (ph.traced)
  execved,  \* ph.execved
  result,   \* [status, exit] or NoResult
  \* observables (property layer)
  executed, \* markers whose call really ran
  uexec,    \* untraced calls that ran
  rets,     \* [task -> sequence of [i, op, ret]] what the program saw (its own log)
  trapped   \* sequence of [m, act] handler consultations

kvars == <<ts, ev, pc, sub, pend, nchld, gtok, regs, opts, scnt, lph, esc>>
tvars == <<tpc, cur, csig, traced, execved, result>>
ovars == <<executed, uexec, rets, trapped>>
cvars == <<script, dec, par, knd, ldr>>
vars == <<cvars, kvars, tvars, ovars>>
\* model-checking view: the order of handler consultations is history only
MCView == <<cvars, kvars, tvars, executed, uexec, rets,
            [key \in DOMAIN dec |-> SelectSeq(trapped, LAMBDA e : e.m = key)]>>

NoResult == [status |-> "none", exit |-> 0]
Tasks == DOMAIN script
Ev(t, x) == [t |-> t, x |-> x]
NoEv == Ev("none", 0)

(* ------------------------------------------------------------------ structure *)
Alive(k) == ts[k] \in {"run", "stop", "held"}
\* thread-group leader of a task
Leader(k) == ldr[k]
Group(k) == { j \in Tasks : ldr[j] = ldr[k] }
IsThread(k) == knd[k] = "C"
EndOp(k) == IF IsThread(k) THEN Op("E", "", 0) ELSE Op("X", "", 0)
CurOp(k) == IF pc[k] \in DOMAIN script[k] THEN script[k][pc[k]] ELSE EndOp(k)
\* children this task has created so far
Created(k) == { j \in Tasks : par[j] = k /\ ts[j] # "unborn" }

InitCase(c) ==
  /\ script = c.script /\ dec = c.dec
  /\ par = ParOf(c.script) /\ knd = KindOf(c.script) /\ ldr = LeaderOf(c.script)
  /\ ts = [k \in DOMAIN c.script |-> IF k = 1 THEN "run" ELSE "unborn"]
  /\ ev = [k \in DOMAIN c.script |-> NoEv]
  /\ pc = [k \in DOMAIN c.script |-> 1]
  /\ sub = [k \in DOMAIN c.script |-> ""]
  /\ pend = [k \in DOMAIN c.script |-> {}]
  /\ nchld = [k \in DOMAIN c.script |-> 0]
  /\ gtok = [k \in DOMAIN c.script |-> 0]
  /\ regs = [k \in DOMAIN c.script |-> [skip |-> FALSE, ret |-> 0, d |-> "none"]]
  /\ opts = [k \in DOMAIN c.script |-> FALSE]
  /\ scnt = [k \in DOMAIN c.script |-> 0]
  /\ esc = [k \in DOMAIN c.script |-> FALSE]
  /\ lph = "raise"
  /\ tpc = "wait" /\ cur = 0 /\ csig = 0 /\ traced = {} /\ execved = FALSE /\ result = NoResult
  /\ executed = {} /\ uexec = {} /\ trapped = <<>>
  /\ rets = [k \in DOMAIN c.script |-> <<>>]

\* exec by a non-leader thread (the thread takes over the leader's pid, its siblings vanish without a
\* wait status) is not modelled at this layer; such programs are judged at the property layer only
Modelled(c) == \A j \in DOMAIN c.script : KindOf(c.script)[j] = "C" => \A i \in DOMAIN c.script[j] : c.script[j][i].k # "Z"
Init == \E c \in Cases : Modelled(c) /\ InitCase(c)

Live == tpc # "done"           \* the run has not been torn down yet
Runs(k) == Live /\ ts[k] = "run"

Log(k, r) == rets' = [rets EXCEPT ![k] = Append(@, [i |-> pc[k], op |-> CurOp(k).k, ret |-> r, d |-> "", x |-> FALSE])]
\* a traced call returns r; d = the handler's answer for THIS occurrence, x = the call really ran
LogT(k, r, d, x) == rets' = [rets EXCEPT ![k] = Append(@, [i |-> pc[k], op |-> CurOp(k).k, ret |-> r, d |-> d, x |-> x])]
\* consultations of the handler about a key so far
Asked(key) == Cardinality({ i \in DOMAIN trapped : trapped[i].m = key })

(* ------------------------------------------------------------------ kernel: stops *)
\* a pending signal is taken: signal-delivery-stop (a vfork parent sleeps uninterruptibly)
\* (the child releases its vfork parent when it dies or execs)
Execd(j) == sub[j] = "xz" \/ \E i \in 1..(pc[j] - 1) : i \in DOMAIN script[j] /\ script[j][i].k = "Z"
InVforkWait(k) == sub[k] = "sp" /\ CurOp(k).k = "V" /\ ts[CurOp(k).n] \in {"stop", "held", "run"} /\ ~Execd(CurOp(k).n)
K_Deliver(k) ==
  /\ Runs(k) /\ ~InVforkWait(k) /\ sub[k] # "ex"
  /\ \E s \in pend[k] \cup (IF nchld[Leader(k)] > 0 THEN {SIGCHLD} ELSE {}) :
       /\ pend' = [pend EXCEPT ![k] = @ \ {s}]
       /\ nchld' = IF s = SIGCHLD THEN [nchld EXCEPT ![Leader(k)] = @ - 1] ELSE nchld
       /\ ts' = [ts EXCEPT ![k] = "stop"]
       /\ ev' = [ev EXCEPT ![k] = Ev("sig", s)]
  /\ UNCHANGED <<pc, sub, gtok, regs, opts, scnt, lph, esc, cvars, tvars, ovars>>

\* a thread takes part in a group stop started by a sibling
K_GroupStop(k) ==
  /\ Runs(k) /\ gtok[k] > 0 /\ ~InVforkWait(k) /\ sub[k] # "ex"
  /\ gtok' = [gtok EXCEPT ![k] = @ - 1]
  /\ ts' = [ts EXCEPT ![k] = "stop"]
  /\ ev' = [ev EXCEPT ![k] = Ev("grp", SIGSTOP)]
  /\ UNCHANGED <<pc, sub, pend, nchld, regs, opts, scnt, lph, esc, cvars, tvars, ovars>>

(* ------------------------------------------------------------------ kernel: launcher (task 1 before the program) *)
\* forkexec child: PTRACE_TRACEME, kill(getpid(), SIGSTOP), seccomp(TSYNC), execve
K_Raise ==
  /\ Runs(1) /\ lph = "raise"
  /\ lph' = "stopped"
  /\ ts' = [ts EXCEPT ![1] = "stop"] /\ ev' = [ev EXCEPT ![1] = Ev("sig", SIGSTOP)]
  /\ UNCHANGED <<pc, sub, pend, nchld, gtok, regs, opts, scnt, esc, cvars, tvars, ovars>>
K_Exec ==
  /\ Runs(1) /\ lph = "stopped" /\ pend[1] = {}
  /\ lph' = "prog"
  /\ IF opts[1]
       THEN ts' = [ts EXCEPT ![1] = "stop"] /\ ev' = [ev EXCEPT ![1] = Ev("exec", 0)]
       ELSE ts' = [ts EXCEPT ![1] = "stop"] /\ ev' = [ev EXCEPT ![1] = Ev("sig", SIGTRAP)]   \* plain SIGTRAP after exec
  /\ UNCHANGED <<pc, sub, pend, nchld, gtok, regs, opts, scnt, esc, cvars, tvars, ovars>>
InProg(k) == k # 1 \/ lph = "prog"

(* ------------------------------------------------------------------ kernel: program steps *)
Ready(k) == Runs(k) /\ InProg(k)

\* traced call, phase 1: SECCOMP_RET_TRACE -> seccomp stop before the call runs
K_SysEnter(k) ==
  /\ Ready(k) /\ sub[k] = "" /\ CurOp(k).k \in {"T", "N"}
  /\ sub' = [sub EXCEPT ![k] = "in"]
  /\ regs' = [regs EXCEPT ![k] = [skip |-> FALSE, ret |-> 0, d |-> "none"]]
  /\ ts' = [ts EXCEPT ![k] = "stop"] /\ ev' = [ev EXCEPT ![k] = Ev("sec", 0)]
  /\ UNCHANGED <<pc, pend, nchld, gtok, opts, scnt, lph, esc, cvars, tvars, ovars>>
\* phase 2: resumed; the call runs unless the tracer neutralised it
K_SysExit(k) ==
  /\ Ready(k) /\ sub[k] = "in"
  /\ sub' = [sub EXCEPT ![k] = ""]
  /\ pc' = [pc EXCEPT ![k] = @ + 1]
  /\ IF regs[k].skip
       THEN /\ LogT(k, regs[k].ret, regs[k].d, FALSE) /\ UNCHANGED executed
       ELSE /\ executed' = executed \cup {CurOp(k).a}
            \* the real result: a second mkdirat of the same name fails with EEXIST
            /\ LogT(k, IF CurOp(k).k = "T" /\ CurOp(k).a \in executed THEN -EEXIST ELSE 0, regs[k].d, TRUE)
  /\ UNCHANGED <<ts, ev, pend, nchld, gtok, regs, opts, scnt, lph, esc, cvars, tvars, uexec, trapped>>

\* execve (allowed by the filter) of a process task: with PTRACE_O_TRACEEXEC a PTRACE_EVENT_EXEC stop,
\* without it the legacy notification: a real SIGTRAP sent to the new image
K_ExecOp(k) ==
  /\ Ready(k) /\ sub[k] = "" /\ CurOp(k).k = "Z" /\ ~IsThread(k)
  /\ sub' = [sub EXCEPT ![k] = "xz"]
  \* de_thread: the other threads of the process are killed first (they report exit status 0)
  /\ ts' = [j \in Tasks |-> IF j = k THEN "stop" ELSE IF j \in Group(k) /\ Alive(j) THEN "zombie" ELSE ts[j]]
  /\ ev' = [j \in Tasks |-> IF j = k THEN (IF opts[k] THEN Ev("exec", 0) ELSE Ev("sig", SIGTRAP))
                              ELSE IF j \in Group(k) /\ Alive(j) THEN Ev("exit", 0) ELSE ev[j]]
  /\ UNCHANGED <<pc, pend, nchld, gtok, regs, opts, scnt, lph, esc, cvars, tvars, ovars>>
\* the new image runs: it carries on with the ops after Z
K_ExecDone(k) ==
  /\ Ready(k) /\ sub[k] = "xz"
  /\ sub' = [sub EXCEPT ![k] = ""] /\ pc' = [pc EXCEPT ![k] = @ + 1]
  /\ Log(k, 0)
  /\ UNCHANGED <<ts, ev, pend, nchld, gtok, regs, opts, scnt, lph, esc, cvars, tvars, executed, uexec, trapped>>

K_Untraced(k) ==
  /\ Ready(k) /\ sub[k] = "" /\ CurOp(k).k = "U"
  /\ uexec' = uexec \cup {CurOp(k).a}
  /\ Log(k, 0) /\ pc' = [pc EXCEPT ![k] = @ + 1]
  /\ UNCHANGED <<ts, ev, sub, pend, nchld, gtok, regs, opts, scnt, lph, esc, cvars, tvars, executed, trapped>>

\* S: queue SIGUSR1 to itself; the op completes when the signal has been taken
K_SigQueue(k) ==
  /\ Ready(k) /\ sub[k] = "" /\ CurOp(k).k = "S"
  /\ sub' = [sub EXCEPT ![k] = "sq"] /\ scnt' = [scnt EXCEPT ![k] = 0]
  /\ pend' = [pend EXCEPT ![k] = @ \cup {SIGUSR1}]
  /\ UNCHANGED <<ts, ev, pc, nchld, gtok, regs, opts, lph, esc, cvars, tvars, ovars>>
K_SigDone(k) ==
  /\ Ready(k) /\ sub[k] = "sq" /\ SIGUSR1 \notin pend[k]
  /\ sub' = [sub EXCEPT ![k] = ""] /\ pc' = [pc EXCEPT ![k] = @ + 1]
  /\ Log(k, scnt[k])
  /\ UNCHANGED <<ts, ev, pend, nchld, gtok, regs, opts, scnt, lph, esc, cvars, tvars, executed, uexec, trapped>>

\* fork / vfork / clone: the creator reports a PTRACE_EVENT stop, the new task starts in a SIGSTOP
\* signal-delivery-stop with the creator's options
EvOfSpawn(x) == IF x = "F" THEN "fork" ELSE IF x = "V" THEN "vfork" ELSE "clone"
K_Spawn(k) ==
  /\ Ready(k) /\ sub[k] = "" /\ CurOp(k).k \in Spawns
  /\ LET j == CurOp(k).n IN
       /\ sub' = [sub EXCEPT ![k] = "sp"]
       /\ ts' = [ts EXCEPT ![k] = IF opts[k] THEN "stop" ELSE "run", ![j] = IF opts[k] THEN "stop" ELSE "run"]
       /\ ev' = [ev EXCEPT ![k] = Ev(EvOfSpawn(CurOp(k).k), 0), ![j] = Ev("sig", SIGSTOP)]
       /\ opts' = [opts EXCEPT ![j] = opts[k]]
       /\ gtok' = IF Noise /\ CurOp(k).k = "C" THEN [gtok EXCEPT ![j] = 1] ELSE gtok   \* joins a group stop in effect
  /\ UNCHANGED <<pc, pend, nchld, regs, scnt, lph, esc, cvars, tvars, ovars>>
K_SpawnRet(k) ==
  /\ Ready(k) /\ sub[k] = "sp" /\ ~InVforkWait(k)
  /\ sub' = [sub EXCEPT ![k] = ""] /\ pc' = [pc EXCEPT ![k] = @ + 1]
  /\ Log(k, 1)
  /\ UNCHANGED <<ts, ev, pend, nchld, gtok, regs, opts, scnt, lph, esc, cvars, tvars, executed, uexec, trapped>>

\* W: wait4 of a traced child returns once the tracer has reaped it; a thread is joined through
\* its cleared-tid futex, i.e. as soon as it is dead
Gone(j) == IF knd[j] = "C" THEN ts[j] \in {"zombie", "dead"} \/ sub[j] = "ex" ELSE ts[j] = "dead"
K_Wait(k) ==
  /\ Ready(k) /\ sub[k] = "" /\ CurOp(k).k = "W"
  /\ \A j \in Created(k) : Gone(j)
  /\ Log(k, 0) /\ pc' = [pc EXCEPT ![k] = @ + 1]
  /\ UNCHANGED <<ts, ev, sub, pend, nchld, gtok, regs, opts, scnt, lph, esc, cvars, tvars, executed, uexec, trapped>>

\* death of a whole thread group (exit_group, fatal signal, filter kill, SIGKILL): every live task
\* of the group becomes a zombie with the same status, whatever it was doing -- also when it sits
\* in a ptrace stop.  The parent process gets SIGCHLD.
Die(G, e) ==
  /\ ts' = [j \in Tasks |-> IF j \in G /\ Alive(j) THEN "zombie" ELSE ts[j]]
  /\ ev' = [j \in Tasks |-> IF j \in G /\ Alive(j) THEN e ELSE ev[j]]
\* SIGCHLD is sent to the parent PROCESS (counted at its leader); any of its threads may take it
ChldTo(k) == LET p == par[Leader(k)] IN
  IF Noise /\ p # 0 /\ (\E i \in Group(p) : Alive(i))
    THEN [nchld EXCEPT ![Leader(p)] = IF @ < 3 THEN @ + 1 ELSE @] ELSE nchld

K_ExitGroup(k) ==
  /\ Ready(k) /\ sub[k] = "" /\ CurOp(k).k = "X"
  /\ Log(k, CurOp(k).n)
  /\ Die(Group(k), Ev("exit", CurOp(k).n))
  /\ nchld' = ChldTo(k) /\ UNCHANGED pend
  /\ UNCHANGED <<pc, sub, gtok, regs, opts, scnt, lph, esc, cvars, tvars, executed, uexec, trapped>>
\* exit of one thread: its cleared-tid futex wakes a joiner before the task is a zombie
K_ExitThread(k) ==
  /\ Ready(k) /\ sub[k] = "" /\ CurOp(k).k = "E"
  /\ Log(k, 0)
  /\ sub' = [sub EXCEPT ![k] = "ex"]
  /\ UNCHANGED <<ts, ev, pc, pend, nchld, gtok, regs, opts, scnt, lph, esc, cvars, tvars, executed, uexec, trapped>>
K_ExitThreadDone(k) ==
  /\ Runs(k) /\ sub[k] = "ex"
  /\ Die({k}, Ev("exit", 0))
  /\ UNCHANGED <<pc, sub, pend, nchld, gtok, regs, opts, scnt, lph, esc, cvars, tvars, ovars>>
\* SECCOMP_RET_KILL_PROCESS
K_FilterKill(k) ==
  /\ Ready(k) /\ sub[k] = "" /\ CurOp(k).k = "K"
  /\ Die(Group(k), Ev("killed", SIGSYS))
  /\ nchld' = ChldTo(k) /\ UNCHANGED pend
  /\ UNCHANGED <<pc, sub, gtok, regs, opts, scnt, lph, esc, cvars, tvars, ovars>>
\* C15: the program SIGKILLs one of its own tasks (whole thread group of the target)
K_Kill(k) ==
  /\ Ready(k) /\ sub[k] = "" /\ CurOp(k).k = "J"
  /\ LET j == CurOp(k).n IN
       IF ts[j] = "dead"          \* already reaped: the pid is gone, ESRCH
         THEN Log(k, -3) /\ UNCHANGED <<ts, ev, nchld>>
         ELSE /\ Die(Group(j), Ev("killed", SIGKILL))
              /\ nchld' = IF \E i \in Group(j) : Alive(i) THEN ChldTo(j) ELSE nchld
              /\ Log(k, 0)
  /\ pc' = [pc EXCEPT ![k] = @ + 1]
  /\ UNCHANGED <<sub, pend, gtok, regs, opts, scnt, lph, esc, cvars, tvars, executed, uexec, trapped>>
\* C15: setsid(): the task leaves the process group the tracer waits on
K_Setsid(k) ==
  /\ Ready(k) /\ sub[k] = "" /\ CurOp(k).k = "P"
  /\ esc' = [esc EXCEPT ![k] = TRUE]
  /\ Log(k, 1) /\ pc' = [pc EXCEPT ![k] = @ + 1]
  /\ UNCHANGED <<ts, ev, sub, pend, nchld, gtok, regs, opts, scnt, lph, cvars, tvars, executed, uexec, trapped>>

KStep(k) ==
  \/ K_Deliver(k) \/ K_GroupStop(k)
  \/ K_SysEnter(k) \/ K_SysExit(k) \/ K_Untraced(k) \/ K_ExecOp(k) \/ K_ExecDone(k) \/ K_SigQueue(k) \/ K_SigDone(k)
  \/ K_Spawn(k) \/ K_SpawnRet(k) \/ K_Wait(k)
  \/ K_ExitGroup(k) \/ K_ExitThread(k) \/ K_ExitThreadDone(k) \/ K_FilterKill(k) \/ K_Kill(k) \/ K_Setsid(k)
KNext == K_Raise \/ K_Exec \/ \E k \in Tasks : KStep(k)

(* ------------------------------------------------------------------ kernel: effect of PtraceCont *)
\* Resume task k (held) with signal s.  Only a signal-delivery-stop honours s.
Resume(k, s) ==
  IF ev[k].t = "sig" /\ s = SIGSTOP THEN
       \* SIGSTOP is delivered: group stop.  k reports it at once; every thread of a multi-threaded
       \* group owes one more participation (the stopped state of the group persists under
       \* PtraceCont, and a thread created later joins it: task_join_group_stop).
       /\ ts' = [ts EXCEPT ![k] = "stop"]
       /\ ev' = [ev EXCEPT ![k] = Ev("grp", SIGSTOP)]
       /\ gtok' = [j \in Tasks |-> IF Noise /\ j \in Group(k) /\ Alive(j) /\ Cardinality({i \in Group(k) : Alive(i)}) > 1
                                     THEN (IF gtok[j] < 2 THEN gtok[j] + 1 ELSE 2) ELSE gtok[j]]
       /\ nchld' = ChldTo(k) /\ UNCHANGED pend
       /\ UNCHANGED scnt
  ELSE IF ev[k].t = "sig" /\ s = SIGTRAP THEN
       \* a SIGTRAP is delivered: default action, the process dies
       /\ Die(Group(k), Ev("killed", SIGTRAP))
       /\ nchld' = ChldTo(k)
       /\ UNCHANGED <<gtok, pend, scnt>>
  ELSE /\ ts' = [ts EXCEPT ![k] = "run"]
       /\ ev' = [ev EXCEPT ![k] = NoEv]
       /\ scnt' = IF ev[k].t = "sig" /\ ev[k].x = SIGUSR1 /\ s = SIGUSR1 THEN [scnt EXCEPT ![k] = @ + 1] ELSE scnt
       /\ UNCHANGED <<gtok, pend, nchld>>

(* ------------------------------------------------------------------ tracer *)
\* what wait4 can report: a stop not yet reported, or a zombie (a leader only after its threads)
Reportable(k) ==
  /\ ~esc[k]
  /\ \/ ts[k] = "stop"
     \/ /\ ts[k] = "zombie"
        /\ (Leader(k) = k => \A j \in Group(k) \ {k} : ts[j] \in {"unborn", "dead"})
Waitable(k) == IF execved THEN TRUE ELSE k = 1      \* wait4(-pgid) / wait4(pgid)

StatusNo(st) == CASE st = "Normal" -> 1 [] st = "TLE" -> 2 [] st = "MLE" -> 3 [] st = "OLE" -> 4
                  [] st = "Disallowed" -> 5 [] st = "Signalled" -> 6 [] st = "Nonzero" -> 7
                  [] st = "RunnerError" -> 8 [] OTHER -> 0       \* runner.Status numbers
StatusOfSignal(s) == IF s = SIGKILL THEN "TLE" ELSE IF s = SIGSYS THEN "Disallowed" ELSE "Signalled"
Finish(st, x) == result' = [status |-> st, exit |-> x] /\ tpc' = "fin"

\* dispatch on the stop signal / trap cause (second half of handle()); returns via tpc' / csig'
StopDispatch(k) ==
  CASE ev[k].t = "sec" -> IF execved THEN tpc' = "trap" /\ csig' = 0 /\ UNCHANGED <<execved, result>>
                                     ELSE tpc' = "cont" /\ csig' = 0 /\ UNCHANGED <<execved, result>>
    [] ev[k].t \in {"fork", "vfork", "clone"} -> tpc' = "cont" /\ csig' = 0 /\ UNCHANGED <<execved, result>>
    [] ev[k].t = "exec" -> tpc' = "cont" /\ csig' = 0 /\ execved' = TRUE /\ UNCHANGED result
    \* a SIGTRAP that is no ptrace event: the launcher's post-exec trap is dropped, a genuine one
    \* raised by the program is delivered
    [] ev[k].t \in {"sig", "grp"} /\ ev[k].x = SIGTRAP ->
         tpc' = "cont" /\ csig' = (IF execved THEN SIGTRAP ELSE 0) /\ UNCHANGED <<execved, result>>
    [] OTHER -> tpc' = "cont" /\ csig' = ev[k].x /\ UNCHANGED <<execved, result>>

\* wait4 + first half of handle()
T_Wait ==
  /\ tpc = "wait"
  /\ \E k \in Tasks :
       /\ Reportable(k) /\ Waitable(k)
       /\ cur' = k
       /\ IF ts[k] = "zombie" THEN
            /\ ts' = [ts EXCEPT ![k] = "dead"]
            /\ traced' = IF ev[k].t = "exit" \/ k = 1 THEN traced \ {k} ELSE traced
            /\ IF k = 1 THEN
                 /\ UNCHANGED csig
                 /\ IF ev[k].t = "exit"
                      THEN IF execved THEN Finish(IF ev[k].x = 0 THEN "Normal" ELSE "Nonzero", ev[k].x)
                                      ELSE Finish("RunnerError", 0)
                      ELSE Finish(StatusOfSignal(ev[k].x), ev[k].x)
               ELSE IF ev[k].t = "killed" /\ ev[k].x = SIGSYS /\ ~ChildSigsysIgnored
                 THEN Finish("Disallowed", SIGSYS) /\ UNCHANGED csig
               ELSE IF ev[k].t = "killed"
                 THEN tpc' = "cont" /\ csig' = ev[k].x /\ UNCHANGED result   \* PtraceCont(pid, sig) on a dead pid: no effect
               ELSE tpc' = "wait" /\ UNCHANGED <<result, csig>>
            /\ UNCHANGED execved
          ELSE
            /\ ts' = [ts EXCEPT ![k] = "held"]
            /\ IF k \notin traced
                 THEN tpc' = "setopt" /\ UNCHANGED <<csig, execved, result, traced>>
                 ELSE StopDispatch(k) /\ UNCHANGED traced
  /\ UNCHANGED <<ev, pc, sub, pend, nchld, gtok, regs, opts, scnt, lph, esc, cvars, ovars>>

\* a ptrace request on the current task works iff it is still sitting in the stop
CanPtrace == ts[cur] = "held"

T_SetOpt ==
  /\ tpc = "setopt"
  /\ traced' = traced \cup {cur}
  /\ IF CanPtrace THEN
       /\ opts' = [opts EXCEPT ![cur] = TRUE]
       /\ StopDispatch(cur)
     ELSE IF EsrchFatal THEN Finish("RunnerError", 0) /\ UNCHANGED <<opts, csig, execved>>
     ELSE StopDispatch(cur) /\ UNCHANGED opts
  /\ UNCHANGED <<ts, ev, pc, sub, pend, nchld, gtok, regs, scnt, lph, esc, cur, cvars, ovars>>

\* handleTrap: GETREGSET, Handler.Handle, and for a ban SETREGS(orig_rax = -1, rax = -BanRet)
T_Trap ==
  /\ tpc = "trap"
  /\ IF CanPtrace THEN
       \* C15: reading the path from tracee memory yields nothing, part of it, or a full buffer
       \* without NUL; whatever the handler then makes of it, it answers with one of its verdicts
       \E mo \in (IF AnyDecision THEN {"ok", "nothing", "partial", "fullnonul"} ELSE {"ok"}) :
       \* the handler's answer to this consultation: the decision function is indexed by occurrence
       \E d \in (IF AnyDecision THEN Decisions
                 ELSE {PolicyAt(dec[KeyOf(CurOp(cur))], Asked(KeyOf(CurOp(cur))) + 1)}) :
         /\ trapped' = Append(trapped, [m |-> KeyOf(CurOp(cur)), act |-> d])
         /\ CASE mo = "fullnonul" /\ ClenPanics -> Finish("RunnerError", 0) /\ UNCHANGED regs
              [] d = "allow" -> tpc' = "cont" /\ regs' = [regs EXCEPT ![cur].d = "allow"] /\ UNCHANGED result
              [] d = "ban" -> tpc' = "cont" /\ regs' = [regs EXCEPT ![cur] = [skip |-> TRUE, ret |-> -BanRet, d |-> "ban"]] /\ UNCHANGED result
              [] d = "kill" -> Finish("Disallowed", 0) /\ UNCHANGED regs
     ELSE /\ UNCHANGED <<trapped, regs>>
          /\ IF EsrchFatal THEN Finish("Disallowed", 0) ELSE tpc' = "cont" /\ UNCHANGED result
  /\ UNCHANGED <<ts, ev, pc, sub, pend, nchld, gtok, opts, scnt, lph, esc, cur, csig, traced, execved, cvars, executed, uexec, rets>>

T_Cont ==
  /\ tpc = "cont"
  /\ tpc' = "wait"
  /\ IF CanPtrace THEN Resume(cur, csig) ELSE UNCHANGED <<ts, ev, gtok, pend, nchld, scnt>>
  /\ UNCHANGED <<pc, sub, regs, opts, lph, esc, cur, csig, traced, execved, result, cvars, ovars>>

\* return from trace(): deferred killAll + collectZombie
T_KillAll ==
  /\ tpc = "fin"
  /\ tpc' = "done"
  /\ ts' = [k \in Tasks |-> IF ts[k] = "unborn" \/ esc[k] THEN ts[k] ELSE "dead"]
  /\ UNCHANGED <<ev, pc, sub, pend, nchld, gtok, regs, opts, scnt, lph, esc, cur, csig, traced, execved, result, cvars, ovars>>

Done == tpc = "done" /\ UNCHANGED vars

TNext == T_Wait \/ T_SetOpt \/ T_Trap \/ T_Cont \/ T_KillAll
Next == TNext \/ KNext \/ Done
Spec == Init /\ [][Next]_vars
FairSpec == Spec /\ WF_vars(TNext) /\ WF_vars(KNext)

(* ================================================================== PROPERTY LAYER *)
TrappedSet == { trapped[i].m : i \in DOMAIN trapped }
Finished == tpc \in {"fin", "done"}
\* every traced call that returned to the program satisfies P(entry); an entry carries the answer
\* the handler gave for THAT occurrence (d), what the program saw (ret) and whether it ran (x)
AllRets(P(_)) == \A k \in Tasks : \A i \in DOMAIN rets[k] : rets[k][i].op \in {"T", "N"} => P(rets[k][i])

\* C03: a banned call does not run and its caller sees -BanRet
EnforcedBan == AllRets(LAMBDA e : e.d = "ban" => e.ret = -BanRet /\ ~e.x)
\* C03: a killed call never returns (so never runs), and the run ends as Disallowed Syscall
EnforcedKill == /\ AllRets(LAMBDA e : e.d # "kill")
                /\ ((\E i \in DOMAIN trapped : trapped[i].act = "kill") /\ Finished /\ ~AnyDecision
                      => result.status = "Disallowed")
\* C03: an allowed call runs with its real result
EnforcedAllow == AllRets(LAMBDA e : e.d = "allow" => e.x /\ e.ret \in {0, -EEXIST})
\* C03: nothing runs behind the tracer's back: a call that ran was put to the handler first, and no
\* task runs program code before the tracer has seen its first stop
EnforcedTraced == /\ AllRets(LAMBDA e : e.d # "none")
                  /\ \A k \in Tasks : (ts[k] = "run" /\ InProg(k)) => (k \in traced /\ opts[k])
Enforced == EnforcedBan /\ EnforcedKill /\ EnforcedAllow /\ EnforcedTraced

\* the verdict is about the program: main's own exit / the kill decision / the filter kill
MainDoneWith(c) == \E i \in DOMAIN rets[1] : rets[1][i].op = "X" /\ rets[1][i].ret = c
KillTrapped == \E i \in DOMAIN trapped : trapped[i].act = "kill"
TruthfulResult == Finished =>
  /\ (result.status = "Normal" => MainDoneWith(0))
  /\ (result.status = "Nonzero" => result.exit # 0 /\ MainDoneWith(result.exit))
  /\ (result.status = "Disallowed" /\ ~AnyDecision => (KillTrapped \/ \E k \in Tasks : CurOp(k).k = "K"))
  /\ (KillTrapped => result.status = "Disallowed")

\* C03: a call the filter itself kills ends the run (as Disallowed Syscall, see T_Wait)
EnforcedFilterKill == (\E k \in Tasks : ts[k] = "dead" /\ ev[k] = Ev("killed", SIGSYS)) =>
                         Finished /\ (ChildSigsysIgnored \/ result.status = "Disallowed" \/ MainDoneWith(0) \/ MainDoneWith(3) \/ KillTrapped)

\* feeds C12: when trace() has returned nothing of the process group is left
FinishedAllDead == tpc = "done" => \A k \in Tasks : esc[k] \/ ts[k] \in {"unborn", "dead"}

\* C15: the verdict is never Runner Error; the loop terminates (no deadlock is checked by TLC itself)
ProgramVerdicts == {"Normal", "Nonzero", "Signalled", "TLE", "MLE", "OLE", "Disallowed"}
NeverRunnerError == Finished => result.status \in ProgramVerdicts
Terminates == <>(tpc = "done")

TypeOK == /\ \A k \in Tasks : ts[k] \in {"unborn", "run", "stop", "held", "zombie", "dead"}
          /\ tpc \in {"wait", "setopt", "trap", "cont", "fin", "done"}
=============================================================================
