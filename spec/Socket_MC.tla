----------------------------- MODULE Socket_MC -----------------------------
(* Design-level exploration for C19: every sequence of at most MaxOps sends   *)
(* and receives over the size classes, on both layers, with the outcomes the  *)
(* implementation layer computes.  Checked: the implementation outcomes are   *)
(* admissible at the property layer (ImplRefines) and the state invariants.   *)
EXTENDS Socket
CONSTANTS MaxOps, Lens, Vals, Rbufs,
          FreshReader   \* design switch: the gob decoder reads each packet from a reader of its own (FALSE: one
                        \* buffered reader for the life of the socket keeps what a rejected packet left unread)
VARIABLES nops,
          stale         \* implementation layer: unread remainder of a rejected packet (<<>> or <<message>>)
mvars == <<svars, nops, stale>>

Fds(k) == [i \in 1..k |-> i]
Msgs == IF layer = "raw"
        THEN { [id |-> nops + 1, len |-> l, val |-> 0, nfds |-> k, fds |-> Fds(k), cred |-> c, typ |-> "A"] :
                 l \in Lens, k \in 0..(MaxFds + 1), c \in {<<>>, <<7, 8, 9>>} }
        ELSE { [id |-> nops + 1, len |-> v, val |-> v, nfds |-> k, fds |-> Fds(k), cred |-> <<>>, typ |-> t] :
                 v \in Vals, k \in {0, MaxFds, MaxFds + 1}, t \in Types }
Frees == {-1, 0, 1}
Reqs == IF layer = "raw" THEN { [rbuf |-> b, want |-> "M", free |-> f] : b \in Rbufs, f \in Frees }
        ELSE { [rbuf |-> 0, want |-> w, free |-> f] : w \in {"M", "X"}, f \in Frees }

Bads == { [id |-> nops + 1, len |-> 1, val |-> 2, nfds |-> k, fds |-> Fds(k), cred |-> <<>>, typ |-> "C"] : k \in {0, MaxFds} }
\* with a long-lived buffered reader the decoder first finds the remainder of the rejected packet: that one is
\* "delivered" -- with the descriptors of the packet that just arrived -- and the new packet becomes the remainder
RecvStale ==
  /\ ~FreshReader /\ stale # <<>> /\ q # <<>>
  /\ LET p == Head(q) IN
       /\ q' = Tail(q) /\ stale' = <<p.m>>
       /\ dlv' = Append(dlv, stale[1].id)
       /\ arrived' = arrived + p.m.nfds /\ handed' = handed + p.m.nfds
       /\ held' = Append(held, [orig |-> stale[1], cur |-> stale[1], seen |-> FALSE])
  /\ UNCHANGED <<layer, passcred, acc, lost, closed, encKnown, decKnown, pend>>
MInit == Init /\ nops = 0 /\ stale = <<>>
MNext == /\ nops < MaxOps
         /\ nops' = nops + 1
         /\ \/ \E m \in Msgs : Send(m, SendImpl(m)) /\ UNCHANGED stale
            \/ \E m \in Bads : Inject(m) /\ UNCHANGED stale
            \/ /\ FreshReader \/ stale = <<>>
               /\ \E r \in Reqs : /\ q # <<>> /\ Recv(r, RecvImpl(Head(q), r))
                                  /\ stale' = IF ~FreshReader /\ Head(q).bad /\ r.free < 0 THEN <<Head(q).m>> ELSE stale
            \/ RecvStale
            \/ \E j \in DOMAIN held : Inspect(j) /\ UNCHANGED stale
MSpec == MInit /\ [][MNext]_mvars

ImplRefines ==
  /\ \A m \in Msgs : SendOK(m, SendImpl(m))
  /\ q # <<>> => \A r \in Reqs : RecvOK(Head(q), r, RecvImpl(Head(q), r))
=============================================================================
