----------------------------- MODULE Socket_MC -----------------------------
(* Design-level exploration for C19: every sequence of at most MaxOps sends   *)
(* and receives over the size classes, on both layers, with the outcomes the  *)
(* implementation layer computes.  Checked: the implementation outcomes are   *)
(* admissible at the property layer (ImplRefines) and the state invariants.   *)
EXTENDS Socket
CONSTANTS MaxOps, Lens, Vals, Rbufs
VARIABLES nops
mvars == <<svars, nops>>

Fds(k) == [i \in 1..k |-> i]
Msgs == IF layer = "raw"
        THEN { [id |-> nops + 1, len |-> l, val |-> 0, nfds |-> k, fds |-> Fds(k), cred |-> c, typ |-> "A"] :
                 l \in Lens, k \in 0..(MaxFds + 1), c \in {<<>>, <<7, 8, 9>>} }
        ELSE { [id |-> nops + 1, len |-> v, val |-> v, nfds |-> k, fds |-> Fds(k), cred |-> <<>>, typ |-> t] :
                 v \in Vals, k \in {0, MaxFds, MaxFds + 1}, t \in Types }
Frees == {-1, 0, 1}
Reqs == IF layer = "raw" THEN { [rbuf |-> b, want |-> "M", free |-> f] : b \in Rbufs, f \in Frees }
        ELSE { [rbuf |-> 0, want |-> w, free |-> f] : w \in {"M", "X"}, f \in Frees }

MInit == Init /\ nops = 0
MNext == /\ nops < MaxOps
         /\ nops' = nops + 1
         /\ \/ \E m \in Msgs : Send(m, SendImpl(m))
            \/ \E r \in Reqs : q # <<>> /\ Recv(r, RecvImpl(Head(q), r))
            \/ \E j \in DOMAIN held : Inspect(j)
MSpec == MInit /\ [][MNext]_mvars

ImplRefines ==
  /\ \A m \in Msgs : SendOK(m, SendImpl(m))
  /\ q # <<>> => \A r \in Reqs : RecvOK(Head(q), r, RecvImpl(Head(q), r))
=============================================================================
