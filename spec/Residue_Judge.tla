---------------------------- MODULE Residue_Judge ----------------------------
(* C12: judges observations of real runs.                                     *)
(* tree obs:    [runner, nodes (created), r, alive, zombies, initkids]        *)
(*   -- ProcTree!Clean: when the run has returned nothing of the program is   *)
(*      alive or a zombie (of the host, or of the container init after the    *)
(*      next call).                                                           *)
(* counter obs: [what, base |-> [fds, kids, gor, ifds, ikids], end |-> same]  *)
(*   -- resource counters return to their baseline.                           *)
EXTENDS Naturals, FiniteSets, Sequences, TLC, Json, SequencesExt
TreeObs == ndJsonDeserialize("treeobs.ndjson")
CtrObs  == ndJsonDeserialize("ctrobs.ndjson")
JudgeTree(o) == o.r # "hang" /\ o.alive = 0 /\ o.zombies = 0 /\ o.initkids = 0
JudgeCtr(o) ==
  /\ o.end.fds <= o.base.fds /\ o.end.kids <= o.base.kids /\ o.end.gor <= o.base.gor
  /\ o.end.ifds <= o.base.ifds /\ o.end.ikids <= o.base.ikids
BadT == { i \in DOMAIN TreeObs : ~JudgeTree(TreeObs[i]) }
BadC == { i \in DOMAIN CtrObs : ~JudgeCtr(CtrObs[i]) }
ASSUME ndJsonSerialize("bad.ndjson", SetToSeq({ [kind |-> "tree", i |-> i] : i \in BadT }) \o SetToSeq({ [kind |-> "ctr", i |-> i] : i \in BadC }))
ASSUME PrintT(<<"judged", Len(TreeObs), Len(CtrObs), Cardinality(BadT), Cardinality(BadC)>>)
VARIABLE x
Init == x = 0
Next == UNCHANGED x
=============================================================================
