\* C04 design-level check (small default; checks/C04.py passes the tier's Sites/Rows):
\* all listed site combinations x rows, no injected failure
CONSTANTS
  Sites = {0,1,2,3,8,9,10,24,27,64,72,88,128,129,136,137,200,201,256,457,511}
  Rows = {0,1,2,7,256,511}
  FailMode = "none"
  Lsbs = {{}}
SPECIFICATION Spec
INVARIANTS InvPost InvFinal InvAccepted InvRefusalFold CallbackOnce ExecNeedsApproval FailedNeverRuns ReapedAtReturn ErrorNamesStep FailureReported
PROPERTIES CallbackBeforeExec FailedStaysDead Starts Returns HangIsReal
CHECK_DEADLOCK FALSE
