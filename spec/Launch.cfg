\* C04 design-level check: all site combinations x the rows given, no injected failure
CONSTANTS
  Sites = {0,1,2,3,4,5,6,7}
  Rows = {0}
  FailMode = "none"
  Lsbs = {{}}
SPECIFICATION Spec
INVARIANTS InvPost InvFinal InvAccepted InvRefusalFold CallbackOnce ExecNeedsApproval FailedNeverRuns ReapedAtReturn ErrorNamesStep FailureReported
PROPERTIES CallbackBeforeExec FailedStaysDead Starts Returns HangIsReal
CHECK_DEADLOCK FALSE
