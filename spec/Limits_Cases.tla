---------------------------- MODULE Limits_Cases ----------------------------
(* C08 case spaces (pure): limit records by value class, verdict programs, collector grid *)
EXTENDS Limits
CONSTANTS CollectN, SlowMax, RecMaxDev

P32 == <<0, 1, 0, 0>>                 \* 2^32
Add(a, b) == \* limb-wise, no carries needed for the constants below
  <<a[1] + b[1], a[2] + b[2], a[3] + b[3], a[4] + b[4]>>

\* value classes per field: 0 = unset, s = small, b = at or above 2^32 (a 32-bit truncation
\* of b lands on another value), and for the CPU hard limit below / above the soft one
Class == [
  cpu     |-> [z |-> Zero, s |-> Small(3), b |-> Add(P32, Small(3))],
  cpuHard |-> [z |-> Zero, lo |-> Small(2), hi |-> Small(5), b |-> <<0, 2, 0, 5>>],
  data    |-> [z |-> Zero, s |-> Small(32 * 1048576 + 4096), b |-> Add(P32, Small(32 * 1048576))],
  fsize   |-> [z |-> Zero, s |-> Small(1048577), b |-> <<0, 256, 0, 7>>],
  stack   |-> [z |-> Zero, s |-> Small(1048576), b |-> Add(P32, Small(1048576))],
  as      |-> [z |-> Zero, s |-> Small(64 * 1048576), b |-> <<0, 16, 0, 0>>],
  nofile  |-> [z |-> Zero, s |-> Small(64), over |-> Small(1048577)] ]   \* over: above fs.nr_open

Rec(c) == [ cpu |-> Class.cpu[c[1]], cpuHard |-> Class.cpuHard[c[2]], data |-> Class.data[c[3]],
            fsize |-> Class.fsize[c[4]], stack |-> Class.stack[c[5]], as |-> Class.as[c[6]],
            nofile |-> Class.nofile[c[7]], nocore |-> c[8] ]
Dev(c) == Cardinality({ i \in 1..7 : c[i] # "z" }) + (IF c[8] THEN 1 ELSE 0)
Name(c) == c[1] \o "." \o c[2] \o "." \o c[3] \o "." \o c[4] \o "." \o c[5] \o "." \o c[6] \o "." \o c[7]
           \o "." \o (IF c[8] THEN "nocore" ELSE "core")
D(f) == DOMAIN Class[f]
ClassChoices == D("cpu") \X D("cpuHard") \X D("data") \X D("fsize") \X D("stack") \X D("as") \X D("nofile") \X BOOLEAN
\* RecMaxDev bounds how many fields deviate from "unset" (records with every field set are always kept)
Records == { [rec |-> Rec(c), dev |-> Dev(c), name |-> Name(c)] :
               c \in { cc \in ClassChoices : Dev(cc) <= RecMaxDev \/ Dev(cc) = 8 } }

\* verdict programs: [prog, arg, cpu, cpuHard, fsize, tl_us, ml_kib, calib]; runner is added by the check
BigT == 1000000000     \* 1000 s
BigM == 1073741824     \* 1 TiB in KiB
\* scen: what the run is meant to exercise; end: how the program ends after it used what it was asked
\* to use: exit:n | fault:segv (hardware fault) | hang (blocks; the caller cancels the run = caller kill).
\* A bound that was exceeded must win whatever the end is (Limits!ExpectedStatus).
P(name, scen, prog, arg, end, cpu, hard, fsize, tl, ml, calib) ==
  [name |-> name, scen |-> scen, prog |-> prog, arg |-> arg, end |-> end, cpu |-> cpu, cpuHard |-> hard,
   fsize |-> fsize, tl_us |-> tl, ml_kib |-> ml, calib |-> calib]
ProgEnds == { [s |-> "", e |-> "exit:0"], [s |-> "-exit3", e |-> "exit:3"], [s |-> "-fault", e |-> "fault:segv"], [s |-> "-hang", e |-> "hang"] }
VerdictProgs ==
  \* killed by the kernel for its CPU limit (soft 1 s: SIGXCPU; pid 1 ignores it and meets the hard limit)
  { P("cpu-rlimit", "cpu-rlimit", "burn", 0, "exit:0", 1, 2, 0, BigT, BigM, FALSE),
  \* measured CPU time below the runner's bound
    P("time-under", "under", "burn", 40, "exit:0", 0, 0, 0, 30000000, BigM, FALSE),
  \* peak memory below / (second run) equal to the runner's bound.  The bound must be above the resident
  \* size of the runner process itself: ru_maxrss of the child starts from the image it was forked
  \* from, so a smaller bound is "exceeded" before the program is even executed.
    P("mem-under", "under", "touch", 1024, "exit:0", 0, 0, 0, BigT, BigM, FALSE),
    P("mem-equal", "equal", "touch", 40960, "exit:0", 0, 0, 0, BigT, BigM, TRUE),
  \* file growing past / staying below RLIMIT_FSIZE
    P("fsize-over", "fsize-over", "grow", 262144, "exit:0", 0, 0, 65536, BigT, BigM, FALSE),
    P("fsize-under", "under", "grow", 32768, "exit:0", 0, 0, 65536, BigT, BigM, FALSE) }
  \* measured CPU time / peak memory above the runner's bound, crossed with every way of ending afterwards
  \cup { P("time-over" \o x.s, "time-over", "burn", 300, x.e, 0, 0, 0, 100000, BigM, FALSE) : x \in ProgEnds }
  \cup { P("mem-over" \o x.s, "mem-over", "touch", 81920, x.e, 0, 0, 0, BigT, 65536, FALSE) : x \in ProgEnds }
  \* the same ends below the bounds (the table decides)
  \cup { P("under" \o x.s, "under", "burn", 20, x.e, 0, 0, 0, 30000000, BigM, FALSE) : x \in ProgEnds \ {[s |-> "", e |-> "exit:0"]} }

\* collector grid: cap N, volume relative to the cap, writer speed (chunk, delay)
Volumes(n) == { v \in {0, n - 1, n, n + 1, n + 2, 2 * n + 3, n + 70000, n + 300000} : v >= 0 }
Speeds(v) == { [chunk |-> 65536, delay_us |-> 0], [chunk |-> 1000, delay_us |-> 0] }
              \cup (IF v <= SlowMax THEN { [chunk |-> 7, delay_us |-> 200] } ELSE {})
CollectCases == UNION { UNION { { [n |-> n, volume |-> v, chunk |-> s.chunk, delay_us |-> s.delay_us] : s \in Speeds(v) }
                                : v \in Volumes(n) } : n \in CollectN }
=============================================================================
