SPECIFICATION TSpec
CONSTRAINT Mark
POSTCONDITION Report
CHECK_DEADLOCK FALSE
