--------------------------- MODULE PolicyAssembly ---------------------------
(***************************************************************************)
(* C18, assembly of the example policy (cmd/runprog: GetExtraSet +          *)
(* config.GetConf): what the user's extra lists may add to the default      *)
(* policy.  The names live in a small world that the driver builds for      *)
(* real:                                                                     *)
(*    T/x/f  file      T/x/d/ directory with T/x/d/in      T/x/m  missing    *)
(*    T/x/l  symlink -> T/x/t (file)                                         *)
(*    T/w    work path, with T/w/sub/ (directory) and T/w/sub/deep           *)
(* A *raw* name is taken as written (relative names are directories below    *)
(* the work path); a *resolved* name stands for the object it resolves to    *)
(* -- and for nothing when it does not resolve.                              *)
(***************************************************************************)
EXTENDS FileSet

W  == <<"w">>
XF == <<"x", "f">>
XD == <<"x", "d">>
XI == <<"x", "d", "in">>
XM == <<"x", "m">>
XL == <<"x", "l">>
XT == <<"x", "t">>
WS == <<"w", "sub">>
WD == <<"w", "sub", "deep">>
WO == <<"w", "other">>       \* does not exist
WN == <<"w", "sub", "no">>   \* does not exist
MI == <<"x", "m", "in">>     \* does not exist (below a missing directory)

Exists  == {<<>>, <<"x">>, XF, XD, XI, XL, XT, W, WS, WD}
Queries == {XF, XD, XI, XM, XL, XT, W, WS, WD, WO, WN, MI}
Resolve(p) == IF p = XL THEN XT ELSE p

\* names a user may write
RawNames == {"f", "d/", "d*", "m", "l", "sub"}
ExtNames == {"f", "d/", "d*", "m", "l"}

RawEntry(n) ==
  CASE n = "f"   -> {[k |-> "exact", p |-> XF]}
    [] n = "d/"  -> {[k |-> "dir", p |-> XD]}
    [] n = "d*"  -> {[k |-> "children", p |-> XD]}
    [] n = "m"   -> {[k |-> "exact", p |-> XM]}
    [] n = "l"   -> {[k |-> "exact", p |-> XL]}
    [] n = "sub" -> {[k |-> "dir", p |-> WS]}
\* a resolved name denotes exactly the object it resolves to; nothing if it does not resolve
ExtEntry(n) ==
  CASE n = "f"   -> {[k |-> "exact", p |-> XF]}
    [] n = "d/"  -> {[k |-> "exact", p |-> XD]}
    [] n = "d*"  -> {}
    [] n = "m"   -> {}
    [] n = "l"   -> {[k |-> "exact", p |-> XT]}

Declared(raw, ext) == UNION ({ RawEntry(n) : n \in raw } \cup { ExtEntry(n) : n \in ext })

\* a query is covered by name or -- when it resolves -- by the object it resolves to
Cov(D, q) == InSet(D, q) \/ (q \in Exists /\ InSet(D, Resolve(q)))

CoveredClass(DR, DW, class, q) ==
  IF class = "write" THEN Cov(DW, q) ELSE Cov(DW, q) \/ Cov(DR, q)

\* the assembled policy = the default policy + exactly what the extra lists declare
Expected(o) ==
  LET DR == Declared(ToSet(o.rraw), ToSet(o.rext))
      DW == Declared(ToSet(o.wraw), ToSet(o.wext))
  IN IF CoveredClass(DR, DW, o.class, o.q) THEN "allow" ELSE o.base
=============================================================================
