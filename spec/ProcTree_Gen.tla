---------------------------- MODULE ProcTree_Gen ----------------------------
(* C12: TLC enumerates the initial states of ProcTree (tree shape x escapes)  *)
(* and who ends first.                                                        *)
EXTENDS Naturals, FiniteSets, Sequences, TLC, Json, SequencesExt
CONSTANTS N
Nodes == 1..N
Shapes == { p \in [Nodes -> 0..N] : p[1] = 0 /\ \A n \in 2..N : p[n] < n }
Esc(r) == IF r = "ptrace" THEN {"none", "untraced"} ELSE {"none", "setsid", "setpgid", "daemon"}
EscFor(r, p) == { f \in [Nodes -> Esc(r)] : f[1] = "none" /\ \A n \in Nodes : (n > 1 /\ p[n] = 0) => f[n] = "none" }
\* what ends the run (ProcTree!Kill abstracts all of them): the program's own exit, a cancellation, or the
\* caller's sync callback refusing the run (with sync-after-exec the program is already running then)
Ends == {"exit", "cancel", "syncfail"}
Cases == UNION { UNION { { [runner |-> r, par |-> p, esc |-> e, end |-> b] : e \in EscFor(r, p), b \in Ends } :
                          p \in Shapes } : r \in {"ptrace", "unshare", "container", "container-sa"} }
ASSUME ndJsonSerialize("cases.ndjson", SetToSeq(Cases))
ASSUME PrintT(<<"trees", Cardinality(Cases)>>)
VARIABLE x
Init == x = 0
Next == UNCHANGED x
=============================================================================
