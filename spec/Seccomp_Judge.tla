--------------------------- MODULE Seccomp_Judge ---------------------------
(***************************************************************************)
(* C01 table judges (evaluated once, in ASSUMEs; no variables: the module  *)
(* is extended by Seccomp_Check so that one TLC run decides everything):   *)
(*                                                                         *)
(* kernel.ndjson -- policy lines with obs = what really happened to a      *)
(*   child that had the filter installed by forkexec and issued one system *)
(*   call ([m, nr, o, v]: entry instruction, number, how the probe died).  *)
(*   Two questions per observation:                                        *)
(*     model : is it what the kernel does for the value my cBPF machine    *)
(*             computes?  no => my reading of the program is wrong         *)
(*             (inconclusive, never a verdict)                             *)
(*     prop  : is it possible under an acceptable action?  no => violation *)
(*                                                                         *)
(* cleanobs.ndjson -- [a, t, oa, ot]: name lists given to / returned by    *)
(*   runprog's cleanTrace (real GetConf runs and TLC-generated pairs).     *)
(***************************************************************************)
EXTENDS Seccomp, TLC, Json

KLines == ndJsonDeserialize("kernel.ndjson")
CObs   == ndJsonDeserialize("cleanobs.ndjson")

\* ---- what the probe's death means (probes/seccomp.c)
ObsClass(s) ==
  CASE s.o = "sig" /\ s.v = 31 -> "sigsys"       \* killed by the filter (KILL_*, TRAP unhandled)
    [] s.o = "sig" /\ s.v = 4  -> "enosys"       \* call returned -ENOSYS
    [] s.o = "sig" /\ s.v = 8  -> "eperm"        \* call returned -EPERM
    [] s.o = "sig" /\ s.v = 5  -> "ran"          \* any other result: the kernel ran the call
    [] s.o = "sig" /\ s.v = 11 /\ s.m = "i" -> "unsupported"   \* no int 0x80 entry on this kernel
    [] s.o = "exit"    -> "ran"                  \* the call was exit/exit_group and it ran
    [] s.o = "blocked" -> "ran"
    [] s.o = "loadfail" -> "loadfail"            \* seccomp(2) refused the program
    [] s.o = "status"   -> "status"              \* spinning probe: seccomp state read from /proc
    [] OTHER -> "weird"

\* what the kernel can make of a filter return value when no tracer / listener is attached
KOfClass(c) ==
  CASE c \in {"ALLOW", "LOG"} -> {"ran", "enosys", "eperm"}   \* the call's own result
    [] c \in {"TRACE", "USER_NOTIF"} -> {"enosys"}
    [] c = "ERRNO" -> {"enosys", "eperm", "ran"}
    [] c = "ERRNO0" -> {"ran"}
    [] c \in {"KILL_PROCESS", "KILL_THREAD", "TRAP", "UNKNOWN"} -> {"sigsys"}
    [] OTHER -> {}
KOfWord(w) ==
  IF Class(w) = "ERRNO" THEN (IF w[2] = 38 THEN {"enosys"} ELSE IF w[2] = 1 THEN {"eperm"} ELSE {"ran"})
  ELSE KOfClass(Class(w))

ArchOf(m) == IF m = "i" THEN I386 ELSE Native

(* Every kernel-witness policy declares execve (59 on x86-64) allowed, because the probe has to *)
(* be exec'ed under the filter.  If the program does not let it through, no observation of    *)
(* that line says anything about its own number: the line is a breach as a whole.             *)
ExecOK(l) == Class(Run(l.prog, Native, W(59))) = "ALLOW"

(* The kernel's own statement about a spinning probe that was launched with Runner.Seccomp set:  *)
(* v = Seccomp mode * 1000 + number of filters added to the launcher's own.  Exactly one filter *)
(* in filter mode (2) must have been handed over, whatever the other launch options are.        *)
HandedOver(s) == s.v = 2001
Installed(l)  == \A j \in DOMAIN l.obs : l.obs[j].o = "status" => HandedOver(l.obs[j])

PossibleUnder(S) == UNION { KOfClass(c) : c \in S }

JudgeSample(l, s) ==
  LET P == Policy(l)
      a == ArchOf(s.m)
      w == Run(l.prog, a, s.nr)
      oc == ObsClass(s)
  IN IF oc = "loadfail" THEN (IF Loadable(l.prog) THEN "model" ELSE "viol")
     ELSE IF oc = "status" THEN (IF HandedOver(s) THEN "ok" ELSE "notinstalled")
     ELSE IF ~Installed(l) THEN
          \* the kernel says the child does not run (exactly) the program I read: observations of
          \* this line say nothing about my reading, they are judged against the policy only
          (IF oc = "unsupported" THEN "skip"
           ELSE IF oc = "weird" THEN "model"
           ELSE IF oc \notin PossibleUnder(Accept(P, a, s.nr)) THEN "viol" ELSE "ok")
     ELSE IF ~ExecOK(l) THEN (IF W(59) \in P.allow \ P.trace THEN "execblocked" ELSE "model")
     ELSE IF oc = "unsupported" THEN "skip"
     ELSE IF oc = "weird" THEN "model"
     ELSE IF ~Loadable(l.prog) THEN "model"                 \* the kernel loaded what I call unloadable
     ELSE IF oc \notin KOfWord(w) THEN "model"
     ELSE IF oc \notin PossibleUnder(Accept(P, a, s.nr)) THEN "viol"
     ELSE "ok"

\* every observation judged once: <<line, sample index, verdict>>
KRows == UNION { { <<i, j>> : j \in DOMAIN KLines[i].obs } : i \in DOMAIN KLines }
KV    == { <<r[1], r[2], JudgeSample(KLines[r[1]], KLines[r[1]].obs[r[2]])>> : r \in KRows }
KBad  == { t \in KV : t[3] \notin {"ok", "skip"} }
KSkip == { t \in KV : t[3] = "skip" }

\* ---- list clean-up in front of the builder: the built lists must denote the declared policy
\* with trace precedence, and must be acceptable to the builder (no name twice, disjoint)
NoDup(s) == Cardinality(ToSet(s)) = Len(s)
JudgeClean(o) ==
  IF ToSet(o.ot) # ToSet(o.t) THEN "trace-set"
  ELSE IF ToSet(o.oa) # ToSet(o.a) \ ToSet(o.t) THEN "allow-set"
  ELSE IF ~NoDup(o.oa) \/ ~NoDup(o.ot) THEN "duplicate"
  ELSE "ok"
CBad == { i \in DOMAIN CObs : JudgeClean(CObs[i]) # "ok" }

KRow(t) ==
  LET l == KLines[t[1]]
      s == l.obs[t[2]]
      P == Policy(l)
      a == ArchOf(s.m)
  IN [i |-> t[1], j |-> t[2], v |-> t[3], obs |-> ObsClass(s), ret |-> Run(l.prog, a, s.nr),
      zone |-> Zone(P, a, s.nr), accept |-> SetToSeq(Accept(P, a, s.nr))]
ASSUME ndJsonSerialize("kbad.ndjson", SetToSeq({ KRow(t) : t \in KBad }))
ASSUME ndJsonSerialize("cbad.ndjson", SetToSeq({ [i |-> i, v |-> JudgeClean(CObs[i])] : i \in CBad }))
ASSUME PrintT(<<"judged", Cardinality(KRows), Cardinality(KSkip), Cardinality(KBad), Len(CObs), Cardinality(CBad)>>)
=============================================================================
