---------------------------- MODULE Launch_Trace ----------------------------
(* Trace validation of Launch against strace -f logs of real launches.       *)
(* Each line of ltraces.ndjson is one launch:                                *)
(*   [id, opt, child |-> << [n, v, ok], ... >>, parent |-> << [n, v, ok] >>] *)
(* child  = the raw syscalls of the cloned child up to its execve, in        *)
(*          program order (n = syscall class, v = the one argument / result  *)
(*          the spec predicts, ok = did not fail)                            *)
(* parent = the launcher thread's protocol syscalls during Start             *)
(* The two logs are NOT merged by wall clock: one cursor each (lc, lp); TLC  *)
(* explores the interleavings the socket protocol allows.  A syscall maps to *)
(* the Launch action of the step the child's program counter is at; steps    *)
(* that issue a variable number of syscalls (descriptor passes, mount block, *)
(* pivot block, rlimits) absorb their events without moving.  Register t =   *)
(* high-water mark of consumed events of trace t (-workers 1).               *)
EXTENDS Launch, Json

Traces == ndJsonDeserialize("ltraces.ndjson")
N == Len(Traces)
VARIABLES t, lc, lp
tvars == <<vars, t, lc, lp>>

CLog == Traces[t].child
PLog == Traces[t].parent

Multi == {"fds", "mounts", "pivot_root", "rlimits"}
\* syscall classes a step may show up as
EvOf(n) ==
  CASE n = "close_p0" -> {"close"}
    [] n \in {"userns_read", "syncA_read", "syncB_read"} -> {"read"}
    [] n \in {"syncA_write", "syncB_write"} -> {"write"}
    [] n = "getpid" -> {"getpid"}
    [] n \in {"keepcaps", "dropA_secbits", "dropB_secbits", "dropC_secbits"} -> {"secbits"}
    [] n = "setgroups" -> {"setgroups"}
    [] n = "setgid" -> {"setgid"}
    [] n = "setuid" -> {"setuid"}
    [] n = "fds" -> {"dup3", "fcntl", "close"}
    [] n = "setsid" -> {"setsid"}
    [] n = "ctty" -> {"ioctl"}
    [] n \in {"mount_root", "pivot_tmpfs"} -> {"mount"}
    [] n \in {"pivot_chdir", "chdir"} -> {"chdir"}
    [] n = "mounts" -> {"mkdirat", "mknodat", "mount", "statfs"}
    [] n = "pivot_root" -> {"mkdirat", "pivot_root", "umount2", "unlinkat", "mount"}
    [] n = "hostname" -> {"sethostname"}
    [] n = "domainname" -> {"setdomainname"}
    [] n = "rlimits" -> {"prlimit64"}
    [] n = "nnp" -> {"nnp"}
    [] n \in {"dropA_capset", "dropB_capset", "dropC_capset"} -> {"capset"}
    [] n \in {"ucgA", "ucgB"} -> {"unshare"}
    [] n \in {"tracemeA", "tracemeB"} -> {"ptrace"}
    [] n = "stop" -> {"kill"}
    [] n \in {"seccompA", "seccompB"} -> {"seccomp"}
    [] n = "exec" -> {"execve"}
    [] OTHER -> {}
\* the argument the spec predicts for a step (0 = not predicted)
ArgOf(n) ==
  CASE n = "keepcaps" -> SecBitsNum(SbKeep)
    [] n \in {"dropA_secbits", "dropB_secbits", "dropC_secbits"} -> SecBitsNum(SbDrop)
    [] n = "setgid" -> Traces[t].req.gid
    [] n = "setuid" -> Traces[t].req.uid
    [] n = "hostname" -> Traces[t].req.hostlen          \* the length handed to sethostname / setdomainname
    [] n = "domainname" -> Traces[t].req.domlen
    [] OTHER -> 0
Matches(n, e) == e.n \in EvOf(n) /\ (ArgOf(n) # 0 => e.v = ArgOf(n))

TInit ==
  /\ t \in 1..N /\ lc = 1 /\ lp = 1
  /\ opt = Traces[t].opt /\ lsb = {} /\ path = ChildPath(Traces[t].opt)
  /\ fail = NoFail /\ cbres = "none"
  /\ ci = 0 /\ cx = Born(opt, lsb) /\ cstat = "none"
  /\ ppc = "clone" /\ err2 = "0" /\ perr = NoRet /\ mapped = FALSE
  /\ c2p = <<>> /\ p2c = <<>> /\ pend = TRUE /\ cend = TRUE
  /\ cbn = 0 /\ execed = FALSE /\ reaped = FALSE /\ ret = NoRet

\* a child syscall: a successful one is the step's normal branch, a failed one of a fallible step is
\* the step's failure branch (the child reports and exits), a failed one of a step whose result the
\* code ignores is the normal branch
TChild ==
  /\ lc <= Len(CLog) /\ cstat = "alive"
  /\ Matches(Cur, CLog[lc])
  /\ LET good == CLog[lc].ok \/ ~Fallible(Cur) IN
     \/ good /\ Cur \in Multi /\ UNCHANGED vars
     \/ /\ good /\ Cur \notin Multi /\ Child /\ fail' = fail
        /\ IF Cur \in {"syncA_read", "syncB_read"} THEN (cstat' = "zombie") <=> (CLog[lc].v = 0)   \* EOF: parent refused
           ELSE IF Cur = "userns_read" THEN TRUE                \* dies iff the parent's word is an errno
           ELSE cstat' # "zombie"
     \/ ~good /\ Child /\ cstat' = "zombie"
  /\ lc' = lc + 1 /\ UNCHANGED <<t, lp>>
\* childExitError's write of the error record (part of the atomic ChildDie in the model)
TChildTail ==
  /\ lc <= Len(CLog) /\ cstat \in {"zombie", "gone"} /\ CLog[lc].n = "write"
  /\ lc' = lc + 1 /\ UNCHANGED <<vars, t, lp>>
\* leaving a variable-length step consumes nothing
TChildSilent ==
  /\ cstat = "alive" /\ Cur \in Multi /\ CLocal
  /\ UNCHANGED <<t, lc, lp>>
\* strace (the job-control parent here) continues a stopped child
TResume ==
  /\ cstat = "stopped" /\ cstat' = "alive"
  /\ UNCHANGED <<fail, ci, cx, c2p, p2c, cend, execed>> /\ CUnch /\ UNCHANGED <<t, lc, lp>>

PEv(a) ==
  CASE a = "clone" -> "clone" [] a = "close_p1" -> "close_p1" [] a = "idmap" -> "idmap"
    [] a \in {"idmap_word", "ack"} -> "sock_write" [] a \in {"sync_read", "exec_read"} -> "sock_read"
    [] a = "callback" -> "callback" [] a = "kill" -> "kill" [] a = "wait" -> "wait4" [] OTHER -> "-"
TParent ==
  /\ lp <= Len(PLog) /\ PLog[lp].n = PEv(ppc)
  /\ Parent
  /\ (ppc \in {"clone", "idmap"} => (PLog[lp].ok <=> fail' = fail))
  /\ lp' = lp + 1 /\ UNCHANGED <<t, lc>>
\* Start closes p[1] before it looks at the clone result (fork_linux.go:72)
TParentTail ==
  /\ lp <= Len(PLog) /\ ppc = "done" /\ ret.loc = "clone" /\ PLog[lp].n = "close_p1"
  /\ lp' = lp + 1 /\ UNCHANGED <<vars, t, lc>>
TParentSilent ==
  /\ ppc \in {"post_sync", "fail", "ret"} /\ Parent
  /\ UNCHANGED <<t, lc, lp>>

TNext == TChild \/ TChildTail \/ TChildSilent \/ TResume \/ TParent \/ TParentTail \/ TParentSilent
TSpec == TInit /\ [][TNext]_tvars

Consumed == (lc - 1) + (lp - 1)
Mark == TLCSet(t, IF TLCGet(t) < Consumed THEN Consumed ELSE TLCGet(t))
ASSUME \A i \in 1..N : TLCSet(i, 0)
Total(i) == Len(Traces[i].child) + Len(Traces[i].parent)
Report ==
  ndJsonSerialize("lbad.ndjson",
     SetToSeq({ [t |-> i, id |-> Traces[i].id, matched |-> TLCGet(i), total |-> Total(i)] : i \in { j \in 1..N : TLCGet(j) < Total(j) } }))
\* C04 on the step trace as well: a behaviour that reaches the program start is in the requested state
TInvPost == InvPost
=============================================================================
