------------------------------ MODULE ForkLock ------------------------------
(***************************************************************************)
(* C17: descriptor hygiene between concurrent runs in one process.         *)
(* Threads of kind "opener" create descriptors.  A descriptor is either    *)
(* created close-on-exec atomically (O_CLOEXEC, SOCK_CLOEXEC,              *)
(* MSG_CMSG_CLOEXEC) or in two steps (create, then mark) which the code    *)
(* brackets with syscall.ForkLock.RLock (container.Open: recvmsg +         *)
(* CloseOnExec).  Threads of kind "forker" take ForkLock.Lock, clone a     *)
(* child (which inherits a snapshot of the descriptor table), release the  *)
(* lock; the child later execs, closing every close-on-exec descriptor and *)
(* keeping the others.  A run must never see a descriptor of another run.  *)
(* UseLock = FALSE is the same protocol without the read lock: it must     *)
(* violate the invariant (the model is not vacuous).                       *)
(***************************************************************************)
EXTENDS Naturals, FiniteSets
CONSTANTS Openers, Forkers, UseLock
VARIABLES tab,      \* process-wide table: set of [owner, cx]
          opc,      \* [Openers -> "idle" | "locked" | "created" | "marked" | "done"]
          fpc,      \* [Forkers -> "idle" | "locked" | "cloned" | "execed"]
          snap,     \* [Forkers -> snapshot of tab at clone]
          wlock,    \* forker holding the write lock (or "none")
          rlocks    \* set of openers holding the read lock
vars == <<tab, opc, fpc, snap, wlock, rlocks>>
Init == /\ tab = {} /\ opc = [o \in Openers |-> "idle"] /\ fpc = [f \in Forkers |-> "idle"]
        /\ snap = [f \in Forkers |-> {}] /\ wlock = "none" /\ rlocks = {}

\* two-step creation under the read lock
RLock(o) == /\ opc[o] = "idle" /\ (UseLock => wlock = "none")
            /\ opc' = [opc EXCEPT ![o] = "locked"] /\ rlocks' = IF UseLock THEN rlocks \cup {o} ELSE rlocks
            /\ UNCHANGED <<tab, fpc, snap, wlock>>
Create(o) == /\ opc[o] = "locked" /\ tab' = tab \cup {[owner |-> o, cx |-> FALSE]}
             /\ opc' = [opc EXCEPT ![o] = "created"] /\ UNCHANGED <<fpc, snap, wlock, rlocks>>
Mark(o) == /\ opc[o] = "created"
           /\ tab' = (tab \ {[owner |-> o, cx |-> FALSE]}) \cup {[owner |-> o, cx |-> TRUE]}
           /\ opc' = [opc EXCEPT ![o] = "marked"] /\ UNCHANGED <<fpc, snap, wlock, rlocks>>
RUnlock(o) == /\ opc[o] = "marked" /\ opc' = [opc EXCEPT ![o] = "done"] /\ rlocks' = rlocks \ {o}
              /\ UNCHANGED <<tab, fpc, snap, wlock>>

Lock(f) == /\ fpc[f] = "idle" /\ wlock = "none" /\ rlocks = {}
           /\ wlock' = f /\ fpc' = [fpc EXCEPT ![f] = "locked"] /\ UNCHANGED <<tab, opc, snap, rlocks>>
Clone(f) == /\ fpc[f] = "locked" /\ snap' = [snap EXCEPT ![f] = tab]
            /\ fpc' = [fpc EXCEPT ![f] = "cloned"] /\ wlock' = "none" /\ UNCHANGED <<tab, opc, rlocks>>
Exec(f) == /\ fpc[f] = "cloned" /\ snap' = [snap EXCEPT ![f] = { d \in snap[f] : ~d.cx }]
           /\ fpc' = [fpc EXCEPT ![f] = "execed"] /\ UNCHANGED <<tab, opc, wlock, rlocks>>

Next == (\E o \in Openers : RLock(o) \/ Create(o) \/ Mark(o) \/ RUnlock(o))
        \/ (\E f \in Forkers : Lock(f) \/ Clone(f) \/ Exec(f))
Spec == Init /\ [][Next]_vars
\* no exec'ed program holds a descriptor created by another run
NoLeak == \A f \in Forkers : fpc[f] = "execed" => snap[f] = {}
=============================================================================
