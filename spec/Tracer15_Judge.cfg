INIT Init
NEXT Next
