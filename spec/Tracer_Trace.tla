---------------------------- MODULE Tracer_Trace ----------------------------
(* C03 / C15, implementation layer: hook-recorded event logs of the real trace  *)
(* loop (ptracer verifEvent: wait, setopt, trap, cont, end) validated against    *)
(* the actions of Tracer.  One behaviour per run (t), cursor l over the events;   *)
(* every tracer event is enabled only through the Tracer action of that step     *)
(* with the logged fields bound; the kernel's moves (K_...) are not logged and    *)
(* are taken silently.  Process numbers of the log (order of first appearance)   *)
(* are bound to the tasks of the script on first sight (pm).                      *)
(* Register t = high-water mark of matched events.  A trace that is not fully    *)
(* matched is DRIFT (the code or the kernel no longer follows this model), not a  *)
(* violation.  -workers 1.                                                        *)
EXTENDS Tracer, Json, SequencesExt
Obs == ndJsonDeserialize("obs.ndjson")
N == Len(Obs)
VARIABLES t, l, pm
ttvars == <<vars, t, l, pm>>
O == Obs[t]
DecOf(d) == [m \in { d[i].m : i \in DOMAIN d } |-> (d[CHOOSE i \in DOMAIN d : d[i].m = m]).d]

TInit ==
  /\ t \in 1..N
  /\ InitCase([script |-> Obs[t].script, dec |-> DecOf(Obs[t].decl)])
  /\ l = 1 /\ pm = [p \in 1..8 |-> 0]

E == O.events[l]
More == l <= Len(O.events)

\* the wait status the model predicts for task k, in the log's vocabulary
WaitMatches(k, e) ==
  CASE ts[k] = "zombie" /\ ev[k].t = "exit" -> e.kind = "exited" /\ e.code = ev[k].x
    [] ts[k] = "zombie" /\ ev[k].t = "killed" -> e.kind = "signaled" /\ e.sig = ev[k].x
    [] ts[k] = "stop" /\ ev[k].t \in {"sig", "grp"} -> e.kind = "stopped" /\ e.sig = ev[k].x /\ e.cause <= 0
    [] ts[k] = "stop" /\ ev[k].t = "sec" -> e.kind = "stopped" /\ e.sig = SIGTRAP /\ e.cause = 7
    [] ts[k] = "stop" /\ ev[k].t = "fork" -> e.kind = "stopped" /\ e.sig = SIGTRAP /\ e.cause = 1
    [] ts[k] = "stop" /\ ev[k].t = "vfork" -> e.kind = "stopped" /\ e.sig = SIGTRAP /\ e.cause = 2
    [] ts[k] = "stop" /\ ev[k].t = "clone" -> e.kind = "stopped" /\ e.sig = SIGTRAP /\ e.cause = 3
    [] ts[k] = "stop" /\ ev[k].t = "exec" -> e.kind = "stopped" /\ e.sig = SIGTRAP /\ e.cause = 4
    [] OTHER -> FALSE

ActName(a) == IF a = 0 THEN "allow" ELSE IF a = 1 THEN "ban" ELSE "kill"

EWait ==
  /\ More /\ E.ev = "wait" /\ tpc = "wait" /\ E.execved = execved
  /\ \E k \in Tasks :
       /\ IF pm[E.p] = 0 THEN (\A p \in 1..8 : pm[p] # k) /\ pm' = [pm EXCEPT ![E.p] = k]
                         ELSE pm[E.p] = k /\ UNCHANGED pm
       /\ WaitMatches(k, E)
       /\ T_Wait /\ cur' = k
EOther ==
  /\ More /\ UNCHANGED pm
  /\ \/ E.ev = "setopt" /\ pm[E.p] = cur /\ T_SetOpt /\ (E.err # "" => ~CanPtrace)
     \/ /\ E.ev = "trap" /\ pm[E.p] = cur /\ T_Trap
        \* (a task that is being killed may still hand out its registers while its memory is gone:
        \*  the handler then answers about garbage; the answer is of no consequence)
        /\ IF E.err = "" THEN \/ CanPtrace /\ trapped' # trapped /\ trapped'[Len(trapped')].act = ActName(E.act)
                              \/ ~CanPtrace
                         ELSE ~CanPtrace
     \/ E.ev = "cont" /\ pm[E.p] = cur /\ csig = E.sig /\ T_Cont
     \/ E.ev = "end" /\ T_KillAll /\ StatusNo(result.status) = E.status
\* events that are no separate step of the model
ESkip ==
  /\ More /\ E.ev \in {"start", "exec", "pretrap"}
  /\ (E.ev = "exec" => execved) /\ (E.ev = "pretrap" => ~execved)
  /\ UNCHANGED <<vars, pm>>
TStep ==
  \/ (EWait \/ EOther \/ ESkip) /\ l' = l + 1 /\ t' = t
  \/ KNext /\ UNCHANGED <<t, l, pm>>
TSpec == TInit /\ [][TStep]_ttvars

Hi(a, b) == IF a < b THEN b ELSE a
Mark == TLCSet(t, Hi(TLCGet(t), l - 1))
ASSUME \A i \in 1..N : TLCSet(i, 0)
Report ==
  ndJsonSerialize("drift.ndjson",
     SetToSeq({ [t |-> i, matched |-> TLCGet(i), total |-> Len(Obs[i].events)] :
                i \in { j \in 1..N : TLCGet(j) < Len(Obs[j].events) } }))
=============================================================================
