-------------------------- MODULE FdShuffle_Trace --------------------------
(* Trace validation for C06 (implementation layer): each line of traces.ndjson  *)
(* is the strace log of one real Runner.Start,                                   *)
(*   [id, start, cfg, pre |-> << [fd, id, cx] >>, cexec, ev |-> << [op,a,b,c,r] >> ] *)
(* one event per descriptor system call of the launch: the parent's socketpair,  *)
(* then the child's close / dup3 / fcntl / exec in program order.                *)
(* TLC starts one behaviour per trace (variable t) from the table the launching  *)
(* process really had (pre) and lets FdShuffle!Next run; a step that issues a    *)
(* system call is enabled only if it is exactly the next logged event (all       *)
(* arguments and the result), silent steps do not advance the cursor l.          *)
(* Register t: high-water mark of matched events.  Register N+t: set when the    *)
(* model has reached its end (exec done or launch failed) with all events        *)
(* consumed.  -workers 1.                                                        *)
EXTENDS FdShuffle, Json
Traces == ndJsonDeserialize("traces.ndjson")
N == Len(Traces)
VARIABLES t, l
tvars == <<vars, t, l>>

TabOf(ents) ==
  [n \in 0..MaxFd |-> IF \E e \in Range(ents) : e.fd = n
                        THEN LET e == CHOOSE x \in Range(ents) : x.fd = n IN Ent(e.id, e.cx = 1)
                        ELSE Closed]

TInit ==
  /\ t \in 1..N /\ l = 1
  /\ cfg = Traces[t].cfg
  /\ base = TabOf(Traces[t].pre)
  /\ caller = [files |-> Traces[t].cfg.files, exec |-> Traces[t].cexec]
  /\ start = 2                  \* one Start per trace: Restart is not enabled
  /\ tab = base /\ par = 0 /\ pipe = 0
  /\ fd = <<>> /\ nextfd = 0 /\ execf = 0 /\ i = 1
  /\ pc = "sock" /\ err = "none" /\ last = NoCall

TStep ==
  /\ Next
  /\ t' = t
  /\ IF last'.op = "none" THEN l' = l
     ELSE /\ l <= Len(Traces[t].ev)
          /\ last' = Traces[t].ev[l]
          /\ l' = l + 1
TSpec == TInit /\ [][TStep]_tvars

Mark ==
  /\ TLCSet(t, IF TLCGet(t) < l - 1 THEN l - 1 ELSE TLCGet(t))
  /\ (pc \in {"done", "failed"} /\ l = Len(Traces[t].ev) + 1) => TLCSet(N + t, 1)
ASSUME \A k \in 1..(2 * N) : TLCSet(k, 0)
Report ==
  ndJsonSerialize("bad.ndjson",
    SetToSeq({ [t |-> k, matched |-> TLCGet(k), len |-> Len(Traces[k].ev), complete |-> TLCGet(N + k)] :
               k \in { j \in 1..N : TLCGet(j) < Len(Traces[j].ev) \/ TLCGet(N + j) = 0 } }))
=============================================================================
