CONSTANTS MaxFds = 253
  Cap = 32768
  DescA = 34
  DescB = 43
  CarryDesc = TRUE
  CloseOnReject = TRUE
  RejectCtrunc = TRUE
  AbsorbDesc = TRUE
  ValueHandover = TRUE
SPECIFICATION TSpec
INVARIANTS InOrder Whole LedgerBalanced
CONSTRAINT Mark
POSTCONDITION Report
CHECK_DEADLOCK FALSE
