------------------------- MODULE LimitsCollector_MC -------------------------
(* What `bin/check C08` runs first: model-check LimitsCollector and, in the same TLC run, write the *)
(* case files of Limits_Cases (saves one JVM start).                                                 *)
EXTENDS LimitsCollector, Json, SequencesExt
CONSTANTS CollectN, SlowMax, RecMaxDev
Cases == INSTANCE Limits_Cases
ASSUME ndJsonSerialize("records.ndjson", SetToSeq(Cases!Records))
ASSUME ndJsonSerialize("verdicts.ndjson", SetToSeq(Cases!VerdictProgs))
ASSUME ndJsonSerialize("collect.ndjson", SetToSeq(Cases!CollectCases))
=============================================================================
