----------------------------- MODULE PathWalkMC -----------------------------
(***************************************************************************)
(* C02, design level: the kernel path walk of PathWalk.tla as a state      *)
(* machine with one action per kind of component, explored by TLC from     *)
(* every (forest of the catalogue, start directory, path string up to      *)
(* MaxLen components, follow / no-follow).                                 *)
(*   Terminates     every walk ends within StepBound steps                 *)
(*   Deterministic  at most one action is enabled in any state             *)
(*   StepIsNext     every transition is the function Step used by Judge    *)
(*   Agrees         the final state is what the operator Resolve returns   *)
(*   Idempotent     resolving a result again (without following) yields it *)
(*   Canonical      a followed result is never a symlink, has no dots      *)
(***************************************************************************)
EXTENDS PathWalk

CONSTANTS MaxLen, Alphabet, StepBound

VARIABLES fi, F, base, ps, nf, s, n      \* F = Forest(fi), kept in the state (TLC does not memoise definitions)
vars == <<fi, F, base, ps, nf, s, n>>

Strings == { x \in [abs : BOOLEAN, comps : UNION { [1..k -> Alphabet] : k \in 0..MaxLen }, trail : BOOLEAN] :
               WellFormed(x) }

tr == Trail(ps)
ff == ~nf \/ Trail(ps)

Init ==
  /\ fi \in 1..NForests
  /\ F = Forest(fi)
  /\ ps \in Strings
  /\ base \in (IF ps.abs THEN {Cwds[1]} ELSE ToSet(Cwds))     \* an absolute name ignores the base
  /\ nf \in BOOLEAN
  /\ s = IF IsEmptyString(ps) THEN Fail(Start(base, ps), "ENOENT") ELSE Start(base, ps)
  /\ n = 0

Running == s.k = "run"
c    == Head(s.rest)
tl   == Tail(s.rest)
last == tl = <<>>
nn   == Append(s.cur, c)
ty   == NodeT(F, nn)
Name == Running /\ s.rest # <<>> /\ c \notin {".", ".."}

\* guards
GFinish   == Running /\ s.rest = <<>>
GDot      == Running /\ s.rest # <<>> /\ c = "."
GDotDot   == Running /\ s.rest # <<>> /\ c = ".." /\ s.cur # <<>>
GOut      == Running /\ s.rest # <<>> /\ c = ".." /\ s.cur = <<>>
GCreate   == Name /\ ty = "none" /\ last
GNoEnt    == Name /\ ty = "none" /\ ~last
GDescend  == Name /\ ty = "dir"
GFile     == Name /\ ty = "file" /\ last /\ ~tr
GNotDir   == Name /\ ty = "file" /\ (~last \/ tr)
GLinkStop == Name /\ ty = "link" /\ last /\ ~ff
GLoop     == Name /\ ty = "link" /\ ~(last /\ ~ff) /\ s.depth = MaxLinks
GSplice   == Name /\ ty = "link" /\ ~(last /\ ~ff) /\ s.depth < MaxLinks
Guards == <<GFinish, GDot, GDotDot, GOut, GCreate, GNoEnt, GDescend, GFile, GNotDir, GLinkStop, GLoop, GSplice>>

Keep == UNCHANGED <<fi, F, base, ps, nf>> /\ n' = n + 1
Finish   == GFinish   /\ s' = [s EXCEPT !.k = "ok"] /\ Keep
Dot      == GDot      /\ s' = [s EXCEPT !.rest = tl] /\ Keep
DotDot   == GDotDot   /\ s' = [s EXCEPT !.cur = Front(s.cur), !.rest = tl] /\ Keep
Out      == GOut      /\ s' = Fail(s, "OUT") /\ Keep
Create   == GCreate   /\ s' = [s EXCEPT !.k = "create", !.cur = nn, !.rest = <<>>] /\ Keep
NoEnt    == GNoEnt    /\ s' = Fail(s, "ENOENT") /\ Keep
Descend  == GDescend  /\ s' = [s EXCEPT !.cur = nn, !.rest = tl] /\ Keep
FileEnd  == GFile     /\ s' = [s EXCEPT !.k = "ok", !.cur = nn, !.rest = <<>>] /\ Keep
NotDir   == GNotDir   /\ s' = Fail(s, "ENOTDIR") /\ Keep
LinkStop == GLinkStop /\ s' = [s EXCEPT !.k = "ok", !.cur = nn, !.rest = <<>>] /\ Keep
Loop     == GLoop     /\ s' = Fail(s, "ELOOP") /\ Keep
Splice   == GSplice   /\ s' = [s EXCEPT !.depth = @ + 1,
                                        !.cur = IF F[nn].abs THEN <<>> ELSE s.cur,
                                        !.rest = F[nn].tgt \o tl] /\ Keep

Next == Finish \/ Dot \/ DotDot \/ Out \/ Create \/ NoEnt \/ Descend \/ FileEnd \/ NotDir
        \/ LinkStop \/ Loop \/ Splice

Spec == Init /\ [][Next]_vars

Terminates    == n <= StepBound
Deterministic == Cardinality({ i \in DOMAIN Guards : Guards[i] }) = (IF Running THEN 1 ELSE 0)
StepIsNext    == [][s' = Step(F, s, tr, ff)]_vars

Final == Res(s)
Agrees == ~Running => Final = Resolve(F, OkR(base), ps, nf)
Idempotent ==
  (~Running /\ s.k = "ok") => Resolve(F, OkR(<<>>), AbsOf(Final.p), TRUE) = Final
Canonical ==
  (~Running /\ s.k \in {"ok", "create"}) =>
     /\ \A i \in DOMAIN Final.p : Final.p[i] \notin {".", "..", ""}
     /\ (s.k = "ok" /\ ff) => NodeT(F, Final.p) \in {"dir", "file"}
     /\ \A i \in 1..(Len(Final.p) - 1) : NodeT(F, SubSeq(Final.p, 1, i)) = "dir"
     /\ (s.k = "create") => NodeT(F, Final.p) = "none"
=============================================================================
