CONSTANTS MaxN = 3
  MaxVol = 8
  MaxCap = 3
  MaxChunk = 3
  Drain = TRUE
  CollectN = {0, 1, 2, 100, 4095, 4096, 65535, 65536, 65537, 1048576}
  SlowMax = 5000
  RecMaxDev = 2
SPECIFICATION CSpec
INVARIANTS NeverMoreThanCapPlusOne WriterNeverBroken ExactAtEnd
PROPERTIES WriterFinishes CollectorFinishes
CHECK_DEADLOCK FALSE
