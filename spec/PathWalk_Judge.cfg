INIT Init
NEXT Next
