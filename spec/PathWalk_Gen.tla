---------------------------- MODULE PathWalk_Gen ----------------------------
(***************************************************************************)
(* C02 -- TLC as case generator.  The case space                           *)
(*   (forest, cwd, path string, syscall, descriptor encoding, flag word,   *)
(*    second path + descriptor for two-path calls)                         *)
(* is indexed by integers and decoded here; the orchestrator only supplies *)
(* numbers (sel.ndjson: [u, ra, rb, rc] lines drawn from the seed):        *)
(*   W  walk family   index -> (forest, cwd, abs, trail, components);      *)
(*                    ra/rb -> the remaining coordinates                   *)
(*      the exhaustive block: EVERY string with at most 3 components       *)
(*      (relative: from every cwd of every forest; absolute: once per      *)
(*      forest), written in A3Parts slices by parallel TLC runs            *)
(*   K  class family  every open-family call x access mode x SUBSET KFlags *)
(*   A  argument family  every call x every descriptor encoding x 4 shapes *)
(*   N  name family    names that look like something else (" (deleted)",  *)
(*      "..b") in the string, the cwd, the descriptor's directory, aliases *)
(*   L  link family    every link of every forest, last and in the middle  *)
(*   D  dynamic family  call, exchange of two nodes, same call again       *)
(*   M  memory family  representative calls x every placement of the       *)
(*      string relative to a page boundary x short/long string             *)
(***************************************************************************)
EXTENDS PathWalk, Json

CONSTANTS Seed, KFlags, KKinds, AForests, DForests, DFull,
          Rest,             \* TRUE: write the forests, the sampled W cases and the families K and A
          A3Part, A3Parts   \* slice A3Part of A3Parts of the exhaustive W block (0: none)

Sel == ndJsonDeserialize("sel.ndjson")

Alpha == <<"a", "b", "l1", "l2", ".", "..", "">>
NAl   == 7
Pow(k) == CASE k = 0 -> 1 [] k = 1 -> 7 [] k = 2 -> 49 [] k = 3 -> 343 [] k = 4 -> 2401
Off(l) == CASE l = 0 -> 0 [] l = 1 -> 1 [] l = 2 -> 8 [] l = 3 -> 57 [] l = 4 -> 400
LenOf(x) == IF x < 1 THEN 0 ELSE IF x < 8 THEN 1 ELSE IF x < 57 THEN 2 ELSE IF x < 400 THEN 3 ELSE 4
NP3 == 400
NP4 == 2801
CompsOf(x) == LET l == LenOf(x)
                  v == x - Off(l)
              IN [j \in 1..l |-> Alpha[((v \div Pow(l - j)) % NAl) + 1]]

NC == 4
NF == 8
ASSUME NC = Len(Cwds) /\ NF = NForests /\ NF = Len(Catalogue)
N3 == NP3 * 4 * NC * NF
N4 == NP4 * 4 * NC * NF

Kinds == << [lo |-> "cwd", hi |-> "ones"], [lo |-> "cwd", hi |-> "zero"], [lo |-> "cwd", hi |-> "junk"],
            [lo |-> "fd",  hi |-> "zero"], [lo |-> "fd",  hi |-> "junk"], [lo |-> "fd",  hi |-> "ones"],
            [lo |-> "bad", hi |-> "zero"] >>
NK == 7
ND == 8
NSys == 26
ASSUME NK = Len(Kinds) /\ ND = Len(DirPaths) /\ NSys = Len(Syscalls)
NoD == [lo |-> "none", hi |-> "zero", dirp |-> <<>>]
Static == [b |-> "static", gap |-> FALSE, prot |-> "rw"]
PS(abs, comps, trail) == [abs |-> abs, comps |-> comps, trail |-> trail, pre |-> "", pdir |-> <<>>,
                          pad |-> 0, mem |-> Static]

\* placements of the string in the caller's memory and lengths (see PathWalk.tla)
MemBs == <<"in", "end", "one", "mid", "last", "nul">>
Mems == << Static >>
        \o [ k \in 1..24 |-> [b |-> MemBs[((k - 1) % 6) + 1], gap |-> ((k - 1) \div 6) % 2 = 1,
                              prot |-> IF k > 12 THEN "w" ELSE "rw"] ]
        \o [ k \in 1..6 |-> [b |-> MemBs[k], gap |-> FALSE, prot |-> "none"] ]
NM   == 31
Pads == <<0, 0, 700, 3000>>
ASSUME NM = Len(Mems)
Placed(ps, m, pad) == [ps EXCEPT !.mem = Mems[m], !.pad = pad]
NoP == PS(FALSE, <<>>, FALSE)
DK(k, d) == [lo |-> Kinds[k].lo, hi |-> Kinds[k].hi, dirp |-> IF Kinds[k].lo = "fd" THEN DirPaths[d] ELSE <<>>]

\* procfs alias in front of a relative name (only where that gives a well-formed case)
Pres == <<"pcwd", "proot", "pfd", "ptcwd">>
WithPre(ps, x, d) ==     \* x in 0..7: 0..3 no alias
  IF x < 4 \/ ps.abs \/ ps.comps = <<>> THEN ps
  ELSE [ps EXCEPT !.pre = Pres[x - 3], !.pdir = IF x = 6 THEN DirPaths[d] ELSE <<>>]

OFlags == <<"O_CREAT", "O_EXCL", "O_TRUNC", "O_APPEND", "O_NOFOLLOW", "O_DIRECTORY", "O_CLOEXEC", "O_PATH">>
Bits(v, names) == { names[j] : j \in { j \in DOMAIN names : (v \div (2 ^ (j - 1))) % 2 = 1 } }

NoSwap == [p |-> <<>>, q |-> <<>>]
Mk(fam, f, cwd, sc, acc, fl, d1, p1, d2, p2) ==
  [fam |-> fam, f |-> f, cwd |-> cwd, sc |-> sc, args |-> Sig[sc], acc |-> acc, fl |-> SetToSeq(fl),
   swap |-> NoSwap,
   d1 |-> IF HasArg(sc, "d1") THEN d1 ELSE NoD, p1 |-> p1,
   d2 |-> IF HasArg(sc, "d2") THEN d2 ELSE NoD, p2 |-> IF HasArg(sc, "p2") THEN p2 ELSE NoP]

\* ---- W   (fam = "skip": the index does not denote a well-formed string; the driver drops it)
WCase(i, ra, rb, rc) ==
  LET f     == (i % NF) + 1
      i1    == i \div NF
      cwd   == Cwds[(i1 % NC) + 1]
      i2    == i1 \div NC
      trail == (i2 % 2) = 1
      abs   == ((i2 \div 2) % 2) = 1
      ps0   == PS(abs, CompsOf(i2 \div 4), trail)
      sc    == Syscalls[(ra % NSys) + 1]
      a1    == ra \div NSys
      d1    == DK((a1 % NK) + 1, ((a1 \div NK) % ND) + 1)
      fv    == (a1 \div (NK * ND)) % 256
      acc   == IF sc \in OpenFamily THEN fv % 4 ELSE 0
      fl    == IF sc \in OpenFamily THEN Bits(fv \div 4, SubSeq(OFlags, 1, 6))
               ELSE AtChoices(sc)[(fv % Len(AtChoices(sc))) + 1]
      x2    == rb % NP3
      ps2c  == PS(((rb \div 400) % 2) = 1, CompsOf(x2), ((rb \div 800) % 2) = 1)
      ps2   == IF WellFormed(ps2c) THEN ps2c ELSE [ps2c EXCEPT !.abs = TRUE]
      d2    == DK(((rb \div 1600) % NK) + 1, ((rb \div 11200) % ND) + 1)
      ps1   == WithPre(ps0, (rb \div 89600) % 8, ((rb \div 11200) % ND) + 1)
      ps    == Placed(ps1, (rc % NM) + 1, Pads[((rc \div (NM * NM)) % 4) + 1])
      ps2p  == Placed(ps2, ((rc \div NM) % NM) + 1, Pads[((rc \div (NM * NM * 4)) % 4) + 1])
  IN Mk(IF WellFormed(ps0) THEN "W" ELSE "skip", f, cwd, sc, acc, fl, d1, ps, d2, ps2p)

Ra(i) == (i * 7919 + (Seed % 1000) * 104729 + 12345) % 999983
Rb(i) == (i * 48611 + (Seed % 1000) * 7 + 1) % 999979
Rc(i) == (i * 31337 + (Seed % 1000) * 13 + 5) % 999961

WSel  == [ j \in DOMAIN Sel |-> WCase(Sel[j][1] % N4, Sel[j][2], Sel[j][3], Sel[j][4]) ]
\* every string of at most 3 components: relative ones from every cwd, absolute ones once per forest
\* (an absolute name does not depend on the cwd), in the index layout of WCase
Idx(x, abs, tr, c, f) == (((x * 2 + abs) * 2 + tr) * NC + c) * NF + f
NRel3 == NP3 * 2 * NC * NF
NAbs3 == NP3 * 2 * NF
All3Index(j) ==
  IF j < NRel3 THEN Idx(j \div (2 * NC * NF), 0, (j \div (NC * NF)) % 2, (j \div NF) % NC, j % NF)
  ELSE LET k == j - NRel3 IN Idx(k \div (2 * NF), 1, (k \div NF) % 2, k % NC, k % NF)
NAll3 == NRel3 + NAbs3
A3Lo  == ((A3Part - 1) * NAll3) \div A3Parts + 1
A3Hi  == (A3Part * NAll3) \div A3Parts
WAll3 == IF A3Part > 0 THEN [ k \in 1..(A3Hi - A3Lo + 1) |->
                               WCase(All3Index(A3Lo + k - 2), Ra(A3Lo + k - 2), Rb(A3Lo + k - 2), Rc(A3Lo + k - 2)) ]
         ELSE <<>>

\* ---- K: class of every open flag word
KCases ==
  { Mk("K", 1, R, sc, acc, fl, DK(k, 1), PS(FALSE, <<"a", "b">>, FALSE), NoD, NoP) :
      sc \in OpenFamily, acc \in 0..3, fl \in SUBSET KFlags, k \in KKinds }

\* ---- A: argument positions, descriptor encodings and procfs aliases of every call
Shapes == << PS(FALSE, <<"b", "a">>, FALSE), PS(TRUE, r(<<"a", "b">>), FALSE),
             PS(FALSE, <<"l1", "b">>, FALSE), PS(FALSE, <<"..", "b", "b">>, FALSE) >>
ACases ==
  { Mk("A", f, r(<<"a">>), sc, IF sc \in OpenFamily THEN acc ELSE 0,
       IF sc \in OpenFamily THEN {} ELSE AtChoices(sc)[1],
       DK(k, (k % ND) + 1), Shapes[s], DK(((k + 2) % NK) + 1, ((k + 2) % ND) + 1), Shapes[(s % 4) + 1]) :
      f \in AForests, sc \in ToSet(Syscalls), acc \in {0, 1}, k \in 1..NK, s \in 1..4 }
  \cup
  { Mk("A", f, r(<<"a">>), sc, 0, IF sc \in OpenFamily THEN {} ELSE AtChoices(sc)[1],
       DK(7, 1), WithPre(Shapes[s], x, 2), DK(1, 1), WithPre(Shapes[(s % 4) + 1], 11 - x, 1)) :
      f \in AForests, sc \in ToSet(Syscalls), x \in 4..7, s \in {1, 3, 4} }

\* ---- M: where the string lies in the caller's memory
MSys == {"open", "openat", "openat2", "stat", "statx", "readlinkat", "unlinkat", "symlinkat", "renameat",
         "rename", "linkat", "execve"}
MCases ==
  { Mk("M", 1, r(<<"a">>), sc, 0, IF sc \in OpenFamily THEN {} ELSE AtChoices(sc)[1],
       DK(1, 1), Placed(Shapes[sp[1]], m, sp[2]), DK(2, 1), Placed(Shapes[5 - sp[1]], ((m + 4) % NM) + 1, 3000 - sp[2])) :
      sc \in MSys, m \in 2..NM, sp \in {<<2, 0>>, <<3, 3000>>} }

\* ---- N: name classes (see Skeleton) as components of the string, of the cwd, of the directory behind a
\* descriptor and of a procfs alias
NShapes == << PS(FALSE, <<"a">>, FALSE), PS(FALSE, <<"b (deleted)">>, FALSE), PS(FALSE, <<"b", "nx (deleted)">>, FALSE),
              PS(FALSE, <<"..", XD, "b">>, TRUE), PS(TRUE, r(<<XD, "b (deleted)">>), FALSE),
              PS(FALSE, <<"..b", "a">>, FALSE), PS(FALSE, <<"..", "a", "a", "b (deleted)", "a">>, FALSE) >>
NameSys == {"open", "openat", "newfstatat", "unlinkat", "renameat", "execve"}
NCases ==
  { Mk("N", f, Cwds[c], sc, 0, IF sc \in OpenFamily THEN {} ELSE AtChoices(sc)[1],
       DK(k, d), WithPre(NShapes[s], x, d), DK(k, ((d - 5) % 3) + 6), NShapes[(s % 7) + 1]) :
      f \in {1}, c \in {1, 4}, sc \in NameSys, k \in {1, 4}, d \in 6..8, s \in 1..7, x \in {0, 6} }

\* ---- L: every link of every forest as final and as intermediate component (followed by a name, by "..")
LinksOf(F) == { q \in DOMAIN F : F[q].t = "link" }
LCases ==
  UNION { LET F == Forest(f) IN
          { Mk("L", f, R, sc, 0, {}, DK(1, 1), PS(TRUE, q \o x, FALSE), NoD, NoP) :
              q \in LinksOf(F), x \in {<<>>, <<"a">>, <<"..">>}, sc \in {"stat", "openat"} } : f \in 1..NF }

\* ---- D: dynamic forest.  For every ordered pair (p, q) of nodes in one directory of which at least one
\* is a link: call 1 through p in the forest as generated, then the SAME call while p and q are exchanged
\* (the probe exchanges them before the call and back after it), both in one traced run.
DTails == IF DFull THEN {<<>>, <<"a">>, <<"..">>} ELSE {<<>>, <<"a">>}
DPairs(F) == { pq \in (DOMAIN F) \X (DOMAIN F) :
                 /\ pq[1] # pq[2] /\ Len(pq[1]) > 2 /\ Front(pq[1]) = Front(pq[2])
                 /\ "link" \in {F[pq[1]].t, F[pq[2]].t} }
DSeq(f) == LET F  == Forest(f)
               ps == SetToSeq(DPairs(F) \X DTails)
               C(k, sw) == LET pq == ps[k][1]
                               x  == ps[k][2]
                               sc == IF x = <<"a">> THEN "openat" ELSE "stat"
                               \* alternately absolute and relative to the cwd R
                               nm == IF k % 2 = 0 THEN PS(TRUE, pq[1] \o x, FALSE)
                                     ELSE PS(FALSE, SubSeq(pq[1], 3, Len(pq[1])) \o x, FALSE)
                           IN [Mk("D", f, R, sc, 0, {}, DK(1, 1), nm, NoD, NoP)
                                 EXCEPT !.swap = IF sw THEN [p |-> pq[1], q |-> pq[2]] ELSE NoSwap]
           IN [ j \in 1..(2 * Len(ps)) |-> C((j + 1) \div 2, j % 2 = 0) ]
DCases == IF DForests = {} THEN <<>>
          ELSE LET fs == SetToSeq(DForests) IN FlattenSeq([ i \in 1..Len(fs) |-> DSeq(fs[i]) ])
\* the exchange is an involution on every pair used
ASSUME \A f \in DForests : \A pq \in DPairs(Forest(f)) :
          /\ Unrelated(pq[1], pq[2])
          /\ Swap(Swap(Forest(f), pq[1], pq[2]), pq[1], pq[2]) = Forest(f)

Cases == WAll3 \o (IF Rest THEN DCases \o WSel \o SetToSeq(KCases) \o SetToSeq(ACases) \o SetToSeq(MCases)
                                \o SetToSeq(NCases) \o SetToSeq(LCases) ELSE <<>>)

Forests == [ i \in 1..NF |-> [id |-> i,
               nodes |-> SetToSeq({ [p |-> p, t |-> Forest(i)[p].t, abs |-> Forest(i)[p].abs, tgt |-> Forest(i)[p].tgt] :
                                     p \in DOMAIN Forest(i) })] ]

ASSUME Rest => ndJsonSerialize("forests.ndjson", Forests)
ASSUME ndJsonSerialize("cases.ndjson", Cases)
ASSUME PrintT(<<"generated", Len(Cases), "N3", N3, "N4", N4>>)
VARIABLE x
Init == x = 0
Next == UNCHANGED x
=============================================================================
