\* C10/C11/C16: Destroy, init crash and host crash enabled in every state
CONSTANTS MaxCalls = 2
  Ops = {"ping", "open", "exec"}
  AllowDestroy = TRUE
  AllowCrash = TRUE
  FixEatKill = TRUE
  ReapOnRefusal = TRUE
  FixDonePrio = TRUE
  AllowDeadline = FALSE
  DeadlineBreaks = TRUE
SPECIFICATION SpecLive
INVARIANTS NoDesync OneAnswer PingOk LostCallsFail ExecAnswers NoOrphan ReapedAtServe
PROPERTIES AllReturn CancelReturns HostDeathKillsAll
CHECK_DEADLOCK FALSE
