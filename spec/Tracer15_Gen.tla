---------------------------- MODULE Tracer15_Gen ----------------------------
(* C15: the hostile-argument grid.  A case is one traced system call issued by   *)
(* the probe with adversarial register contents; arguments are given as classes   *)
(* (the orchestrator renders them; TLC integers are 32 bit).                       *)
(*   pointer classes  null, unmapped, kernel (kernel half), none (PROT_NONE page), *)
(*                    odd.n / str.n  (n non-NUL bytes + NUL, odd / even address),  *)
(*                    edge.n  (n non-NUL bytes ending at the last mapped byte, the *)
(*                             next page is unmapped: unterminated to the end of   *)
(*                             the mapping), edgez.n (same with the NUL as last    *)
(*                             mapped byte), how (a readable open_how)             *)
(*   integer classes  zero, fdcwd32 (0xffffff9c), fdcwd64, minus1, hi (high bits   *)
(*                    set), i31 (2^31), i63 (2^63)                                 *)
(*   number classes   the table number, or unknown / negative / x32-tagged ones    *)
EXTENDS Integers, Sequences, FiniteSets, TLC, Json, SequencesExt
VARIABLE x

\* the syscalls runner/ptrace's Handle decodes, with the layout of their path arguments:
\*  p0 = path in arg0; d0p1 = dirfd arg0 + path arg1; p0p1; d0p1d2p3; how = openat2 (arg2 -> open_how)
Sys == {
  [name |-> "open", nr |-> 2, lay |-> "p0"], [name |-> "stat", nr |-> 4, lay |-> "p0"],
  [name |-> "lstat", nr |-> 6, lay |-> "p0"], [name |-> "access", nr |-> 21, lay |-> "p0"],
  [name |-> "execve", nr |-> 59, lay |-> "p0"], [name |-> "rename", nr |-> 82, lay |-> "p0p1"],
  [name |-> "unlink", nr |-> 87, lay |-> "p0"], [name |-> "readlink", nr |-> 89, lay |-> "p0"],
  [name |-> "chmod", nr |-> 90, lay |-> "p0"], [name |-> "openat", nr |-> 257, lay |-> "d0p1"],
  [name |-> "mkdirat", nr |-> 258, lay |-> "d0p1"], [name |-> "mknodat", nr |-> 259, lay |-> "d0p1"],
  [name |-> "newfstatat", nr |-> 262, lay |-> "d0p1"], [name |-> "unlinkat", nr |-> 263, lay |-> "d0p1"],
  [name |-> "renameat", nr |-> 264, lay |-> "d0p1d2p3"], [name |-> "linkat", nr |-> 265, lay |-> "d0p1d2p3"],
  [name |-> "symlinkat", nr |-> 266, lay |-> "d0p1"], [name |-> "readlinkat", nr |-> 267, lay |-> "d0p1"],
  [name |-> "fchmodat", nr |-> 268, lay |-> "d0p1"], [name |-> "faccessat", nr |-> 269, lay |-> "d0p1"],
  [name |-> "renameat2", nr |-> 316, lay |-> "d0p1d2p3"], [name |-> "execveat", nr |-> 322, lay |-> "d0p1"],
  [name |-> "statx", nr |-> 332, lay |-> "d0p1"], [name |-> "openat2", nr |-> 437, lay |-> "how"],
  [name |-> "faccessat2", nr |-> 439, lay |-> "d0p1"], [name |-> "fchmodat2", nr |-> 452, lay |-> "d0p1"] }

A(c, n) == [c |-> c, n |-> n]
Ptrs == { A("null", 0), A("unmapped", 0), A("kernel", 0), A("none", 0), A("odd", 5) }
        \cup { A("str", n) : n \in {0, 1, 4095, 4096, 4097, 8192} }
        \cup { A("edge", n) : n \in {1, 4095, 4096, 8192} }
        \cup { A("edgez", n) : n \in {0, 4095} }
Ints == { A(c, 0) : c \in {"zero", "fdcwd32", "fdcwd64", "minus1", "hi", "i31", "i63"} }
Cwd == A("fdcwd32", 0)
Ok == A("str", 1)
Z == A("zero", 0)
NrClasses == {"unknown9999", "unknownbig", "neg1", "neg2", "negmin", "x32openat", "x32execve", "x32bare"}

\* arguments for syscall s with path spec p (first path), q (second path), dirfd d, other int o
Args(s, p, q, d, o) ==
  CASE s.lay = "p0" -> <<p, o, o, Z, Z, Z>>
    [] s.lay = "p0p1" -> <<p, q, o, Z, Z, Z>>
    [] s.lay = "d0p1" -> <<d, p, o, o, Z, Z>>
    [] s.lay = "d0p1d2p3" -> <<d, p, d, q, o, Z>>
    [] s.lay = "how" -> <<d, p, q, A("zero", 24), Z, Z>>      \* q = the open_how pointer, size 24
Case(kind, s, nrc, args) == [kind |-> kind, name |-> s.name, nr |-> s.nr, nrc |-> nrc, lay |-> s.lay, args |-> args]
How == A("how", 0)
Second(s) == IF s.lay = "how" THEN How ELSE Ok

Cases ==
  \* every traced call x every hostile first path
  { Case("path", s, "", Args(s, p, Second(s), Cwd, Z)) : s \in Sys, p \in Ptrs }
  \* second path hostile
  \cup { Case("path2", s, "", Args(s, Ok, p, Cwd, Z)) : s \in { s \in Sys : s.lay \in {"p0p1", "d0p1d2p3"} }, p \in Ptrs }
  \* integer garbage in dirfd / flags
  \cup { Case("int", s, "", Args(s, Ok, Second(s), d, o)) : s \in Sys, d \in Ints, o \in {Z, A("hi", 0), A("minus1", 0)} }
  \* open_how that cannot be read
  \cup { Case("how", s, "", Args(s, Ok, h, Cwd, Z)) :
           s \in { s \in Sys : s.lay = "how" },
           h \in { A("null", 0), A("unmapped", 0), A("none", 0), A("kernel", 0), A("edge", 4), A("odd", 5) } }
  \* syscall numbers outside the table
  \cup { Case("nr", [name |-> c, nr |-> 0, lay |-> "d0p1"], c, <<Cwd, Ok, Z, Z, Z, Z>>) : c \in NrClasses }

ASSUME PrintT(<<"c15 cases", Cardinality(Cases)>>)
ASSUME ndJsonSerialize("cases15.ndjson", SetToSeq(Cases))
Init == x = 0
Next == UNCHANGED x
=============================================================================
