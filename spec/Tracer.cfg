CONSTANTS
  MainAlpha = {"T","U","S","K","W","F","V","C","X3"}
  ChildAlpha = {"T","U","S","K","C"}
  MaxMain = 3
  MaxChild = 2
  MaxSpawn = 2
  MaxT = 2
  MaxTotal = 4
  EsrchFatal = FALSE
  ChildSigsysIgnored = FALSE
  AnyDecision = FALSE
  ClenPanics = FALSE
  Noise = TRUE
SPECIFICATION Spec
INVARIANTS TypeOK Enforced TruthfulResult FinishedAllDead NeverRunnerError EnforcedFilterKill
CHECK_DEADLOCK TRUE
