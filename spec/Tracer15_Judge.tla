--------------------------- MODULE Tracer15_Judge ---------------------------
(* C15: TLC judges the verdict of every hostile run.                             *)
(* Property layer: the verdict is about the program (never Runner Error), the    *)
(* run did not get stuck with a task waiting for the tracer, nothing is left.     *)
(* Implementation layer (drift only): the particular verdict this tracer design  *)
(* gives: an allow-all handler lets the call through to the kernel (which refuses *)
(* the garbage), the program carries on and exits 0 -> Normal; a number outside   *)
(* the table is killed (by the handler or by the filter's x32 guard).             *)
EXTENDS Integers, Sequences, FiniteSets, TLC, Json, SequencesExt
VARIABLE x
Obs == ndJsonDeserialize("obs15.ndjson")
ProgramVerdicts == {"Normal", "Nonzero", "Signalled", "TLE", "MLE", "OLE", "Disallowed"}

PropOK(o) == o.status \in ProgramVerdicts /\ ~o.stuck
\* (a number the kernel does not even put to the filter -- negative or x32-tagged on a kernel without
\* x32 -- just fails with ENOSYS and the program carries on)
Expected(o) == IF o.kind = "nr" THEN {"Disallowed", "Normal"}
               ELSE IF o.kind = "race" THEN {o.status}
               ELSE {"Normal"}
Judge(o) == IF ~PropOK(o) THEN "viol" ELSE IF o.status \notin Expected(o) THEN "drift" ELSE "ok"

Bad == { i \in DOMAIN Obs : Judge(Obs[i]) # "ok" }
ASSUME ndJsonSerialize("bad15.ndjson", SetToSeq({ [i |-> i, j |-> Judge(Obs[i])] : i \in Bad }))
Init == x = 0
Next == UNCHANGED x
=============================================================================
