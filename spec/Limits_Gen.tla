----------------------------- MODULE Limits_Gen -----------------------------
(* TLC as case generator for C08 (stand-alone; the check uses LimitsCollector_MC, which model-checks *)
(* the collector and writes the same case files in one TLC run).                                     *)
EXTENDS Limits_Cases, TLC, Json, SequencesExt

ASSUME ndJsonSerialize("records.ndjson", SetToSeq(Records))
ASSUME ndJsonSerialize("verdicts.ndjson", SetToSeq(VerdictProgs))
ASSUME ndJsonSerialize("collect.ndjson", SetToSeq(CollectCases))
ASSUME PrintT(<<"generated", Cardinality(Records), Cardinality(VerdictProgs), Cardinality(CollectCases)>>)
VARIABLE x
Init == x = 0
Next == UNCHANGED x
=============================================================================
