------------------------------- MODULE Cgroup -------------------------------
(* C20: the cgroup library of go-sandbox (pkg/cgroup), v1 and v2.             *)
(*                                                                            *)
(* State of the world (a record S, so that this module has no variables and   *)
(* can be used by the model checker, by the generator and by the trace        *)
(* validator alike):                                                          *)
(*   S.ctls  hierarchies: the v1 controllers in use, or {"u"} for cgroup2     *)
(*   S.dirs  [ctl -> set of group directories], a directory is the sequence   *)
(*           of names below the base group (<<>> = the base)                  *)
(*   S.mem   [ctl -> [process -> directory]]; <<"-">> = outside the tree; a    *)
(*           process is all its threads (the helpers are multi-threaded)       *)
(*   S.hs    handles returned by the library, in order of creation:           *)
(*           [path, ex (Existing()), own (hierarchies whose directory this    *)
(*            handle created), acts (hierarchies the handle acts on), live]   *)
(*   S.lim   limits in force because a Set* call wrote them and the kernel     *)
(*           accepted: a set of <<directory, file, value>>; "limits written    *)
(*           are the limits in force" = every later call leaves them alone     *)
(*           until the directory itself is removed (LimitsKept)                *)
(*                                                                            *)
(* Property layer  : Spec* operators -- what each call must do.               *)
(* Implementation  : Impl* operators -- what the code does, with switches for *)
(* the designs that were found defective (TRUE = the repaired design):        *)
(*   ControlsExisting  a v1 handle that opened an existing group acts on it   *)
(*   RandomFresh       Random never returns a group that already existed      *)
(*   OpenReturns       OpenExisting on v1 returns the handle it built         *)
(*   OpenKeepsLimits   obtaining another handle on an existing group leaves its *)
(*                     limits alone (FALSE: the cpuset limit is re-initialised *)
(*                     from the parent whenever a v1 handle is returned)       *)
(*   MovesWholeProcess AddProc attaches the process = all its threads (FALSE:   *)
(*                     only the thread whose id was written, e.g. through the  *)
(*                     v1 tasks file; the helpers are multi-threaded)          *)
(*   OwnsOnlyCreated   per hierarchy, only a directory the handle created is   *)
(*                     recorded as created (FALSE: when the first hierarchy    *)
(*                     was fresh, every hierarchy is -- also pre-existing ones)*)
(* Concurrent creators are modelled step by step in Cgroup_Race (AtomicMkdir). *)
(* Existence is tracked per hierarchy: a group may pre-exist in a subset of    *)
(* the v1 hierarchies (SpecMk: an administrator's mkdir).  Then Existing() is  *)
(* not pinned by the property (either value), but ownership is: per hierarchy  *)
(* the handle owns a directory iff it created it, and Destroy never removes a  *)
(* directory the handle does not own.                                          *)
EXTENDS Integers, Sequences, FiniteSets

CONSTANTS ControlsExisting, RandomFresh, OpenReturns, OwnsOnlyCreated, OpenKeepsLimits, MovesWholeProcess

Outside == <<"-">>
Split == <<"*">>     \* the threads of the process are in different groups: never a state the property allows
Child(p, n) == Append(p, n)
IsChild(x, p) == Len(x) = Len(p) + 1 /\ SubSeq(x, 1, Len(p)) = p
Exists(S, p) == \A c \in S.ctls : p \in S.dirs[c]
Fresh(S, p)  == \A c \in S.ctls : p \notin S.dirs[c]
Uniform(S, p) == Exists(S, p) \/ Fresh(S, p)
Procs(S, c, p) == { k \in DOMAIN S.mem[c] : S.mem[c][k] = p }
Removable(S, c, p) == /\ p \in S.dirs[c]
                      /\ ~\E x \in S.dirs[c] : IsChild(x, p)
                      /\ Procs(S, c, p) = {}

Handle(p, ex, own, acts) == [path |-> p, ex |-> ex, own |-> own, acts |-> acts, live |-> TRUE]
\* result of a call: the new state, whether it failed, index of the returned handle (0 = none)
Res(S, err, n) == [S |-> S, err |-> err, n |-> n]
AddHandle(S, h) == [S EXCEPT !.hs = Append(@, h)]
MkDirs(S, p) == [S EXCEPT !.dirs = [c \in S.ctls |-> @[c] \cup {p}]]
Move(S, ks, p, cs) == [S EXCEPT !.mem = [c \in S.ctls |-> IF c \in cs THEN [k \in DOMAIN @[c] |-> IF k \in ks THEN p ELSE @[c][k]] ELSE @[c]]]

\* ---------------------------------------------------------------- limits
\* a Set* call writes one or two limit files; each file belongs to one hierarchy
Files(kind, val) == CASE kind = "cpu"  -> { <<"cpuq", val>>, <<"cpup", "100000">> }
                      [] kind = "mem"  -> { <<"mem", val>> }
                      [] kind = "pids" -> { <<"pids", val>> }
                      [] kind = "cpus" -> { <<"cpus", val>> }
CtlOf(file) == CASE file \in {"cpuq", "cpup"} -> "cpu" [] file = "mem" -> "memory" [] file = "pids" -> "pids" [] file = "cpus" -> "cpuset"
SetLim(S, p, kind, val) ==
  LET fs == Files(kind, val) IN
  [S EXCEPT !.lim = { x \in @ : ~(x[1] = p /\ \E f \in fs : f[1] = x[2]) } \cup { <<p, f[1], f[2]>> : f \in fs }]
\* a limit lives as long as its directory
DropLim(S) == [S EXCEPT !.lim = { x \in @ : CtlOf(x[2]) \in S.ctls /\ x[1] \in S.dirs[CtlOf(x[2])] }]

\* ---------------------------------------------------------------- property layer
\* SetX(handle, value) accepted by the kernel: the value is in force from now on
SpecSet(S, h, kind, val) == Res(SetLim(S, S.hs[h].path, kind, val), FALSE, 0)
\* an administrator creates the directory p in the hierarchies cs, outside the library
SpecMk(S, p, cs) == Res([S EXCEPT !.dirs = [c \in S.ctls |-> IF c \in cs THEN @[c] \cup {p} ELSE @[c]]], FALSE, 0)
Mixed(S, p) == ~Uniform(S, p)
\* create-or-open of a child: the handle owns exactly the directories it created.  Existing() is
\* TRUE when nothing was created, FALSE when everything was; in a mixed state the caller-visible
\* flag exf (what the implementation answered) is taken as it is
SpecNewAtEx(S, p, exf) ==
  LET own == { c \in S.ctls : p \notin S.dirs[c] }
      ex  == IF own = {} THEN TRUE ELSE IF own = S.ctls THEN FALSE ELSE exf
      S1  == AddHandle(MkDirs(S, p), Handle(p, ex, own, S.ctls))
  IN Res(S1, FALSE, Len(S1.hs))
SpecNewAt(S, p) == SpecNewAtEx(S, p, FALSE)
SpecNewEx(S, h, name, exf) == SpecNewAtEx(S, Child(S.hs[h].path, name), exf)
SpecNew(S, h, name) == SpecNewEx(S, h, name, FALSE)
\* Random: a group that did not exist before, under the first forced name that is free
FirstFree(S, h, names) == CHOOSE i \in DOMAIN names :
                             /\ Fresh(S, Child(S.hs[h].path, names[i]))
                             /\ \A j \in 1..(i - 1) : ~Fresh(S, Child(S.hs[h].path, names[j]))
SpecRandom(S, h, names) == SpecNew(S, h, names[FirstFree(S, h, names)])
\* Nest: create-or-open, then every process of the parent group moves into the child
SpecNestEx(S, h, name, exf) ==
  LET r == SpecNewEx(S, h, name, exf)
      p == Child(S.hs[h].path, name)
      ks == UNION { Procs(S, c, S.hs[h].path) : c \in S.ctls }
  IN [r EXCEPT !.S = Move(r.S, ks, p, S.ctls)]
SpecNest(S, h, name) == SpecNestEx(S, h, name, FALSE)
SpecOpen(S, p) ==
  IF Exists(S, p) THEN LET S1 == AddHandle(S, Handle(p, TRUE, {}, S.ctls)) IN Res(S1, FALSE, Len(S1.hs))
  ELSE Res(S, TRUE, 0)
SpecAdd(S, h, k) == Res(Move(S, {k}, S.hs[h].path, S.ctls), FALSE, 0)
\* Destroy removes the directories this handle created (when the kernel allows: empty, no
\* children), nothing else; it fails iff one of them could not be removed.
\* A handle that reports Existing() although it created some directories (mixed state) may also
\* leave everything in place (lazy): removing nothing is never a breach of "only if it created it".
SpecDestroy(S, h) ==
  LET p == S.hs[h].path
      R == { c \in S.hs[h].own : Removable(S, c, p) }
      S1 == [S EXCEPT !.dirs = [c \in S.ctls |-> IF c \in R THEN @[c] \ {p} ELSE @[c]],
                      !.hs[h].live = FALSE]     \* one Destroy per handle (a retry after a partial failure is a client matter)
  IN Res(DropLim(S1), R # S.hs[h].own, 0)
LazyAllowed(S, h) == S.hs[h].ex /\ S.hs[h].own # {}
SpecDestroyLazy(S, h) == Res([S EXCEPT !.hs[h].live = FALSE], FALSE, 0)

\* ---------------------------------------------------------------- implementation layer
\* every v1 handle the library returns has its cpuset initialised from the parent: only when the
\* group's own value is empty (OpenKeepsLimits), or always
Reinit(S, p) == IF OpenKeepsLimits THEN S ELSE [S EXCEPT !.lim = { x \in @ : ~(x[1] = p /\ x[2] = "cpus") }]
\* the library visits the v1 controllers in a fixed order; the first one decides Existing()
Rank(c) == CASE c = "cpu" -> 1 [] c = "cpuset" -> 2 [] c = "cpuacct" -> 3 [] c = "memory" -> 4 [] c = "pids" -> 5 [] OTHER -> 0
First(S) == CHOOSE c \in S.ctls : \A d \in S.ctls : Rank(c) <= Rank(d)
ImplNewAt(S, p) ==
  LET own == { c \in S.ctls : p \notin S.dirs[c] }
      rec == IF OwnsOnlyCreated \/ First(S) \notin own THEN own ELSE S.ctls
      S1  == AddHandle(MkDirs(S, p), Handle(p, First(S) \notin own, rec, IF ControlsExisting THEN S.ctls ELSE own))
  IN Res(Reinit(S1, p), FALSE, Len(S1.hs))
ImplNew(S, h, name) == ImplNewAt(S, Child(S.hs[h].path, name))
ImplRandom(S, h, names) == IF RandomFresh THEN ImplNew(S, h, names[FirstFree(S, h, names)])
                           ELSE ImplNew(S, h, names[1])
\* v1 Nest reads the processes from the first hierarchy the parent handle acts on and writes them
\* to the hierarchies the new handle acts on
ImplNest(S, h, name) ==
  LET r == ImplNew(S, h, name)
      p == Child(S.hs[h].path, name)
      pa == S.hs[h].acts
  IN IF pa = {} THEN [r EXCEPT !.err = TRUE, !.n = 0]
     ELSE LET c0 == CHOOSE c \in pa : TRUE IN
          [r EXCEPT !.S = Move(r.S, Procs(S, c0, S.hs[h].path), p, r.S.hs[r.n].acts)]
ImplOpen(S, p) ==
  IF ~Exists(S, p) THEN Res(S, TRUE, 0)
  ELSE IF OpenReturns THEN [SpecOpen(S, p) EXCEPT !.S = Reinit(@, p)] ELSE Res(S, FALSE, 0)
ImplSet(S, h, kind, val) == SpecSet(S, h, kind, val)
ImplAdd(S, h, k) == Res(Move(S, {k}, IF MovesWholeProcess THEN S.hs[h].path ELSE Split, S.hs[h].acts), FALSE, 0)
ImplDestroy(S, h) == IF S.hs[h].ex THEN SpecDestroyLazy(S, h) ELSE SpecDestroy(S, h)

\* ---------------------------------------------------------------- admissible results
\* r is what the implementation did; exf the Existing() it answered
AdmNewAt(S, p, r) == r = SpecNewAtEx(S, p, IF r.n # 0 THEN r.S.hs[r.n].ex ELSE FALSE)
AdmNest(S, h, name, r) == r = SpecNestEx(S, h, name, IF r.n # 0 THEN r.S.hs[r.n].ex ELSE FALSE)
AdmDestroy(S, h, r) == r = SpecDestroy(S, h) \/ (LazyAllowed(S, h) /\ r = SpecDestroyLazy(S, h))

\* ---------------------------------------------------------------- invariants of a state
\* at most one live handle owns a directory
NoDoubleOwner(S) ==
  \A i, j \in DOMAIN S.hs :
     (i # j /\ S.hs[i].live /\ S.hs[j].live /\ S.hs[i].path = S.hs[j].path) => S.hs[i].own \cap S.hs[j].own = {}
\* limits are only recorded for directories that exist
LimitsHoused(S) == \A x \in S.lim : CtlOf(x[2]) \in S.ctls /\ x[1] \in S.dirs[CtlOf(x[2])]
\* every process is in a group that exists
MembersHoused(S) == \A c \in S.ctls : \A k \in DOMAIN S.mem[c] : S.mem[c][k] = Outside \/ S.mem[c][k] \in S.dirs[c]
=============================================================================
