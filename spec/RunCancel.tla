------------------------------ MODULE RunCancel ------------------------------
(***************************************************************************)
(* C11 for the ptrace and namespace runners: cancellation of a run.        *)
(* Shaped after ptracer.Tracer.Trace/trace, runner/unshare Run and         *)
(* pkg/forkexec Start:                                                      *)
(*   runner goroutine: Start (clone; for the ptrace runner Start returns    *)
(*     as soon as the child exists, for the namespace runner only after the *)
(*     child has exec'ed), then `go func(){ <-ctx.Done(); killAll(pgid) }`, *)
(*     then the wait4 loop; on return killAll + collectZombie.              *)
(*   child: forked -> (descriptor set-up) -> setsid -> ... -> exec ->       *)
(*     running (never ends on its own here: the program sleeps)             *)
(*   killAll(pgid) = kill(-pgid, SIGKILL): reaches the child only once it   *)
(*     is the leader of its own process group, i.e. after setsid            *)
(*     (kernel assumption, cross-checked by the real runs).                 *)
(*   KillPid: killAll additionally signals the pid itself (fix).            *)
(***************************************************************************)
EXTENDS Naturals
CONSTANTS StartWaitsExec,   \* TRUE: namespace runner; FALSE: ptrace runner with a filter
          KillPid           \* TRUE: killAll also does kill(pid)
VARIABLES ctx,      \* "live" | "cancelled"
          rpc,      \* runner goroutine: "start" | "spawn" | "wait" | "returned"
          cpc,      \* canceller goroutine: "none" | "armed" | "done"
          child,    \* "none" | "forked" | "leader" (setsid done) | "running" | "killed" | "reaped"
          result    \* "none" | "TLE" | "other"
vars == <<ctx, rpc, cpc, child, result>>

Init == ctx \in {"live", "cancelled"} /\ rpc = "start" /\ cpc = "none" /\ child = "none" /\ result = "none"

Cancel == ctx = "live" /\ ctx' = "cancelled" /\ UNCHANGED <<rpc, cpc, child, result>>

Clone == rpc = "start" /\ child = "none" /\ child' = "forked" /\ UNCHANGED <<ctx, rpc, cpc, result>>
ChildSetsid == child = "forked" /\ child' = "leader" /\ UNCHANGED <<ctx, rpc, cpc, result>>
ChildExec == child = "leader" /\ child' = "running" /\ UNCHANGED <<ctx, rpc, cpc, result>>
StartReturns ==
  /\ rpc = "start" /\ child # "none"
  /\ (StartWaitsExec => child \in {"running", "killed"})
  /\ rpc' = "spawn" /\ UNCHANGED <<ctx, cpc, child, result>>
SpawnCanceller == rpc = "spawn" /\ rpc' = "wait" /\ cpc' = "armed" /\ UNCHANGED <<ctx, child, result>>

\* kill(-pgid) [+ kill(pid)]
Reached == child \in {"leader", "running"} \/ (KillPid /\ child = "forked")
CancellerFires ==
  /\ cpc = "armed" /\ ctx = "cancelled"
  /\ cpc' = "done"
  /\ child' = IF Reached THEN "killed" ELSE child
  /\ UNCHANGED <<ctx, rpc, result>>
\* wait4 sees the child die
WaitSeesKill ==
  /\ rpc = "wait" /\ child = "killed"
  /\ child' = "reaped" /\ result' = "TLE" /\ rpc' = "returned"
  /\ UNCHANGED <<ctx, cpc>>

Sys == Clone \/ ChildSetsid \/ ChildExec \/ StartReturns \/ SpawnCanceller \/ CancellerFires \/ WaitSeesKill
Next == Sys \/ Cancel
Spec == Init /\ [][Next]_vars /\ WF_vars(Sys)

\* the cancellation is never lost
CancelEndsRun == (ctx = "cancelled") ~> (rpc = "returned")
\* and ends as Time Limit Exceeded, with the program dead
Truthful == rpc = "returned" => result = "TLE" /\ child = "reaped"
=============================================================================
