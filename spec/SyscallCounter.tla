--------------------------- MODULE SyscallCounter ---------------------------
(* C18, second half: the syscall counter of runner/ptrace/filehandler as a  *)
(* state machine (one action per SyscallCounter.Check / Handler.CheckSyscall *)
(* call).                                                                    *)
EXTENDS Integers, Sequences, FiniteSets
(* Syscall counter as a state machine.                                      *)
(* Property layer: a counted name is allowed at most budget[name] times,    *)
(* once refused it stays refused; an uncounted name is soft-banned.         *)
(* Implementation layer (what the code does): allowed exactly while the     *)
(* remaining count is > 1, i.e. budget-1 times.                             *)
CONSTANTS Names, MaxBudget
VARIABLES budget,      \* [counted names -> 0..MaxBudget]
          used,        \* [Names -> Nat]    allows granted so far
          refused,     \* subset of Names already refused once
          left         \* implementation layer: remaining count per counted name
cvars == <<budget, used, refused, left>>

CInit ==
  /\ budget \in UNION { [D -> 0..MaxBudget] : D \in SUBSET Names }
  /\ used = [n \in Names |-> 0]
  /\ refused = {}
  /\ left = budget

\* property layer: is result r admissible for a call of n in the current state?
CallOK(n, r) ==
  IF n \notin DOMAIN budget THEN r = "ban"
  ELSE \/ r = "kill"
       \/ r = "allow" /\ used[n] < budget[n] /\ n \notin refused

\* implementation layer: the result the code computes
CallImpl(n) ==
  IF n \notin DOMAIN budget THEN "ban" ELSE IF left[n] <= 1 THEN "kill" ELSE "allow"

Call(n, r) ==
  /\ CallOK(n, r)
  /\ used' = IF r = "allow" THEN [used EXCEPT ![n] = @ + 1] ELSE used
  /\ refused' = IF r = "kill" THEN refused \cup {n} ELSE refused
  /\ left' = IF n \in DOMAIN budget THEN [left EXCEPT ![n] = @ - 1] ELSE left
  /\ UNCHANGED budget

\* design-level exploration: the implementation's answers are always admissible
CNext == \E n \in Names : Call(n, CallImpl(n))
CSpec == CInit /\ [][CNext]_cvars
CBound == \A n \in DOMAIN left : left[n] >= -3
NeverOverBudget == \A n \in DOMAIN budget : used[n] <= budget[n]
ImplRefines == \A n \in Names : CallOK(n, CallImpl(n))
=============================================================================
