CONSTANTS Comps = {"a","b"}
INIT Init
NEXT Next
