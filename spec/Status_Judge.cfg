INIT Init
NEXT Next
