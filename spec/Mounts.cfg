CONSTANTS
  Menu <- KindsCore
  MaxLen = 3
  ContOpts <- ContOptsTwo
  Envs <- EnvsOne
SPECIFICATION Spec
INVARIANTS
  NoFailure
  FoldAgrees
  HostOnlyDuringSetup
  NoPropagation
  RootIsReadOnly
  OldRootUnreachable
  OnlyConfiguredNames
  DeclaredRoEndsRo
  WritableIffDecl
  MaskedRevealNothing
  OnlyDeclaredWritable
ALIAS Alias
CHECK_DEADLOCK FALSE
